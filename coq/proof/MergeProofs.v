(* proof/MergeProofs.v — proofs about model/Merge.v (C19). *)
From Coq Require Import List ZArith Bool Lia Permutation Sorted.
From Verif Require Import lib.Int64 model.Merge.
Import ListNotations.
Open Scope Z_scope.

(* ================================================================ the bag heap *)
Section HeapFacts.
  Context {A : Type} (leb : A -> A -> bool).

  Lemma pick_spec : forall h k all x r,
    pick leb k all h = Some (x, r) -> Permutation h (x :: r) /\ is_min leb x all = true.
  Proof.
    induction h as [|a h IH]; intros k all x r Hp; simpl in Hp; [discriminate|].
    destruct (is_min leb a all) eqn:Hm.
    - destruct k as [|k'].
      + inversion Hp; subst. split; [apply Permutation_refl|exact Hm].
      + destruct (pick leb k' all h) as [[y r']|] eqn:Hq.
        * inversion Hp; subst. apply IH in Hq as [Hperm Hmin]. split; [|exact Hmin].
          eapply Permutation_trans; [apply perm_skip; exact Hperm|apply perm_swap].
        * inversion Hp; subst. split; [apply Permutation_refl|exact Hm].
    - destruct (pick leb k all h) as [[y r']|] eqn:Hq; [|discriminate].
      inversion Hp; subst. apply IH in Hq as [Hperm Hmin]. split; [|exact Hmin].
      eapply Permutation_trans; [apply perm_skip; exact Hperm|apply perm_swap].
  Qed.

  Lemma pick_some : forall h k all,
    (exists x, In x h /\ is_min leb x all = true) -> pick leb k all h <> None.
  Proof.
    induction h as [|a h IH]; intros k all [x [Hin Hm]]; [destruct Hin|].
    simpl. destruct (is_min leb a all) eqn:Ha.
    - destruct k; [discriminate|]. destruct (pick leb k all h) as [[? ?]|]; discriminate.
    - destruct Hin as [->|Hin]; [congruence|].
      specialize (IH k all (ex_intro _ x (conj Hin Hm))).
      destruct (pick leb k all h) as [[? ?]|]; [discriminate|congruence].
  Qed.

  Lemma pop_spec : forall k h x r,
    pop leb k h = Some (x, r) -> Permutation h (x :: r) /\ forall y, In y h -> leb x y = true.
  Proof.
    unfold pop. intros k h x r Hp. apply pick_spec in Hp as [Hperm Hm]. split; [exact Hperm|].
    unfold is_min in Hm. rewrite forallb_forall in Hm. exact Hm.
  Qed.

  Lemma top_spec : forall h y, top leb h = Some y -> In y h /\ forall z, In z h -> leb y z = true.
  Proof.
    unfold top. intros h y Ht. apply find_some in Ht as [Hin Hm]. split; [exact Hin|].
    unfold is_min in Hm. rewrite forallb_forall in Hm. exact Hm.
  Qed.
End HeapFacts.

(* a total preorder given by an integer key always has a minimal element *)
Lemma min_exists {A} (key : A -> Z) : forall h : list A, h <> [] ->
  exists x, In x h /\ forall y, In y h -> key x <= key y.
Proof.
  induction h as [|a h IH]; intros Hne; [congruence|].
  destruct h as [|b h'].
  - exists a. split; [left; reflexivity|]. intros y [->|[]]. lia.
  - destruct IH as [x [Hin Hmin]]; [discriminate|].
    destruct (Z_le_gt_dec (key a) (key x)).
    + exists a. split; [left; reflexivity|]. intros y [->|Hy]; [lia|]. specialize (Hmin y Hy). lia.
    + exists x. split; [right; exact Hin|]. intros y [->|Hy]; [lia|]. apply Hmin, Hy.
Qed.

Lemma is_min_key {A} (key : A -> Z) (leb : A -> A -> bool)
  (Hleb : forall x y, leb x y = (key x <=? key y)) :
  forall h x, (forall y, In y h -> key x <= key y) -> is_min leb x h = true.
Proof.
  intros h x H. unfold is_min. apply forallb_forall. intros y Hy. rewrite Hleb. apply Z.leb_le, H, Hy.
Qed.

Lemma pop_some_key {A} (key : A -> Z) (leb : A -> A -> bool)
  (Hleb : forall x y, leb x y = (key x <=? key y)) :
  forall k h, h <> [] -> exists x r, pop leb k h = Some (x, r).
Proof.
  intros k h Hne. destruct (min_exists key h Hne) as [x [Hin Hmin]].
  destruct (pop leb k h) as [[y r]|] eqn:Hp; [eauto|].
  exfalso. revert Hp. apply pick_some. exists x. split; [exact Hin|].
  apply (is_min_key key leb Hleb), Hmin.
Qed.

Lemma top_none_key {A} (key : A -> Z) (leb : A -> A -> bool)
  (Hleb : forall x y, leb x y = (key x <=? key y)) :
  forall h, top leb h = None -> h = [].
Proof.
  intros h Ht. destruct h as [|a h]; [reflexivity|]. exfalso.
  destruct (min_exists key (a :: h)) as [x [Hin Hmin]]; [discriminate|].
  unfold top in Ht. eapply find_none in Ht; [|exact Hin].
  rewrite (is_min_key key leb Hleb) in Ht; [discriminate|exact Hmin].
Qed.

Lemma hleb_key : forall x y, hleb x y = (hkey x <=? hkey y).
Proof. reflexivity. Qed.

(* ================================================================ chainSampleIterator *)
Definition tle (a b : sample) : Prop := s_t a <= s_t b.
Definition wsorted (l : list sample) : Prop := StronglySorted tle l.
Definition it_pend (i : it) : list sample := if i_started i then tl (i_rest i) else i_rest i.
Definition hel_all (x : hel) : list sample := fst x :: snd x.
Definition heap_pend (h : list hel) : list sample := flat_map hel_all h.
Definition pend (curr : it) (h : list hel) : list sample := it_pend curr ++ heap_pend h.
Definition hsorted (h : list hel) : Prop := Forall (fun x => wsorted (hel_all x)) h.

Record inv (curr : it) (h : list hel) (L : Z) : Prop := mkInv {
  inv_c : wsorted (i_rest curr);
  inv_h : hsorted h;
  inv_ge : forall s, In s (pend curr h) -> L <= s_t s }.

(* P' keeps every pending sample later than L and invents none *)
Definition P_rel (L : Z) (P P' : list sample) : Prop :=
  (forall x, In x P' -> In x P) /\ (forall x, In x P -> L < s_t x -> In x P').

Definition emit_ok (P : list sample) (L : Z) (c' : it) (h' : list hel) (L' : Z) (s : sample) : Prop :=
  it_cur c' = Some s /\ L' = s_t s /\ L < s_t s /\ In s P /\ inv c' h' L' /\
  (forall x, In x P -> L < s_t x -> s_t s <= s_t x) /\ P_rel (s_t s) P (pend c' h').

Definition done_ok (P : list sample) (L : Z) (c : chain) (r : res) : Prop :=
  match c, r with
  | CRun None [] L', RNone => L' = L /\ forall x, In x P -> s_t x <= L
  | CRun (Some c') h' L', RSample s => emit_ok P L c' h' L' s
  | _, _ => False
  end.

Definition out_ok (P : list sample) (L : Z) (n : nat) (o : step_out) : Prop :=
  match o with
  | SCont c' h' _ => inv c' h' L /\ (it_size c' + heap_size h' < n)%nat /\ P_rel L P (pend c' h')
  | SDone c r _ => done_ok P L c r
  end.

Lemma wsorted_tl l : wsorted l -> wsorted (tl l).
Proof. intros H. destruct l; [exact H|]. inversion H; assumption. Qed.

Lemma wsorted_head a l : wsorted (a :: l) -> forall s, In s l -> s_t a <= s_t s.
Proof. intros H s Hs. inversion H as [|? ? ? Hf]; subst. rewrite Forall_forall in Hf. apply Hf, Hs. Qed.

Lemma in_heap_pend s h : In s (heap_pend h) <-> exists x, In x h /\ In s (hel_all x).
Proof. unfold heap_pend. apply in_flat_map. Qed.

Lemma heap_pend_perm h h' s : Permutation h h' -> In s (heap_pend h) -> In s (heap_pend h').
Proof.
  intros Hp. rewrite !in_heap_pend. intros [x [Hx Hs]]. exists x. split; [|exact Hs].
  eapply Permutation_in; eauto.
Qed.

Lemma heap_size_perm h h' : Permutation h h' -> heap_size h = heap_size h'.
Proof. induction 1; simpl in *; lia. Qed.

Lemma hsorted_perm h h' : Permutation h h' -> hsorted h -> hsorted h'.
Proof. unfold hsorted. intros. eapply Permutation_Forall; eauto. Qed.

Lemma it_next_rest i : i_rest (it_next i) = it_pend i /\ i_started (it_next i) = true.
Proof. unfold it_next, it_pend. destruct (i_started i); simpl; auto. Qed.

Lemma it_size_next i : it_pend i <> [] -> it_size i = S (it_size (it_next i)).
Proof.
  unfold it_pend, it_size, it_next. destruct i as [st rest]; simpl.
  destruct st; simpl; intros H.
  - destruct rest; simpl in *; [congruence|lia].
  - lia.
Qed.

Lemma it_size_next_le i : (it_size (it_next i) <= it_size i)%nat.
Proof.
  unfold it_size, it_next. destruct i as [st rest]; simpl. destruct st; simpl.
  - destruct rest; simpl; lia.
  - lia.
Qed.

Lemma pop_step_ok ch h1 L :
  h1 <> [] -> hsorted h1 -> (forall s, In s (heap_pend h1) -> L <= s_t s) ->
  out_ok (heap_pend h1) L (heap_size h1) (pop_step ch h1 L).
Proof.
  intros Hne Hs Hge. unfold pop_step. destruct (next_choice ch) as [k ch'].
  destruct (pop_some_key hkey hleb hleb_key k h1 Hne) as [x [h' Hp]]. rewrite Hp.
  apply pop_spec in Hp as [Hperm Hmin].
  assert (Hmin' : forall y, In y h1 -> hkey x <= hkey y).
  { intros y Hy. specialize (Hmin y Hy). rewrite hleb_key in Hmin. apply Z.leb_le, Hmin. }
  pose proof (hsorted_perm _ _ Hperm Hs) as Hs'. inversion Hs' as [|? ? Hsx Hsh']; subst.
  assert (Hsub : forall s, In s (pend (to_it x) h') -> In s (heap_pend h1)).
  { intros s Hin. apply (heap_pend_perm (x :: h') h1); [apply Permutation_sym, Hperm|].
    unfold pend, it_pend in Hin; simpl in Hin. simpl. right. exact Hin. }
  assert (Hback : forall s, In s (heap_pend h1) -> s = fst x \/ In s (pend (to_it x) h')).
  { intros s Hin. apply (heap_pend_perm h1 (x :: h') s Hperm) in Hin. simpl in Hin.
    destruct Hin as [Heq|Hin]; [left; auto|right; exact Hin]. }
  assert (Hsize : heap_size h1 = (2 + length (snd x) + heap_size h')%nat).
  { rewrite (heap_size_perm _ _ Hperm). reflexivity. }
  assert (Hx1 : In (fst x) (heap_pend h1)).
  { apply (heap_pend_perm (x :: h') h1); [apply Permutation_sym, Hperm|]. simpl. left. reflexivity. }
  assert (Hgex : forall s, In s (pend (to_it x) h') -> hkey x <= s_t s).
  { intros s Hin. unfold pend, it_pend in Hin; simpl in Hin. apply in_app_or in Hin as [Hin|Hin].
    - apply (wsorted_head _ _ Hsx), Hin.
    - apply in_heap_pend in Hin as [z [Hz Hsz]].
      assert (Hz1 : In z h1) by (eapply Permutation_in; [apply Permutation_sym, Hperm|right; exact Hz]).
      specialize (Hmin' z Hz1). rewrite Forall_forall in Hsh'. specialize (Hsh' z Hz).
      destruct Hsz as [<-|Hsz]; [exact Hmin'|].
      pose proof (wsorted_head _ _ Hsh' s Hsz). unfold hkey in *. lia. }
  destruct (hkey x =? L) eqn:HL.
  - apply Z.eqb_eq in HL. simpl. split; [|split].
    + constructor; [exact Hsx|exact Hsh'|]. intros s Hin. apply Hge, Hsub, Hin.
    + unfold it_size; simpl. lia.
    + split; [exact Hsub|]. intros s Hin Hlt. destruct (Hback s Hin) as [->|H]; [|exact H].
      unfold hkey in HL. lia.
  - apply Z.eqb_neq in HL. simpl. unfold emit_ok.
    pose proof (Hge _ Hx1) as HgeL. unfold hkey in *.
    split; [reflexivity|]. split; [reflexivity|]. split; [lia|]. split; [exact Hx1|].
    split; [constructor; [exact Hsx|exact Hsh'|intros s Hin; apply Hgex, Hin]|].
    split.
    + intros y Hy _. destruct (Hback y Hy) as [->|H]; [lia|]. apply Hgex, H.
    + split; [exact Hsub|]. intros y Hy Hlt. destruct (Hback y Hy) as [->|H]; [lia|exact H].
Qed.

Lemma emit_ok_equiv P1 P L c' h' L' s :
  (forall x, In x P1 <-> In x P) -> emit_ok P1 L c' h' L' s -> emit_ok P L c' h' L' s.
Proof.
  intros He (H1 & H2 & H3 & H4 & H5 & H6 & H7 & H8). unfold emit_ok, P_rel.
  split; [exact H1|]. split; [exact H2|]. split; [exact H3|]. split; [apply He, H4|].
  split; [exact H5|]. split; [intros x Hx; apply H6, He, Hx|].
  split; [intros x Hx; apply He, H7, Hx|intros x Hx; apply H8, He, Hx].
Qed.

Lemma done_ok_equiv P1 P L c r :
  (forall x, In x P1 <-> In x P) -> done_ok P1 L c r -> done_ok P L c r.
Proof.
  intros He. unfold done_ok. destruct c as [|[c'|] h' L'|]; try (intros []; fail).
  - destruct r; try (intros []; fail). apply emit_ok_equiv, He.
  - destruct h'; [|intros []]. destruct r; try (intros []; fail).
    intros [H1 H2]. split; [exact H1|]. intros x Hx. apply H2, He, Hx.
Qed.

Lemma out_ok_equiv P1 P L n1 n o :
  (forall x, In x P1 <-> In x P) -> (n1 <= n)%nat -> out_ok P1 L n1 o -> out_ok P L n o.
Proof.
  intros He Hn. destruct o as [c r ch|c' h' ch]; simpl.
  - apply done_ok_equiv, He.
  - intros (H1 & H2 & H3 & H4). split; [exact H1|]. split; [lia|].
    split; [intros x Hx; apply He, H3, Hx|intros x Hx; apply H4, He, Hx].
Qed.

Lemma loop_body_ok ch curr h L : inv curr h L ->
  out_ok (pend curr h) L (it_size curr + heap_size h) (loop_body ch curr h L).
Proof.
  intros [Hc Hh Hge]. unfold loop_body.
  destruct (it_next_rest curr) as [Hr Hst].
  assert (Hcur : it_cur (it_next curr) = hd_error (it_pend curr)).
  { unfold it_cur. rewrite Hst, Hr. reflexivity. }
  assert (Hsp : wsorted (it_pend curr)).
  { unfold it_pend. destruct (i_started curr); [apply wsorted_tl|]; exact Hc. }
  rewrite Hcur. unfold pend in *.
  destruct (it_pend curr) as [|s rest'] eqn:Hpend; simpl hd_error; cbv iota.
  - (* the current iterator is exhausted *)
    simpl app in *. destruct h as [|x0 h0] eqn:Hheq.
    + simpl. split; [reflexivity|]. intros x [].
    + rewrite <- Hheq in *. eapply out_ok_equiv; [| |apply pop_step_ok].
      * intros x; reflexivity.
      * lia.
      * subst h; discriminate.
      * exact Hh.
      * exact Hge.
  - assert (Hsz : it_size curr = S (it_size (it_next curr))) by (apply it_size_next; rewrite Hpend; discriminate).
    assert (Hsz1 : it_size (it_next curr) = S (length rest')).
    { unfold it_size. rewrite Hst, Hr. simpl. lia. }
    assert (Hpend1 : it_pend (it_next curr) = rest').
    { unfold it_pend. rewrite Hst, Hr. reflexivity. }
    assert (Hinv1 : forall L1, (forall x, In x (rest' ++ heap_pend h) -> L1 <= s_t x) -> inv (it_next curr) h L1).
    { intros L1 HL1. constructor; [rewrite Hr; exact Hsp|exact Hh|].
      unfold pend. rewrite Hpend1. exact HL1. }
    assert (HgeS : L <= s_t s) by (apply Hge; left; reflexivity).
    assert (Hrest_ge : forall x, In x rest' -> s_t s <= s_t x) by (apply wsorted_head, Hsp).
    destruct (s_t s =? L) eqn:HsL.
    + (* same timestamp as the last one: skipped *)
      apply Z.eqb_eq in HsL. simpl. split; [|split; [lia|]].
      * apply Hinv1. intros x Hx. apply Hge. right. exact Hx.
      * unfold pend. rewrite Hpend1. split.
        -- intros x Hx. right. exact Hx.
        -- intros x [<-|Hx] Hlt; [lia|exact Hx].
    + apply Z.eqb_neq in HsL.
      assert (Hemit : (forall z, In z h -> s_t s < hkey z) ->
                      emit_ok (s :: rest' ++ heap_pend h) L (it_next curr) h (s_t s) s).
      { intros Hlt.
        assert (Hall : forall x, In x (rest' ++ heap_pend h) -> s_t s <= s_t x).
        { intros x Hx. apply in_app_or in Hx as [Hx|Hx]; [apply Hrest_ge, Hx|].
          apply in_heap_pend in Hx as [z [Hz Hxz]]. specialize (Hlt z Hz).
          unfold hsorted in Hh. rewrite Forall_forall in Hh. specialize (Hh z Hz).
          destruct Hxz as [<-|Hxz]; [unfold hkey in Hlt; lia|].
          pose proof (wsorted_head _ _ Hh x Hxz). unfold hkey in Hlt. lia. }
        split; [rewrite Hcur; reflexivity|]. split; [reflexivity|]. split; [lia|].
        split; [left; reflexivity|]. split; [apply Hinv1, Hall|]. split.
        - intros x [<-|Hx] _; [lia|apply Hall, Hx].
        - unfold pend. rewrite Hpend1. split; [intros x Hx; right; exact Hx|].
          intros x [<-|Hx] Hl; [lia|exact Hx]. }
      destruct (top hleb h) as [y|] eqn:Htop.
      * apply top_spec in Htop as [Hyin Hymin].
        destruct (s_t s <? hkey y) eqn:Hlt.
        -- apply Z.ltb_lt in Hlt. simpl. apply Hemit. intros z Hz. specialize (Hymin z Hz).
           rewrite hleb_key in Hymin. apply Z.leb_le in Hymin. lia.
        -- (* push the current iterator, pop the smallest *)
           assert (Hpush : push_it (it_next curr) h = (s, rest') :: h).
           { unfold push_it. rewrite Hcur. simpl. rewrite Hr. reflexivity. }
           rewrite Hpush. eapply out_ok_equiv; [| |apply pop_step_ok].
           ++ intros x. simpl. reflexivity.
           ++ simpl. lia.
           ++ discriminate.
           ++ constructor; [exact Hsp|exact Hh].
           ++ simpl. exact Hge.
      * apply (top_none_key hkey hleb hleb_key) in Htop. subst h. simpl.
        apply Hemit. intros z [].
Qed.

Lemma done_ok_rel P P' L c r : P_rel L P P' -> done_ok P' L c r -> done_ok P L c r.
Proof.
  intros [Hsub Hkeep]. unfold done_ok. destruct c as [|[c'|] h' L'|]; try (intros []; fail).
  - destruct r; try (intros []; fail).
    intros (H1 & H2 & H3 & H4 & H5 & H6 & H7 & H8). unfold emit_ok, P_rel.
    split; [exact H1|]. split; [exact H2|]. split; [exact H3|]. split; [apply Hsub, H4|].
    split; [exact H5|]. split; [intros x Hx Hl; apply H6; [apply Hkeep|]; assumption|].
    split; [intros x Hx; apply Hsub, H7, Hx|].
    intros x Hx Hl. apply H8; [apply Hkeep; [exact Hx|lia]|exact Hl].
  - destruct h'; [|intros []]. destruct r; try (intros []; fail).
    intros [H1 H2]. split; [exact H1|]. intros x Hx.
    destruct (Z_lt_le_dec L (s_t x)) as [Hl|Hl]; [|exact Hl]. apply H2, Hkeep; assumption.
Qed.

Lemma next_loop_ok : forall fuel ch curr h L,
  inv curr h L -> (it_size curr + heap_size h < fuel)%nat ->
  match next_loop fuel ch curr h L with (c, r, _) => done_ok (pend curr h) L c r end.
Proof.
  induction fuel as [|f IH]; intros ch curr h L Hinv Hlt; [lia|].
  simpl. pose proof (loop_body_ok ch curr h L Hinv) as Hb.
  destruct (loop_body ch curr h L) as [c r ch'|c' h' ch']; simpl in Hb.
  - exact Hb.
  - destruct Hb as (Hinv' & Hsz & Hrel).
    specialize (IH ch' c' h' L Hinv' ltac:(lia)).
    destruct (next_loop f ch' c' h' L) as [[c r] ch'']. eapply done_ok_rel; eauto.
Qed.

(* ---------------------------------------------------------------- refinement of the list-level iterator *)
Definition Rep (P : list sample) (L : Z) (R : list Z) : Prop :=
  StronglySorted Z.lt R /\ forall t, In t R <-> (L < t /\ exists s, In s P /\ s_t s = t).

Definition res_spec (all : list sample) (r : res) (e : option Z) : Prop :=
  match r, e with
  | RNone, None => True
  | RSample s, Some t => s_t s = t /\ In s all
  | _, _ => False
  end.

Inductive absr (all : list sample) : chain -> spst -> Prop :=
| AInit its lst R :
    its <> [] -> Forall (fun i => i_started i = false /\ wsorted (i_rest i)) its ->
    (forall s, In s (flat_map i_rest its) -> minInt64 < s_t s /\ In s all) ->
    Rep (flat_map i_rest its) minInt64 R -> absr all (CInit its) (mkSp false lst R)
| ARun c h L R s :
    inv c h L -> it_cur c = Some s -> s_t s = L -> (forall x, In x (pend c h) -> In x all) ->
    In s all -> Rep (pend c h) L R -> absr all (CRun (Some c) h L) (mkSp true L R)
| AEnd L lst : absr all (CRun None [] L) (mkSp false lst []).

Lemma sorted_min_head (R : list Z) (Q : Z -> Prop) e :
  StronglySorted Z.lt R -> (forall u, In u R <-> Q u) -> Q e -> (forall u, Q u -> e <= u) ->
  exists R', R = e :: R' /\ StronglySorted Z.lt R' /\ forall u, In u R' <-> (Q u /\ e < u).
Proof.
  intros Hs Hq He Hmin. destruct R as [|a R'].
  - apply Hq in He. destruct He.
  - inversion Hs as [|? ? Hs' Hf]; subst. rewrite Forall_forall in Hf.
    assert (a = e).
    { assert (Q a) by (apply Hq; left; reflexivity). pose proof (Hmin a H).
      apply Hq in He. destruct He as [->|He]; [reflexivity|]. specialize (Hf e He). lia. }
    subst a. exists R'. split; [reflexivity|]. split; [exact Hs'|].
    intros u. split.
    + intros Hu. split; [apply Hq; right; exact Hu|apply Hf, Hu].
    + intros [Hu Hl]. apply Hq in Hu. destruct Hu as [->|Hu]; [lia|exact Hu].
Qed.

Lemma sorted_empty (R : list Z) (Q : Z -> Prop) :
  (forall u, In u R <-> Q u) -> (forall u, ~ Q u) -> R = [].
Proof. intros Hq Hn. destruct R as [|a R']; [reflexivity|]. exfalso. apply (Hn a), Hq. left. reflexivity. Qed.

Lemma next_refines all ch curr h L R lst v fuel :
  inv curr h L -> (it_size curr + heap_size h < fuel)%nat ->
  (forall x, In x (pend curr h) -> In x all) -> Rep (pend curr h) L R ->
  match next_loop fuel ch curr h L, spec_adv (mkSp v lst R) R with
  | (c', r, _), (st', e) => absr all c' st' /\ res_spec all r e
  end.
Proof.
  intros Hinv Hf Hall [Hsort Hmem].
  pose proof (next_loop_ok fuel ch curr h L Hinv Hf) as Hok.
  destruct (next_loop fuel ch curr h L) as [[c' r] ch']. unfold done_ok in Hok.
  destruct c' as [|[c1|] h1 L1|]; try contradiction.
  - destruct r; try contradiction.
    destruct Hok as (H1 & H2 & H3 & H4 & H5 & H6 & H7 & H8).
    destruct (sorted_min_head R _ (s_t s) Hsort Hmem) as [R' [-> [Hs' Hm']]].
    + split; [exact H3|]. exists s. split; [exact H4|reflexivity].
    + intros u [Hu [x [Hx <-]]]. apply H6; assumption.
    + simpl. split; [|split; [reflexivity|apply Hall, H4]].
      subst L1. apply (ARun all c1 h1 (s_t s) R' s); [exact H5|exact H1|reflexivity| |apply Hall, H4|].
      * intros x Hx. apply Hall, H7, Hx.
      * split; [exact Hs'|]. intros t. rewrite Hm'. split.
        -- intros [[Hl [x [Hx Ht]]] Hlt]. split; [exact Hlt|]. exists x. split; [|exact Ht].
           apply H8; [exact Hx|lia].
        -- intros [Hlt [x [Hx Ht]]]. split; [|exact Hlt]. split; [lia|]. exists x. split; [apply H7, Hx|exact Ht].
  - destruct h1; [|contradiction]. destruct r; try contradiction. destruct Hok as [-> Hle].
    assert (R = []).
    { apply (sorted_empty R _ Hmem). intros u [Hl [x [Hx Hu]]]. specialize (Hle x Hx). lia. }
    subst R. simpl. split; [constructor|exact I].
Qed.

(* -- Seek *)
Lemma drop_lt_spec t l : wsorted l ->
  wsorted (drop_lt t l) /\ forall x, In x (drop_lt t l) <-> (In x l /\ t <= s_t x).
Proof.
  induction l as [|s r IH]; intros Hs; simpl.
  - split; [constructor|]. intros x. tauto.
  - pose proof (wsorted_head _ _ Hs) as Hh. inversion Hs as [|? ? Hs' _]; subst.
    destruct (s_t s <? t) eqn:Hlt.
    + apply Z.ltb_lt in Hlt. destruct (IH Hs') as [H1 H2]. split; [exact H1|].
      intros x. rewrite H2. split; [intros [Hi Hx]; auto|]. intros [[<-|Hi] Hx]; [lia|auto].
    + apply Z.ltb_ge in Hlt. split; [exact Hs|]. intros x. split; [|intros [Hi _]; exact Hi].
      intros Hi. split; [exact Hi|]. destruct Hi as [<-|Hi]; [exact Hlt|]. specialize (Hh x Hi). lia.
Qed.

Lemma seek_fold t : forall its h0,
  Forall (fun i => wsorted (i_rest i)) its -> hsorted h0 ->
  let h := fold_left (fun h i => push_it (it_seek t i) h) its h0 in
  hsorted h /\ forall x, In x (heap_pend h) <->
                        (In x (heap_pend h0) \/ (In x (flat_map i_rest its) /\ t <= s_t x)).
Proof.
  induction its as [|i its IH]; intros h0 Hits Hh0; simpl.
  - split; [exact Hh0|]. intros x. tauto.
  - inversion Hits as [|? ? Hi Hits']; subst.
    destruct (drop_lt_spec t (i_rest i) Hi) as [Hds Hdm].
    assert (Hpush : hsorted (push_it (it_seek t i) h0) /\
                    forall x, In x (heap_pend (push_it (it_seek t i) h0)) <->
                              (In x (heap_pend h0) \/ (In x (i_rest i) /\ t <= s_t x))).
    { unfold push_it, it_cur, it_seek. simpl. destruct (drop_lt t (i_rest i)) as [|s r] eqn:Hd; simpl.
      - split; [exact Hh0|]. intros x. rewrite <- Hdm. simpl. tauto.
      - split; [constructor; [exact Hds|exact Hh0]|]. intros x. rewrite <- Hdm. simpl.
        rewrite in_app_iff. tauto. }
    destruct Hpush as [Hp1 Hp2]. destruct (IH _ Hits' Hp1) as [H1 H2]. split; [exact H1|].
    intros x. rewrite H2, Hp2, in_app_iff. tauto.
Qed.

Lemma drop_ltz_spec t R : StronglySorted Z.lt R ->
  StronglySorted Z.lt (drop_ltz t R) /\ forall u, In u (drop_ltz t R) <-> (In u R /\ t <= u).
Proof.
  induction R as [|a R IH]; intros Hs; simpl.
  - split; [constructor|]. intros u. tauto.
  - inversion Hs as [|? ? Hs' Hf]; subst. rewrite Forall_forall in Hf.
    destruct (a <? t) eqn:Hlt.
    + apply Z.ltb_lt in Hlt. destruct (IH Hs') as [H1 H2]. split; [exact H1|].
      intros u. rewrite H2. split; [intros [Hi Hx]; auto|]. intros [[<-|Hi] Hx]; [lia|auto].
    + apply Z.ltb_ge in Hlt. split; [exact Hs|]. intros u. split; [|intros [Hi _]; exact Hi].
      intros Hi. split; [exact Hi|]. destruct Hi as [<-|Hi]; [exact Hlt|]. specialize (Hf u Hi). lia.
Qed.

Lemma do_seek_refines all ch t c R0 st :
  Forall (fun i => wsorted (i_rest i)) (chain_iters c) ->
  (forall s, In s (flat_map i_rest (chain_iters c)) -> In s all) ->
  StronglySorted Z.lt R0 ->
  (forall u, In u R0 <-> (t <= u /\ exists s, In s (flat_map i_rest (chain_iters c)) /\ s_t s = u)) ->
  match do_seek ch t c, spec_adv st R0 with
  | (c', r, _), (st', e) => absr all c' st' /\ res_spec all r e
  end.
Proof.
  intros Hits Hall Hsort Hmem. unfold do_seek.
  destruct (seek_fold t (chain_iters c) [] Hits (Forall_nil _)) as [Hhs Hhm].
  set (h := fold_left (fun h i => push_it (it_seek t i) h) (chain_iters c) []) in *.
  assert (Hhm' : forall x, In x (heap_pend h) <-> (In x (flat_map i_rest (chain_iters c)) /\ t <= s_t x)).
  { intros x. rewrite Hhm. simpl. tauto. }
  destruct h as [|x0 h0] eqn:Hh.
  - assert (R0 = []).
    { apply (sorted_empty R0 _ Hmem). intros u [Hl [x [Hx Hu]]].
      assert (In x (heap_pend [])) by (apply Hhm'; split; [exact Hx|lia]). destruct H. }
    subst R0. simpl. split; [constructor|exact I].
  - rewrite <- Hh in *. assert (Hne : h <> []) by (rewrite Hh; discriminate). clear Hh.
    destruct (next_choice ch) as [k ch'] eqn:Hnc.
    destruct (pop_some_key hkey hleb hleb_key k h Hne) as [x [h' Hp]]. rewrite Hp.
    pose proof (pop_spec hleb k h x h' Hp) as [Hperm Hmin].
    assert (Hxin : In x h) by (eapply Permutation_in; [apply Permutation_sym, Hperm|left; reflexivity]).
    assert (Hge : forall s, In s (heap_pend h) -> hkey x - 1 <= s_t s).
    { intros s Hs. apply in_heap_pend in Hs as [z [Hz Hsz]]. specialize (Hmin z Hz).
      rewrite hleb_key in Hmin. apply Z.leb_le in Hmin.
      unfold hsorted in Hhs. rewrite Forall_forall in Hhs. specialize (Hhs z Hz).
      destruct Hsz as [<-|Hsz]; [unfold hkey in *; lia|].
      pose proof (wsorted_head _ _ Hhs s Hsz). unfold hkey in *. lia. }
    pose proof (pop_step_ok ch h (hkey x - 1) Hne Hhs Hge) as Hok.
    unfold pop_step in Hok. rewrite Hnc, Hp in Hok.
    replace (hkey x =? hkey x - 1) with false in Hok by (symmetry; apply Z.eqb_neq; lia).
    simpl in Hok. destruct Hok as (H1 & H2 & H3 & H4 & H5 & H6 & H7 & H8).
    destruct (sorted_min_head R0 _ (hkey x) Hsort Hmem) as [R' [-> [Hs' Hm']]].
    + apply Hhm' in H4 as [H4a H4b]. split; [exact H4b|]. exists (fst x). split; [exact H4a|reflexivity].
    + intros u [Hu [s [Hs <-]]]. apply (H6 s); [apply Hhm'; auto|].
      assert (hkey x - 1 <= s_t s) by (apply Hge, Hhm'; auto).
      destruct (Z.eq_dec (s_t s) (hkey x - 1)) as [Heq|]; [|lia].
      exfalso. (* s would be below the minimum *)
      assert (Hs' : In s (heap_pend h)) by (apply Hhm'; auto).
      apply in_heap_pend in Hs' as [z [Hz Hsz]]. specialize (Hmin z Hz).
      rewrite hleb_key in Hmin. apply Z.leb_le in Hmin.
      unfold hsorted in Hhs. rewrite Forall_forall in Hhs. specialize (Hhs z Hz).
      destruct Hsz as [<-|Hsz]; [unfold hkey in *; lia|].
      pose proof (wsorted_head _ _ Hhs s Hsz). unfold hkey in *. lia.
    + simpl. split; [|split; [reflexivity|apply Hall, Hhm', H4]].
      subst. apply (ARun all (to_it x) h' (hkey x) R' (fst x)); [exact H5|exact H1|reflexivity| |apply Hall, Hhm', H4|].
      * intros y Hy. apply Hall, Hhm', H7, Hy.
      * split; [exact Hs'|]. intros u. rewrite Hm'. split.
        -- intros [[Hl [y [Hy Ht]]] Hlt]. split; [exact Hlt|]. exists y. split; [|exact Ht].
           apply H8; [apply Hhm'; split; [exact Hy|lia]|unfold hkey in *; lia].
        -- intros [Hlt [y [Hy Ht]]]. split; [|exact Hlt].
           apply H7, Hhm' in Hy as [Hy1 Hy2]. split; [lia|]. exists y. split; [exact Hy1|exact Ht].
Qed.

Lemma Rep_equiv P P' L R : (forall x, In x P <-> In x P') -> Rep P L R -> Rep P' L R.
Proof.
  intros He [Hs Hm]. split; [exact Hs|]. intros t. rewrite Hm. split.
  - intros [Hl [s [Hi Ht]]]. split; [exact Hl|]. exists s. split; [apply He, Hi|exact Ht].
  - intros [Hl [s [Hi Ht]]]. split; [exact Hl|]. exists s. split; [apply He, Hi|exact Ht].
Qed.

Lemma next_fold : forall its h0,
  Forall (fun i => i_started i = false /\ wsorted (i_rest i)) its -> hsorted h0 ->
  let h := fold_left (fun h i => push_it (it_next i) h) its h0 in
  hsorted h /\ forall x, In x (heap_pend h) <-> (In x (heap_pend h0) \/ In x (flat_map i_rest its)).
Proof.
  induction its as [|i its IH]; intros h0 Hits Hh0; simpl.
  - split; [exact Hh0|]. intros x. tauto.
  - inversion Hits as [|? ? [Hst Hi] Hits']; subst.
    assert (Hpush : hsorted (push_it (it_next i) h0) /\
                    forall x, In x (heap_pend (push_it (it_next i) h0)) <->
                              (In x (heap_pend h0) \/ In x (i_rest i))).
    { unfold push_it, it_cur, it_next. rewrite Hst. simpl. destruct (i_rest i) as [|s r] eqn:Hd; simpl.
      - split; [exact Hh0|]. intros x. tauto.
      - split; [constructor; [exact Hi|exact Hh0]|]. intros x. rewrite in_app_iff. tauto. }
    destruct Hpush as [Hp1 Hp2]. destruct (IH _ Hits' Hp1) as [H1 H2]. split; [exact H1|].
    intros x. rewrite H2, Hp2, in_app_iff. tauto.
Qed.

Lemma flat_map_to_it h : flat_map i_rest (map to_it h) = heap_pend h.
Proof. induction h as [|x h IH]; simpl; [reflexivity|]. rewrite IH. reflexivity. Qed.

Lemma it_cur_some c s : it_cur c = Some s -> exists r, c = mkIt true (s :: r).
Proof.
  destruct c as [st rest]. unfold it_cur. simpl. destruct st; [|discriminate].
  destruct rest as [|a r]; simpl; [discriminate|]. intros H; inversion H; subst. eauto.
Qed.

Lemma step_refines all ch c st o : absr all c st ->
  match chain_step ch c o, spec_step st o with
  | (c', r, _), (st', e) => absr all c' st' /\ res_spec all r e
  end.
Proof.
  intros Habs. destruct o as [|t]; simpl chain_step.
  - (* Next *)
    inversion Habs as [its lst R Hne Hits Hall HRep|c0 h L R s Hinv Hcur HsL Hall Hsin HRep|L lst]; subst.
    + destruct its as [|i0 its']; [congruence|]. cbn [chain_next spec_step sp_rem sp_valid sp_last].
      inversion Hits as [|? ? [Hst0 Hs0] Hits']; subst.
      destruct (next_fold its' [] Hits' (Forall_nil _)) as [Hhs Hhm].
      set (h := fold_left (fun h i => push_it (it_next i) h) its' []) in *.
      assert (Hpe : forall x, In x (pend i0 h) <-> In x (flat_map i_rest (i0 :: its'))).
      { intros x. unfold pend, it_pend. rewrite Hst0. simpl. rewrite !in_app_iff, Hhm. simpl. tauto. }
      apply next_refines.
      * constructor; [exact Hs0|exact Hhs|]. intros s Hs. apply Hpe, Hall in Hs. lia.
      * unfold chain_fuel. lia.
      * intros x Hx. apply Hpe, Hall in Hx. tauto.
      * eapply Rep_equiv; [|exact HRep]. intros x. symmetry. apply Hpe.
    + cbn [chain_next spec_step sp_rem sp_valid sp_last]. apply next_refines; try assumption. unfold chain_fuel. lia.
    + simpl. split; [constructor|exact I].
  - (* Seek *)
    inversion Habs as [its lst R Hne Hits Hall HRep|c0 h L R s Hinv Hcur HsL Hall Hsin HRep|L lst]; subst.
    + cbn [chain_seek spec_step sp_rem sp_valid sp_last]. destruct HRep as [Hsort Hmem].
      destruct (drop_ltz_spec t R Hsort) as [Hd1 Hd2].
      apply do_seek_refines; simpl chain_iters.
      * rewrite Forall_forall in *. intros i Hi. apply Hits, Hi.
      * intros s Hs. apply Hall, Hs.
      * exact Hd1.
      * intros u. rewrite Hd2, Hmem. split.
        -- intros [[_ Hex] Hl]. auto.
        -- intros [Hl [s [Hs Hu]]]. split; [|exact Hl]. split; [|eauto].
           apply Hall in Hs. lia.
    + cbn [chain_seek spec_step sp_rem sp_valid sp_last]. destruct (t <=? s_t s) eqn:Hle; simpl andb; cbv iota.
      * (* no-op *)
        destruct (it_cur_some _ _ Hcur) as [r ->]. unfold it_seek. simpl.
        rewrite Z.ltb_irrefl. simpl. split; [|split; [reflexivity|exact Hsin]].
        eapply ARun; eauto.
      * apply Z.leb_gt in Hle. destruct HRep as [Hsort Hmem].
        destruct (drop_ltz_spec t R Hsort) as [Hd1 Hd2].
        destruct (it_cur_some _ _ Hcur) as [r Hc0]. 
        assert (Hfm : forall x, In x (flat_map i_rest (chain_iters (CRun (Some c0) h (s_t s)))) <->
                                (x = s \/ In x (pend c0 h))).
        { intros x. simpl. rewrite in_app_iff, flat_map_to_it. unfold pend, it_pend. rewrite Hc0. simpl.
          rewrite in_app_iff. split; [intros [[<-|H]|H]; auto|intros [->|[H|H]]; auto]. }
        apply do_seek_refines.
        -- simpl. constructor; [apply (inv_c _ _ _ Hinv)|].
           pose proof (inv_h _ _ _ Hinv) as Hh. unfold hsorted in Hh. rewrite Forall_forall in *.
           intros i Hi. apply in_map_iff in Hi as [x [<- Hx]]. apply Hh, Hx.
        -- intros x Hx. apply Hfm in Hx as [->|Hx]; [exact Hsin|apply Hall, Hx].
        -- exact Hd1.
        -- intros u. rewrite Hd2, Hmem. split.
           ++ intros [[_ [x [Hx Hu]]] Hl]. split; [exact Hl|]. exists x. split; [apply Hfm; right; exact Hx|exact Hu].
           ++ intros [Hl [x [Hx Hu]]]. apply Hfm in Hx as [->|Hx]; [lia|].
              split; [|exact Hl]. split; [lia|]. exists x. auto.
    + cbn [chain_seek spec_step sp_rem sp_valid sp_last].
      apply (do_seek_refines all ch t (CRun None [] L) [] (mkSp false lst [])); simpl.
      * constructor.
      * intros s [].
      * constructor.
      * intros u. split; [intros []|intros [_ [s [[] _]]]].
Qed.

Theorem chain_refines all : forall script ch c st, absr all c st ->
  Forall2 (res_spec all) (fst (chain_run ch c script)) (spec_run st script).
Proof.
  induction script as [|o script IH]; intros ch c st Habs; simpl; [constructor|].
  pose proof (step_refines all ch c st o Habs) as Hstep.
  destruct (chain_step ch c o) as [[c' r] ch']. destruct (spec_step st o) as [st' e].
  destruct Hstep as [Habs' Hres]. specialize (IH ch' c' st' Habs').
  destruct (chain_run ch' c' script) as [xs ch'']. simpl in *. constructor; assumption.
Qed.

Lemma ins_spec t l : StronglySorted Z.lt l ->
  StronglySorted Z.lt (ins t l) /\ forall u, In u (ins t l) <-> (u = t \/ In u l).
Proof.
  induction l as [|a l IH]; intros Hs; simpl.
  - split; [repeat constructor|]. intros u. split; [intros [<-|[]]; auto|intros [->|[]]; left; reflexivity].
  - inversion Hs as [|? ? Hs' Hf]; subst.
    destruct (t <? a) eqn:H1.
    + apply Z.ltb_lt in H1. split.
      * constructor; [exact Hs|]. constructor; [exact H1|].
        rewrite Forall_forall in *. intros x Hx. specialize (Hf x Hx). lia.
      * intros u. simpl. split; [intros [<-|H]; auto|intros [->|H]; auto].
    + destruct (t =? a) eqn:H2.
      * apply Z.eqb_eq in H2. subst. split; [exact Hs|]. intros u; simpl.
        split; [auto|intros [->|H]; auto].
      * apply Z.ltb_ge in H1. apply Z.eqb_neq in H2. destruct (IH Hs') as [I1 I2]. split.
        -- constructor; [exact I1|]. rewrite Forall_forall in *. intros x Hx.
           apply I2 in Hx as [->|Hx]; [lia|apply Hf, Hx].
        -- intros u. simpl. rewrite I2. split; [intros [H|[H|H]]; auto|intros [H|[H|H]]; auto].
Qed.

Lemma fold_ins_spec ts :
  StronglySorted Z.lt (fold_right ins [] ts) /\ forall u, In u (fold_right ins [] ts) <-> In u ts.
Proof.
  induction ts as [|t ts [I1 I2]]; simpl.
  - split; [constructor|]. intros u. tauto.
  - destruct (ins_spec t _ I1) as [H1 H2]. split; [exact H1|]. intros u. rewrite H2, I2.
    split; [intros [->|H]; auto|intros [<-|H]; auto].
Qed.

Lemma flat_map_it_new inputs : flat_map i_rest (map it_new inputs) = concat inputs.
Proof. induction inputs as [|l inputs IH]; simpl; [reflexivity|]. rewrite IH. reflexivity. Qed.

Definition above_min (l : list sample) : Prop := Forall (fun s => minInt64 < s_t s) l.

Lemma absr_init inputs lst :
  inputs <> [] -> Forall wsorted inputs -> Forall above_min inputs ->
  absr (concat inputs) (chain_of inputs) (mkSp false lst (merged_ts inputs)).
Proof.
  intros Hne Hs Ha. unfold chain_of. constructor.
  - destruct inputs; [congruence|discriminate].
  - rewrite Forall_forall in *. intros i Hi. apply in_map_iff in Hi as [l [<- Hl]]. simpl. auto.
  - rewrite flat_map_it_new. intros s Hs'. split; [|exact Hs'].
    apply in_concat in Hs' as [l [Hl Hsl]]. rewrite Forall_forall in Ha. specialize (Ha l Hl).
    unfold above_min in Ha. rewrite Forall_forall in Ha. apply Ha, Hsl.
  - rewrite flat_map_it_new. unfold merged_ts.
    destruct (fold_ins_spec (map s_t (concat inputs))) as [H1 H2]. split; [exact H1|].
    intros t. rewrite H2, in_map_iff. split.
    + intros [s [Ht Hs']]. split; [|eauto].
      apply in_concat in Hs' as [l [Hl Hsl]]. rewrite Forall_forall in Ha. specialize (Ha l Hl).
      unfold above_min in Ha. rewrite Forall_forall in Ha. specialize (Ha s Hsl). lia.
    + intros [_ [s [Hs' Ht]]]. eauto.
Qed.

(* Main theorem about chainSampleIterator: for every tie-breaking behaviour of the heap and
   every Next/Seek script the iterator behaves as the list iterator over the sorted,
   de-duplicated union of the inputs' timestamps, and every sample it shows is an input sample. *)
Theorem chain_script_correct ch inputs script :
  inputs <> [] -> Forall wsorted inputs -> Forall above_min inputs ->
  Forall2 (res_spec (concat inputs)) (fst (chain_run ch (chain_of inputs) script))
          (spec_obs (merged_ts inputs) script).
Proof. intros Hne Hs Ha. apply chain_refines, absr_init; assumption. Qed.

Lemma merged_ts_spec inputs :
  StronglySorted Z.lt (merged_ts inputs) /\
  forall t, In t (merged_ts inputs) <-> exists s, In s (concat inputs) /\ s_t s = t.
Proof.
  unfold merged_ts. destruct (fold_ins_spec (map s_t (concat inputs))) as [H1 H2].
  split; [exact H1|]. intros t. rewrite H2, in_map_iff. split; intros [s [A B]]; eauto.
Qed.

(* the MinInt64 sentinel: a sample at MinInt64 is never returned by Next *)
Definition minint_inputs : list (list sample) := [[mkS minInt64 1 1; mkS 0 1 2]; [mkS 5 1 3]].

Lemma minint64_refuted :
  exists ch inputs script,
    inputs <> [] /\ Forall wsorted inputs /\
    ~ Forall2 (res_spec (concat inputs)) (fst (chain_run ch (chain_of inputs) script))
              (spec_obs (merged_ts inputs) script).
Proof.
  exists [], minint_inputs, [ONext]. split; [discriminate|]. split.
  - unfold minint_inputs, wsorted, tle. repeat constructor; simpl; unfold minInt64; lia.
  - vm_compute. intros H. inversion H as [|? ? ? ? Hr _]; subst. destruct Hr as [Hr _]. discriminate Hr.
Qed.

Example nonvacuous_inputs : list (list sample) :=
  [[mkS 1 1 0; mkS 2 2 1; mkS 9 1 1]; [mkS 1 2 5; mkS 2 3 2]; [mkS 2 1 4; mkS 7 1 0]].

Lemma nonvacuous_chain :
  nonvacuous_inputs <> [] /\ Forall wsorted nonvacuous_inputs /\ Forall above_min nonvacuous_inputs /\
  merged_ts nonvacuous_inputs = [1; 2; 7; 9] /\
  map (fun r => match r with RSample s => Some (s_t s) | _ => None end)
      (fst (chain_run [1%nat; 0%nat; 2%nat] (chain_of nonvacuous_inputs)
                      [ONext; OSeek 2; OSeek 1; ONext; OSeek 8; ONext; ONext]))
  = [Some 1; Some 2; Some 2; Some 7; Some 9; None; None].
Proof.
  split; [discriminate|]. split; [|split; [|split; vm_compute; reflexivity]].
  - unfold nonvacuous_inputs, wsorted, tle. repeat constructor; simpl; lia.
  - unfold nonvacuous_inputs, above_min, minInt64. repeat constructor; simpl; lia.
Qed.

(* ---------------------------------------------------------------- draining with Next only *)
Lemma drain_ok all : forall fuel ch c v lst R,
  absr all c (mkSp v lst R) -> (length R < fuel)%nat ->
  exists l ch', chain_drain fuel ch c = (Some l, ch') /\ map s_t l = R /\ forall s, In s l -> In s all.
Proof.
  induction fuel as [|f IH]; intros ch c v lst R Habs Hlen; [lia|].
  simpl. pose proof (step_refines all ch c _ ONext Habs) as Hstep.
  cbn [chain_step spec_step sp_rem] in Hstep.
  destruct (chain_next ch c) as [[c' r] ch']. destruct R as [|a R']; simpl in Hstep.
  - destruct Hstep as [_ Hres]. destruct r; try contradiction.
    exists [], ch'. split; [reflexivity|]. split; [reflexivity|]. intros s [].
  - destruct Hstep as [Habs' Hres]. destruct r; try contradiction. destruct Hres as [Hst Hin].
    destruct (IH ch' c' _ _ _ Habs' ltac:(simpl in Hlen; lia)) as [l [ch'' [Hd [Hm Hall]]]].
    rewrite Hd. exists (s :: l), ch''. split; [reflexivity|]. split; [simpl; congruence|].
    intros x [<-|Hx]; [exact Hin|apply Hall, Hx].
Qed.

Lemma ins_length t l : (length (ins t l) <= S (length l))%nat.
Proof.
  induction l as [|a l IH]; simpl; [lia|].
  destruct (t <? a); simpl; [lia|]. destruct (t =? a); simpl; lia.
Qed.

Lemma fold_ins_length ts : (length (fold_right ins [] ts) <= length ts)%nat.
Proof. induction ts as [|t ts IH]; simpl; [lia|]. pose proof (ins_length t (fold_right ins [] ts)). lia. Qed.

Lemma total_len_concat inputs : total_len inputs = length (concat inputs).
Proof. induction inputs as [|l r IH]; simpl; [reflexivity|]. rewrite app_length, IH. reflexivity. Qed.

(* ChainedSeriesMerge drained with Next: exactly the sorted de-duplicated union of the
   timestamps, each sample taken from an input *)
Theorem chain_all_correct ch inputs :
  inputs <> [] -> Forall wsorted inputs -> Forall above_min inputs ->
  exists l ch', chain_all ch inputs = (Some l, ch') /\ map s_t l = merged_ts inputs /\
                forall s, In s l -> In s (concat inputs).
Proof.
  intros Hne Hs Ha. unfold chain_all. eapply drain_ok; [apply (absr_init inputs 0); assumption|].
  unfold merged_ts. pose proof (fold_ins_length (map s_t (concat inputs))).
  rewrite map_length, <- total_len_concat in H. lia.
Qed.

(* ================================================================ genericMergeSeriesSet *)
Definition skey (x : sel) : Z := ser_l (fst x).
Lemma sleb_key : forall x y, sleb x y = (skey x <=? skey y).
Proof. reflexivity. Qed.

Definition sel_all (x : sel) : list series := fst x :: snd x.
Definition lsorted (l : list series) : Prop := StronglySorted (fun a b => ser_l a < ser_l b) l.
Definition rem_of (h cur : list sel) : list series := flat_map sel_all h ++ flat_map (@snd _ _) cur.

Lemma pop_equal_ok : forall fuel ch l h acc,
  (length h <= fuel)%nat -> (forall x, In x h -> l <= skey x) ->
  exists cs h2 ch', pop_equal fuel ch l h acc = (Some (acc ++ cs, h2), ch') /\
    Permutation h (cs ++ h2) /\ (forall x, In x cs -> skey x = l) /\ (forall x, In x h2 -> l < skey x).
Proof.
  induction fuel as [|f IH]; intros ch l h acc Hlen Hge.
  - destruct h; [|simpl in Hlen; lia]. simpl. exists [], [], ch. rewrite app_nil_r.
    split; [reflexivity|]. split; [constructor|]. split; intros x [].
  - simpl. destruct (top sleb h) as [y|] eqn:Htop.
    + pose proof (top_spec sleb h y Htop) as [Hyin Hymin].
      destruct (ser_l (fst y) =? l) eqn:Hyl.
      * apply Z.eqb_eq in Hyl. destruct (next_choice ch) as [k ch1].
        assert (Hne : h <> []) by (intros ->; destruct Hyin).
        destruct (pop_some_key skey sleb sleb_key k h Hne) as [x [h' Hp]]. rewrite Hp.
        apply pop_spec in Hp as [Hperm Hmin].
        assert (Hxl : skey x = l).
        { specialize (Hmin y Hyin). rewrite sleb_key in Hmin. apply Z.leb_le in Hmin.
          assert (In x h) by (eapply Permutation_in; [apply Permutation_sym, Hperm|left; reflexivity]).
          specialize (Hge x H). unfold skey in *. lia. }
        destruct (IH ch1 l h' (acc ++ [x])) as [cs [h2 [ch' [He [Hp2 [Hc Hh]]]]]].
        { apply Permutation_length in Hperm. simpl in Hperm. lia. }
        { intros z Hz. apply Hge. eapply Permutation_in; [apply Permutation_sym, Hperm|right; exact Hz]. }
        exists (x :: cs), h2, ch'. rewrite He, <- app_assoc. simpl.
        split; [reflexivity|]. split; [|split; [|exact Hh]].
        -- eapply Permutation_trans; [exact Hperm|]. constructor. exact Hp2.
        -- intros z [<-|Hz]; [exact Hxl|apply Hc, Hz].
      * apply Z.eqb_neq in Hyl. exists [], h, ch. rewrite app_nil_r.
        split; [reflexivity|]. split; [apply Permutation_refl|]. split; [intros x []|].
        intros x Hx. specialize (Hymin x Hx). rewrite sleb_key in Hymin. apply Z.leb_le in Hymin.
        specialize (Hge y Hyin). unfold skey in *. lia.
    + apply (top_none_key skey sleb sleb_key) in Htop. subst h. exists [], [], ch. rewrite app_nil_r.
      split; [reflexivity|]. split; [constructor|]. split; intros x [].
Qed.

Record minv (b : Z) (h cur : list sel) : Prop := mkMinv {
  mi_hs : forall x, In x h -> lsorted (sel_all x) /\ b < skey x;
  mi_cs : forall x, In x cur -> lsorted (sel_all x) /\ b <= skey x }.

Lemma lsorted_tail x : lsorted (sel_all x) ->
  lsorted (snd x) /\ forall s, In s (snd x) -> skey x < ser_l s.
Proof.
  unfold sel_all. intros H. inversion H as [|? ? Hs Hf]; subst. split; [exact Hs|].
  rewrite Forall_forall in Hf. exact Hf.
Qed.

Lemma push_tails_ok b : forall cur h,
  (forall x, In x h -> lsorted (sel_all x) /\ b < skey x) ->
  (forall x, In x cur -> lsorted (sel_all x) /\ b <= skey x) ->
  let h1 := fold_left (fun h x => push_set (snd x) h) cur h in
  (forall x, In x h1 -> lsorted (sel_all x) /\ b < skey x) /\
  Permutation (flat_map sel_all h1) (rem_of h cur).
Proof.
  induction cur as [|c cur IH]; intros h Hh Hc; simpl.
  - split; [exact Hh|]. unfold rem_of. simpl. rewrite app_nil_r. apply Permutation_refl.
  - destruct (Hc c (or_introl eq_refl)) as [Hcs Hcb]. destruct (lsorted_tail c Hcs) as [Hts Htb].
    assert (Hh' : forall x, In x (push_set (snd c) h) -> lsorted (sel_all x) /\ b < skey x).
    { unfold push_set. destruct (snd c) as [|s r] eqn:Hsc; [exact Hh|].
      intros x [<-|Hx]; [|apply Hh, Hx]. split; [exact Hts|]. unfold skey; simpl.
      specialize (Htb s (or_introl eq_refl)). lia. }
    destruct (IH (push_set (snd c) h) Hh' (fun x Hx => Hc x (or_intror Hx))) as [H1 H2].
    split; [exact H1|]. eapply Permutation_trans; [exact H2|]. unfold rem_of.
    assert (Hps : Permutation (flat_map sel_all (push_set (snd c) h)) (snd c ++ flat_map sel_all h)).
    { unfold push_set. destruct (snd c) as [|s r]; simpl; apply Permutation_refl. }
    simpl. eapply Permutation_trans; [apply Permutation_app_tail, Hps|].
    rewrite <- app_assoc. apply Permutation_app_swap_app.
Qed.

Lemma flat_map_perm {A B} (f : A -> list B) l l' :
  Permutation l l' -> Permutation (flat_map f l) (flat_map f l').
Proof.
  induction 1; simpl.
  - constructor.
  - apply Permutation_app_head, IHPermutation.
  - rewrite !app_assoc. apply Permutation_app_tail, Permutation_app_comm.
  - eapply Permutation_trans; eauto.
Qed.

Lemma flat_map_sel_all cs : Permutation (flat_map sel_all cs) (map (@fst _ _) cs ++ flat_map (@snd _ _) cs).
Proof.
  induction cs as [|c cs IH]; simpl; [constructor|]. constructor.
  eapply Permutation_trans; [apply Permutation_app_head, IH|]. apply Permutation_app_swap_app.
Qed.

Definition group_ok (b : Z) (g : list series) : Prop :=
  exists l, b < l /\ g <> [] /\ forall s, In s g -> ser_l s = l.
Definition group_label (g : list series) : Z := match g with s :: _ => ser_l s | [] => 0 end.

Lemma mset_loop_ok : forall fuel ch b merged h cur,
  minv b h cur -> (length (rem_of h cur) < fuel)%nat ->
  exists groups ch', mset_loop fuel ch 0 merged h cur = (Some groups, ch') /\
    Permutation (concat groups) (rem_of h cur) /\
    Forall (fun g => g <> [] /\ forall s, In s g -> ser_l s = group_label g) groups /\
    StronglySorted Z.lt (map group_label groups) /\
    Forall (fun g => b < group_label g) groups.
Proof.
  induction fuel as [|f IH]; intros ch b merged h cur [Hh Hc] Hlen; [lia|].
  simpl mset_loop. unfold mset_next.
  destruct (push_tails_ok b cur h Hh Hc) as [Hh1 Hperm1].
  set (h1 := fold_left (fun h x => push_set (snd x) h) cur h) in *.
  destruct (top sleb h1) as [y|] eqn:Htop.
  - pose proof (top_spec sleb h1 y Htop) as [Hyin Hymin].
    destruct (pop_equal_ok (length h1) ch (ser_l (fst y)) h1 [] (le_n _)) as [cs [h2 [ch1 [He [Hp [Hcl Hhl]]]]]].
    { intros x Hx. specialize (Hymin x Hx). rewrite sleb_key in Hymin. apply Z.leb_le, Hymin. }
    rewrite He. simpl app.
    set (l := ser_l (fst y)) in *.
    assert (Hbl : b < l) by (apply (Hh1 y Hyin)).
    assert (Hcsne : cs <> []).
    { intros ->. simpl in Hp. assert (In y h2) by (eapply Permutation_in; eauto).
      specialize (Hhl y H). unfold skey, l in Hhl. lia. }
    assert (Hinv2 : minv l h2 cs).
    { constructor.
      - intros x Hx. split; [|apply Hhl, Hx].
        apply Hh1. eapply Permutation_in; [apply Permutation_sym, Hp|apply in_or_app; right; exact Hx].
      - intros x Hx. split; [|rewrite (Hcl x Hx); lia].
        apply Hh1. eapply Permutation_in; [apply Permutation_sym, Hp|apply in_or_app; left; exact Hx]. }
    assert (Hrem : Permutation (rem_of h cur) (map (@fst _ _) cs ++ rem_of h2 cs)).
    { eapply Permutation_trans; [apply Permutation_sym, Hperm1|].
      eapply Permutation_trans; [apply flat_map_perm, Hp|]. rewrite flat_map_app. unfold rem_of.
      eapply Permutation_trans; [apply Permutation_app_tail, flat_map_sel_all|].
      rewrite <- app_assoc. apply Permutation_app_head, Permutation_app_comm. }
    assert (Hlen2 : (length (rem_of h2 cs) < f)%nat).
    { apply Permutation_length in Hrem. rewrite app_length, map_length in Hrem.
      destruct cs; [congruence|]. simpl in Hrem. lia. }
    destruct (IH ch1 l (merged + 1) h2 cs Hinv2 Hlen2) as [gs [ch2 [Hg [Hpg [Hfg [Hsg Hbg]]]]]].
    rewrite Hg. exists (map (@fst _ _) cs :: gs), ch2.
    assert (Hgl : group_label (map (@fst _ _) cs) = l).
    { destruct cs as [|c cs']; [congruence|]. simpl. apply (Hcl c). left. reflexivity. }
    split; [reflexivity|]. split; [|split; [|split]].
    + simpl. eapply Permutation_trans; [apply Permutation_app_head, Hpg|]. apply Permutation_sym, Hrem.
    + constructor; [|exact Hfg]. split.
      * destruct cs; [congruence|discriminate].
      * intros s Hs. rewrite Hgl. apply in_map_iff in Hs as [x [<- Hx]]. apply (Hcl x Hx).
    + simpl. constructor; [exact Hsg|]. rewrite Hgl. rewrite Forall_forall in *.
      intros t Ht. apply in_map_iff in Ht as [g [<- Hgin]]. apply Hbg, Hgin.
    + constructor; [rewrite Hgl; exact Hbl|]. rewrite Forall_forall in *. intros g Hgin.
      specialize (Hbg g Hgin). lia.
  - apply (top_none_key skey sleb sleb_key) in Htop.
    exists [], ch. split; [reflexivity|]. split; [|split; [constructor|split; constructor]].
    simpl. apply Permutation_length in Hperm1. rewrite Htop in Hperm1. simpl in Hperm1.
    destruct (rem_of h cur); [constructor|simpl in Hperm1; lia].
Qed.

Lemma init_fold : forall sets h,
  let h0 := fold_left (fun h s => push_set s h) sets h in
  Permutation (flat_map sel_all h0) (concat sets ++ flat_map sel_all h) /\
  forall x, In x h0 -> In x h \/ In (sel_all x) sets.
Proof.
  induction sets as [|s sets IH]; intros h; simpl.
  - split; [apply Permutation_refl|auto].
  - destruct (IH (push_set s h)) as [H1 H2]. split.
    + eapply Permutation_trans; [exact H1|]. rewrite <- app_assoc.
      eapply Permutation_trans; [|apply Permutation_app_swap_app]. apply Permutation_app_head.
      unfold push_set. destruct s as [|a r]; simpl; apply Permutation_refl.
    + intros x Hx. destruct (H2 x Hx) as [H|H]; [|auto].
      unfold push_set in H. destruct s as [|a r]; [auto|]. destruct H as [<-|H]; [|auto].
      right. left. reflexivity.
Qed.

Lemma lower_bound (l : list Z) : exists b, forall x, In x l -> b < x.
Proof.
  induction l as [|a l [b Hb]]; [exists 0; intros x []|].
  exists (Z.min b (a - 1)). intros x [<-|Hx]; [lia|]. specialize (Hb x Hx). lia.
Qed.

Lemma total_series_concat sets : total_series sets = length (concat sets).
Proof. induction sets as [|l r IH]; simpl; [reflexivity|]. rewrite app_length, IH. reflexivity. Qed.

Lemma mset_general ch sets : Forall lsorted sets ->
  exists groups ch',
    mset_loop (S (total_series sets)) ch 0 0 (fold_left (fun h s => push_set s h) sets []) [] = (Some groups, ch') /\
    Permutation (concat groups) (concat sets) /\
    Forall (fun g => g <> [] /\ forall s, In s g -> ser_l s = group_label g) groups /\
    StronglySorted Z.lt (map group_label groups).
Proof.
  intros Hs. destruct (init_fold sets []) as [Hperm Hin].
  set (h0 := fold_left (fun h s => push_set s h) sets []) in *.
  destruct (lower_bound (map skey h0)) as [b Hb].
  assert (Hinv : minv b h0 []).
  { constructor; [|intros x []]. intros x Hx. split; [|apply Hb, in_map, Hx].
    destruct (Hin x Hx) as [[]|H]. rewrite Forall_forall in Hs. apply Hs, H. }
  assert (Hrem : Permutation (rem_of h0 []) (concat sets)).
  { unfold rem_of. simpl. rewrite app_nil_r. simpl in Hperm. rewrite app_nil_r in Hperm. exact Hperm. }
  destruct (mset_loop_ok (S (total_series sets)) ch b 0 h0 [] Hinv) as [gs [ch' [Hg [Hp [Hf [Hso _]]]]]].
  { apply Permutation_length in Hrem. rewrite Hrem, total_series_concat. lia. }
  exists gs, ch'. split; [exact Hg|]. split; [|split; assumption].
  eapply Permutation_trans; eauto.
Qed.

Lemma concat_singletons {A} (s : list A) : concat (map (fun x => [x]) s) = s.
Proof. induction s as [|a s IH]; simpl; [reflexivity|]. rewrite IH. reflexivity. Qed.

Lemma lsorted_labels s : lsorted s -> StronglySorted Z.lt (map ser_l s).
Proof.
  induction 1 as [|a l Hs IH Hf]; simpl; constructor; [exact IH|].
  rewrite Forall_forall in *. intros t Ht. apply in_map_iff in Ht as [x [<- Hx]]. apply Hf, Hx.
Qed.

(* NewMergeSeriesSet over strictly label-sorted sets (limit 0), iterated to the end, for every
   tie-breaking: the emitted groups partition the input series (nothing lost, nothing
   duplicated), every group is non-empty and of one label set, and the labels come out strictly
   increasing — i.e. each distinct label set exactly once, in sorted order, merged from exactly
   the input series that carry it. *)
Theorem merge_sets_correct ch sets : Forall lsorted sets ->
  exists groups ch', merge_sets ch 0 sets = (Some groups, ch') /\
    Permutation (concat groups) (concat sets) /\
    Forall (fun g => g <> [] /\ forall s, In s g -> ser_l s = group_label g) groups /\
    StronglySorted Z.lt (map group_label groups).
Proof.
  intros Hs. destruct sets as [|s1 [|s2 rest]].
  - apply (mset_general ch [] Hs).
  - exists (map (fun x => [x]) s1), ch. unfold merge_sets. split; [reflexivity|].
    split; [rewrite concat_singletons; simpl; rewrite app_nil_r; apply Permutation_refl|]. split.
    + rewrite Forall_forall. intros g Hg. apply in_map_iff in Hg as [x [<- _]].
      split; [discriminate|]. intros s [<-|[]]. reflexivity.
    + rewrite map_map. simpl. inversion Hs; subst. apply lsorted_labels. assumption.
  - apply (mset_general ch (s1 :: s2 :: rest) Hs).
Qed.

(* ---------------------------------------------------------------- the plain list iterator *)
Definition ssorted (l : list sample) : Prop := StronglySorted (fun a b => s_t a < s_t b) l.

Lemma ssorted_wsorted l : ssorted l -> wsorted l.
Proof.
  induction 1 as [|a l Hs IH Hf]; constructor; [exact IH|].
  rewrite Forall_forall in *. intros x Hx. specialize (Hf x Hx). unfold tle. lia.
Qed.

Lemma ssorted_ts l : ssorted l -> StronglySorted Z.lt (map s_t l).
Proof.
  induction 1 as [|a l Hs IH Hf]; simpl; constructor; [exact IH|].
  rewrite Forall_forall in *. intros t Ht. apply in_map_iff in Ht as [x [<- Hx]]. apply Hf, Hx.
Qed.

Lemma fold_ins_sorted ts : StronglySorted Z.lt ts -> fold_right ins [] ts = ts.
Proof.
  induction 1 as [|a l Hs IH Hf]; simpl; [reflexivity|]. rewrite IH.
  destruct l as [|b l]; [reflexivity|]. simpl. inversion Hf; subst.
  destruct (a <? b) eqn:H; [reflexivity|]. apply Z.ltb_ge in H. lia.
Qed.

Lemma drop_lt_map t l : map s_t (drop_lt t l) = drop_ltz t (map s_t l).
Proof. induction l as [|s r IH]; simpl; [reflexivity|]. destruct (s_t s <? t); [exact IH|reflexivity]. Qed.

Inductive itabs (all : list sample) : it -> spst -> Prop :=
| IA_new l lst : (forall s, In s l -> In s all) -> itabs all (mkIt false l) (mkSp false lst (map s_t l))
| IA_at s r : In s all -> (forall x, In x r -> In x all) -> itabs all (mkIt true (s :: r)) (mkSp true (s_t s) (map s_t r))
| IA_end lst : itabs all (mkIt true []) (mkSp false lst []).

Lemma itabs_of_rest all l lst v R0 :
  (forall s, In s l -> In s all) ->
  match spec_adv (mkSp v lst R0) (map s_t l) with
  | (st', e) => itabs all (mkIt true l) st' /\
                res_spec all (match it_cur (mkIt true l) with Some s => RSample s | None => RNone end) e
  end.
Proof.
  intros Hall. destruct l as [|s r]; simpl.
  - split; [constructor|exact I].
  - split; [constructor; intros; apply Hall; simpl; auto|]. split; [reflexivity|apply Hall; left; reflexivity].
Qed.

Lemma drop_lt_in t l x : In x (drop_lt t l) -> In x l.
Proof.
  induction l as [|s r IH]; simpl; [auto|]. destruct (s_t s <? t); [intros H; right; apply IH, H|auto].
Qed.

Lemma it_step_refines all i st o : itabs all i st ->
  match spec_step st o with
  | (st', e) => itabs all (match o with ONext => it_next i | OSeek t => it_seek t i end) st' /\
                res_spec all (match it_cur (match o with ONext => it_next i | OSeek t => it_seek t i end)
                                    with Some s => RSample s | None => RNone end) e
  end.
Proof.
  intros Habs. destruct o as [|t]; inversion Habs as [l lst Hall|s r Hs Hall|lst]; subst;
    cbn [spec_step sp_rem sp_valid sp_last].
  - unfold it_next; simpl. apply itabs_of_rest, Hall.
  - unfold it_next; simpl. apply itabs_of_rest, Hall.
  - unfold it_next; simpl. split; [constructor|exact I].
  - unfold it_seek; simpl. rewrite <- drop_lt_map. apply itabs_of_rest.
    intros s Hs. apply Hall. apply (drop_lt_in t l s Hs).
  - unfold it_seek. cbn [i_rest drop_lt andb]. destruct (t <=? s_t s) eqn:Hle.
    + apply Z.leb_le in Hle. replace (s_t s <? t) with false by (symmetry; apply Z.ltb_ge; lia).
      simpl. split; [constructor; assumption|]. split; [reflexivity|exact Hs].
    + apply Z.leb_gt in Hle. replace (s_t s <? t) with true by (symmetry; apply Z.ltb_lt; lia).
      rewrite <- drop_lt_map. apply itabs_of_rest. intros x Hx. apply Hall. apply (drop_lt_in t r x Hx).
  - unfold it_seek; simpl. split; [constructor|exact I].
Qed.

Lemma it_run_refines all : forall script i st, itabs all i st ->
  Forall2 (res_spec all) (it_run i script) (spec_run st script).
Proof.
  induction script as [|o script IH]; intros i st Habs; simpl; [constructor|].
  pose proof (it_step_refines all i st o Habs) as Hstep.
  destruct (spec_step st o) as [st' e]. destruct Hstep as [Habs' Hres].
  constructor; [exact Hres|]. apply IH, Habs'.
Qed.

Theorem it_run_correct l script : ssorted l ->
  Forall2 (res_spec l) (it_run (it_new l) script) (spec_obs (merged_ts [l]) script).
Proof.
  intros Hs. unfold merged_ts, spec_obs. simpl concat. rewrite app_nil_r.
  rewrite (fold_ins_sorted _ (ssorted_ts l Hs)). apply it_run_refines. constructor. auto.
Qed.

(* what NewMergeSeriesSet returns for one group of same-label series, under a script *)
Theorem group_run_correct ch g script :
  g <> [] -> Forall (fun x => ssorted (ser_s x)) g -> Forall (fun x => above_min (ser_s x)) g ->
  Forall2 (res_spec (concat (map ser_s g))) (group_run ch g script)
          (spec_obs (merged_ts (map ser_s g)) script).
Proof.
  intros Hne Hs Ha. unfold group_run.
  assert (Hchain : Forall2 (res_spec (concat (map ser_s g)))
                     (fst (chain_run ch (chain_of (map ser_s g)) script))
                     (spec_obs (merged_ts (map ser_s g)) script)).
  { apply chain_script_correct.
    - destruct g; [congruence|discriminate].
    - rewrite Forall_forall in *. intros l Hl. apply in_map_iff in Hl as [x [<- Hx]].
      apply ssorted_wsorted, Hs, Hx.
    - rewrite Forall_forall in *. intros l Hl. apply in_map_iff in Hl as [x [<- Hx]]. apply Ha, Hx. }
  destruct g as [|x [|y g']]; [congruence| |exact Hchain].
  simpl map. simpl concat. rewrite app_nil_r. apply it_run_correct. inversion Hs; assumption.
Qed.

(* ================================================================ chunk level *)
Lemma ssorted_app a b : ssorted (a ++ b) ->
  ssorted a /\ ssorted b /\ forall x y, In x a -> In y b -> s_t x < s_t y.
Proof.
  induction a as [|s a IH]; simpl; intros H.
  - split; [constructor|]. split; [exact H|]. intros x y [].
  - inversion H as [|? ? Hs Hf]; subst. destruct (IH Hs) as [H1 [H2 H3]].
    rewrite Forall_forall in Hf. split; [|split; [exact H2|]].
    + constructor; [exact H1|]. rewrite Forall_forall. intros x Hx. apply Hf, in_or_app. left. exact Hx.
    + intros x y [<-|Hx] Hy; [apply Hf, in_or_app; right; exact Hy|apply H3; assumption].
Qed.

Record cb (c : chunk) : Prop := mkCb {
  cb_ne : c_smp c <> [];
  cb_sorted : ssorted (c_smp c);
  cb_bounds : forall x, In x (c_smp c) -> c_min c <= s_t x <= c_max c;
  cb_min : exists x, In x (c_smp c) /\ s_t x = c_min c;
  cb_max : exists x, In x (c_smp c) /\ s_t x = c_max c }.

Definition cdisj (l : list chunk) : Prop := StronglySorted (fun a b => c_max a < c_min b) l.
Definition iter_ok (l : list chunk) : Prop := Forall cb l /\ cdisj l.
Definition smps (l : list chunk) : list sample := concat (map c_smp l).

Lemma in_smps x l : In x (smps l) <-> exists c, In c l /\ In x (c_smp c).
Proof.
  unfold smps. rewrite in_concat. split.
  - intros [s [Hs Hx]]. apply in_map_iff in Hs as [c [<- Hc]]. eauto.
  - intros [c [Hc Hx]]. exists (c_smp c). split; [apply in_map, Hc|exact Hx].
Qed.

Lemma cb_le c : cb c -> c_min c <= c_max c.
Proof. intros H. destruct (cb_min c H) as [x [Hx Hm]]. pose proof (cb_bounds c H x Hx). lia. Qed.

Lemma cb_open first lasts cur :
  (exists c', cur = first :: c') -> (exists pre, cur = pre ++ [lasts]) -> ssorted cur ->
  cb (mkC (s_t first) (s_t lasts) cur).
Proof.
  intros [c' Hc] [pre Hp] Hs. constructor; simpl.
  - subst cur. discriminate.
  - exact Hs.
  - intros x Hx. split.
    + rewrite Hc in Hs, Hx. inversion Hs as [|? ? _ Hf]; subst. rewrite Forall_forall in Hf.
      destruct Hx as [<-|Hx]; [lia|]. specialize (Hf x Hx). lia.
    + rewrite Hp in Hs, Hx. apply ssorted_app in Hs as [_ [_ H3]].
      apply in_app_or in Hx as [Hx|Hx]; [|simpl in Hx; destruct Hx as [<-|[]]; lia]. specialize (H3 x lasts Hx (or_introl eq_refl)). lia.
  - exists first. split; [rewrite Hc; left; reflexivity|reflexivity].
  - exists lasts. split; [rewrite Hp; apply in_or_app; right; left; reflexivity|reflexivity].
Qed.

Lemma encode_go_ok : forall l first lasts cur i,
  (exists c', cur = first :: c') -> (exists pre, cur = pre ++ [lasts]) -> ssorted (cur ++ l) ->
  smps (encode_go l first lasts cur i) = cur ++ l /\ iter_ok (encode_go l first lasts cur i) /\
  encode_go l first lasts cur i <> [].
Proof.
  induction l as [|s r IH]; intros first lasts cur i Hf Hl Hs; cbn [encode_go].
  - rewrite app_nil_r in *. unfold smps, iter_ok, cdisj. simpl. rewrite app_nil_r.
    split; [reflexivity|]. split; [|discriminate]. split; [|repeat constructor].
    constructor; [|constructor]. apply cb_open; assumption.
  - destruct (negb (s_k s =? s_k lasts) || (enc_split <=? i)%nat); cbv iota.
    + destruct (ssorted_app _ _ Hs) as [Hs1 [Hs2 Hs3]].
      destruct (IH s s [s] 1%nat) as [H1 [[H2 H3] H4]].
      { exists []. reflexivity. } { exists []. reflexivity. } { exact Hs2. }
      split; [|split; [|discriminate]].
      * unfold smps in *. simpl. rewrite H1. reflexivity.
      * split; [constructor; [apply cb_open; assumption|exact H2]|].
        constructor; [exact H3|]. rewrite Forall_forall. intros b Hb. simpl.
        rewrite Forall_forall in H2. destruct (cb_min b (H2 b Hb)) as [y [Hy <-]].
        assert (Hy' : In y ([s] ++ r)) by (rewrite <- H1; apply in_smps; eauto).
        destruct Hl as [pre ->]. apply Hs3; [apply in_or_app; right; left; reflexivity|exact Hy'].
    + replace (cur ++ s :: r) with ((cur ++ [s]) ++ r) by (rewrite <- app_assoc; reflexivity). apply IH.
      * destruct Hf as [c' ->]. exists (c' ++ [s]). reflexivity.
      * exists cur. reflexivity.
      * rewrite <- app_assoc. exact Hs.
Qed.

Lemma encode_chunks_ok ms : ssorted ms -> ms <> [] ->
  exists c cs, encode_chunks ms = c :: cs /\ smps (c :: cs) = ms /\ iter_ok (c :: cs).
Proof.
  intros Hs Hne. destruct ms as [|s r]; [congruence|]. unfold encode_chunks.
  destruct (encode_go_ok r s s [s] 1%nat) as [H1 [H2 H3]].
  { exists []. reflexivity. } { exists []. reflexivity. } { exact Hs. }
  destruct (encode_go r s s [s] 1) as [|c cs]; [congruence|]. exists c, cs. auto.
Qed.

(* ---------------------------------------------------------------- the chunk heap *)
Lemma min_exists_leb {A} (leb : A -> A -> bool)
  (Htot : forall x y, leb x y = true \/ leb y x = true)
  (Htr : forall x y z, leb x y = true -> leb y z = true -> leb x z = true) :
  forall h : list A, h <> [] -> exists x, In x h /\ forall y, In y h -> leb x y = true.
Proof.
  induction h as [|a h IH]; intros Hne; [congruence|].
  destruct h as [|b h'].
  - exists a. split; [left; reflexivity|]. intros y [->|[]]. destruct (Htot y y); assumption.
  - destruct IH as [x [Hin Hmin]]; [discriminate|].
    destruct (leb a x) eqn:Hax.
    + exists a. split; [left; reflexivity|]. intros y [->|Hy]; [destruct (Htot y y); assumption|].
      eapply Htr; [exact Hax|apply Hmin, Hy].
    + exists x. split; [right; exact Hin|]. intros y [->|Hy]; [|apply Hmin, Hy].
      destruct (Htot x y) as [H|H]; [exact H|congruence].
Qed.

Lemma cleb_total x y : cleb x y = true \/ cleb y x = true.
Proof.
  unfold cleb. destruct (c_min (fst x) =? c_min (fst y)) eqn:H1.
  - apply Z.eqb_eq in H1. rewrite H1, Z.eqb_refl. rewrite !Z.leb_le. lia.
  - apply Z.eqb_neq in H1. replace (c_min (fst y) =? c_min (fst x)) with false by (symmetry; apply Z.eqb_neq; lia).
    rewrite !Z.ltb_lt. lia.
Qed.

Lemma cleb_trans x y z : cleb x y = true -> cleb y z = true -> cleb x z = true.
Proof.
  unfold cleb.
  destruct (c_min (fst x) =? c_min (fst y)) eqn:H1; destruct (c_min (fst y) =? c_min (fst z)) eqn:H2;
  destruct (c_min (fst x) =? c_min (fst z)) eqn:H3;
  rewrite ?Z.eqb_eq, ?Z.eqb_neq in *; rewrite ?Z.leb_le, ?Z.ltb_lt; lia.
Qed.

Lemma cleb_min x y : cleb x y = true -> c_min (fst x) <= c_min (fst y).
Proof.
  unfold cleb. destruct (c_min (fst x) =? c_min (fst y)) eqn:H1; rewrite ?Z.eqb_eq, ?Z.ltb_lt in *; lia.
Qed.

Lemma cpop_some k h : h <> [] -> exists x r, pop cleb k h = Some (x, r).
Proof.
  intros Hne. destruct (min_exists_leb cleb cleb_total cleb_trans h Hne) as [x [Hin Hmin]].
  destruct (pop cleb k h) as [[y r]|] eqn:Hp; [eauto|].
  exfalso. revert Hp. apply pick_some. exists x. split; [exact Hin|].
  unfold is_min. apply forallb_forall. exact Hmin.
Qed.

Definition cel_all (x : cel) : list chunk := fst x :: snd x.
Definition hchunks (h : list cel) : list chunk := flat_map cel_all h.
Definition hsmp (h : list cel) : list sample := smps (hchunks h).

Record hinv (B : Z) (h : list cel) : Prop := mkHinv {
  hi_ok : forall el, In el h -> iter_ok (cel_all el);
  hi_lb : forall el, In el h -> B < c_min (fst el) }.

Lemma smps_app a b : smps (a ++ b) = smps a ++ smps b.
Proof. unfold smps. rewrite map_app, concat_app. reflexivity. Qed.

Lemma hsmp_cons el h : hsmp (el :: h) = smps (cel_all el) ++ hsmp h.
Proof. unfold hsmp, hchunks. cbn [flat_map]. apply smps_app. Qed.

Lemma hsmp_perm h h' : Permutation h h' -> Permutation (hsmp h) (hsmp h').
Proof.
  intros Hp. unfold hsmp, smps, hchunks. rewrite <- !flat_map_concat_map.
  apply flat_map_perm, flat_map_perm, Hp.
Qed.

Lemma push_citer_smp rest h : hsmp (push_citer rest h) = smps rest ++ hsmp h.
Proof. unfold push_citer. destruct rest as [|c r]; [reflexivity|]. rewrite hsmp_cons. reflexivity. Qed.

Lemma iter_ok_tail c r : iter_ok (c :: r) ->
  cb c /\ iter_ok r /\ forall b, In b r -> c_max c < c_min b.
Proof.
  intros [Hf Hd]. inversion Hf; subst. inversion Hd as [|? ? Hd' Hfd]; subst.
  rewrite Forall_forall in Hfd. split; [assumption|]. split; [split; assumption|exact Hfd].
Qed.

Lemma push_citer_inv B rest h :
  hinv B h -> iter_ok rest -> (forall b, In b rest -> B < c_min b) -> hinv B (push_citer rest h).
Proof.
  intros [H1 H2] Hr Hb. unfold push_citer. destruct rest as [|c r]; [constructor; assumption|].
  constructor.
  - intros el [<-|Hel]; [exact Hr|apply H1, Hel].
  - intros el [<-|Hel]; [apply Hb; left; reflexivity|apply H2, Hel].
Qed.

Lemma heap_chunks_perm h h' : Permutation h h' -> heap_chunks h = heap_chunks h'.
Proof. induction 1; simpl in *; lia. Qed.

Lemma heap_chunks_push rest h : heap_chunks (push_citer rest h) = (length rest + heap_chunks h)%nat.
Proof. unfold push_citer. destruct rest; simpl; lia. Qed.

Lemma sample_eqb_eq a b : sample_eqb a b = true -> a = b.
Proof.
  unfold sample_eqb. rewrite !andb_true_iff, !Z.eqb_eq. destruct a, b; simpl. intros [[-> ->] ->]. reflexivity.
Qed.

Lemma list_eqb_eq {A} (eqb : A -> A -> bool) (Heq : forall a b, eqb a b = true -> a = b) :
  forall a b, list_eqb eqb a b = true -> a = b.
Proof.
  induction a as [|x a IH]; intros [|y b]; simpl; try discriminate; [reflexivity|].
  rewrite andb_true_iff. intros [H1 H2]. apply Heq in H1. apply IH in H2. congruence.
Qed.

Lemma chunk_eqb_smp a b : chunk_eqb a b = true -> c_smp a = c_smp b.
Proof.
  unfold chunk_eqb. rewrite !andb_true_iff. intros [_ H]. apply (list_eqb_eq sample_eqb sample_eqb_eq), H.
Qed.

Lemma smps_cons c l : smps (c :: l) = c_smp c ++ smps l.
Proof. reflexivity. Qed.

Lemma smps_snoc l c : smps (l ++ [c]) = smps l ++ c_smp c.
Proof. rewrite smps_app. unfold smps at 2. simpl. rewrite app_nil_r. reflexivity. Qed.

Lemma overlap_loop_ok B cur : 
  forall fuel ch h omax prev ov,
  (heap_chunks h <= fuel)%nat ->
  hinv B h -> In prev (cur :: ov) -> Forall cb ov ->
  (forall c, In c (cur :: ov) -> c_max c <= omax /\ B < c_min c) ->
  exists h' ov' ch' omax',
    overlap_loop fuel ch h omax prev ov = (Some (h', ov'), ch') /\
    hinv B h' /\ Forall cb ov' /\
    (forall c, In c (cur :: ov') -> c_max c <= omax' /\ B < c_min c) /\
    (forall el, In el h' -> omax' < c_min (fst el)) /\
    (forall x, (In x (hsmp h) \/ In x (smps (cur :: ov))) <-> (In x (hsmp h') \/ In x (smps (cur :: ov')))) /\
    (length (hsmp h') + length (smps ov') <= length (hsmp h) + length (smps ov))%nat.
Proof.
  induction fuel as [|f IH]; intros ch h omax prev ov Hfuel Hinv Hprev Hcb Hbnd.
  - destruct h as [|el h0]; [|simpl in Hfuel; lia]. simpl.
    exists [], ov, ch, omax. split; [reflexivity|]. split; [exact Hinv|]. split; [exact Hcb|].
    split; [exact Hbnd|]. split; [intros el []|]. split; [tauto|unfold hsmp; simpl; lia].
  - destruct h as [|el0 h0] eqn:Hh.
    + simpl. exists [], ov, ch, omax. split; [reflexivity|]. split; [exact Hinv|]. split; [exact Hcb|].
      split; [exact Hbnd|]. split; [intros el []|]. split; [tauto|unfold hsmp; simpl; lia].
    + rewrite <- Hh in *. assert (Hne : h <> []) by (rewrite Hh; discriminate).
      assert (Hunf : overlap_loop (S f) ch h omax prev ov =
                let (k, ch') := next_choice ch in
                match pop cleb k h with
                | None => (None, ch')
                | Some ((nx, rest), h') =>
                    if omax <? c_min nx then (Some (h, ov), ch')
                    else overlap_loop f ch' (push_citer rest h')
                           (if chunk_eqb nx prev then omax else Z.max omax (c_max nx))
                           (if chunk_eqb nx prev then prev else nx)
                           (if chunk_eqb nx prev then ov else ov ++ [nx])
                end).
      { rewrite Hh. reflexivity. }
      rewrite Hunf. clear Hunf Hh el0 h0.
      destruct (next_choice ch) as [k ch1].
      destruct (cpop_some k h Hne) as [[nx rest] [h2 Hp]]. rewrite Hp.
      apply pop_spec in Hp as [Hperm Hmin].
      destruct Hinv as [Hok Hlb].
      assert (Helin : In (nx, rest) h) by (eapply Permutation_in; [apply Permutation_sym, Hperm|left; reflexivity]).
      destruct (iter_ok_tail nx rest (Hok _ Helin)) as [Hcbnx [Hrest Hgap]].
      pose proof (Hlb _ Helin) as HBnx. simpl in HBnx. pose proof (cb_le nx Hcbnx) as Hnxle.
      destruct (omax <? c_min nx) eqn:Hlt.
      * apply Z.ltb_lt in Hlt. exists h, ov, ch1, omax. split; [reflexivity|].
        split; [constructor; assumption|]. split; [exact Hcb|]. split; [exact Hbnd|].
        split; [|split; [tauto|lia]].
        intros el Hel. specialize (Hmin el Hel). apply cleb_min in Hmin. simpl in Hmin. lia.
      * apply Z.ltb_ge in Hlt.
        assert (Hinv1 : hinv B (push_citer rest h2)).
        { apply push_citer_inv; [|exact Hrest|].
          - constructor; intros el Hel; [apply Hok|apply Hlb];
              (eapply Permutation_in; [apply Permutation_sym, Hperm|right; exact Hel]).
          - intros b Hb. specialize (Hgap b Hb). lia. }
        assert (Hfuel1 : (heap_chunks (push_citer rest h2) <= f)%nat).
        { rewrite heap_chunks_push. rewrite (heap_chunks_perm _ _ Hperm) in Hfuel. simpl in Hfuel. lia. }
        assert (Hsm : forall x, In x (hsmp h) <-> (In x (c_smp nx) \/ In x (hsmp (push_citer rest h2)))).
        { intros x. rewrite push_citer_smp. split.
          - intros Hx. apply (Permutation_in _ (hsmp_perm _ _ Hperm)) in Hx.
            rewrite hsmp_cons in Hx. unfold cel_all in Hx. simpl fst in Hx. simpl snd in Hx.
            rewrite smps_cons, <- app_assoc in Hx. rewrite !in_app_iff in *. tauto.
          - intros Hx. apply (Permutation_in _ (Permutation_sym (hsmp_perm _ _ Hperm))).
            rewrite hsmp_cons. unfold cel_all. simpl fst. simpl snd.
            rewrite smps_cons, <- app_assoc. rewrite !in_app_iff in *. tauto. }
        assert (Hlen : length (hsmp h) = (length (c_smp nx) + length (hsmp (push_citer rest h2)))%nat).
        { rewrite (Permutation_length (hsmp_perm _ _ Hperm)), hsmp_cons, push_citer_smp.
          unfold cel_all. simpl fst. simpl snd. rewrite smps_cons, !app_length. lia. }
        destruct (chunk_eqb nx prev) eqn:Hdup.
        -- (* perfect duplicate of the previous chunk: dropped *)
           destruct (IH ch1 (push_citer rest h2) omax prev ov Hfuel1 Hinv1 Hprev Hcb Hbnd)
             as [h' [ov' [ch' [omax' [He [Hi' [Hcb' [Hbnd' [Hex [Hset Hl']]]]]]]]]].
           exists h', ov', ch', omax'. split; [exact He|]. split; [exact Hi'|]. split; [exact Hcb'|].
           split; [exact Hbnd'|]. split; [exact Hex|]. split; [|lia].
           intros x. rewrite <- Hset, Hsm.
           assert (Hpr : In x (c_smp nx) -> In x (smps (cur :: ov))).
           { rewrite (chunk_eqb_smp _ _ Hdup). intros Hx. apply in_smps. eauto. }
           tauto.
        -- destruct (IH ch1 (push_citer rest h2) (Z.max omax (c_max nx)) nx (ov ++ [nx]) Hfuel1 Hinv1)
             as [h' [ov' [ch' [omax' [He [Hi' [Hcb' [Hbnd' [Hex [Hset Hl']]]]]]]]]].
           { right. apply in_or_app. right. left. reflexivity. }
           { apply Forall_app. split; [exact Hcb|constructor; [exact Hcbnx|constructor]]. }
           { intros c Hc. assert (Hcase : In c (cur :: ov) \/ c = nx).
             { destruct Hc as [Hc|Hc]; [left; left; exact Hc|].
               apply in_app_or in Hc as [Hc|Hc]; [left; right; exact Hc|].
               simpl in Hc. destruct Hc as [Hc|[]]. right. symmetry. exact Hc. }
             destruct Hcase as [Hc2|Hc2]; [destruct (Hbnd c Hc2); split; lia|subst c; split; lia]. }
           exists h', ov', ch', omax'. split; [exact He|]. split; [exact Hi'|]. split; [exact Hcb'|].
           split; [exact Hbnd'|]. split; [exact Hex|]. split.
           ++ intros x. rewrite <- Hset, Hsm. rewrite !smps_cons, smps_snoc, !in_app_iff. tauto.
           ++ rewrite smps_snoc, app_length in Hl'. lia.
Qed.

Definition above (l : list sample) : Prop := forall x, In x l -> minInt64 < s_t x.

Lemma ssorted_of_ts l : StronglySorted Z.lt (map s_t l) -> ssorted l.
Proof.
  induction l as [|a l IH]; simpl; intros H; [constructor|].
  inversion H as [|? ? Hs Hf]; subst. constructor; [apply IH, Hs|].
  rewrite Forall_forall in *. intros x Hx. apply Hf, in_map, Hx.
Qed.

Lemma in_snoc_cons {A} (x c : A) l : In x (l ++ [c]) <-> In x (c :: l).
Proof. rewrite in_app_iff. simpl. tauto. Qed.

Lemma in_smps_snoc x l c : In x (smps (l ++ [c])) <-> In x (smps (c :: l)).
Proof. rewrite smps_snoc, smps_cons, !in_app_iff. tauto. Qed.

Lemma compact_next_ok B ch h : hinv B h -> above (hsmp h) -> h <> [] ->
  exists c h' ch', compact_next ch h = (CChunk c h', ch') /\
    cb c /\ B < c_min c /\ hinv (c_max c) h' /\
    (forall t, (exists x, In x (hsmp h) /\ s_t x = t) <-> (exists x, In x (c_smp c ++ hsmp h') /\ s_t x = t)) /\
    (forall x, In x (c_smp c ++ hsmp h') -> In x (hsmp h)) /\
    (length (hsmp h') < length (hsmp h))%nat.
Proof.
  intros Hinv Habove Hne. unfold compact_next.
  destruct h as [|el0 h0] eqn:Hh; [congruence|]. rewrite <- Hh in *. clear Hh el0 h0.
  destruct (next_choice ch) as [k ch1].
  destruct (cpop_some k h Hne) as [[cur rest] [h1 Hp]]. rewrite Hp.
  apply pop_spec in Hp as [Hperm _].
  destruct Hinv as [Hok Hlb].
  assert (Helin : In (cur, rest) h) by (eapply Permutation_in; [apply Permutation_sym, Hperm|left; reflexivity]).
  destruct (iter_ok_tail cur rest (Hok _ Helin)) as [Hcbcur [Hrest Hgap]].
  pose proof (Hlb _ Helin) as HBcur. simpl in HBcur. pose proof (cb_le cur Hcbcur) as Hcurle.
  set (h2 := push_citer rest h1) in *.
  assert (Hinv2 : hinv B h2).
  { apply push_citer_inv; [|exact Hrest|].
    - constructor; intros el Hel; [apply Hok|apply Hlb];
        (eapply Permutation_in; [apply Permutation_sym, Hperm|right; exact Hel]).
    - intros b Hb. specialize (Hgap b Hb). lia. }
  assert (Hsm : forall x, In x (hsmp h) <-> (In x (c_smp cur) \/ In x (hsmp h2))).
  { intros x. unfold h2. rewrite push_citer_smp. split.
    - intros Hx. apply (Permutation_in _ (hsmp_perm _ _ Hperm)) in Hx.
      rewrite hsmp_cons in Hx. unfold cel_all in Hx. simpl fst in Hx. simpl snd in Hx.
      rewrite smps_cons, <- app_assoc in Hx. rewrite !in_app_iff in *. tauto.
    - intros Hx. apply (Permutation_in _ (Permutation_sym (hsmp_perm _ _ Hperm))).
      rewrite hsmp_cons. unfold cel_all. simpl fst. simpl snd.
      rewrite smps_cons, <- app_assoc. rewrite !in_app_iff in *. tauto. }
  assert (Hlen : length (hsmp h) = (length (c_smp cur) + length (hsmp h2))%nat).
  { unfold h2. rewrite (Permutation_length (hsmp_perm _ _ Hperm)), hsmp_cons, push_citer_smp.
    unfold cel_all. simpl fst. simpl snd. rewrite smps_cons, !app_length. lia. }
  assert (Hcurlen : (0 < length (c_smp cur))%nat).
  { pose proof (cb_ne cur Hcbcur). destruct (c_smp cur); [congruence|simpl; lia]. }
  destruct (overlap_loop_ok B cur (heap_chunks h2) ch1 h2 (c_max cur) cur [] (le_n _) Hinv2)
    as [h3 [ov [ch2 [omax [He [Hinv3 [Hcbov [Hbnd [Hex [Hset Hl3]]]]]]]]]].
  { left. reflexivity. } { constructor. }
  { intros c [<-|[]]. split; lia. }
  rewrite He.
  assert (Hsmcur : smps [cur] = c_smp cur) by (unfold smps; simpl; apply app_nil_r).
  destruct ov as [|o ovs].
  - (* no overlap: the chunk is passed on as it is *)
    exists cur, h3, ch2. split; [reflexivity|]. split; [exact Hcbcur|]. split; [exact HBcur|].
    destruct (Hbnd cur (or_introl eq_refl)) as [Hcm _].
    split; [|split; [|split]].
    + destruct Hinv3 as [Hok3 _]. constructor; [exact Hok3|].
      intros el Hel. specialize (Hex el Hel). lia.
    + intros t. split; intros [x [Hx Ht]]; exists x; (split; [|exact Ht]).
      * apply Hsm in Hx. rewrite in_app_iff. specialize (Hset x). rewrite Hsmcur in Hset. tauto.
      * apply Hsm. rewrite in_app_iff in Hx. specialize (Hset x). rewrite Hsmcur in Hset. tauto.
    + intros x Hx. apply Hsm. rewrite in_app_iff in Hx. specialize (Hset x). rewrite Hsmcur in Hset. tauto.
    + unfold smps in Hl3. simpl in Hl3. lia.
  - cbv beta iota. remember (o :: ovs) as ov eqn:Hov.
    assert (Hovne : ov <> []) by (rewrite Hov; discriminate).
    set (inputs := map c_smp (ov ++ [cur])).
    assert (Hconc : concat inputs = smps (ov ++ [cur])) by reflexivity.
    assert (Hcball : forall g, In g (ov ++ [cur]) -> cb g).
    { intros g Hg. apply in_snoc_cons in Hg as [<-|Hg]; [exact Hcbcur|].
      rewrite Forall_forall in Hcbov. apply Hcbov, Hg. }
    assert (Hin_h : forall x, In x (smps (ov ++ [cur])) -> In x (hsmp h)).
    { intros x Hx. apply in_smps_snoc in Hx. apply Hsm. specialize (Hset x). rewrite Hsmcur in Hset. tauto. }
    destruct (chain_all_correct ch2 inputs) as [ms [ch3 [Hca [Hts Hms]]]].
    { unfold inputs. destruct ov; [congruence|discriminate]. }
    { unfold inputs. rewrite Forall_forall. intros l Hl. apply in_map_iff in Hl as [g [<- Hg]].
      apply ssorted_wsorted, cb_sorted, Hcball, Hg. }
    { unfold inputs. rewrite Forall_forall. intros l Hl. apply in_map_iff in Hl as [g [<- Hg]].
      unfold above_min. rewrite Forall_forall. intros x Hx. apply Habove, Hin_h, in_smps. eauto. }
    assert (Hmsorted : ssorted ms).
    { apply ssorted_of_ts. rewrite Hts. apply merged_ts_spec. }
    assert (Hmsne : ms <> []).
    { destruct (cb_min cur Hcbcur) as [y [Hy _]].
      assert (In (s_t y) (merged_ts inputs)).
      { apply merged_ts_spec. exists y. split; [|reflexivity]. rewrite Hconc. apply in_smps_snoc.
        rewrite smps_cons. apply in_or_app. left. exact Hy. }
      rewrite <- Hts in H. intros ->. destruct H. }
    destruct (encode_chunks_ok ms Hmsorted Hmsne) as [c [cs [Henc [Hsmcs Hiter]]]].
    destruct (iter_ok_tail c cs Hiter) as [Hcbc [Hcs Hgapc]].
    assert (Hms_in : forall x, In x ms -> exists g, In g (cur :: ov) /\ In x (c_smp g)).
    { intros x Hx. apply Hms in Hx. rewrite Hconc in Hx. apply in_smps_snoc, in_smps in Hx. exact Hx. }
    assert (Hc_in : forall x, In x (c_smp c) -> In x ms).
    { intros x Hx. rewrite <- Hsmcs, smps_cons. apply in_or_app. left. exact Hx. }
    exists c, (push_citer cs h3), ch3.
    split.
    { fold inputs. rewrite Hca, Henc. reflexivity. }
    split; [exact Hcbc|]. split; [|split; [|split; [|split]]].
    + destruct (cb_min c Hcbc) as [y [Hy <-]]. destruct (Hms_in y (Hc_in y Hy)) as [g [Hg Hyg]].
      destruct (Hbnd g Hg) as [_ HB]. assert (cb g) by (apply Hcball, in_snoc_cons, Hg).
      pose proof (cb_bounds g H y Hyg). lia.
    + apply push_citer_inv; [|exact Hcs|exact Hgapc].
      destruct Hinv3 as [Hok3 _]. constructor; [exact Hok3|]. intros el Hel. specialize (Hex el Hel).
      destruct (cb_max c Hcbc) as [y [Hy <-]]. destruct (Hms_in y (Hc_in y Hy)) as [g [Hg Hyg]].
      destruct (Hbnd g Hg) as [Hgm _]. assert (cb g) by (apply Hcball, in_snoc_cons, Hg).
      pose proof (cb_bounds g H y Hyg). lia.
    + intros t. rewrite push_citer_smp.
      assert (Hmts : (exists x, In x ms /\ s_t x = t) <-> (exists x, In x (smps (cur :: ov)) /\ s_t x = t)).
      { split.
        - intros [x [Hx Ht]]. exists x. split; [|exact Ht]. apply in_smps, Hms_in, Hx.
        - intros [x [Hx Ht]]. assert (In t (map s_t ms)).
          { rewrite Hts. apply merged_ts_spec. exists x. split; [|exact Ht]. rewrite Hconc.
            apply in_smps_snoc, Hx. }
          apply in_map_iff in H as [y [Hy1 Hy2]]. eauto. }
      split.
      * intros [x [Hx Ht]]. apply Hsm in Hx.
        assert (Hx' : In x (hsmp h3) \/ In x (smps (cur :: ov))) by (apply Hset; rewrite Hsmcur; tauto).
        destruct Hx' as [Hx'|Hx'].
        -- exists x. split; [|exact Ht]. rewrite !in_app_iff. auto.
        -- destruct Hmts as [_ Hm2]. destruct (Hm2 (ex_intro _ x (conj Hx' Ht))) as [y [Hy Hyt]].
           exists y. split; [|exact Hyt]. rewrite <- Hsmcs, smps_cons in Hy. rewrite !in_app_iff in *. tauto.
      * intros [x [Hx Ht]]. rewrite !in_app_iff in Hx.
        assert (Hcase : In x ms \/ In x (hsmp h3)).
        { rewrite <- Hsmcs, smps_cons, in_app_iff. tauto. }
        destruct Hcase as [Hx'|Hx'].
        -- destruct Hmts as [Hm1 _]. destruct (Hm1 (ex_intro _ x (conj Hx' Ht))) as [y [Hy Hyt]].
           exists y. split; [|exact Hyt]. apply Hsm. specialize (Hset y). rewrite Hsmcur in Hset. tauto.
        -- exists x. split; [|exact Ht]. apply Hsm. specialize (Hset x). rewrite Hsmcur in Hset. tauto.
    + intros x Hx. rewrite push_citer_smp, !in_app_iff in Hx.
      assert (Hcase : In x ms \/ In x (hsmp h3)).
      { rewrite <- Hsmcs, smps_cons, in_app_iff. tauto. }
      destruct Hcase as [Hx'|Hx'].
      * apply Hin_h. rewrite <- Hconc. apply Hms, Hx'.
      * apply Hsm. specialize (Hset x). rewrite Hsmcur in Hset. tauto.
    + rewrite push_citer_smp, app_length.
      assert (Hl1 : (length ms <= length (smps ov) + length (c_smp cur))%nat).
      { rewrite <- (map_length s_t ms), Hts. unfold merged_ts.
        pose proof (fold_ins_length (map s_t (concat inputs))) as H. rewrite map_length in H.
        assert (H0 : length (concat inputs) = (length (smps ov) + length (c_smp cur))%nat)
          by (rewrite Hconc, smps_snoc, app_length; reflexivity).
        lia. }
      assert (Hl2 : length ms = (length (c_smp c) + length (smps cs))%nat).
      { rewrite <- Hsmcs, smps_cons, app_length. reflexivity. }
      assert (Hl4 : (0 < length (c_smp c))%nat).
      { pose proof (cb_ne c Hcbc). destruct (c_smp c); [congruence|simpl; lia]. }
      unfold smps in Hl3 at 2. simpl in Hl3. lia.
Qed.

Lemma compact_loop_ok : forall fuel ch B h,
  hinv B h -> above (hsmp h) -> (length (hsmp h) < fuel)%nat ->
  exists out ch', compact_loop fuel ch h = (Some out, ch') /\
    Forall cb out /\ cdisj out /\ (forall c, In c out -> B < c_min c) /\
    (forall t, (exists x, In x (smps out) /\ s_t x = t) <-> (exists x, In x (hsmp h) /\ s_t x = t)) /\
    (forall x, In x (smps out) -> In x (hsmp h)).
Proof.
  induction fuel as [|f IH]; intros ch B h Hinv Hab Hlen; [lia|].
  simpl. destruct h as [|el0 h0] eqn:Hh.
  - simpl. exists [], ch. split; [reflexivity|]. split; [constructor|]. split; [constructor|].
    split; [intros c []|]. split; [|intros x []]. intros t. split; intros [x [[] _]].
  - rewrite <- Hh in *. assert (Hne : h <> []) by (rewrite Hh; discriminate). clear Hh el0 h0.
    destruct (compact_next_ok B ch h Hinv Hab Hne) as [c [h' [ch1 [He [Hcb [HB [Hinv' [Hts [Hincl Hl]]]]]]]]].
    rewrite He.
    destruct (IH ch1 (c_max c) h' Hinv') as [out [ch2 [Ho [Hcbo [Hdo [HBo [Htso Hinclo]]]]]]].
    { intros x Hx. apply Hab, Hincl, in_or_app. right. exact Hx. }
    { lia. }
    rewrite Ho. exists (c :: out), ch2. split; [reflexivity|]. split; [constructor; assumption|].
    pose proof (cb_le c Hcb) as Hcle.
    split; [|split; [|split]].
    + constructor; [exact Hdo|]. rewrite Forall_forall. intros b Hb. apply HBo, Hb.
    + intros c' [<-|Hc']; [exact HB|]. specialize (HBo c' Hc'). lia.
    + intros t. rewrite Hts. split.
      * intros [x [Hx Ht]]. rewrite smps_cons, in_app_iff in Hx. destruct Hx as [Hx|Hx].
        -- exists x. split; [apply in_or_app; left; exact Hx|exact Ht].
        -- destruct (proj1 (Htso t) (ex_intro _ x (conj Hx Ht))) as [y [Hy Hyt]].
           exists y. split; [apply in_or_app; right; exact Hy|exact Hyt].
      * intros [x [Hx Ht]]. rewrite in_app_iff in Hx. destruct Hx as [Hx|Hx].
        -- exists x. split; [rewrite smps_cons; apply in_or_app; left; exact Hx|exact Ht].
        -- destruct (proj2 (Htso t) (ex_intro _ x (conj Hx Ht))) as [y [Hy Hyt]].
           exists y. split; [rewrite smps_cons; apply in_or_app; right; exact Hy|exact Hyt].
    + intros x Hx. rewrite smps_cons, in_app_iff in Hx. apply Hincl, in_or_app.
      destruct Hx as [Hx|Hx]; [left; exact Hx|right; apply Hinclo, Hx].
Qed.

Lemma cinit_fold : forall its h,
  let h0 := fold_left (fun h s => push_citer s h) its h in
  (forall x, In x (hsmp h0) <-> (In x (smps (concat its)) \/ In x (hsmp h))) /\
  length (hsmp h0) = (length (smps (concat its)) + length (hsmp h))%nat /\
  (forall el, In el h0 -> In el h \/ In (cel_all el) its).
Proof.
  induction its as [|s its IH]; intros h; simpl.
  - split; [intros x; unfold smps; simpl; tauto|]. split; [reflexivity|auto].
  - destruct (IH (push_citer s h)) as [H1 [H2 H3]]. split; [|split].
    + intros x. rewrite H1, push_citer_smp, smps_app, !in_app_iff. tauto.
    + rewrite H2, push_citer_smp, smps_app, !app_length. lia.
    + intros el Hel. destruct (H3 el Hel) as [H|H]; [|auto].
      unfold push_citer in H. destruct s as [|c r]; [auto|]. destruct H as [<-|H]; [|auto].
      right. left. reflexivity.
Qed.

Lemma weight_chunks l :
  (length (smps l) <= fold_right (fun c b => (S (length (c_smp c)) + b)%nat) O l)%nat.
Proof.
  induction l as [|c l IHl]; [unfold smps; simpl; lia|]. cbn [fold_right]. rewrite smps_cons, app_length. lia.
Qed.

Lemma weight_ge its : (length (smps (concat its)) <= chunks_weight its)%nat.
Proof.
  induction its as [|l its IH]; [unfold smps; simpl; lia|].
  unfold chunks_weight in *. cbn [fold_right concat]. rewrite smps_app, app_length.
  pose proof (weight_chunks l). lia.
Qed.

Lemma ssorted_app_intro a b : ssorted a -> ssorted b ->
  (forall x y, In x a -> In y b -> s_t x < s_t y) -> ssorted (a ++ b).
Proof.
  induction a as [|s a IH]; simpl; intros Ha Hb Hab; [exact Hb|].
  inversion Ha as [|? ? Hs Hf]; subst. constructor.
  - apply IH; [exact Hs|exact Hb|]. intros x y Hx Hy. apply Hab; [right; exact Hx|exact Hy].
  - rewrite Forall_forall in *. intros x Hx. apply in_app_or in Hx as [Hx|Hx]; [apply Hf, Hx|].
    apply Hab; [left; reflexivity|exact Hx].
Qed.

Lemma out_sorted out : Forall cb out -> cdisj out -> ssorted (smps out).
Proof.
  induction out as [|c out IH]; intros Hcb Hd; [constructor|].
  inversion Hcb; subst. inversion Hd as [|? ? Hd' Hf]; subst. rewrite smps_cons.
  apply ssorted_app_intro; [apply cb_sorted; assumption|apply IH; assumption|].
  intros x y Hx Hy. apply in_smps in Hy as [b [Hb Hyb]]. rewrite Forall_forall in *.
  specialize (Hf b Hb). pose proof (cb_bounds c H1 x Hx). pose proof (cb_bounds b (H2 b Hb) y Hyb). lia.
Qed.

Lemma sorted_unique : forall a b, StronglySorted Z.lt a -> StronglySorted Z.lt b ->
  (forall t, In t a <-> In t b) -> a = b.
Proof.
  induction a as [|x a IH]; intros b Ha Hb Heq.
  - destruct b as [|y b]; [reflexivity|]. exfalso. apply (Heq y). left. reflexivity.
  - destruct b as [|y b]; [exfalso; apply (Heq x); left; reflexivity|].
    inversion Ha as [|? ? Ha' Hfa]; subst. inversion Hb as [|? ? Hb' Hfb]; subst.
    rewrite Forall_forall in *.
    assert (x = y).
    { destruct (proj1 (Heq x) (or_introl eq_refl)) as [->|Hx]; [reflexivity|].
      destruct (proj2 (Heq y) (or_introl eq_refl)) as [->|Hy]; [reflexivity|].
      specialize (Hfa y Hy). specialize (Hfb x Hx). lia. }
    subst y. f_equal. apply IH; [exact Ha'|exact Hb'|]. intros t. split; intros Ht.
    + destruct (proj1 (Heq t) (or_intror Ht)) as [<-|H]; [|exact H]. specialize (Hfa x Ht). lia.
    + destruct (proj2 (Heq t) (or_intror Ht)) as [<-|H]; [|exact H]. specialize (Hfb x Ht). lia.
Qed.

(* NewCompactingChunkSeriesMerger(ChainedSeriesMerge): for chunk iterators whose chunks are
   well-formed, time-ordered and disjoint (and above MinInt64), for every tie-breaking: the
   output chunks are well-formed, time-ordered and non-overlapping, their samples are exactly the
   sample-level merge (sorted de-duplicated union of the timestamps) and every sample comes from
   an input chunk. *)
Theorem compact_chunks_correct ch its :
  Forall iter_ok its -> above (smps (concat its)) ->
  exists out ch', compact_chunks ch its = (Some out, ch') /\ Forall cb out /\ cdisj out /\
    map s_t (smps out) = merged_ts (map c_smp (concat its)) /\
    (forall x, In x (smps out) -> In x (smps (concat its))).
Proof.
  intros Hits Hab. unfold compact_chunks.
  destruct (cinit_fold its []) as [H1 [H2 H3]].
  set (h0 := fold_left (fun h s => push_citer s h) its []) in *.
  destruct (lower_bound (map (fun el : cel => c_min (fst el)) h0)) as [B HB].
  assert (Hinv : hinv B h0).
  { constructor.
    - intros el Hel. destruct (H3 el Hel) as [[]|H]. rewrite Forall_forall in Hits. apply Hits, H.
    - intros el Hel. apply HB. apply (in_map (fun el : cel => c_min (fst el))), Hel. }
  destruct (compact_loop_ok (S (chunks_weight its)) ch B h0 Hinv) as [out [ch' [Ho [Hcb [Hd [_ [Hts Hincl]]]]]]].
  { intros x Hx. apply Hab. apply H1 in Hx. destruct Hx as [Hx|[]]. exact Hx. }
  { rewrite H2. pose proof (weight_ge its). unfold hsmp at 1. simpl. lia. }
  exists out, ch'. split; [exact Ho|]. split; [exact Hcb|]. split; [exact Hd|]. split.
  - apply sorted_unique.
    + apply ssorted_ts, out_sorted; assumption.
    + apply merged_ts_spec.
    + intros t. rewrite in_map_iff. split.
      * intros [x [Ht Hx]]. apply merged_ts_spec.
        destruct (proj1 (Hts t) (ex_intro _ x (conj Hx Ht))) as [y [Hy Hyt]].
        exists y. split; [|exact Hyt]. apply H1 in Hy. destruct Hy as [Hy|[]]. exact Hy.
      * intros Ht. apply merged_ts_spec in Ht as [y [Hy Hyt]].
        assert (Hy' : In y (hsmp h0)) by (apply H1; left; exact Hy).
        destruct (proj2 (Hts t) (ex_intro _ y (conj Hy' Hyt))) as [x [Hx Hxt]]. eauto.
  - intros x Hx. apply Hincl, H1 in Hx. destruct Hx as [Hx|[]]. exact Hx.
Qed.

(* non-vacuity of the chunk-level theorem: overlapping chunks from two iterators *)
Definition ex_its : list (list chunk) :=
  [[mkC 1 3 [mkS 1 1 0; mkS 3 1 1]; mkC 7 7 [mkS 7 1 2]]; [mkC 2 7 [mkS 2 1 5; mkS 7 1 9]]].

Lemma cb_two a b v w k k' : a < b -> cb (mkC a b [mkS a k v; mkS b k' w]).
Proof.
  intros H. constructor; simpl.
  - discriminate.
  - repeat constructor. simpl. exact H.
  - intros x [<-|[<-|[]]]; simpl; lia.
  - eexists; split; [left; reflexivity|reflexivity].
  - eexists; split; [right; left; reflexivity|reflexivity].
Qed.

Lemma cb_one a v k : cb (mkC a a [mkS a k v]).
Proof.
  constructor; simpl.
  - discriminate.
  - repeat constructor.
  - intros x [<-|[]]; simpl; lia.
  - eexists; split; [left; reflexivity|reflexivity].
  - eexists; split; [left; reflexivity|reflexivity].
Qed.

Lemma ex_its_ok :
  Forall iter_ok ex_its /\ above (smps (concat ex_its)) /\
  fst (compact_chunks [1%nat] ex_its) = Some [mkC 1 7 [mkS 1 1 0; mkS 2 1 5; mkS 3 1 1; mkS 7 1 9]].
Proof.
  split; [|split; [|vm_compute; reflexivity]].
  - unfold ex_its. constructor; [|constructor; [|constructor]].
    + split; [constructor; [apply cb_two; lia|constructor; [apply cb_one|constructor]]|].
      unfold cdisj. repeat constructor; simpl; lia.
    + split; [constructor; [apply cb_two; lia|constructor]|]. unfold cdisj. repeat constructor.
  - intros x Hx. vm_compute in Hx. unfold minInt64.
    repeat (destruct Hx as [<-|Hx]; [simpl; lia|]). destruct Hx.
Qed.

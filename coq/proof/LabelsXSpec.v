(* proof/LabelsXSpec.v — the executable specification machine used by [holds] (corr/CorrC39.v:
   m_set / m_del / m_of on strictly sorted association lists) really is the finite-map
   semantics the theorems are stated in ([lkp], [upd]). *)
From Coq Require Import List ZArith Bool Lia.
From Verif Require Import model.LabelsX proof.LabelsXProofs proof.LabelsXMerge corr.CorrC39.
Import ListNotations.
Open Scope Z_scope.

Lemma lookup_is_lkp ls k : CorrC39.lookup ls k = lkp ls k.
Proof. induction ls as [|[n v] t IH]; simpl; auto; try (rewrite IH; auto). Qed.

Lemma str_cmp_eqb n k : str_eqb n k = match str_cmp n k with Eq => true | _ => false end.
Proof. reflexivity. Qed.

Lemma has_name_m_set k n v m : has_name k (m_set n v m) = str_eqb n k || has_name k m.
Proof.
  induction m as [|[k0 w] t IH]; cbn [m_set]; [reflexivity|].
  destruct (str_cmp n k0) eqn:C.
  - apply str_cmp_eq in C. subst k0. rewrite !has_name_cons. cbn [fst]. destruct (str_eqb n k); auto.
  - rewrite has_name_cons. reflexivity.
  - rewrite has_name_cons, IH, has_name_cons. cbn [fst]. destruct (str_eqb n k), (str_eqb k0 k); auto.
Qed.
Lemma lkp_m_set k n v m : lkp (m_set n v m) k = if str_eqb n k then Some v else lkp m k.
Proof.
  induction m as [|[k0 w] t IH]; cbn [m_set]; [reflexivity|].
  destruct (str_cmp n k0) eqn:C.
  - apply str_cmp_eq in C. subst k0. cbn [lkp]. destruct (str_eqb n k); auto.
  - reflexivity.
  - cbn [lkp]. rewrite IH. destruct (str_eqb k0 k) eqn:E1, (str_eqb n k) eqn:E2; auto.
    apply str_eqb_eq in E1, E2. subst. rewrite str_cmp_refl in C. discriminate.
Qed.
Lemma m_set_sorted n v m : strictly_sorted m = true -> strictly_sorted (m_set n v m) = true.
Proof.
  induction m as [|[k0 w] t IH]; intros Hs; cbn [m_set]; auto.
  destruct (str_cmp n k0) eqn:C.
  - apply str_cmp_eq in C. subst k0. destruct t; auto.
  - change (str_ltb n k0 && strictly_sorted ((k0, w) :: t) = true). apply andb_true_intro. split; [unfold str_ltb; rewrite C; auto | exact Hs].
  - apply sorted_cons_all; [apply IH; eapply sorted_tail; eauto|].
    intros k Hk. rewrite has_name_m_set in Hk. cbn [fst]. apply orb_prop in Hk. destruct Hk as [Hk|Hk].
    + apply str_eqb_eq in Hk. subst k. unfold str_ltb. rewrite (str_cmp_antisym n k0), C. reflexivity.
    + apply (sorted_lt_all (k0, w) t Hs k Hk).
Qed.

Lemma m_del_spec n m : strictly_sorted m = true ->
  strictly_sorted (m_del n m) = true /\ forall k, lkp (m_del n m) k = if str_eqb n k then None else lkp m k.
Proof.
  intros Hs. unfold m_del. split; [apply filter_sorted; auto|]. intros k.
  rewrite (lkp_filter (fun x => negb (str_eqb x n))). rewrite (str_eqb_sym k n). destruct (str_eqb n k); auto.
Qed.

Lemma m_of_fold ls : forall acc, nodup_names ls = true -> strictly_sorted acc = true ->
  strictly_sorted (fold_left (fun m x => m_set (fst x) (snd x) m) ls acc) = true /\
  forall k, lkp (fold_left (fun m x => m_set (fst x) (snd x) m) ls acc) k
            = match lkp ls k with Some v => Some v | None => lkp acc k end.
Proof.
  induction ls as [|[n v] t IH]; intros acc Hn Ha; cbn [fold_left]; [auto|].
  simpl in Hn. apply andb_prop in Hn. destruct Hn as [Hx Hn]. apply negb_true_iff in Hx. cbn [fst snd] in *.
  destruct (IH (m_set n v acc) Hn (m_set_sorted n v acc Ha)) as (S & Lk). split; auto.
  intros k. rewrite Lk, lkp_m_set. cbn [lkp]. destruct (str_eqb n k) eqn:E; auto.
  apply str_eqb_eq in E. subst k. rewrite (lkp_none t n Hx). auto.
Qed.
Lemma m_of_spec ls : nodup_names ls = true ->
  strictly_sorted (m_of ls) = true /\ forall k, lkp (m_of ls) k = lkp ls k.
Proof.
  intros Hn. destruct (m_of_fold ls [] Hn eq_refl) as (S & Lk). split; auto.
  intros k. unfold m_of. rewrite Lk. destruct (lkp ls k); auto.
Qed.

(* all three at once, in the vocabulary of [holds] *)
Lemma spec_machine_is_map :
  (forall n v m, strictly_sorted m = true ->
     strictly_sorted (m_set n v m) = true /\ forall k, CorrC39.lookup (m_set n v m) k = upd (CorrC39.lookup m) n (Some v) k) /\
  (forall n m, strictly_sorted m = true ->
     strictly_sorted (m_del n m) = true /\ forall k, CorrC39.lookup (m_del n m) k = upd (CorrC39.lookup m) n None k) /\
  (forall ls, nodup_names ls = true ->
     strictly_sorted (m_of ls) = true /\ forall k, CorrC39.lookup (m_of ls) k = CorrC39.lookup ls k).
Proof.
  split; [|split].
  - intros n v m Hs. split; [apply m_set_sorted; auto|]. intros k. unfold upd. rewrite !lookup_is_lkp. try apply lkp_m_set.
  - intros n m Hs. destruct (m_del_spec n m Hs) as (S & Lk). split; auto; intros k; unfold upd; rewrite !lookup_is_lkp; apply Lk.
  - intros ls Hn. destruct (m_of_spec ls Hn) as (S & Lk). split; auto; intros k; rewrite !lookup_is_lkp; apply Lk.
Qed.

(* a symbol-table rebuild (Range -> ScratchBuilder.Add -> Labels, as Head.RebuildSymbolTable)
   leaves every label set unchanged *)
Lemma rebuild_identity ls : all_short ls ->
  rebuild1 I_string (enc ls) = Ok (enc ls) /\ rebuild1 I_slice ls = Ok ls /\ rebuild1 I_dedupe ls = Ok ls.
Proof.
  intros H. unfold rebuild1. cbn [l_range l_of_adds I_string I_slice I_dedupe bind]. split; [|split; reflexivity].
  unfold st_range. rewrite st_range_enc by auto. cbn [bind]. apply encode_labels_enc; auto.
Qed.

(* proof/ConfigProofs.v — proofs about model/Config.v (C49).

   Part A is generic: it holds for every schema and every pair (reset, post) of hooks.
     roundtrip_generic : a well-typed value whose structs are hook fixed points and whose omitted
                         fields all equal what load puts there is reproduced by decode (pr v)
     overlay_absent / overlay_present / overlay_print_iff : the per-field lemmas
   Part B instantiates it with the Prometheus schema. *)
From Coq Require Import List ZArith Bool String Lia.
From Verif Require Import model.Config.
Import ListNotations.
Open Scope Z_scope.
Open Scope list_scope.

(* ------------------------------------------------------------------ node induction, equality *)
Section NodeInd.
  Variable P : node -> Prop.
  Hypothesis Hint : forall z, P (NInt z).
  Hypothesis Hstr : forall s, P (NStr s).
  Hypothesis Hbool : forall b, P (NBool b).
  Hypothesis Hnull : P NNull.
  Hypothesis Hseq : forall l, Forall P l -> P (NSeq l).
  Hypothesis Hmap : forall m, Forall (fun kv => P (snd kv)) m -> P (NMap m).

  Fixpoint node_ind' (v : node) : P v :=
    match v with
    | NInt z => Hint z
    | NStr s => Hstr s
    | NBool b => Hbool b
    | NNull => Hnull
    | NSeq l => Hseq l ((fix go (l : list node) : Forall P l :=
                           match l with [] => Forall_nil _ | a :: r => Forall_cons _ (node_ind' a) (go r) end) l)
    | NMap m => Hmap m ((fix go (m : amap) : Forall (fun kv => P (snd kv)) m :=
                           match m with [] => Forall_nil _ | kv :: r => Forall_cons _ (node_ind' (snd kv)) (go r) end) m)
    end.
End NodeInd.

Lemma node_eqb_true : forall a b, node_eqb a b = true -> a = b.
Proof.
  induction a as [z|s|b0| |l IH|m IH] using node_ind'; intros b Hb; destruct b; simpl in Hb; try discriminate.
  - apply Z.eqb_eq in Hb. now subst.
  - apply String.eqb_eq in Hb. now subst.
  - apply Bool.eqb_prop in Hb. now subst.
  - reflexivity.
  - f_equal. revert l0 Hb. induction IH as [|a l Ha _ IHl]; intros [|b l0] Hb; try discriminate; auto.
    apply andb_true_iff in Hb as [H1 H2]. f_equal; auto.
  - f_equal. revert m0 Hb. induction IH as [|[k a] m Ha _ IHm]; intros [|[k' b] m0] Hb; try discriminate; auto.
    apply andb_true_iff in Hb as [H1 H2]. apply andb_true_iff in H1 as [H0 H1].
    apply String.eqb_eq in H0. subst. f_equal; auto. f_equal. now apply Ha.
Qed.

Lemma node_eqb_refl : forall a, node_eqb a a = true.
Proof.
  induction a as [z|s|b0| |l IH|m IH] using node_ind'; simpl.
  - apply Z.eqb_refl.
  - apply String.eqb_refl.
  - apply Bool.eqb_reflx.
  - reflexivity.
  - induction IH as [|a l Ha _ IHl]; auto. now rewrite Ha, IHl.
  - induction IH as [|[k a] m Ha _ IHm]; auto. simpl in Ha. now rewrite String.eqb_refl, Ha, IHm.
Qed.

(* ------------------------------------------------------------------ schema induction *)
Scheme ty_mut := Induction for ty Sort Prop
  with flds_mut := Induction for flds Sort Prop.
Combined Scheme ty_flds_ind from ty_mut, flds_mut.

Lemma lookup_app_notin : forall k p q, ~ In k (map fst p) -> lookup k (p ++ q) = lookup k q.
Proof.
  induction p as [|[k' v] p IH]; intros q Hn; simpl; auto.
  destruct (String.eqb k k') eqn:E.
  - apply String.eqb_eq in E. subst. exfalso. apply Hn. now left.
  - apply IH. intro. apply Hn. now right.
Qed.

Lemma mem_In : forall s l, mem s l = true <-> In s l.
Proof.
  unfold mem. intros. rewrite existsb_exists. split.
  - intros [x [Hi He]]. apply String.eqb_eq in He. now subst.
  - intros Hi. exists s. split; auto. apply String.eqb_refl.
Qed.

Lemma nodupb_NoDup : forall l, nodupb l = true -> NoDup l.
Proof.
  induction l as [|a l IH]; simpl; intros H; constructor.
  - apply andb_true_iff in H as [H _]. intro Hi. apply mem_In in Hi. now rewrite Hi in H.
  - apply IH. now apply andb_true_iff in H as [_ H].
Qed.

(* keys written by prs are keys of the schema *)
Lemma prs_keys : forall fs m k, In k (map fst (prs fs m)) -> In k (keys fs).
Proof.
  induction fs as [|k0 o t r IH]; intros m k Hin; simpl in *.
  - contradiction.
  - destruct m as [|[k' v] m']; simpl in Hin; [contradiction|].
    destruct (o && isz t v); simpl in Hin.
    + right. eauto.
    + destruct Hin as [<-|Hin]; [now left | right; eauto].
Qed.

Lemma pr_not_null : forall t v, wtb t v = true -> v <> NNull -> pr t v <> NNull.
Proof.
  induction t; intros v Hw Hn; destruct v; simpl in *; try congruence; try discriminate.
  - apply IHt; [exact Hw | discriminate].
  - apply IHt; [exact Hw | discriminate].
  - apply IHt; [exact Hw | discriminate].
  - apply IHt; [exact Hw | discriminate].
  - apply IHt; [exact Hw | discriminate].
Qed.

Section Generic.
  Variable reset : hook -> option node.
  Variable post : hook -> amap -> res amap.

  Notation decode := (decode reset post).
  Notation overlay := (overlay reset post).
  Notation fixedb := (fixedb post).
  Notation fixedsb := (fixedsb post).
  Notation losslessb := (losslessb reset).
  Notation losslesssb := (losslesssb reset).

  (* ---------------------------------------------------------------- per-field lemmas *)
  (* load of an absent key = the content of the base ("default absorbing") *)
  Lemma overlay_absent : forall fs bm m m',
      overlay fs bm m = Ok m' ->
      forall k, lookup k m = None -> lookup k m' = lookup k (combine (keys fs) (map snd bm)).
  Proof.
    induction fs as [|k0 o t r IH]; intros bm m m' Hov k Hk; destruct bm as [|[kb b] bm']; simpl in Hov; try discriminate.
    - now inversion Hov.
    - destruct (String.eqb k k0) eqn:E.
      + apply String.eqb_eq in E. subst k0. rewrite Hk in Hov. simpl in Hov.
        destruct (overlay r bm' m) eqn:Er; simpl in Hov; try discriminate.
        inversion Hov. subst. simpl. now rewrite String.eqb_refl.
      + destruct (match lookup k0 m with Some y => decode t b y | None => Ok b end); simpl in Hov; try discriminate.
        destruct (overlay r bm' m) eqn:Er; simpl in Hov; try discriminate.
        inversion Hov. subst. simpl. rewrite E. eapply IH; eauto.
  Qed.

  (* load of a present key = the decoded document value, started from the base content *)
  Lemma overlay_present : forall fs bm m m',
      NoDup (keys fs) ->
      overlay fs bm m = Ok m' ->
      forall k y, lookup k m = Some y -> In k (keys fs) ->
      exists t b v, lookup k (combine (keys fs) (map snd bm)) = Some b /\ decode t b y = Ok v /\ lookup k m' = Some v.
  Proof.
    induction fs as [|k0 o t r IH]; intros bm m m' Hnd Hov k y Hk Hin; destruct bm as [|[kb b] bm']; simpl in Hov; try discriminate.
    - destruct Hin.
    - inversion Hnd as [|? ? Hnot Hnd']. subst.
      destruct (String.eqb k k0) eqn:E.
      + apply String.eqb_eq in E. subst k0. rewrite Hk in Hov.
        destruct (decode t b y) eqn:Ed; simpl in Hov; try discriminate.
        destruct (overlay r bm' m) eqn:Er; simpl in Hov; try discriminate.
        inversion Hov. subst. exists t, b, a. simpl. now rewrite String.eqb_refl.
      + destruct (match lookup k0 m with Some y => decode t b y | None => Ok b end); simpl in Hov; try discriminate.
        destruct (overlay r bm' m) eqn:Er; simpl in Hov; try discriminate.
        inversion Hov. subst. simpl. rewrite E.
        destruct Hin as [->|Hin]; [rewrite String.eqb_refl in E; discriminate|].
        eapply IH; eauto.
  Qed.

  (* ---------------------------------------------------------------- the round trip *)
  (* overlay of the printed fields, for a suffix of the struct, with the already printed part p *)
  Definition field_ok (o : bool) (t : ty) (b v : node) : Prop :=
    if o && isz t v then b = v else decode t b (pr t v) = Ok v.

  Fixpoint fields_ok (fs : flds) (bm m : amap) : Prop :=
    match fs, bm, m with
    | FNil, [], [] => True
    | FCons k o t r, (_, b) :: bm', (k', v) :: m' => k' = k /\ field_ok o t b v /\ fields_ok r bm' m'
    | _, _, _ => False
    end.

  Lemma overlay_prs : forall fs bm m p,
      NoDup (keys fs) -> (forall k, In k (keys fs) -> ~ In k (map fst p)) ->
      fields_ok fs bm m ->
      overlay fs bm (p ++ prs fs m) = Ok m.
  Proof.
    induction fs as [|k o t r IH]; intros bm m p Hnd Hp Hok; destruct bm as [|[kb b] bm']; destruct m as [|[k' v] m']; simpl in Hok; try contradiction.
    - reflexivity.
    - destruct Hok as [-> [Hf Hok]]. inversion Hnd as [|? ? Hnot Hnd']. subst.
      simpl. unfold field_ok in Hf.
      destruct (o && isz t v) eqn:Eo.
      + subst b.
        rewrite lookup_app_notin by (apply Hp; now left).
        assert (lookup k (prs r m') = None) as ->.
        { destruct (lookup k (prs r m')) eqn:El; auto. exfalso. apply Hnot. apply (prs_keys r m').
          clear - El. induction (prs r m') as [|[k1 v1] q IHq]; simpl in *; try discriminate.
          destruct (String.eqb k k1) eqn:E; [apply String.eqb_eq in E; now left | right; auto]. }
        simpl. rewrite IH; auto. intros k1 Hk1. apply Hp. now right.
      + rewrite lookup_app_notin by (apply Hp; now left).
        simpl. rewrite String.eqb_refl. rewrite Hf. simpl.
        replace (p ++ (k, pr t v) :: prs r m') with ((p ++ [(k, pr t v)]) ++ prs r m') by (now rewrite <- app_assoc).
        rewrite IH; auto.
        intros k1 Hk1 Hin. rewrite map_app in Hin. apply in_app_or in Hin as [Hin|Hin].
        * apply (Hp k1); [now right | exact Hin].
        * simpl in Hin. destruct Hin as [<-|[]]. contradiction.
  Qed.

  (* and conversely: when every written field decodes back, the overlay reproduces the struct
     only if every omitted field already is what the base holds — a zero value that differs
     from the default must not be omitted *)
  Fixpoint omitted_agree (fs : flds) (bm m : amap) : Prop :=
    match fs, bm, m with
    | FCons k o t r, (_, b) :: bm', (_, v) :: m' => (o && isz t v = true -> b = v) /\ omitted_agree r bm' m'
    | _, _, _ => True
    end.
  Fixpoint present_ok (fs : flds) (bm m : amap) : Prop :=
    match fs, bm, m with
    | FNil, [], [] => True
    | FCons k o t r, (_, b) :: bm', (k', v) :: m' =>
        k' = k /\ (o && isz t v = false -> decode t b (pr t v) = Ok v) /\ present_ok r bm' m'
    | _, _, _ => False
    end.

  Lemma fields_ok_split : forall fs bm m, fields_ok fs bm m <-> present_ok fs bm m /\ omitted_agree fs bm m.
  Proof.
    induction fs as [|k o t r IH]; intros [|[kb b] bm'] [|[k' v] m']; simpl; try tauto.
    rewrite IH. unfold field_ok. destruct (o && isz t v); intuition congruence.
  Qed.

  Lemma overlay_prs_only_if : forall fs bm m p,
      NoDup (keys fs) -> (forall k, In k (keys fs) -> ~ In k (map fst p)) ->
      present_ok fs bm m ->
      overlay fs bm (p ++ prs fs m) = Ok m -> omitted_agree fs bm m.
  Proof.
    induction fs as [|k o t r IH]; intros bm m p Hnd Hp Hok Hov; destruct bm as [|[kb b] bm']; destruct m as [|[k' v] m']; simpl in Hok; try contradiction; simpl; auto.
    destruct Hok as [-> [Hf Hok]]. inversion Hnd as [|? ? Hnot Hnd']. subst.
    simpl in Hov.
    destruct (o && isz t v) eqn:Eo.
    - rewrite lookup_app_notin in Hov by (apply Hp; now left).
      assert (lookup k (prs r m') = None) as El.
      { destruct (lookup k (prs r m')) eqn:El; auto. exfalso. apply Hnot. apply (prs_keys r m').
        clear - El. induction (prs r m') as [|[k1 v1] q IHq]; simpl in *; try discriminate.
        destruct (String.eqb k k1) eqn:E; [apply String.eqb_eq in E; now left | right; auto]. }
      rewrite El in Hov. simpl in Hov.
      destruct (overlay r bm' (p ++ prs r m')) eqn:Er; simpl in Hov; try discriminate.
      inversion Hov. subst. split; auto.
      eapply IH; eauto. intros k1 Hk1. apply Hp. now right.
    - split; [discriminate|].
      rewrite lookup_app_notin in Hov by (apply Hp; now left).
      simpl in Hov. rewrite String.eqb_refl in Hov. rewrite (Hf eq_refl) in Hov. simpl in Hov.
      replace (p ++ (k, pr t v) :: prs r m') with ((p ++ [(k, pr t v)]) ++ prs r m') in Hov by (now rewrite <- app_assoc).
      destruct (overlay r bm' ((p ++ [(k, pr t v)]) ++ prs r m')) eqn:Er; simpl in Hov; try discriminate.
      inversion Hov. subst.
      eapply IH; eauto.
      intros k1 Hk1 Hin. rewrite map_app in Hin. apply in_app_or in Hin as [Hin|Hin].
      + apply (Hp k1); [now right | exact Hin].
      + simpl in Hin. destruct Hin as [<-|[]]. contradiction.
  Qed.

  Theorem overlay_print_iff : forall fs bm m,
      NoDup (keys fs) -> present_ok fs bm m ->
      (overlay fs bm (prs fs m) = Ok m <-> omitted_agree fs bm m).
  Proof.
    intros fs bm m Hnd Hp. split.
    - intro Hov. apply (overlay_prs_only_if fs bm m []); auto.
    - intro Ho. apply (overlay_prs fs bm m []); auto. apply fields_ok_split. auto.
  Qed.

  (* strictness: every printed key is a key of the type *)
  Lemma strict_prs : forall fs m,
      forallb (fun kv => existsb (String.eqb (fst kv)) (keys fs)) (prs fs m) = true.
  Proof.
    intros fs m. apply forallb_forall. intros [k v] Hin. simpl.
    apply (mem_In k (keys fs)). apply (prs_keys fs m). apply in_map_iff. exists (k, v). auto.
  Qed.

  Lemma wtsb_keys : forall fs m, wtsb fs m = true -> map fst m = keys fs.
  Proof.
    induction fs as [|k o t r IH]; intros [|[k' v] m'] H; simpl in *; try discriminate; auto.
    apply andb_true_iff in H as [H H2]. apply andb_true_iff in H as [H0 H1].
    apply String.eqb_eq in H0. subst. f_equal. auto.
  Qed.

  Lemma ptr_nn_wtb : forall t v, v <> NNull -> wtb (TPtr t) v = wtb t v.
  Proof. intros t v H. destruct v; try reflexivity. congruence. Qed.
  Lemma ptr_nn_fixedb : forall t v, v <> NNull -> fixedb (TPtr t) v = fixedb t v.
  Proof. intros t v H. destruct v; try reflexivity. congruence. Qed.
  Lemma ptr_nn_losslessb : forall t cur v, v <> NNull ->
    losslessb (TPtr t) cur v = losslessb t (match cur with NNull => zero t | _ => cur end) v.
  Proof. intros t cur v H. destruct v; try reflexivity. congruence. Qed.
  Lemma ptr_nn_pr : forall t v, v <> NNull -> pr (TPtr t) v = pr t v.
  Proof. intros t v H. destruct v; try reflexivity. congruence. Qed.
  Lemma ptr_nn_decode : forall t cur y, y <> NNull ->
    decode (TPtr t) cur y = decode t (match cur with NNull => zero t | _ => cur end) y.
  Proof. intros t cur y H. destruct y; try reflexivity. congruence. Qed.

  Definition P_ty (t : ty) : Prop :=
    forall cur v, nodup_keys t = true -> wtb t v = true -> fixedb t v = true -> losslessb t cur v = true ->
                  decode t cur (pr t v) = Ok v.
  Definition P_flds (fs : flds) : Prop :=
    forall bm m, nodup_keyss fs = true -> wtsb fs m = true -> wtsb fs bm = true ->
                 fixedsb fs m = true -> losslesssb fs bm m = true -> fields_ok fs bm m.

  Lemma roundtrip_mut : (forall t, P_ty t) /\ (forall fs, P_flds fs).
  Proof.
    apply ty_flds_ind; unfold P_ty, P_flds.
    - (* TInt *) intros cur v _ Hw _ _. destruct v; simpl in *; try discriminate; reflexivity.
    - (* TStr *) intros cur v _ Hw _ _. destruct v; simpl in *; try discriminate; reflexivity.
    - (* TBool *) intros cur v _ Hw _ _. destruct v; simpl in *; try discriminate; reflexivity.
    - (* TRegex *) intros cur v _ Hw _ Hl. destruct v; simpl in *; try discriminate; try reflexivity.
      destruct cur; simpl in Hl; try discriminate; reflexivity.
    - (* TPtr *) intros t IH cur v Hnd Hw Hf Hl.
      destruct (is_null v) eqn:En.
      + destruct v; try discriminate. reflexivity.
      + assert (Hv : v <> NNull) by (intro; subst; discriminate).
        rewrite (ptr_nn_wtb t v Hv) in Hw. rewrite (ptr_nn_fixedb t v Hv) in Hf.
        rewrite (ptr_nn_losslessb t cur v Hv) in Hl. rewrite (ptr_nn_pr t v Hv).
        rewrite ptr_nn_decode by (now apply pr_not_null).
        now apply IH.
    - (* TSeq *) intros t IH cur v Hnd Hw Hf Hl.
      destruct v; simpl in Hw; try discriminate. simpl.
      assert (Hgo : (fix go (l : list node) : res (list node) :=
                       match l with
                       | [] => Ok []
                       | e :: r => bind (decode t (zero t) e) (fun e' => bind (go r) (fun r' => Ok (e' :: r')))
                       end) (map (pr t) l) = Ok l).
      { simpl in Hf, Hl. induction l as [|a l IHl]; auto.
        simpl in *. apply andb_true_iff in Hw as [Hw1 Hw2]. apply andb_true_iff in Hf as [Hf1 Hf2].
        apply andb_true_iff in Hl as [Hl1 Hl2].
        rewrite (IH (zero t) a Hnd Hw1 Hf1 Hl1). simpl. rewrite IHl; auto. }
      rewrite Hgo. reflexivity.
    - (* TRec *) intros h fs IH cur v Hnd Hw Hf Hl.
      destruct v; simpl in Hw; try discriminate. simpl in Hnd, Hf, Hl. simpl.
      apply andb_true_iff in Hnd as [Hnd1 Hnd2]. apply andb_true_iff in Hf as [Hf1 Hf2].
      unfold base_of in Hl.
      destruct (match reset h with Some d => d | None => cur end) as [| | | | |bm]; try discriminate.
      apply andb_true_iff in Hl as [Hl1 Hl2].
      rewrite strict_prs.
      pose proof (overlay_prs fs bm m [] (nodupb_NoDup _ Hnd1) (fun _ _ H => H)
                    (IH bm m Hnd2 Hw Hl1 Hf2 Hl2)) as Hov.
      simpl in Hov. rewrite Hov. simpl.
      unfold res_is in Hf1. destruct (post h m) as [m2|]; try discriminate.
      apply node_eqb_true in Hf1. inversion Hf1. reflexivity.
    - (* FNil *) intros [|] [|]; simpl; intros; try discriminate; auto.
    - (* FCons *) intros k o t IHt r IHr bm m Hnd Hw Hwb Hf Hl.
      destruct bm as [|[kb b] bm']; destruct m as [|[k' v] m']; simpl in *; try discriminate.
      apply andb_true_iff in Hnd as [Hnd1 Hnd2].
      apply andb_true_iff in Hw as [Hw Hw3]. apply andb_true_iff in Hw as [Hw1 Hw2].
      apply andb_true_iff in Hwb as [Hwb Hwb3].
      apply andb_true_iff in Hf as [Hf1 Hf2]. apply andb_true_iff in Hl as [Hl1 Hl2].
      apply String.eqb_eq in Hw1. subst k'. split; [reflexivity|]. split; [|apply IHr; auto].
      unfold field_ok. destruct (o && isz t v).
      + now apply node_eqb_true.
      + apply IHt; auto.
  Qed.

  Theorem roundtrip_generic : forall t cur v,
      nodup_keys t = true -> wtb t v = true -> fixedb t v = true -> losslessb t cur v = true ->
      decode t cur (pr t v) = Ok v.
  Proof. exact (proj1 roundtrip_mut). Qed.
End Generic.

(* ================================================================== part B: Prometheus *)
Open Scope string_scope.

Theorem roundtrip_config : forall c, valid c = true -> lossless c = true -> load (print c) = Ok c.
Proof.
  intros c Hv Hl. unfold valid in Hv. apply andb_true_iff in Hv as [Hv Hf]. apply andb_true_iff in Hv as [Hn Hw].
  unfold load, print. now apply roundtrip_generic.
Qed.

Theorem roundtrip_config_print : forall c, valid c = true -> lossless c = true ->
  exists c', load (print c) = Ok c' /\ c' = c /\ print c' = print c.
Proof. intros c Hv Hl. exists c. repeat split. now apply roundtrip_config. Qed.

(* --- the witness: remote_read with filter_external_labels: false *)
Definition doc_rr_filter : node :=
  NMap [("remote_read", NSeq [NMap [("url", NStr "http://x/"); ("filter_external_labels", NBool false)]])].
Definition cfg_rr_filter : node :=
  match load doc_rr_filter with Ok c => c | Err _ => NNull end.

Lemma refuted_witness :
  load doc_rr_filter = Ok cfg_rr_filter /\ valid cfg_rr_filter = true /\
  lossless cfg_rr_filter = false /\
  lossy_fields cfg_rr_filter = [".remote_read.filter_external_labels"] /\
  (exists c2, load (print cfg_rr_filter) = Ok c2 /\ node_eqb c2 cfg_rr_filter = false /\
              load (print c2) = Ok c2).
Proof.
  split; [vm_compute; reflexivity|]. split; [vm_compute; reflexivity|].
  split; [vm_compute; reflexivity|]. split; [vm_compute; reflexivity|].
  eexists. split; [vm_compute; reflexivity|]. split; vm_compute; reflexivity.
Qed.

Theorem roundtrip_refuted :
  exists doc c, load doc = Ok c /\ valid c = true /\ load (print c) <> Ok c.
Proof.
  exists doc_rr_filter, cfg_rr_filter.
  destruct refuted_witness as [H1 [H2 [_ [_ [c2 [H3 [H4 _]]]]]]].
  split; [exact H1|]. split; [exact H2|].
  rewrite H3. clear H1 H2 H3. intro He. injection He as Heq. rewrite Heq in H4.
  rewrite node_eqb_refl in H4. discriminate H4.
Qed.

(* --- non-vacuity: a configuration with global overrides, two scrape configs (relabeling with an
   explicit empty separator / replacement, HTTP flags false), remote write with queue and
   metadata settings, remote read, alerting, storage and otlp sections is valid and lossless *)
Definition doc_example : node :=
  NMap [("global", NMap [("scrape_interval", NInt (15 * second)); ("sample_limit", NInt 100);
                         ("metric_name_validation_scheme", NStr "legacy")]);
        ("runtime", NMap [("gogc", NInt 0)]);
        ("alerting", NMap [("alertmanagers", NSeq [NMap [("scheme", NStr "https"); ("timeout", NInt (5 * second))]])]);
        ("rule_files", NSeq [NStr "rules/*.yml"]);
        ("scrape_configs", NSeq [
           NMap [("job_name", NStr "a"); ("scrape_timeout", NInt (5 * second)); ("follow_redirects", NBool false);
                 ("honor_timestamps", NBool false); ("sample_limit", NInt 0);
                 ("relabel_configs", NSeq [NMap [("source_labels", NSeq [NStr "x"]); ("separator", NStr "");
                                                 ("regex", NStr "(.*)"); ("target_label", NStr "y");
                                                 ("replacement", NStr "")];
                                           NMap [("action", NStr "labeldrop"); ("regex", NStr "tmp_.*")]])];
           NMap [("job_name", NStr "b"); ("scrape_native_histograms", NBool true);
                 ("metric_name_validation_scheme", NStr "utf8")]]);
        ("storage", NMap [("tsdb", NMap [("out_of_order_time_window", NInt (30 * minute))]);
                          ("exemplars", NMap [("max_exemplars", NInt 0)])]);
        ("remote_write", NSeq [NMap [("url", NStr "http://r/w"); ("queue_config", NMap [("max_shards", NInt 10)]);
                                     ("metadata_config", NMap [("send", NBool false)])]]);
        ("remote_read", NSeq [NMap [("url", NStr "http://r/r"); ("read_recent", NBool true)]]);
        ("otlp", NMap [("promote_resource_attributes", NSeq [NStr "service.name"]);
                       ("translation_strategy", NStr "NoUTF8EscapingWithSuffixes")])].
(* (the OTLP strategy above is rejected with legacy validation; the example uses utf8 globally) *)
Definition doc_example_ok : node :=
  match doc_example with
  | NMap ((g, NMap gm) :: r) => NMap ((g, NMap (firstn 2 gm)) :: r)
  | d => d
  end.
Definition cfg_example : node := match load doc_example_ok with Ok c => c | Err _ => NNull end.

Lemma example_valid_lossless :
  load doc_example_ok = Ok cfg_example /\ valid cfg_example = true /\ lossless cfg_example = true /\
  load doc_example = Err (EInvalid 85) /\
  (* inherited / defaulted values, to show the example is not degenerate *)
  (exists scs, lookup "scrape_configs" (match cfg_example with NMap m => m | _ => [] end) = Some (NSeq scs) /\
               map (fun s => match s with NMap m => (geti "scrape_interval" m, geti "sample_limit" m, getl "scrape_protocols" m) | _ => (0, 0, []) end) scs
               = [(15 * second, 100, d_protocols); (15 * second, 100, NStr "PrometheusProto" :: d_protocols)]).
Proof.
  split; [vm_compute; reflexivity|]. split; [vm_compute; reflexivity|]. split; [vm_compute; reflexivity|].
  split; [vm_compute; reflexivity|]. eexists. split; vm_compute; reflexivity.
Qed.
(* ------------------------------------------------------------------ idempotence, check-only hooks *)
Open Scope list_scope.
Section Idem.
  Variable reset : hook -> option node.
  Variable post : hook -> amap -> res amap.

  Notation decode := (decode reset post).
  Notation overlay := (overlay reset post).
  Notation fixedb := (fixedb post).
  Notation fixedsb := (fixedsb post).
  Notation losslessb := (losslessb reset).
  Notation losslesssb := (losslesssb reset).

  (* every hook occurring in t only checks: it returns its argument or an error *)
  Fixpoint check_only (t : ty) : Prop :=
    match t with
    | TPtr t' => check_only t'
    | TSeq t' => check_only t'
    | TRec h fs => (forall m m', post h m = Ok m' -> m' = m) /\ check_onlys fs
    | _ => True
    end
  with check_onlys (fs : flds) : Prop :=
    match fs with FNil => True | FCons _ _ t r => check_only t /\ check_onlys r end.

  (* the values a field can start from (reset values, their fields, zero values of slice
     elements and of freshly allocated pointees) are themselves valid and self-lossless *)
  Definition good (t : ty) (b : node) : bool := wtb t b && fixedb t b && losslessb t b b.
  Fixpoint bases_ok (t : ty) (cur : node) : bool :=
    match t with
    | TRegex => good t cur
    | TPtr t' => bases_ok t' (match cur with NNull => zero t' | _ => cur end)
    | TSeq t' => bases_ok t' (zero t')
    | TRec h fs =>
        match base_of reset h cur with
        | NMap bm => wtsb fs bm && bases_oks fs bm
        | _ => false
        end
    | _ => true
    end
  with bases_oks (fs : flds) (bm : amap) : bool :=
    match fs, bm with
    | FNil, [] => true
    | FCons _ _ t r, (_, b) :: bm' => good t b && bases_ok t b && bases_oks r bm'
    | _, _ => false
    end.

  Definition Q_ty (t : ty) : Prop :=
    forall cur v v1, nodup_keys t = true -> check_only t -> bases_ok t cur = true -> wtb t v = true ->
      decode t cur (pr t v) = Ok v1 ->
      wtb t v1 = true /\ fixedb t v1 = true /\ losslessb t cur v1 = true /\
      (isz t v1 = true -> isz t v = true) /\ (v <> NNull -> v1 <> NNull).
  Definition Q_flds (fs : flds) : Prop :=
    forall bm m m1 p, nodup_keyss fs = true -> NoDup (keys fs) ->
      (forall k, In k (keys fs) -> ~ In k (map fst p)) ->
      check_onlys fs -> bases_oks fs bm = true -> wtsb fs bm = true -> wtsb fs m = true ->
      overlay fs bm (p ++ prs fs m) = Ok m1 ->
      wtsb fs m1 = true /\ fixedsb fs m1 = true /\ losslesssb fs bm m1 = true /\
      (iszs fs m1 = true -> iszs fs m = true).

  Lemma good_parts : forall t b, good t b = true -> wtb t b = true /\ fixedb t b = true /\ losslessb t b b = true.
  Proof. unfold good. intros t b H. apply andb_true_iff in H as [H H3]. apply andb_true_iff in H as [H1 H2]. auto. Qed.

  Lemma lookup_prs_notin : forall r m k, ~ In k (keys r) -> lookup k (prs r m) = None.
  Proof.
    intros r m k Hn. destruct (lookup k (prs r m)) eqn:El; auto. exfalso. apply Hn. apply (prs_keys r m).
    clear - El. induction (prs r m) as [|[k1 v1] q IHq]; simpl in *; try discriminate.
    destruct (String.eqb k k1) eqn:E; [apply String.eqb_eq in E; now left | right; auto].
  Qed.

  Lemma idem_mut : (forall t, Q_ty t) /\ (forall fs, Q_flds fs).
  Proof.
    apply ty_flds_ind; unfold Q_ty, Q_flds.
    - (* TInt *) intros cur v v1 _ _ _ Hw Hd. destruct v; simpl in *; try discriminate. inversion Hd. subst. simpl. repeat split; auto; discriminate.
    - intros cur v v1 _ _ _ Hw Hd. destruct v; simpl in *; try discriminate. inversion Hd. subst. simpl. repeat split; auto; discriminate.
    - intros cur v v1 _ _ _ Hw Hd. destruct v; simpl in *; try discriminate. inversion Hd. subst. simpl. repeat split; auto; discriminate.
    - (* TRegex *) intros cur v v1 _ _ Hb Hw Hd. destruct v; simpl in *; try discriminate; inversion Hd; subst.
      + simpl. repeat split; auto; discriminate.
      + simpl in Hb. apply good_parts in Hb as [Hb1 [Hb2 Hb3]].
        repeat split; auto; try congruence.
    - (* TPtr *) intros t IH cur v v1 Hnd Hc Hb Hw Hd.
      destruct (is_null v) eqn:En.
      + destruct v; try discriminate. simpl in Hd. inversion Hd. subst. simpl. repeat split; auto.
      + assert (Hv : v <> NNull) by (intro; subst; discriminate).
        rewrite (ptr_nn_wtb t v Hv) in Hw. rewrite (ptr_nn_pr t v Hv) in Hd.
        rewrite ptr_nn_decode in Hd by (now apply pr_not_null).
        simpl in Hb.
        destruct (IH _ v v1 Hnd Hc Hb Hw Hd) as [H1 [H2 [H3 [H4 H5]]]].
        specialize (H5 Hv).
        rewrite (ptr_nn_wtb t v1 H5), (ptr_nn_fixedb post t v1 H5), (ptr_nn_losslessb reset t cur v1 H5).
        repeat split; auto.
        intro Hz. destruct v1; simpl in Hz; try discriminate. congruence.
    - (* TSeq *) intros t IH cur v v1 Hnd Hc Hb Hw Hd.
      destruct v; simpl in Hw; try discriminate. simpl in Hd.
      simpl in Hb.
      match type of Hd with bind (?g _) _ = _ => set (go := g) in * end.
      assert (Hgo : forall xs ys, forallb (wtb t) xs = true -> go (map (pr t) xs) = Ok ys ->
                 forallb (wtb t) ys = true /\ forallb (fixedb t) ys = true /\
                 forallb (losslessb t (zero t)) ys = true /\ List.length ys = List.length xs).
      { induction xs as [|a l0 IHl]; intros l1 Hwl Hg; simpl in Hg.
        - inversion Hg. simpl. auto.
        - simpl in Hwl. apply andb_true_iff in Hwl as [Hwa Hwl].
          destruct (decode t (zero t) (pr t a)) eqn:Ea; simpl in Hg; try discriminate.
          destruct (go (map (pr t) l0)) eqn:Eg; simpl in Hg; try discriminate.
          inversion Hg. subst.
          destruct (IH _ a a0 Hnd Hc Hb Hwa Ea) as [H1 [H2 [H3 _]]].
          destruct (IHl _ Hwl eq_refl) as [G1 [G2 [G3 G4]]].
          simpl. rewrite H1, H2, H3, G1, G2, G3, G4. auto. }
      destruct (go (map (pr t) l)) eqn:Eg; simpl in Hd; try discriminate. inversion Hd. subst.
      destruct (Hgo l a Hw Eg) as [G1 [G2 [G3 G4]]].
      simpl. repeat split; auto; try discriminate.
      intro Hz. destruct a; try discriminate. destruct l; simpl in G4; try discriminate. reflexivity.
    - (* TRec *) intros h fs IH cur v v1 Hnd Hc Hb Hw Hd.
      destruct v; simpl in Hw; try discriminate. simpl in Hd, Hnd, Hc, Hb.
      apply andb_true_iff in Hnd as [Hnd1 Hnd2]. destruct Hc as [Hc1 Hc2].
      unfold base_of in Hb.
      destruct (match reset h with Some d => d | None => cur end) as [| | | | |bm] eqn:Eb; try discriminate.
      apply andb_true_iff in Hb as [Hwb Hb].
      rewrite strict_prs in Hd.
      destruct (overlay fs bm (prs fs m)) as [m1|] eqn:Eo; simpl in Hd; try discriminate.
      destruct (post h m1) as [m2|] eqn:Ep; simpl in Hd; try discriminate.
      inversion Hd. subst v1. apply Hc1 in Ep as Heq. subst m2.
      destruct (IH bm m m1 [] Hnd2 (nodupb_NoDup _ Hnd1) (fun _ _ H => H) Hc2 Hb Hwb Hw Eo) as [H1 [H2 [H3 H4]]].
      simpl. unfold base_of. rewrite Eb, Ep. unfold res_is. rewrite node_eqb_refl. rewrite H1, H2, H3, Hwb.
      repeat split; auto; discriminate.
    - (* FNil *) intros bm m m1 p _ _ _ _ Hb _ Hw Ho. destruct bm; destruct m; simpl in *; try discriminate.
      inversion Ho. simpl. auto.
    - (* FCons *) intros k o t IHt r IHr bm m m1 p Hnd HND Hp Hc Hb Hwb Hw Ho.
      destruct bm as [|[kb b] bm']; destruct m as [|[k' v] m']; simpl in Hb, Hwb, Hw; try discriminate.
      simpl in Hnd, Hc. apply andb_true_iff in Hnd as [Hnd1 Hnd2]. destruct Hc as [Hc1 Hc2].
      apply andb_true_iff in Hb as [Hb1 Hb2]. apply andb_true_iff in Hb1 as [Hb0 Hb1].
      apply andb_true_iff in Hw as [Hw Hw3]. apply andb_true_iff in Hw as [Hw1 Hw2].
      apply andb_true_iff in Hwb as [Hwb Hwb3]. apply andb_true_iff in Hwb as [Hwb1 Hwb2].
      inversion HND as [|? ? Hnot HND']. subst.
      simpl in Ho.
      destruct (o && isz t v) eqn:Eom.
      + rewrite lookup_app_notin in Ho by (apply Hp; now left).
        rewrite lookup_prs_notin in Ho by exact Hnot. simpl in Ho.
        destruct (overlay r bm' (p ++ prs r m')) as [rest|] eqn:Er; simpl in Ho; try discriminate.
        inversion Ho. subst m1.
        destruct (IHr bm' m' rest p Hnd2 HND' (fun k1 H1 => Hp k1 (or_intror H1)) Hc2 Hb2 Hwb3 Hw3 Er) as [H1 [H2 [H3 H4]]].
        apply good_parts in Hb0 as [G1 [G2 G3]].
        apply andb_true_iff in Eom as [Eo1 Eo2]. subst o.
        simpl. rewrite String.eqb_refl, G1, G2, H1, H2, H3. simpl.
        repeat split; auto.
        * destruct (isz t b); [now rewrite node_eqb_refl | now rewrite G3].
        * intro Hz. apply andb_true_iff in Hz as [_ Hz]. rewrite Eo2. simpl. auto.
      + rewrite lookup_app_notin in Ho by (apply Hp; now left).
        simpl in Ho. rewrite String.eqb_refl in Ho.
        destruct (decode t b (pr t v)) as [v1|] eqn:Ed; simpl in Ho; try discriminate.
        replace (p ++ (k, pr t v) :: prs r m') with ((p ++ [(k, pr t v)]) ++ prs r m') in Ho by (now rewrite <- app_assoc).
        destruct (overlay r bm' ((p ++ [(k, pr t v)]) ++ prs r m')) as [rest|] eqn:Er; simpl in Ho; try discriminate.
        inversion Ho. subst m1.
        assert (Hp' : forall k1, In k1 (keys r) -> ~ In k1 (map fst (p ++ [(k, pr t v)]))).
        { intros k1 Hk1 Hin. rewrite map_app in Hin. apply in_app_or in Hin as [Hin|Hin].
          - apply (Hp k1); [now right | exact Hin].
          - simpl in Hin. destruct Hin as [<-|[]]. contradiction. }
        destruct (IHr bm' m' rest _ Hnd2 HND' Hp' Hc2 Hb2 Hwb3 Hw3 Er) as [H1 [H2 [H3 H4]]].
        destruct (IHt b v v1 Hnd1 Hc1 Hb1 Hw2 Ed) as [G1 [G2 [G3 [G4 G5]]]].
        simpl. rewrite String.eqb_refl, G1, G2, H1, H2, H3. simpl.
        repeat split; auto.
        * destruct (o && isz t v1) eqn:E1; [|now rewrite G3].
          apply andb_true_iff in E1 as [-> E1]. rewrite (G4 E1) in Eom. discriminate.
        * intro Hz. apply andb_true_iff in Hz as [Hz1 Hz2]. rewrite (G4 Hz1). simpl. auto.
  Qed.

  (* load∘print is idempotent on every well-typed value when the hooks only check *)
  Theorem idempotent_check_only : forall t cur v v1,
      nodup_keys t = true -> check_only t -> bases_ok t cur = true -> wtb t v = true ->
      decode t cur (pr t v) = Ok v1 -> decode t cur (pr t v1) = Ok v1.
  Proof.
    intros t cur v v1 Hnd Hc Hb Hw Hd.
    destruct (proj1 idem_mut t cur v v1 Hnd Hc Hb Hw Hd) as [H1 [H2 [H3 _]]].
    now apply roundtrip_generic.
  Qed.
End Idem.

(* ------------------------------------------------------------------ the check-only sections *)
Open Scope string_scope.

Lemma bind_unit : forall (r : res unit) (k : res amap) x, bind r (fun _ => k) = Ok x -> k = Ok x.
Proof. intros [[]|e] k x H; simpl in H; [exact H | discriminate]. Qed.

Ltac chk H := repeat (apply bind_unit in H); inversion H; reflexivity.

Lemma co_plain : forall m m', post HPlain m = Ok m' -> m' = m.
Proof. intros m m' H. simpl in H. now inversion H. Qed.
Lemma co_relabel : forall m m', post HRelabel m = Ok m' -> m' = m.
Proof. intros m m' H. simpl in H. now inversion H. Qed.
Lemma co_scrape : forall m m', post HScrape m = Ok m' -> m' = m.
Proof. intros m m' H. simpl in H. unfold post_scrape in H. chk H. Qed.
Lemma co_alerting : forall m m', post HAlerting m = Ok m' -> m' = m.
Proof. intros m m' H. simpl in H. unfold post_alerting in H. chk H. Qed.
Lemma co_am : forall m m', post HAM m = Ok m' -> m' = m.
Proof. intros m m' H. simpl in H. unfold post_am in H. chk H. Qed.
Lemma co_rw : forall m m', post HRW m = Ok m' -> m' = m.
Proof. intros m m' H. simpl in H. unfold post_rw in H. chk H. Qed.
Lemma co_rr : forall m m', post HRR m = Ok m' -> m' = m.
Proof. intros m m' H. simpl in H. unfold post_rr in H. chk H. Qed.
Lemma co_retention : forall m m', post HRetention m = Ok m' -> m' = m.
Proof. intros m m' H. simpl in H. unfold post_retention in H. chk H. Qed.
Lemma co_otlp : forall m m', post HOtlp m = Ok m' -> m' = m.
Proof. intros m m' H. simpl in H. unfold post_otlp in H. destruct (getb _ m); chk H. Qed.

(* the sections of the configuration all of whose hooks only check, with the content load
   starts them from (their entry in DefaultConfig) *)
Definition check_only_sections : list (ty * node) :=
  [ (TSeq (TPtr rr_ty), NSeq []);            (* remote_read *)
    (TSeq (TPtr rw_ty), NSeq []);            (* remote_write, incl. queue_config / metadata_config *)
    (alerting_ty, NMap (zeros alerting_fs)); (* alerting: alertmanagers and relabel rules *)
    (otlp_ty, NMap d_otlp);                  (* otlp *)
    (TSeq (TPtr scrape_ty), NSeq []);        (* scrape_configs as ScrapeConfig.UnmarshalYAML leaves them (before Validate) *)
    (relabel_seq, NSeq []);
    (TSeq TStr, NSeq []) ].                  (* rule_files, scrape_config_files *)

Lemma sections_check_only : forall t cur, In (t, cur) check_only_sections ->
  nodup_keys t = true /\ check_only post t /\ bases_ok reset post t cur = true.
Proof.
  intros t cur Hin. simpl in Hin.
  repeat (destruct Hin as [Hin|Hin]; [inversion Hin; subst; clear Hin|]); try contradiction;
    (split; [vm_compute; reflexivity|]; split; [|vm_compute; reflexivity]);
    simpl; repeat split; auto using co_plain, co_relabel, co_scrape, co_alerting, co_am, co_rw, co_rr, co_retention, co_otlp.
Qed.

Theorem idempotent_sections : forall t cur, In (t, cur) check_only_sections ->
  forall v v1, wtb t v = true ->
  decode reset post t cur (pr t v) = Ok v1 -> decode reset post t cur (pr t v1) = Ok v1.
Proof.
  intros t cur Hin v v1 Hw Hd. destruct (sections_check_only t cur Hin) as [H1 [H2 H3]].
  eapply idempotent_check_only; eauto.
Qed.

(* non-vacuity: a remote_read list whose first reload differs (the lossy witness) is covered *)
Example idempotent_sections_example :
  exists v v1, wtb (TSeq (TPtr rr_ty)) v = true /\
               decode reset post (TSeq (TPtr rr_ty)) (NSeq []) (pr (TSeq (TPtr rr_ty)) v) = Ok v1 /\
               node_eqb v v1 = false.
Proof.
  exists (NSeq [NMap (setf "filter_external_labels" (NBool false) (setf "url" (NStr "http://x/") d_rr))]).
  eexists. split; [vm_compute; reflexivity|]. split; vm_compute; reflexivity.
Qed.

(* ------------------------------------------------------------------ where losses can happen *)
Open Scope list_scope.
Section Risky.
  Variable reset : hook -> option node.

  (* the omitempty fields whose load-time base is not zero: the only places where print can
     drop information *)
  Fixpoint risky (t : ty) (cur : node) (path : string) : list string :=
    match t with
    | TPtr t' => risky t' (match cur with NNull => zero t' | _ => cur end) path
    | TSeq t' => risky t' (zero t') path
    | TRec h fs =>
        match base_of reset h cur with
        | NMap bm => riskys fs bm path
        | _ => []
        end
    | _ => []
    end
  with riskys (fs : flds) (bm : amap) (path : string) : list string :=
    match fs, bm with
    | FCons k omit t r, (_, b) :: bm' =>
        (if omit && negb (isz t b) then [(path ++ "." ++ k)%string] else [])
        ++ risky t b (path ++ "." ++ k)%string ++ riskys r bm' path
    | _, _ => []
    end.

  (* all bases are well-typed *)
  Fixpoint bases_wt (t : ty) (cur : node) : bool :=
    match t with
    | TPtr t' => bases_wt t' (match cur with NNull => zero t' | _ => cur end)
    | TSeq t' => bases_wt t' (zero t')
    | TRec h fs =>
        match base_of reset h cur with
        | NMap bm => wtsb fs bm && bases_wts fs bm
        | _ => false
        end
    | _ => true
    end
  with bases_wts (fs : flds) (bm : amap) : bool :=
    match fs, bm with
    | FNil, [] => true
    | FCons _ _ t r, (_, b) :: bm' => wtb t b && bases_wt t b && bases_wts r bm'
    | _, _ => false
    end.
End Risky.

(* a type has one well-typed zero value *)
Lemma isz_unique_mut :
  (forall t a b, wtb t a = true -> wtb t b = true -> isz t a = true -> isz t b = true -> a = b) /\
  (forall fs a b, wtsb fs a = true -> wtsb fs b = true -> iszs fs a = true -> iszs fs b = true -> a = b).
Proof.
  apply ty_flds_ind.
  - intros a b Ha Hb Za Zb. destruct a, b; simpl in *; try discriminate. apply Z.eqb_eq in Za, Zb. congruence.
  - intros a b Ha Hb Za Zb. destruct a, b; simpl in *; try discriminate. apply String.eqb_eq in Za, Zb. congruence.
  - intros a b Ha Hb Za Zb. destruct a, b; simpl in *; try discriminate. destruct b0, b; simpl in *; try discriminate; reflexivity.
  - intros a b Ha Hb Za Zb. destruct a, b; simpl in *; try discriminate; reflexivity.
  - intros t IH a b Ha Hb Za Zb. destruct a, b; simpl in *; try discriminate; reflexivity.
  - intros t IH a b Ha Hb Za Zb. destruct a as [| | | |[|]|], b as [| | | |[|]|]; simpl in *; try discriminate; reflexivity.
  - intros h fs IH a b Ha Hb Za Zb. destruct a, b; simpl in *; try discriminate. f_equal. now apply IH.
  - intros a b Ha Hb Za Zb. destruct a, b; simpl in *; try discriminate; reflexivity.
  - intros k o t IHt r IHr a b Ha Hb Za Zb.
    destruct a as [|[ka va] a], b as [|[kb vb] b]; simpl in *; try discriminate.
    apply andb_true_iff in Ha as [Ha Ha3]. apply andb_true_iff in Ha as [Ha1 Ha2].
    apply andb_true_iff in Hb as [Hb Hb3]. apply andb_true_iff in Hb as [Hb1 Hb2].
    apply andb_true_iff in Za as [Za1 Za2]. apply andb_true_iff in Zb as [Zb1 Zb2].
    apply String.eqb_eq in Ha1, Hb1. subst. f_equal; [f_equal|]; auto.
Qed.

Section RiskyThm.
  Variable reset : hook -> option node.
  Notation lossy := (lossy reset).
  Notation lossys := (lossys reset).
  Notation risky := (risky reset).
  Notation riskys := (riskys reset).
  Notation bases_wt := (bases_wt reset).
  Notation bases_wts := (bases_wts reset).

  Lemma lossy_in_risky_mut :
    (forall t cur v path x, bases_wt t cur = true -> wtb t v = true ->
        In x (lossy t cur v path) -> In x (risky t cur path)) /\
    (forall fs bm m path x, bases_wts fs bm = true -> wtsb fs m = true ->
        In x (lossys fs bm m path) -> In x (riskys fs bm path)).
  Proof.
    apply ty_flds_ind.
    - intros cur v path x _ _ H. destruct v; simpl in H; contradiction.
    - intros cur v path x _ _ H. destruct v; simpl in H; contradiction.
    - intros cur v path x _ _ H. destruct v; simpl in H; contradiction.
    - intros cur v path x _ _ H. destruct v; simpl in H; contradiction.
    - intros t IH cur v path x Hb Hw H. simpl in Hb. simpl.
      destruct v; simpl in H, Hw; try contradiction; eapply IH; eauto.
    - intros t IH cur v path x Hb Hw H. simpl in Hb. simpl.
      destruct v; simpl in H, Hw; try contradiction.
      apply in_flat_map in H as [e [He Hx]].
      eapply IH; eauto. eapply forallb_forall in Hw; eauto.
    - intros h fs IH cur v path x Hb Hw H. simpl in Hb. simpl.
      destruct v; simpl in H, Hw; try contradiction.
      destruct (base_of reset h cur); try contradiction.
      apply andb_true_iff in Hb as [_ Hb]. eapply IH; eauto.
    - intros bm m path x _ _ H. destruct bm, m; simpl in H; contradiction.
    - intros k o t IHt r IHr bm m path x Hb Hw H.
      destruct bm as [|[kb b] bm'], m as [|[k' v] m']; simpl in H, Hb, Hw; try contradiction; try discriminate.
      apply andb_true_iff in Hb as [Hb Hb3]. apply andb_true_iff in Hb as [Hb1 Hb2].
      apply andb_true_iff in Hw as [Hw Hw3]. apply andb_true_iff in Hw as [Hw1 Hw2].
      simpl. apply in_app_or in H as [H|H].
      + destruct (o && isz t v) eqn:Eo.
        * destruct (node_eqb b v) eqn:Eq; simpl in H; [contradiction|].
          destruct H as [<-|[]]. apply in_or_app. left.
          apply andb_true_iff in Eo as [-> Ez]. simpl.
          destruct (isz t b) eqn:Ezb; simpl; [|now left].
          exfalso. assert (b = v) by (eapply (proj1 isz_unique_mut); eauto).
          subst. rewrite node_eqb_refl in Eq. discriminate.
        * apply in_or_app. right. apply in_or_app. left. eapply IHt; eauto.
      + apply in_or_app. right. apply in_or_app. right. eapply IHr; eauto.
  Qed.
End RiskyThm.

Open Scope string_scope.

(* the risky fields of the Prometheus schema (modelled part) *)
Definition risky_fields : list string := risky reset top_ty (NMap d_top) "".

Lemma risky_fields_list : risky_fields =
  [ ".runtime"; ".runtime.gogc"; ".alerting.alert_relabel_configs.action";
    ".alerting.alertmanagers.scheme"; ".alerting.alertmanagers.timeout";
    ".alerting.alertmanagers.relabel_configs.action";
    ".alerting.alertmanagers.alert_relabel_configs.action";
    ".scrape_configs.metrics_path"; ".scrape_configs.scheme";
    ".scrape_configs.relabel_configs.action"; ".scrape_configs.metric_relabel_configs.action";
    ".remote_write.remote_timeout"; ".remote_write.write_relabel_configs.action";
    ".remote_write.protobuf_message"; ".remote_write.queue_config";
    ".remote_write.queue_config.capacity"; ".remote_write.queue_config.max_shards";
    ".remote_write.queue_config.min_shards"; ".remote_write.queue_config.max_samples_per_send";
    ".remote_write.queue_config.batch_send_deadline"; ".remote_write.queue_config.min_backoff";
    ".remote_write.queue_config.max_backoff"; ".remote_write.metadata_config";
    ".remote_write.metadata_config.max_samples_per_send";
    ".remote_read.remote_timeout"; ".remote_read.chunked_read_limit"; ".remote_read.filter_external_labels";
    ".otlp"; ".otlp.translation_strategy"; ".otlp.label_name_underscore_sanitization";
    ".otlp.label_name_preserve_multiple_underscores" ].
Proof. vm_compute. reflexivity. Qed.

Theorem lossy_only_risky : forall c x, wtb top_ty c = true -> In x (lossy_fields c) -> In x risky_fields.
Proof.
  intros c x Hw H. unfold lossy_fields in H. unfold risky_fields.
  eapply (proj1 (lossy_in_risky_mut reset)); [vm_compute; reflexivity | exact Hw | exact H].
Qed.

(* proof/QuantileProofs.v — lemmas and proofs about model/Quantile.v (property C32). *)
From Coq Require Import List ZArith QArith Qabs Bool Lia Lra Psatz Sorted.
From Verif Require Import model.Quantile.
Import ListNotations.
Open Scope Q_scope.

(* ------------------------------------------------------------------ booleans on Q / ext *)
Lemma Qlt_bool_true a b : Qlt_bool a b = true <-> a < b.
Proof.
  unfold Qlt_bool. rewrite negb_true_iff. split; intro H.
  - apply Qnot_le_lt. intro L. apply Qle_bool_iff in L. congruence.
  - destruct (Qle_bool b a) eqn:E; auto. apply Qle_bool_iff in E. lra.
Qed.
Lemma Qlt_bool_false a b : Qlt_bool a b = false <-> b <= a.
Proof.
  unfold Qlt_bool. rewrite negb_false_iff. apply Qle_bool_iff.
Qed.
Lemma Qle_bool_false a b : Qle_bool a b = false <-> b < a.
Proof.
  split; intro H.
  - apply Qnot_le_lt. intro L. apply Qle_bool_iff in L. congruence.
  - destruct (Qle_bool a b) eqn:E; auto. apply Qle_bool_iff in E. lra.
Qed.
Lemma Qeq_bool_false a b : Qeq_bool a b = false <-> ~ a == b.
Proof.
  split; intro H.
  - intro E. apply Qeq_bool_iff in E. congruence.
  - destruct (Qeq_bool a b) eqn:E; auto. apply Qeq_bool_iff in E. tauto.
Qed.

Ltac qb :=
  repeat match goal with
  | H : Qle_bool _ _ = true |- _ => apply Qle_bool_iff in H
  | H : Qle_bool _ _ = false |- _ => apply Qle_bool_false in H
  | H : Qlt_bool _ _ = true |- _ => apply Qlt_bool_true in H
  | H : Qlt_bool _ _ = false |- _ => apply Qlt_bool_false in H
  | H : Qeq_bool _ _ = true |- _ => apply Qeq_bool_iff in H
  | H : Qeq_bool _ _ = false |- _ => apply Qeq_bool_false in H
  end.

Definition ext_le (a b : ext) : Prop := ext_leb a b = true.
Definition ext_lt (a b : ext) : Prop := ext_ltb a b = true.

Lemma ext_le_refl a : ext_le a a.
Proof. destruct a; unfold ext_le; simpl; auto. apply Qle_bool_iff. lra. Qed.
Lemma ext_le_trans a b c : ext_le a b -> ext_le b c -> ext_le a c.
Proof.
  unfold ext_le; destruct a, b, c; simpl; auto; try discriminate.
  intros. qb. apply Qle_bool_iff. lra.
Qed.
Lemma ext_lt_le a b : ext_lt a b -> ext_le a b.
Proof.
  unfold ext_lt, ext_le, ext_ltb. rewrite negb_true_iff.
  destruct a, b; simpl; auto; try discriminate. intros. qb. apply Qle_bool_iff. lra.
Qed.
Lemma ext_le_fin a b : ext_le (Fin a) (Fin b) <-> a <= b.
Proof. unfold ext_le; simpl. apply Qle_bool_iff. Qed.
Lemma ext_lt_fin a b : ext_lt (Fin a) (Fin b) <-> a < b.
Proof. unfold ext_lt, ext_ltb; simpl. rewrite negb_true_iff. apply Qle_bool_false. Qed.
Lemma ext_ltb_false a b : ext_ltb a b = false <-> ext_le b a.
Proof. unfold ext_ltb, ext_le. apply negb_false_iff. Qed.
Lemma ext_leb_false a b : ext_leb a b = false <-> ext_lt b a.
Proof. unfold ext_lt, ext_ltb. rewrite negb_true_iff. tauto. Qed.

(* result order: both results are numbers (not NaN) and ordered *)
Definition res_le (r1 r2 : res) : Prop :=
  match r1, r2 with
  | R a, R b => ext_le a b
  | _, _ => False
  end.

(* ------------------------------------------------------------------ sums *)
Lemma sumc_app a b : sumc (a ++ b) == sumc a + sumc b.
Proof. induction a; simpl; [lra|]. rewrite IHa. lra. Qed.
Lemma sumc_rev a : sumc (rev a) == sumc a.
Proof. induction a; simpl; [lra|]. rewrite sumc_app, IHa. simpl. lra. Qed.
Lemma sumc_nonneg a : Forall (fun b => 0 <= bc b) a -> 0 <= sumc a.
Proof. induction 1; simpl; lra. Qed.
Lemma sumc_zero a : Forall (fun b => bc b == 0) a -> sumc a == 0.
Proof. induction 1; simpl; lra. Qed.

(* ------------------------------------------------------------------ the search loop *)
Lemma scan_spec : forall bs rank cum lst b c rest,
  cum <= rank ->
  scan bs rank cum lst = (b, c, rest) ->
  (exists pre, bs = pre ++ b :: rest /\ ~ bc b == 0 /\ c == cum + sumc pre + bc b /\
               cum + sumc pre <= rank /\ rank <= c /\
               (forall p1 x p2, pre = p1 ++ x :: p2 -> ~ bc x == 0 -> cum + sumc p1 + bc x < rank))
  \/ (rest = [] /\ c == cum + sumc bs /\ (c < rank \/ Forall (fun x => bc x == 0) bs)).
Proof.
  induction bs as [|x bs IH]; intros rank cum lst b c rest Hc Hs; simpl in Hs.
  - inversion Hs; subst. right. split; auto. split; [simpl; lra|]. right. constructor.
  - destruct (Qeq_bool (bc x) 0) eqn:Ez.
    + qb. destruct (IH _ _ _ _ _ _ Hc Hs) as [(pre & E & Hnz & Hcc & Hle & Hr & Hmin)|(E & Hcc & Hd)].
      * left. exists (x :: pre). subst bs. split; auto. split; auto. simpl.
        split; [lra|]. split; [lra|]. split; auto.
        intros p1 y p2 Ep Hy. destruct p1 as [|z p1]; simpl in Ep; inversion Ep; subst.
        { tauto. }
        { simpl. specialize (Hmin _ _ _ eq_refl Hy). lra. }
      * right. split; auto. simpl. split; [lra|]. destruct Hd; auto.
    + destruct (Qle_bool rank (cum + bc x)) eqn:El.
      * inversion Hs; subst. qb. left. exists []. simpl. split; auto. split; auto.
        split; [lra|]. split; [lra|]. split; auto.
        intros p1 y p2 Ep. destruct p1; discriminate.
      * qb. assert (Hc' : cum + bc x <= rank) by lra.
        destruct (IH _ _ _ _ _ _ Hc' Hs) as [(pre & E & Hnz & Hcc & Hle & Hr & Hmin)|(E & Hcc & Hd)].
        { left. exists (x :: pre). subst bs. split; auto. split; auto. simpl.
          split; [lra|]. split; [lra|]. split; auto.
          intros p1 y p2 Ep Hy. destruct p1 as [|z p1]; simpl in Ep; inversion Ep; subst.
          - simpl. lra.
          - simpl. specialize (Hmin _ _ _ eq_refl Hy). lra. }
        { right. split; auto. simpl. split; [lra|]. left. destruct Hd as [Hd|Hd]; auto.
          apply sumc_zero in Hd. lra. }
Qed.

(* comparing two positions in the same list *)
Lemma split_cmp {A} : forall (pre1 : list A) b1 post1 pre2 b2 post2,
  pre1 ++ b1 :: post1 = pre2 ++ b2 :: post2 ->
  (pre1 = pre2 /\ b1 = b2 /\ post1 = post2)
  \/ (exists mid, pre2 = pre1 ++ b1 :: mid /\ post1 = mid ++ b2 :: post2)
  \/ (exists mid, pre1 = pre2 ++ b2 :: mid /\ post2 = mid ++ b1 :: post1).
Proof.
  induction pre1 as [|a pre1 IH]; intros b1 post1 pre2 b2 post2 E.
  - destruct pre2 as [|c pre2]; simpl in E; inversion E; subst.
    + left; auto.
    + right; left. exists pre2. auto.
  - destruct pre2 as [|c pre2]; simpl in E; inversion E; subst.
    + right; right. exists pre1. auto.
    + destruct (IH _ _ _ _ _ H1) as [(E1 & E2 & E3)|[(mid & E1 & E2)|(mid & E1 & E2)]].
      * left. subst; auto.
      * right; left. exists mid. subst; auto.
      * right; right. exists mid. subst; auto.
Qed.

(* ------------------------------------------------------------------ selections *)
(* bucket [b] (at the position given by [pre]) is populated and holds rank [r] *)
Definition Sel (bs : list bucket) (r : Q) (pre : list bucket) (b : bucket) (post : list bucket) : Prop :=
  bs = pre ++ b :: post /\ 0 < bc b /\ sumc pre <= r /\ r <= sumc pre + bc b.
(* ... and it is the first such bucket (forward search) *)
Definition MinSel bs r pre b post : Prop :=
  Sel bs r pre b post /\
  forall p1 x p2, pre = p1 ++ x :: p2 -> ~ bc x == 0 -> sumc p1 + bc x < r.
(* ... the last such bucket (search from the top) *)
Definition MaxSel bs r pre b post : Prop :=
  Sel bs r pre b post /\
  forall p1 x p2, post = p1 ++ x :: p2 -> ~ bc x == 0 -> r < sumc pre + bc b + sumc p1.

Lemma nonneg_pos bs b : Forall (fun b => 0 <= bc b) bs -> In b bs -> ~ bc b == 0 -> 0 < bc b.
Proof.
  intros F I N. rewrite Forall_forall in F. specialize (F _ I).
  destruct (Qlt_le_dec 0 (bc b)); auto. exfalso. apply N. lra.
Qed.

Lemma fwd_sel bs r lst b c rest :
  Forall (fun b => 0 <= bc b) bs -> 0 < sumc bs -> 0 <= r -> r <= sumc bs ->
  scan bs r 0 lst = (b, c, rest) ->
  exists pre, MinSel bs r pre b rest /\ c == sumc pre + bc b.
Proof.
  intros F Hp H0 H1 Hs.
  destruct (scan_spec _ _ _ _ _ _ _ H0 Hs) as [(pre & E & Hnz & Hcc & Hle & Hr & Hmin)|(E & Hcc & Hd)].
  - exists pre. split; [|lra]. split; [split; [auto|]|].
    + split; [|split; lra]. apply (nonneg_pos bs); auto. subst bs. apply in_or_app. right. left. auto.
    + intros p1 x p2 Ep Hx. specialize (Hmin _ _ _ Ep Hx). lra.
  - exfalso. destruct Hd as [Hd|Hd]; [lra|]. apply sumc_zero in Hd. lra.
Qed.

Lemma rev_split (pre' : list bucket) b rest bs :
  rev bs = pre' ++ b :: rest -> bs = rev rest ++ b :: rev pre'.
Proof.
  intro E. rewrite <- (rev_involutive bs), E, rev_app_distr. simpl.
  rewrite <- app_assoc. reflexivity.
Qed.

Lemma Forall_rev' {A} (P : A -> Prop) l : Forall P l -> Forall P (rev l).
Proof. rewrite !Forall_forall. intros H x I. apply H. apply in_rev. auto. Qed.

(* searching the reversed list for rank N - r finds the last bucket holding r *)
Lemma rev_sel bs N rk lst b c rest :
  Forall (fun b => 0 <= bc b) bs -> 0 < N -> N == sumc bs -> 0 <= rk -> rk <= N ->
  scan (rev bs) rk 0 lst = (b, c, rest) ->
  exists pre post, MaxSel bs (N - rk) pre b post /\ c - rk == (N - rk) - sumc pre /\ c <= N.
Proof.
  intros F Hp HN H0 H1 Hs.
  assert (Fr := Forall_rev' _ _ F).
  assert (Hsr := sumc_rev bs).
  destruct (fwd_sel (rev bs) rk lst b c rest Fr ltac:(lra) H0 ltac:(lra) Hs)
    as (pre' & ((E & Hb & Hlo & Hhi) & Hmin) & Hc).
  apply rev_split in E.
  exists (rev rest), (rev pre').
  assert (HT : sumc bs == sumc (rev rest) + bc b + sumc (rev pre')).
  { rewrite E at 1. rewrite sumc_app. simpl. lra. }
  assert (Hp' := sumc_rev pre').
  assert (Hrest : 0 <= sumc (rev rest)).
  { apply sumc_nonneg. rewrite E in F. apply Forall_app in F. tauto. }
  split; [|split; lra].
  split; [split; [auto|split; [auto|split; lra]]|].
  intros p1 x p2 Ep Hx.
  assert (Ep' : pre' = rev p2 ++ x :: rev p1).
  { apply rev_split. rewrite Ep. reflexivity. }
  specialize (Hmin _ _ _ Ep' Hx).
  assert (sumc pre' == sumc (rev p2) + bc x + sumc (rev p1)).
  { rewrite Ep' at 1. rewrite sumc_app. simpl. lra. }
  assert (Hq := sumc_rev p1).
  assert (sumc (rev pre') == sumc p1 + bc x + sumc p2).
  { rewrite Ep. rewrite sumc_app. simpl. lra. }
  assert (Hq2 := sumc_rev p2). lra.
Qed.

(* ---- ordering of two selections in the same list ---- *)
Lemma sel_order_fwd bs r1 r2 pre1 b1 post1 pre2 b2 post2 :
  MinSel bs r1 pre1 b1 post1 -> Sel bs r2 pre2 b2 post2 -> r1 <= r2 ->
  (pre1 = pre2 /\ b1 = b2 /\ post1 = post2)
  \/ (exists mid, pre2 = pre1 ++ b1 :: mid /\ post1 = mid ++ b2 :: post2).
Proof.
  intros ((E1 & Hb1 & Hl1 & Hh1) & Hmin) (E2 & Hb2 & Hl2 & Hh2) Hr.
  rewrite E1 in E2.
  destruct (split_cmp _ _ _ _ _ _ E2) as [H|[H|(mid & Ea & Eb)]]; auto.
  exfalso. assert (Hx : ~ bc b2 == 0) by lra.
  specialize (Hmin _ _ _ Ea Hx). lra.
Qed.

Lemma sel_order_rev bs r1 r2 pre1 b1 post1 pre2 b2 post2 :
  Sel bs r1 pre1 b1 post1 -> MaxSel bs r2 pre2 b2 post2 -> r1 <= r2 ->
  (pre1 = pre2 /\ b1 = b2 /\ post1 = post2)
  \/ (exists mid, pre2 = pre1 ++ b1 :: mid /\ post1 = mid ++ b2 :: post2).
Proof.
  intros (E1 & Hb1 & Hl1 & Hh1) ((E2 & Hb2 & Hl2 & Hh2) & Hmax) Hr.
  rewrite E1 in E2.
  destruct (split_cmp _ _ _ _ _ _ E2) as [H|[H|(mid & Ea & Eb)]]; auto.
  exfalso. assert (Hx : ~ bc b1 == 0) by lra.
  specialize (Hmax _ _ _ Eb Hx).
  assert (sumc pre1 == sumc pre2 + bc b2 + sumc mid).
  { rewrite Ea. rewrite sumc_app. simpl. lra. }
  lra.
Qed.

(* ------------------------------------------------------------------ linear interpolation *)
Lemma lin_range a b f : a <= b -> 0 <= f -> f <= 1 -> a <= a + (b - a) * f /\ a + (b - a) * f <= b.
Proof. intros. split; nra. Qed.
Lemma lin_mono a b f1 f2 : a <= b -> f1 <= f2 -> a + (b - a) * f1 <= a + (b - a) * f2.
Proof. intros. nra. Qed.

(* ------------------------------------------------------------------ well-formed histograms *)
Definition wf_bucket (custom : bool) (b : bucket) : Prop :=
  ext_lt (bl b) (bu b) /\
  ~ (bl b = NInf /\ bu b = PInf) /\
  (custom = false -> exists x y, bl b = Fin x /\ bu b = Fin y).

Record wf_hist (h : hist) : Prop := mkWF {
  wf_pos : 0 < h_count h;
  wf_sum : sum_nan h = false;
  wf_tot : h_count h == sumc (h_buckets h);
  wf_cnt : Forall (fun b => 0 <= bc b) (h_buckets h);
  wf_bkt : Forall (wf_bucket (h_custom h)) (h_buckets h);
  wf_sorted : StronglySorted (fun a b => ext_le (bu a) (bl b)) (h_buckets h)
}.

Lemma sorted_mid (bs pre mid post : list bucket) b1 b2 :
  StronglySorted (fun a b => ext_le (bu a) (bl b)) bs ->
  bs = pre ++ b1 :: mid ++ b2 :: post -> ext_le (bu b1) (bl b2).
Proof.
  intros S E. subst bs. induction pre as [|x pre IH]; simpl in S.
  - inversion S as [|? ? _ F]; subst. rewrite Forall_forall in F. apply F.
    apply in_or_app. right. left. auto.
  - inversion S; subst. auto.
Qed.

Section InterpProofs.
  Variable iexp : Q -> Q -> Q -> Q.
  Variable fexp : Q -> Q -> Q -> Q.
  (* interp_monotone_within_bucket: the exponential interpolation stays between the bucket's
     endpoints and is monotone in the fraction (it is exp2 of a linear function of f) *)
  Hypothesis iexp_range : forall a b f, a < b -> 0 <= f -> f <= 1 -> a <= iexp a b f /\ iexp a b f <= b.
  Hypothesis iexp_mono : forall a b f1 f2, a < b -> 0 <= f1 -> f1 <= f2 -> f2 <= 1 ->
                                          iexp a b f1 <= iexp a b f2.

  (* the value HistogramQuantile returns for the bucket [b] at fraction [f] of its population *)
  Definition qvalue (h : hist) (b : bucket) (f : Q) : res :=
    match qadjust h b with
    | inl r => r
    | inr (l, u) => interp_q iexp (h_custom h) l u f
    end.

  Ltac ext_hyps :=
    repeat match goal with
    | H : ext_leb _ _ = true |- _ => change (ext_le _ _) in H
    | H : ext_ltb _ _ = true |- _ => change (ext_lt _ _) in H
    | H : ext_leb _ _ = false |- _ => apply ext_leb_false in H
    | H : ext_ltb _ _ = false |- _ => apply ext_ltb_false in H
    | H : ext_le (Fin _) (Fin _) |- _ => apply ext_le_fin in H
    | H : ext_lt (Fin _) (Fin _) |- _ => apply ext_lt_fin in H
    end.

  Lemma qvalue_range h b f :
    wf_bucket (h_custom h) b -> 0 <= f -> f <= 1 ->
    exists e, qvalue h b f = R e /\ ext_le (bl b) e /\ ext_le e (bu b).
  Proof.
    intros (Hlt & Hni & Hfin) H0 H1. unfold qvalue, qadjust.
    destruct b as [l u c]; simpl in *.
    destruct (h_custom h) eqn:Ec; simpl.
    - (* custom buckets: linear *)
      destruct l as [|a|], u as [|b|]; simpl; try (exfalso; unfold ext_lt in Hlt; simpl in Hlt; discriminate).
      + (* (-Inf, b] *)
        destruct (Qle_bool b 0) eqn:Eb; simpl.
        * eexists; split; [reflexivity|]. split; [reflexivity|apply ext_le_refl].
        * qb. unfold interp_q; simpl. eexists; split; [reflexivity|]. split; [reflexivity|].
          apply ext_le_fin. destruct (lin_range 0 b f); lra.
      + exfalso. apply Hni; auto.
      + unfold interp_q; simpl. ext_hyps.
        eexists; split; [reflexivity|]. destruct (lin_range a b f); try lra.
        split; apply ext_le_fin; lra.
      + eexists; split; [reflexivity|]. split; [apply ext_le_refl|reflexivity].
    - (* standard schemas: finite bounds *)
      destruct (Hfin eq_refl) as (a & b & -> & ->). ext_hyps.
      assert (Hcase : forall l' u', a <= l' -> l' <= u' -> u' <= b ->
                (l' < u' \/ (l' <= 0 /\ 0 <= u')) ->
                exists e, interp_q iexp false (Fin l') (Fin u') f = R e /\
                          ext_le (Fin a) e /\ ext_le e (Fin b)).
      { intros l' u' Ha Hl Hb Hor. unfold interp_q; simpl.
        destruct (Qle_bool l' 0 && Qle_bool 0 u') eqn:Ez; simpl.
        - eexists; split; [reflexivity|]. destruct (lin_range l' u' f); try lra.
          split; apply ext_le_fin; lra.
        - destruct Hor as [Hor|(Hx & Hy)].
          + eexists; split; [reflexivity|]. destruct (iexp_range l' u' f); try lra.
            split; apply ext_le_fin; lra.
          + exfalso. apply Qle_bool_iff in Hx, Hy. rewrite Hx, Hy in Ez. discriminate. }
      unfold ext_ltb; simpl.
      destruct (negb (Qle_bool 0 a) && negb (Qle_bool b 0)) eqn:Ez; simpl.
      + apply andb_true_iff in Ez. destruct Ez as (Ea & Eb).
        rewrite negb_true_iff in Ea, Eb. qb.
        destruct (negb (h_hasneg h) && h_haspos h); [apply Hcase; lra|].
        destruct (negb (h_haspos h) && h_hasneg h); apply Hcase; lra.
      + apply Hcase; lra.
  Qed.

  Lemma qvalue_mono h b f1 f2 :
    wf_bucket (h_custom h) b -> 0 <= f1 -> f1 <= f2 -> f2 <= 1 ->
    res_le (qvalue h b f1) (qvalue h b f2).
  Proof.
    intros (Hlt & Hni & Hfin) H0 H12 H1. unfold qvalue, qadjust.
    destruct b as [l u c]; simpl in *.
    destruct (h_custom h) eqn:Ec; simpl.
    - destruct l as [|a|], u as [|b|]; simpl; try (exfalso; unfold ext_lt in Hlt; simpl in Hlt; discriminate).
      + destruct (Qle_bool b 0) eqn:Eb; simpl.
        * apply ext_le_refl.
        * qb. unfold interp_q; simpl. apply ext_le_fin. apply lin_mono; lra.
      + exfalso. apply Hni; auto.
      + unfold interp_q; simpl. ext_hyps. apply ext_le_fin. apply lin_mono; lra.
      + apply ext_le_refl.
    - destruct (Hfin eq_refl) as (a & b & -> & ->). ext_hyps.
      assert (Hcase : forall l' u', l' <= u' -> (l' < u' \/ (l' <= 0 /\ 0 <= u')) ->
                res_le (interp_q iexp false (Fin l') (Fin u') f1)
                       (interp_q iexp false (Fin l') (Fin u') f2)).
      { intros l' u' Hl Hor. unfold interp_q; simpl.
        destruct (Qle_bool l' 0 && Qle_bool 0 u') eqn:Ez; simpl.
        - apply ext_le_fin. apply lin_mono; lra.
        - destruct Hor as [Hor|(Hx & Hy)].
          + apply ext_le_fin. apply iexp_mono; lra.
          + exfalso. apply Qle_bool_iff in Hx, Hy. rewrite Hx, Hy in Ez. discriminate. }
      unfold ext_ltb; simpl.
      destruct (negb (Qle_bool 0 a) && negb (Qle_bool b 0)) eqn:Ez; simpl.
      + apply andb_true_iff in Ez. destruct Ez as (Ea & Eb).
        rewrite negb_true_iff in Ea, Eb. qb.
        destruct (negb (h_hasneg h) && h_haspos h); [apply Hcase; lra|].
        destruct (negb (h_haspos h) && h_hasneg h); apply Hcase; lra.
      + apply Hcase; lra.
  Qed.

  Lemma div_range a c : 0 < c -> 0 <= a -> a <= c -> 0 <= a / c /\ a / c <= 1 /\ (a / c) * c == a.
  Proof.
    intros Hc H0 H1. split; [|split].
    - apply Qle_shift_div_l; lra.
    - apply Qle_shift_div_r; lra.
    - field. lra.
  Qed.

  (* what HistogramQuantile computes on a well-formed histogram for q in [0,1] *)
  Lemma hquantile_char h q :
    wf_hist h -> 0 <= q -> q <= 1 ->
    exists pre b post f,
      Sel (h_buckets h) (q * h_count h) pre b post /\
      (q < 1 # 2 -> MinSel (h_buckets h) (q * h_count h) pre b post) /\
      (1 # 2 <= q -> MaxSel (h_buckets h) (q * h_count h) pre b post) /\
      0 <= f /\ f <= 1 /\ f * bc b == q * h_count h - sumc pre /\
      hquantile iexp q h = qvalue h b f.
  Proof.
    intros W H0 H1. destruct W as [Wp Ws Wt Wc Wb Wo].
    set (N := h_count h) in *. set (bs := h_buckets h) in *.
    assert (HqN0 : 0 <= q * N) by nra.
    assert (HqN1 : q * N <= N) by nra.
    unfold hquantile, hquantile_gen.
    replace (Qlt_bool q 0) with false by (symmetry; apply Qlt_bool_false; lra).
    replace (Qlt_bool 1 q) with false by (symmetry; apply Qlt_bool_false; lra).
    replace (Qeq_bool (h_count h) 0) with false by (symmetry; apply Qeq_bool_false; fold N; lra).
    rewrite Ws. simpl orb. simpl andb. cbv beta iota. fold N. fold bs.
    destruct (Qlt_bool q (1 # 2)) eqn:Eh.
    - (* forward *)
      qb.
      destruct (scan bs (q * N) 0 zero_bucket) as [[b c] rest] eqn:Es.
      destruct (fwd_sel bs (q * N) zero_bucket b c rest Wc ltac:(lra) HqN0 ltac:(lra) Es)
        as (pre & HM & Hc).
      assert (HS := proj1 HM). destruct HS as (E & Hb & Hlo & Hhi).
      assert (Hrest : 0 <= sumc rest).
      { apply sumc_nonneg. rewrite E in Wc. apply Forall_app in Wc. destruct Wc as (_ & Wc).
        inversion Wc; auto. }
      assert (HT : sumc bs == sumc pre + bc b + sumc rest).
      { rewrite E at 1. rewrite sumc_app. simpl. lra. }
      destruct (div_range (q * N - (c - bc b)) (bc b) Hb ltac:(lra) ltac:(lra)) as (F0 & F1 & Fm).
      exists pre, b, rest, ((q * N - (c - bc b)) / bc b).
      split; [exact (proj1 HM)|]. split; [auto|]. split; [intro; lra|].
      split; [auto|]. split; [auto|]. split; [lra|].
      unfold qvalue. destruct (qadjust h b) as [r|[l u]]; [reflexivity|].
      replace (Qlt_bool N c) with false by (symmetry; apply Qlt_bool_false; lra).
      replace (Qlt_bool c (q * N)) with false by (symmetry; apply Qlt_bool_false; lra).
      cbv beta iota.
      replace (Qeq_bool (bc b) 0) with false by (symmetry; apply Qeq_bool_false; lra).
      reflexivity.
    - (* from the top *)
      qb.
      destruct (scan (rev bs) ((1 - q) * N) 0 zero_bucket) as [[b c] rest] eqn:Es.
      assert (Hr0 : 0 <= (1 - q) * N) by nra.
      assert (Hr1 : (1 - q) * N <= N) by nra.
      destruct (rev_sel bs N ((1 - q) * N) zero_bucket b c rest Wc Wp Wt Hr0 Hr1 Es)
        as (pre & post & HM & Hc & HcN).
      destruct HM as ((E & Hb & Hlo & Hhi) & Hmax).
      destruct (div_range (c - (1 - q) * N) (bc b) Hb ltac:(lra) ltac:(lra)) as (F0 & F1 & Fm).
      exists pre, b, post, ((c - (1 - q) * N) / bc b).
      assert (HSel : Sel bs (q * N) pre b post).
      { split; [auto|]. split; [auto|]. split; lra. }
      split; [exact HSel|]. split; [intro; lra|].
      split; [intros _; split; [exact HSel|]|].
      { intros p1 x p2 Ep Hx. specialize (Hmax _ _ _ Ep Hx). lra. }
      split; [auto|]. split; [auto|]. split; [lra|].
      unfold qvalue. destruct (qadjust h b) as [r|[l u]]; [reflexivity|].
      replace (Qlt_bool N c) with false by (symmetry; apply Qlt_bool_false; lra).
      replace (Qlt_bool c ((1 - q) * N)) with false by (symmetry; apply Qlt_bool_false; lra).
      cbv beta iota.
      replace (Qeq_bool (bc b) 0) with false by (symmetry; apply Qeq_bool_false; lra).
      reflexivity.
  Qed.

  Lemma sel_in bs r pre b post : Sel bs r pre b post -> In b bs.
  Proof. intros (E & _). subst. apply in_or_app. right. left. auto. Qed.

  (* the result lies within the bounds of a populated bucket that holds the rank q * count *)
  Theorem quantile_in_bucket h q :
    wf_hist h -> 0 <= q -> q <= 1 ->
    exists pre b post e,
      Sel (h_buckets h) (q * h_count h) pre b post /\
      hquantile iexp q h = R e /\ ext_le (bl b) e /\ ext_le e (bu b).
  Proof.
    intros W H0 H1.
    destruct (hquantile_char h q W H0 H1) as (pre & b & post & f & HS & _ & _ & F0 & F1 & _ & Hv).
    assert (Wb : wf_bucket (h_custom h) b).
    { assert (F := wf_bkt h W). rewrite Forall_forall in F. apply F. eapply sel_in; eauto. }
    destruct (qvalue_range h b f Wb F0 F1) as (e & He & Hl & Hu).
    exists pre, b, post, e. rewrite Hv. auto.
  Qed.

  (* monotone in q *)
  Theorem quantile_mono h q1 q2 :
    wf_hist h -> 0 <= q1 -> q1 <= q2 -> q2 <= 1 ->
    res_le (hquantile iexp q1 h) (hquantile iexp q2 h).
  Proof.
    intros W H0 H12 H1.
    destruct (hquantile_char h q1 W H0 ltac:(lra))
      as (pre1 & b1 & post1 & f1 & HS1 & HMin1 & _ & F10 & F11 & Fm1 & Hv1).
    destruct (hquantile_char h q2 W ltac:(lra) H1)
      as (pre2 & b2 & post2 & f2 & HS2 & _ & HMax2 & F20 & F21 & Fm2 & Hv2).
    rewrite Hv1, Hv2.
    assert (Hp := wf_pos h W).
    assert (Hr : q1 * h_count h <= q2 * h_count h) by nra.
    assert (FB := wf_bkt h W). rewrite Forall_forall in FB.
    assert (Wb1 : wf_bucket (h_custom h) b1) by (apply FB; eapply sel_in; eauto).
    assert (Wb2 : wf_bucket (h_custom h) b2) by (apply FB; eapply sel_in; eauto).
    assert (Hord : (pre1 = pre2 /\ b1 = b2 /\ post1 = post2)
                   \/ (exists mid, pre2 = pre1 ++ b1 :: mid /\ post1 = mid ++ b2 :: post2)).
    { destruct (Qlt_le_dec q2 (1 # 2)) as [Hlt|Hge].
      - eapply sel_order_fwd; [apply HMin1; lra|exact HS2|exact Hr].
      - eapply sel_order_rev; [exact HS1|apply HMax2; exact Hge|exact Hr]. }
    destruct Hord as [(Ea & Eb & Ec)|(mid & Ea & Eb)].
    - subst pre2 b2 post2. destruct HS1 as (_ & Hb & _).
      apply qvalue_mono; auto. apply Qmult_lt_0_le_reg_r with (z := bc b1); auto. lra.
    - destruct (qvalue_range h b1 f1 Wb1 F10 F11) as (e1 & He1 & _ & Hu1).
      destruct (qvalue_range h b2 f2 Wb2 F20 F21) as (e2 & He2 & Hl2 & _).
      rewrite He1, He2. simpl.
      assert (Hm : ext_le (bu b1) (bl b2)).
      { apply (sorted_mid (h_buckets h) pre1 mid post2); [apply (wf_sorted h W)|].
        destruct HS2 as (E2 & _). rewrite E2, Ea. rewrite <- app_assoc. reflexivity. }
      eapply ext_le_trans; [exact Hu1|]. eapply ext_le_trans; [exact Hm|exact Hl2].
  Qed.
End InterpProofs.

(* ================================================================== classic histograms *)
Definition ubs (l : list cbucket) : list ext := map ub l.
Definition ccs (l : list cbucket) : list Q := map cc l.

Lemma ss_nth {A} (Rl : A -> A -> Prop) (l : list A) d :
  (forall x, Rl x x) ->
  StronglySorted Rl l -> forall i j, (i <= j)%nat -> (j < length l)%nat -> Rl (nth i l d) (nth j l d).
Proof.
  intros Rr S. induction S as [|a l S IH F]; intros i j Hij Hj; simpl in Hj; [lia|].
  destruct i, j; simpl; try lia; auto.
  - rewrite Forall_forall in F. apply F. apply nth_In. lia.
  - apply IH; lia.
Qed.

(* ---- sorting ---- *)
Lemma cinsert_sorted b l :
  StronglySorted ext_le (ubs l) -> StronglySorted ext_le (ubs (cinsert b l)).
Proof.
  induction l as [|x l IH]; simpl; intro S.
  - repeat constructor.
  - destruct (ext_leb (ub b) (ub x)) eqn:E; simpl.
    + constructor; auto. constructor; [exact E|].
      inversion S as [|? ? _ F]; subst. rewrite Forall_forall in *. intros y Hy.
      eapply ext_le_trans; [exact E|]. apply F; auto.
    + inversion S as [|? ? S' F]; subst. constructor; [apply IH; auto|].
      apply ext_leb_false, ext_lt_le in E.
      rewrite Forall_forall in *. intros y Hy.
      unfold ubs in Hy. apply in_map_iff in Hy. destruct Hy as (z & <- & Hz).
      assert (Hin : z = b \/ In z l).
      { clear - Hz. induction l as [|w l IHl]; simpl in Hz.
        - destruct Hz; [left; auto|tauto].
        - destruct (ext_leb (ub b) (ub w)); simpl in Hz.
          + destruct Hz as [Hz|[Hz|Hz]]; [left; auto|right; left; auto|right; right; auto].
          + destruct Hz as [Hz|Hz]; [right; left; auto|].
            destruct (IHl Hz); [left; auto|right; right; auto]. }
      destruct Hin as [->|Hin]; auto. apply F. apply in_map. auto.
Qed.
Lemma csort_sorted l : StronglySorted ext_le (ubs (csort l)).
Proof. induction l; simpl; [constructor|]. apply cinsert_sorted; auto. Qed.

Lemma cinsert_forall (P : cbucket -> Prop) b l : P b -> Forall P l -> Forall P (cinsert b l).
Proof.
  intros Hb F. induction F; simpl; [repeat constructor; auto|].
  destruct (ext_leb (ub b) (ub x)); repeat constructor; auto.
Qed.
Lemma csort_forall (P : cbucket -> Prop) l : Forall P l -> Forall P (csort l).
Proof. induction 1; simpl; [constructor|]. apply cinsert_forall; auto. Qed.

(* ---- coalescing ---- *)
Lemma coalesce_go_spec : forall bs lst,
  StronglySorted ext_le (ubs (lst :: bs)) -> 0 <= cc lst -> Forall (fun b => 0 <= cc b) bs ->
  StronglySorted ext_le (ubs (coalesce_go lst bs)) /\
  Forall (fun b => 0 <= cc b) (coalesce_go lst bs) /\
  Forall (fun x => ext_le (ub lst) x) (ubs (coalesce_go lst bs)).
Proof.
  induction bs as [|b bs IH]; intros lst S Hl F; simpl.
  - split; [repeat constructor|]. split; [repeat constructor; auto|].
    repeat constructor. apply ext_le_refl.
  - inversion F as [|? ? Hb F']; subst.
    simpl in S. inversion S as [|? ? S' Fl]; subst. inversion S' as [|? ? S'' Fb]; subst.
    inversion Fl as [|? ? Hlb Fl']; subst.
    destruct (ext_eqb (ub b) (ub lst)) eqn:E.
    + apply (IH (mkCB (ub lst) (cc lst + cc b))); simpl; auto; [|lra].
      constructor; auto.
    + destruct (IH b) as (I1 & I2 & I3); auto.
      split; [|split].
      * simpl. constructor; auto. rewrite Forall_forall in *. intros y Hy.
        eapply ext_le_trans; [exact Hlb|]. apply I3; auto.
      * constructor; auto.
      * simpl. constructor; [apply ext_le_refl|]. rewrite Forall_forall in *. intros y Hy.
        eapply ext_le_trans; [exact Hlb|]. apply I3; auto.
Qed.

Lemma coalesce_spec bs :
  StronglySorted ext_le (ubs bs) -> Forall (fun b => 0 <= cc b) bs ->
  StronglySorted ext_le (ubs (coalesce bs)) /\ Forall (fun b => 0 <= cc b) (coalesce bs).
Proof.
  destruct bs as [|b bs]; simpl; intros S F; [split; constructor|].
  inversion F; subst. destruct (coalesce_go_spec bs b) as (A & B & _); auto.
Qed.

(* ---- ensureMonotonicAndIgnoreSmallDeltas ---- *)
Fixpoint chain (prev : Q) (l : list Q) : Prop :=
  match l with [] => True | x :: r => prev <= x /\ chain x r end.

Lemma chain_le p p' l : p' <= p -> chain p l -> chain p' l.
Proof. destruct l; simpl; auto. intros H (A & B). split; auto. lra. Qed.

(* for ANY input counts and tolerance the corrected counts never decrease *)
Lemma ensure_go_spec : forall bs tol prev out f,
  ensure_go tol prev bs = (out, f) ->
  chain prev (ccs out) /\ ubs out = ubs bs /\
  (0 <= prev -> Forall (fun b => 0 <= cc b) out).
Proof.
  induction bs as [|b bs IH]; intros tol prev out f E; simpl in E.
  - inversion E; subst. simpl. auto.
  - destruct (Qeq_bool (cc b) prev) eqn:E1.
    + destruct (ensure_go tol prev bs) as [r' f'] eqn:Er. inversion E; subst.
      destruct (IH _ _ _ _ Er) as (A & B & C). qb. simpl. split; [split; [lra|]|split].
      * apply chain_le with prev; auto. lra.
      * f_equal; auto.
      * intro Hp. constructor; [lra|auto].
    + destruct (almost_equal prev (cc b) tol) eqn:E2.
      * destruct (ensure_go tol prev bs) as [r' f'] eqn:Er. inversion E; subst.
        destruct (IH _ _ _ _ Er) as (A & B & C). simpl. split; [split; [lra|auto]|split].
        { f_equal; auto. }
        { intro Hp. constructor; simpl; auto. }
      * destruct (Qlt_bool (cc b) prev) eqn:E3.
        { destruct (ensure_go tol prev bs) as [r' f'] eqn:Er. inversion E; subst.
          destruct (IH _ _ _ _ Er) as (A & B & C). simpl. split; [split; [lra|auto]|split].
          - f_equal; auto.
          - intro Hp. constructor; simpl; auto. }
        { destruct (ensure_go tol (cc b) bs) as [r' f'] eqn:Er. inversion E; subst.
          destruct (IH _ _ _ _ Er) as (A & B & C). qb. simpl. split; [split; [lra|auto]|split].
          - f_equal; auto.
          - intro Hp. constructor; [lra|]. apply C. lra. }
Qed.

Definition nondecreasing (l : list Q) : Prop :=
  match l with [] => True | x :: r => chain x r end.

Theorem ensure_monotonic_nondecreasing tol bs out f :
  ensure_monotonic tol bs = (out, f) ->
  nondecreasing (ccs out) /\ ubs out = ubs bs /\
  (Forall (fun b => 0 <= cc b) bs -> Forall (fun b => 0 <= cc b) out).
Proof.
  destruct bs as [|b bs]; simpl; intro E.
  - inversion E; subst. simpl. auto.
  - destruct (ensure_go tol (cc b) bs) as [r' f'] eqn:Er. inversion E; subst.
    destruct (ensure_go_spec _ _ _ _ _ Er) as (A & B & C). simpl.
    split; auto. split; [f_equal; auto|].
    intro F. inversion F; subst. constructor; auto.
Qed.

Lemma chain_nth : forall l p d j, chain p l -> (j < length l)%nat -> p <= nth j l d.
Proof.
  induction l as [|x l IH]; intros p d j C Hj; simpl in *; [lia|].
  destruct C as (A & B). destruct j; auto. specialize (IH x d j B ltac:(lia)). lra.
Qed.
Lemma nondecreasing_nth : forall l d i j,
  nondecreasing l -> (i <= j)%nat -> (j < length l)%nat -> nth i l d <= nth j l d.
Proof.
  induction l as [|x l IH]; intros d i j C Hij Hj; simpl in *; [lia|].
  destruct i, j; try lia.
  - lra.
  - apply chain_nth; auto. lia.
  - apply IH; try lia. destruct l; simpl in *; tauto.
Qed.

(* ---- sort.Search ---- *)
Lemma div2_bounds i j : (i < j)%nat -> (i <= Nat.div2 (i + j) /\ Nat.div2 (i + j) < j)%nat.
Proof.
  intro H. rewrite Nat.div2_div.
  split.
  - apply Nat.div_le_lower_bound; lia.
  - apply Nat.div_lt_upper_bound; lia.
Qed.

Lemma bsearch_spec (f : nat -> bool) (n : nat) :
  (forall a b, (a <= b)%nat -> (b < n)%nat -> f a = true -> f b = true) ->
  forall fuel i j,
    (i <= j)%nat -> (j <= n)%nat -> (j - i <= fuel)%nat ->
    (forall k, (k < i)%nat -> f k = false) ->
    (forall k, (j <= k)%nat -> (k < n)%nat -> f k = true) ->
    exists b, bsearch fuel f i j = Some b /\ (b <= n)%nat /\
              (forall k, (k < b)%nat -> f k = false) /\
              (forall k, (b <= k)%nat -> (k < n)%nat -> f k = true).
Proof.
  intros Hm. induction fuel as [|fuel IH]; intros i j Hij Hjn Hf Hlo Hhi; simpl.
  - assert (i = j) by lia. subst. rewrite Nat.ltb_irrefl. exists j. auto.
  - destruct (Nat.ltb i j) eqn:El.
    + apply Nat.ltb_lt in El. destruct (div2_bounds i j El) as (B1 & B2).
      set (h := Nat.div2 (i + j)) in *.
      destruct (f h) eqn:Eh; simpl.
      * apply IH; try lia; auto.
        intros k Hk Hkn. apply (Hm h k); auto.
      * apply IH; try lia; auto.
        intros k Hk. destruct (f k) eqn:Ek; auto.
        assert (f h = true) by (apply (Hm k h); auto; lia). congruence.
    + apply Nat.ltb_ge in El. assert (i = j) by lia. subst. exists j. auto.
Qed.

(* ---- linear interpolation between extended bounds (float64 semantics of [lin]) ---- *)
Lemma lin_ext_range l u f :
  ext_le l u -> 0 <= f -> f <= 1 ->
  lin l u f = RNaN \/ exists e, lin l u f = R e /\ ext_le l e /\ ext_le e u.
Proof.
  intros Hlu H0 H1. destruct l as [|a|], u as [|b|]; simpl; auto;
    try (unfold ext_le in Hlu; simpl in Hlu; discriminate).
  - apply ext_le_fin in Hlu. right. eexists; split; [reflexivity|].
    destruct (lin_range a b f); auto. split; apply ext_le_fin; lra.
  - destruct (Qeq_bool f 0) eqn:E; auto. qb.
    replace (Qle_bool 0 f) with true by (symmetry; apply Qle_bool_iff; lra).
    right. eexists; split; [reflexivity|]. split; reflexivity.
Qed.
Lemma lin_ext_mono l u f1 f2 :
  ext_le l u -> 0 <= f1 -> f1 <= f2 -> f2 <= 1 ->
  lin l u f1 = RNaN \/ lin l u f2 = RNaN \/ res_le (lin l u f1) (lin l u f2).
Proof.
  intros Hlu H0 H12 H1. destruct l as [|a|], u as [|b|]; simpl; auto;
    try (unfold ext_le in Hlu; simpl in Hlu; discriminate).
  - apply ext_le_fin in Hlu. right; right. apply ext_le_fin. apply lin_mono; lra.
  - destruct (Qeq_bool f1 0) eqn:E; auto. qb.
    replace (Qeq_bool f2 0) with false by (symmetry; apply Qeq_bool_false; lra).
    replace (Qle_bool 0 f1) with true by (symmetry; apply Qle_bool_iff; lra).
    replace (Qle_bool 0 f2) with true by (symmetry; apply Qle_bool_iff; lra).
    right; right. reflexivity.
Qed.

(* ---- the part of BucketQuantile after sorting / coalescing / ensure_monotonic ---- *)
Definition cq_val (bs : list cbucket) (b : nat) (rank : Q) : res :=
  let n := length bs in
  if Nat.eqb b (n - 1) then R (ub (nthb bs (n - 2)))
  else if Nat.eqb b 0 && ext_leb (ub (nthb bs 0)) (Fin 0) then R (ub (nthb bs 0))
  else
    let bend := ub (nthb bs b) in
    let '(bstart, count, rank) :=
      if Nat.ltb 0 b
      then (ub (nthb bs (b - 1)), cc (nthb bs b) - cc (nthb bs (b - 1)), rank - cc (nthb bs (b - 1)))
      else (Fin 0, cc (nthb bs b), rank) in
    if Qeq_bool count 0 then RNaN else lin bstart bend (rank / count).

Definition cq_tail (bs : list cbucket) (forced : bool) (q : Q) : qres :=
  let n := length bs in
  if Nat.ltb n 2 then QOk RNaN forced
  else
    let observations := cc (nthb bs (n - 1)) in
    if Qeq_bool observations 0 then QOk RNaN forced
    else
      let rank := q * observations in
      match sort_search (n - 1) (fun i => Qle_bool rank (cc (nthb bs i))) with
      | None => QFuel
      | Some b => QOk (cq_val bs b rank) forced
      end.

Lemma bucket_quantile_unfold q bs0 :
  0 <= q -> q <= 1 ->
  bucket_quantile q bs0 =
  match csort bs0 with
  | [] => QPanic
  | _ => if negb (is_pinf (ub (last (csort bs0) dflt))) then QOk RNaN false
         else let '(bs, forced) := ensure_monotonic small_delta_tolerance (coalesce (csort bs0)) in
              cq_tail bs forced q
  end.
Proof.
  intros H0 H1. unfold bucket_quantile.
  replace (Qlt_bool q 0) with false by (symmetry; apply Qlt_bool_false; lra).
  replace (Qlt_bool 1 q) with false by (symmetry; apply Qlt_bool_false; lra).
  destruct (csort bs0); [reflexivity|].
  destruct (negb (is_pinf (ub (last (c :: l) dflt)))); [reflexivity|].
  destruct (ensure_monotonic small_delta_tolerance (coalesce (c :: l))) as [bs forced].
  unfold cq_tail, cq_val.
  destruct (Nat.ltb (length bs) 2); [reflexivity|].
  destruct (Qeq_bool (cc (nthb bs (length bs - 1))) 0); [reflexivity|].
  destruct (sort_search _ _); [|reflexivity].
  destruct (Nat.eqb n (length bs - 1)); [reflexivity|].
  destruct (Nat.eqb n 0 && ext_leb (ub (nthb bs 0)) (Fin 0)); [reflexivity|].
  destruct (Nat.ltb 0 n); simpl;
    match goal with |- context [Qeq_bool ?x 0] => destruct (Qeq_bool x 0) end; reflexivity.
Qed.

Section ClassicCore.
  Variable bs : list cbucket.
  Let n := length bs.
  Let c (i : nat) := cc (nthb bs i).
  Let u (i : nat) := ub (nthb bs i).
  Hypothesis Hn : (2 <= n)%nat.
  Hypothesis HC : forall i j, (i <= j)%nat -> (j < n)%nat -> c i <= c j.
  Hypothesis HU : forall i j, (i <= j)%nat -> (j < n)%nat -> ext_le (u i) (u j).
  Hypothesis HN : forall i, (i < n)%nat -> 0 <= c i.

  (* what sort.Search guarantees about the chosen bucket *)
  Definition chosen (b : nat) (rank : Q) : Prop :=
    (b <= n - 1)%nat /\ (forall k, (k < b)%nat -> c k < rank) /\ ((b < n - 1)%nat -> rank <= c b).

  Lemma search_chosen rank :
    exists b, sort_search (n - 1) (fun i => Qle_bool rank (c i)) = Some b /\ chosen b rank.
  Proof.
    unfold sort_search.
    assert (Hm : forall a b, (a <= b)%nat -> (b < n - 1)%nat ->
                 Qle_bool rank (c a) = true -> Qle_bool rank (c b) = true).
    { intros a b Hab Hb Ha. qb. apply Qle_bool_iff. specialize (HC a b Hab ltac:(lia)). lra. }
    destruct (bsearch_spec (fun i => Qle_bool rank (c i)) (n - 1) Hm (n - 1) 0 (n - 1))%nat
      as (b & Eb & Hb & Hlo & Hhi); try lia.
    exists b. split; auto. split; [lia|]. split.
    - intros k Hk. specialize (Hlo k Hk). qb. auto.
    - intros Hlt. specialize (Hhi b ltac:(lia) Hlt). qb. auto.
  Qed.

  Lemma chosen_order b1 b2 r1 r2 : chosen b1 r1 -> chosen b2 r2 -> r1 <= r2 -> (b1 <= b2)%nat.
  Proof.
    intros (A1 & L1 & H1) (A2 & L2 & H2) Hr.
    destruct (Nat.le_gt_cases b1 b2) as [|Hlt]; auto. exfalso.
    specialize (L1 b2 Hlt). specialize (H2 ltac:(lia)). lra.
  Qed.

  (* the fraction used in the default branch *)
  Lemma cq_val_cases b rank :
    chosen b rank -> 0 <= rank ->
    (b = (n - 1)%nat /\ cq_val bs b rank = R (u (n - 2)))
    \/ (b = 0%nat /\ (b < n - 1)%nat /\ cq_val bs b rank = R (u 0) /\ ext_le (u 0) (Fin 0))
    \/ ((b < n - 1)%nat /\ cq_val bs b rank = RNaN /\ b = 0%nat /\ rank == 0)
    \/ (exists st f, (b < n - 1)%nat /\ cq_val bs b rank = lin st (u b) f /\ ext_le st (u b) /\
                     0 <= f /\ f <= 1 /\
                     ((0 < b)%nat -> st = u (b - 1) /\ f * (c b - c (b - 1)) == rank - c (b - 1) /\ 0 < c b - c (b - 1)) /\
                     (b = 0%nat -> st = Fin 0 /\ f * c 0 == rank /\ 0 < c 0)).
  Proof.
    intros (A & L & H) Hr. unfold cq_val. fold n.
    destruct (Nat.eqb b (n - 1)) eqn:E1.
    { apply Nat.eqb_eq in E1. left. auto. }
    apply Nat.eqb_neq in E1. assert (Hb : (b < n - 1)%nat) by lia. specialize (H Hb).
    destruct (Nat.eqb b 0 && ext_leb (ub (nthb bs 0)) (Fin 0)) eqn:E2.
    { apply andb_true_iff in E2. destruct E2 as (E2 & E3). apply Nat.eqb_eq in E2.
      right; left. auto. }
    right; right.
    destruct (Nat.ltb 0 b) eqn:E3.
    - apply Nat.ltb_lt in E3. specialize (L (b - 1)%nat ltac:(lia)).
      fold (c b) (c (b - 1)) (u b) (u (b - 1)).
      replace (Qeq_bool (c b - c (b - 1)) 0) with false by (symmetry; apply Qeq_bool_false; lra).
      right. exists (u (b - 1)), ((rank - c (b - 1)) / (c b - c (b - 1))).
      destruct (div_range (rank - c (b - 1)) (c b - c (b - 1))) as (F0 & F1 & Fm); try lra.
      split; auto. split; auto. split; [apply HU; lia|]. split; auto. split; auto.
      split; [intros _; split; [auto|split; [auto|lra]]|intro; lia].
    - apply Nat.ltb_ge in E3. assert (b = 0%nat) by lia. subst b.
      fold (c 0) (u 0).
      destruct (Qeq_bool (c 0) 0) eqn:E4.
      + qb. left. split; auto. split; auto. split; auto. lra.
      + qb. right. assert (0 <= c 0) by (apply HN; lia).
        exists (Fin 0), (rank / c 0).
        destruct (div_range rank (c 0)) as (F0 & F1 & Fm); try lra.
        split; auto. split; auto.
        split.
        { simpl in E2. apply ext_leb_false in E2. apply ext_lt_le. exact E2. }
        split; auto. split; auto. split; [intro; lia|]. intros _. split; auto. split; auto. lra.
  Qed.

  Lemma cq_val_zero_branch r : (0 < n - 1)%nat -> ext_le (u 0) (Fin 0) -> cq_val bs 0 r = R (u 0).
  Proof.
    intros Hlt Z. unfold cq_val. fold n.
    replace (Nat.eqb 0 (n - 1)) with false by (symmetry; apply Nat.eqb_neq; lia).
    simpl. fold (u 0). unfold ext_le in Z. rewrite Z. reflexivity.
  Qed.

  Lemma cq_val_mono b1 b2 r1 r2 :
    chosen b1 r1 -> chosen b2 r2 -> 0 <= r1 -> r1 <= r2 ->
    cq_val bs b1 r1 = RNaN \/ cq_val bs b2 r2 = RNaN \/ res_le (cq_val bs b1 r1) (cq_val bs b2 r2).
  Proof.
    intros C1 C2 H0 Hr.
    assert (Hord := chosen_order _ _ _ _ C1 C2 Hr).
    destruct (cq_val_cases b1 r1 C1 H0) as [(E1 & V1)|[(E1 & B1 & V1 & Z1)|[(B1 & V1 & _)|(st1 & f1 & B1 & V1 & S1 & F10 & F11 & P1 & Q1)]]];
      [| | left; exact V1 |].
    - (* b1 = n-1: then b2 = n-1 *)
      assert (b2 = (n - 1)%nat) by (destruct C2; lia). subst b2.
      destruct (cq_val_cases (n - 1) r2 C2 ltac:(lra))
        as [(_ & V2)|[(E2 & B2 & _)|[(B2 & _)|(? & ? & B2 & _)]]]; try lia.
      right; right. rewrite V1, V2. apply ext_le_refl.
    - (* b1 = 0, u 0 <= 0: result u 0 *)
      destruct (cq_val_cases b2 r2 C2 ltac:(lra)) as [(E2 & V2)|[(E2 & B2 & V2 & Z2)|[(B2 & V2 & _)|(st2 & f2 & B2 & V2 & S2 & F20 & F21 & P2 & Q2)]]];
        [| | right; left; exact V2 |].
      + right; right. rewrite V1, V2. apply HU; lia.
      + right; right. rewrite V1, V2. apply ext_le_refl.
      + destruct (Nat.eq_dec b2 0) as [->|Hnz].
        * (* same bucket: u 0 <= 0 decides the branch *)
          subst b1. right; right. rewrite !cq_val_zero_branch; auto. apply ext_le_refl.
        * destruct (P2 ltac:(lia)) as (-> & _).
          destruct (lin_ext_range (u (b2 - 1)) (u b2) f2 S2 F20 F21) as [N2|(e2 & L2 & Lo2 & Hi2)];
            [right; left; rewrite V2; exact N2|].
          right; right. rewrite V1, V2, L2. simpl.
          eapply ext_le_trans; [|exact Lo2]. apply HU; lia.
    - (* default branch for b1 *)
      destruct (lin_ext_range st1 (u b1) f1 S1 F10 F11) as [N1|(e1 & L1 & Lo1 & Hi1)];
        [left; rewrite V1; exact N1|].
      destruct (cq_val_cases b2 r2 C2 ltac:(lra)) as [(E2 & V2)|[(E2 & B2 & V2 & Z2)|[(B2 & V2 & _)|(st2 & f2 & B2 & V2 & S2 & F20 & F21 & P2 & Q2)]]];
        [| | right; left; exact V2 |].
      + right; right. rewrite V1, V2, L1. simpl.
        eapply ext_le_trans; [exact Hi1|]. apply HU; lia.
      + (* b2 = 0 in the u0 <= 0 branch: then b1 = 0 takes the same branch *)
        assert (b1 = 0%nat) by lia. subst b1 b2.
        right; right. rewrite !cq_val_zero_branch; auto. apply ext_le_refl.
      + destruct (Nat.eq_dec b1 b2) as [<-|Hne].
        * (* same bucket: monotone in the fraction *)
          assert (st2 = st1 /\ f1 <= f2) as (-> & Hf).
          { destruct (Nat.eq_dec b1 0) as [->|Hnz].
            - destruct (Q1 eq_refl) as (-> & M1 & Hc). destruct (Q2 eq_refl) as (-> & M2 & _).
              split; auto. apply Qmult_lt_0_le_reg_r with (z := c 0); auto. lra.
            - destruct (P1 ltac:(lia)) as (-> & M1 & Hc). destruct (P2 ltac:(lia)) as (-> & M2 & _).
              split; auto. apply Qmult_lt_0_le_reg_r with (z := c b1 - c (b1 - 1)); auto. lra. }
          rewrite V1, V2. apply lin_ext_mono; auto.
        * assert (Hlt : (b1 < b2)%nat) by lia.
          destruct (P2 ltac:(lia)) as (-> & _).
          destruct (lin_ext_range (u (b2 - 1)) (u b2) f2 S2 F20 F21) as [N2|(e2 & L2 & Lo2 & Hi2)];
            [right; left; rewrite V2; exact N2|].
          right; right. rewrite V1, V2, L1, L2. simpl.
          eapply ext_le_trans; [exact Hi1|]. eapply ext_le_trans; [|exact Lo2]. apply HU; lia.
  Qed.
End ClassicCore.

Lemma cq_tail_mono bs forced q1 q2 :
  StronglySorted ext_le (ubs bs) -> nondecreasing (ccs bs) -> Forall (fun b => 0 <= cc b) bs ->
  0 <= q1 -> q1 <= q2 -> q2 <= 1 ->
  exists r1 r2, cq_tail bs forced q1 = QOk r1 forced /\ cq_tail bs forced q2 = QOk r2 forced /\
                (r1 = RNaN \/ r2 = RNaN \/ res_le r1 r2).
Proof.
  intros SU SC FN H0 H12 H1. unfold cq_tail.
  destruct (Nat.ltb (length bs) 2) eqn:En; [exists RNaN, RNaN; auto|].
  apply Nat.ltb_ge in En.
  destruct (Qeq_bool (cc (nthb bs (length bs - 1))) 0) eqn:Eo; [exists RNaN, RNaN; auto|].
  qb.
  assert (HC : forall i j, (i <= j)%nat -> (j < length bs)%nat -> cc (nthb bs i) <= cc (nthb bs j)).
  { intros i j Hij Hj. unfold nthb.
    rewrite <- !(map_nth cc). apply nondecreasing_nth; auto. unfold ccs in *. rewrite map_length. auto. }
  assert (HU : forall i j, (i <= j)%nat -> (j < length bs)%nat -> ext_le (ub (nthb bs i)) (ub (nthb bs j))).
  { intros i j Hij Hj. unfold nthb.
    rewrite <- !(map_nth ub). apply ss_nth; auto; [apply ext_le_refl|]. unfold ubs in *. rewrite map_length. auto. }
  assert (HN : forall i, (i < length bs)%nat -> 0 <= cc (nthb bs i)).
  { intros i Hi. rewrite Forall_forall in FN. apply FN. apply nth_In. auto. }
  assert (Hobs : 0 < cc (nthb bs (length bs - 1))).
  { specialize (HN (length bs - 1)%nat ltac:(lia)). lra. }
  set (obs := cc (nthb bs (length bs - 1))) in *.
  destruct (search_chosen bs En HC (q1 * obs)) as (b1 & S1 & C1).
  destruct (search_chosen bs En HC (q2 * obs)) as (b2 & S2 & C2).
  rewrite S1, S2.
  exists (cq_val bs b1 (q1 * obs)), (cq_val bs b2 (q2 * obs)). split; auto. split; auto.
  eapply cq_val_mono; eauto; nra.
Qed.

Lemma cinsert_nonempty b l : cinsert b l <> [].
Proof. destruct l; simpl; [discriminate|]. destruct (ext_leb _ _); discriminate. Qed.

(* BucketQuantile never decreases with q, for any non-empty bucket set with non-negative finite
   counts (not necessarily monotonic); a NaN result (possible only in the situations listed in
   [bucket_quantile] — no +Inf bucket, < 2 distinct bounds, no observations, or q*obs = 0 with an
   empty lowest bucket) is not ordered *)
Theorem bucket_quantile_mono bs0 q1 q2 :
  bs0 <> [] -> Forall (fun b => 0 <= cc b) bs0 ->
  0 <= q1 -> q1 <= q2 -> q2 <= 1 ->
  exists r1 r2 f, bucket_quantile q1 bs0 = QOk r1 f /\ bucket_quantile q2 bs0 = QOk r2 f /\
                  (r1 = RNaN \/ r2 = RNaN \/ res_le r1 r2).
Proof.
  intros Hne FN H0 H12 H1.
  rewrite !bucket_quantile_unfold by lra.
  assert (Hs : csort bs0 <> []).
  { destruct bs0; [congruence|]. simpl. apply cinsert_nonempty. }
  destruct (csort bs0) as [|x l] eqn:Es; [congruence|]. rewrite <- Es.
  destruct (negb (is_pinf (ub (last (csort bs0) dflt)))); [exists RNaN, RNaN, false; auto|].
  destruct (coalesce_spec (csort bs0) (csort_sorted bs0) (csort_forall _ _ FN)) as (CS & CF).
  destruct (ensure_monotonic small_delta_tolerance (coalesce (csort bs0))) as [bs forced] eqn:Ee.
  destruct (ensure_monotonic_nondecreasing _ _ _ _ Ee) as (EN & EU & EF).
  destruct (cq_tail_mono bs forced q1 q2) as (r1 & r2 & A & B & C); auto.
  - rewrite EU. exact CS.
  - exists r1, r2, forced. auto.
Qed.

(* ================================================================== HistogramFraction *)
Section FractionProofs.
  Variable fexp : Q -> Q -> Q -> Q.
  (* Bucket.FractionBelow(v, false) for v strictly inside a standard-schema bucket (a,b):
     between 0 and 1 and monotone in v (it is a linear function of log2 |v|) *)
  Hypothesis fexp_range : forall a b x, a < x -> x < b -> 0 <= fexp a b x /\ fexp a b x <= 1.
  Hypothesis fexp_mono : forall a b x1 x2, a < x1 -> x1 <= x2 -> x2 < b -> fexp a b x1 <= fexp a b x2.

  Variable h : hist.

  (* the rank the loop of HistogramFraction assigns to ONE bound v (None = never set) *)
  Fixpoint cdf_loop (v : ext) (bs : list bucket) (rank : Q) : option Q :=
    match bs with
    | [] => None
    | b :: r =>
        let '(l, u, lineark) := fadjust h b in
        if ext_leb v l then Some rank
        else if ext_ltb l v && ext_ltb v u then Some (frac_interp fexp lineark l u (bc b) rank v)
        else cdf_loop v r (rank + bc b)
    end.

  Definition clampN (o : option Q) : Q :=
    match o with
    | Some x => if Qlt_bool (h_count h) x then h_count h else x
    | None => h_count h
    end.
  Definition cdf (v : ext) : Q := clampN (cdf_loop v (h_buckets h) 0).

  Definition optl (s : fstate) := if fs_lset s then Some (fs_lrank s) else None.
  Definition optu (s : fstate) := if fs_uset s then Some (fs_urank s) else None.

  (* the loop computes the two ranks independently of each other *)
  Lemma floop_cdf lo up : forall bs s s' rest,
    floop fexp h lo up bs s = (s', rest) ->
    (fs_lset s && fs_uset s = false) ->
    optl s' = (if fs_lset s then Some (fs_lrank s) else cdf_loop lo bs (fs_rank s)) /\
    optu s' = (if fs_uset s then Some (fs_urank s) else cdf_loop up bs (fs_rank s)).
  Proof.
    induction bs as [|b bs IH]; intros s s' rest E Hns; simpl in E.
    - inversion E; subst. unfold optl, optu. simpl.
      destruct (fs_lset s'), (fs_uset s'); auto.
    - unfold fstep in E. simpl cdf_loop.
      destruct (fadjust h b) as [[l u] lineark].
      destruct s as [cnt rank lr ur ls us]; simpl in *.
      destruct ls, us; simpl in *; try discriminate.
      + (* lower set, upper not *)
        destruct (ext_leb up l) eqn:U1; simpl in E.
        * inversion E; subst. unfold optl, optu; simpl. auto.
        * destruct (ext_ltb l up && ext_ltb up u) eqn:U2; simpl in E.
          { inversion E; subst. unfold optl, optu; simpl. auto. }
          { apply IH in E; simpl in *; auto. }
      + (* upper set, lower not *)
        destruct (ext_leb lo l) eqn:L1; simpl in E.
        * inversion E; subst. unfold optl, optu; simpl. auto.
        * destruct (ext_ltb l lo && ext_ltb lo u) eqn:L2; simpl in E.
          { inversion E; subst. unfold optl, optu; simpl. auto. }
          { apply IH in E; simpl in *; auto. }
      + (* neither set *)
        destruct (ext_leb lo l) eqn:L1; destruct (ext_leb up l) eqn:U1; simpl in E.
        * inversion E; subst. unfold optl, optu; simpl. auto.
        * destruct (ext_ltb l up && ext_ltb up u) eqn:U2; simpl in E.
          { inversion E; subst. unfold optl, optu; simpl. auto. }
          { apply IH in E; simpl in *; auto. }
        * destruct (ext_ltb l lo && ext_ltb lo u) eqn:L2; simpl in E.
          { inversion E; subst. unfold optl, optu; simpl. auto. }
          { apply IH in E; simpl in *; auto. }
        * destruct (ext_ltb l lo && ext_ltb lo u) eqn:L2;
          destruct (ext_ltb l up && ext_ltb up u) eqn:U2; simpl in E.
          { inversion E; subst. unfold optl, optu; simpl. auto. }
          { apply IH in E; simpl in *; auto. }
          { apply IH in E; simpl in *; auto. }
          { apply IH in E; simpl in *; auto. }
  Qed.

  Lemma hfranks_cdf lo up :
    sum_nan h = false -> hfranks fexp lo up h = (cdf lo, cdf up).
  Proof.
    intro Hs. unfold hfranks, cdf.
    destruct (floop fexp h lo up (h_buckets h) (mkFS 0 0 0 0 false false)) as [s rest] eqn:E.
    destruct (floop_cdf lo up _ _ _ _ E eq_refl) as (A & B). simpl in A, B.
    rewrite Hs. rewrite <- A, <- B. unfold optl, optu, clampN.
    destruct (fs_lset s), (fs_uset s); simpl; reflexivity.
  Qed.

  Definition ole (o1 o2 : option Q) : Prop :=
    match o1, o2 with
    | Some a, Some b => a <= b
    | _, None => True
    | None, Some _ => False
    end.

  Lemma clampN_mono o1 o2 : ole o1 o2 -> clampN o1 <= clampN o2.
  Proof.
    unfold clampN. destruct o1 as [a|], o2 as [b|]; simpl; intro H; try tauto; try lra.
    - destruct (Qlt_bool (h_count h) a) eqn:Ea, (Qlt_bool (h_count h) b) eqn:Eb; qb; lra.
    - destruct (Qlt_bool (h_count h) a) eqn:Ea; qb; lra.
  Qed.

  (* brute-force reasoning on the order of extended rationals *)
  Ltac ext_brute :=
    repeat match goal with
    | H : ext_le _ _ |- _ => unfold ext_le in H
    | H : ext_lt _ _ |- _ => unfold ext_lt in H
    | H : _ && _ = true |- _ => apply andb_true_iff in H; destruct H
    end;
    unfold ext_ltb in *;
    repeat match goal with
    | x : ext |- _ => destruct x
    end; simpl in *; try discriminate; try tauto;
    repeat match goal with
    | H : negb _ = true |- _ => apply negb_true_iff in H
    | H : negb _ = false |- _ => apply negb_false_iff in H
    | H : _ && _ = false |- _ => apply andb_false_iff in H; destruct H
    end; try discriminate; qb; try lra.

  (* facts about the adjusted bounds of a well-formed bucket *)
  Lemma fadjust_facts b l u k :
    wf_bucket (h_custom h) b -> fadjust h b = (l, u, k) ->
    ext_le l u /\ (l = NInf -> bl b = NInf) /\
    (k = false -> exists x y, l = Fin x /\ u = Fin y /\ x < y).
  Proof.
    intros (Hlt & Hni & Hfin) E. unfold fadjust in E.
    destruct (ext_leb (bl b) (Fin 0) && ext_leb (Fin 0) (bu b)) eqn:Z.
    - rewrite orb_true_r in E.
      apply andb_true_iff in Z. destruct Z as (Z1 & Z2).
      destruct (negb (h_hasneg h) && h_haspos h).
      + inversion E; subst. split; [exact Z2|]. split; [discriminate|discriminate].
      + destruct (negb (h_haspos h) && h_hasneg h); inversion E; subst.
        * split; [exact Z1|]. split; [auto|discriminate].
        * split; [apply ext_lt_le; auto|]. split; [auto|discriminate].
    - rewrite orb_false_r in E. inversion E; subst.
      split; [apply ext_lt_le; auto|]. split; [auto|].
      intro Hc. destruct (Hfin Hc) as (x & y & Ex & Ey). exists x, y.
      rewrite Ex, Ey in *. split; auto. split; auto. apply ext_lt_fin. exact Hlt.
  Qed.

  Lemma fi_bounds k l u c rank v :
    0 <= c -> (l = NInf -> rank == 0) ->
    (k = false -> exists x y, l = Fin x /\ u = Fin y /\ x < y) ->
    ext_lt l v -> ext_lt v u ->
    rank <= frac_interp fexp k l u c rank v /\ frac_interp fexp k l u c rank v <= rank + c.
  Proof.
    intros Hc Hn Hk H1 H2. unfold frac_interp.
    destruct v as [|x|]; [ext_brute| |ext_brute].
    destruct k.
    - destruct l as [|a|], u as [|b|]; try (split; lra).
      + specialize (Hn eq_refl). split; lra.
      + specialize (Hn eq_refl). split; lra.
      + specialize (Hn eq_refl). split; lra.
      + apply ext_lt_fin in H1, H2.
        destruct (div_range (x - a) (b - a)) as (F0 & F1 & _); try lra. split; nra.
    - destruct (Hk eq_refl) as (a & b & -> & -> & Hab).
      apply ext_lt_fin in H1, H2. destruct (fexp_range a b x H1 H2). split; nra.
  Qed.

  Lemma fi_mono k l u c rank v1 v2 :
    0 <= c ->
    (k = false -> exists x y, l = Fin x /\ u = Fin y /\ x < y) ->
    ext_lt l v1 -> ext_le v1 v2 -> ext_lt v2 u ->
    frac_interp fexp k l u c rank v1 <= frac_interp fexp k l u c rank v2.
  Proof.
    intros Hc Hk H1 H12 H2. unfold frac_interp.
    destruct v1 as [|x1|]; [ext_brute| |ext_brute].
    destruct v2 as [|x2|]; [ext_brute| |ext_brute].
    apply ext_le_fin in H12.
    destruct k.
    - destruct l as [|a|], u as [|b|]; try lra.
      apply ext_lt_fin in H1, H2.
      destruct (div_range (x1 - a) (b - a)) as (F0 & F1 & M1); try lra.
      destruct (div_range (x2 - a) (b - a)) as (G0 & G1 & M2); try lra.
      assert ((x1 - a) / (b - a) <= (x2 - a) / (b - a)).
      { apply Qmult_lt_0_le_reg_r with (z := b - a); lra. }
      nra.
    - destruct (Hk eq_refl) as (a & b & -> & -> & Hab).
      apply ext_lt_fin in H1, H2. assert (fexp a b x1 <= fexp a b x2) by (apply fexp_mono; auto).
      nra.
  Qed.

  Lemma tail_no_ninf b bs :
    StronglySorted (fun a b => ext_le (bu a) (bl b)) (b :: bs) -> wf_bucket (h_custom h) b ->
    forall b', In b' bs -> bl b' <> NInf.
  Proof.
    intros S (Hlt & _) b' I E. inversion S as [|? ? _ F]; subst.
    rewrite Forall_forall in F. specialize (F _ I). rewrite E in F.
    destruct (bl b), (bu b); ext_brute.
  Qed.

  Lemma cdf_loop_lower v : forall bs rank x,
    Forall (fun b => 0 <= bc b) bs -> Forall (wf_bucket (h_custom h)) bs ->
    StronglySorted (fun a b => ext_le (bu a) (bl b)) bs ->
    (forall b, In b bs -> bl b = NInf -> rank == 0) ->
    cdf_loop v bs rank = Some x -> rank <= x.
  Proof.
    induction bs as [|b bs IH]; intros rank x FN FW SS P E; simpl in E; [discriminate|].
    destruct (fadjust h b) as [[l u] k] eqn:Ea.
    inversion FN as [|? ? Hc FN']; subst. inversion FW as [|? ? Hw FW']; subst.
    destruct (fadjust_facts b l u k Hw Ea) as (Hlu & Hnl & Hk).
    destruct (ext_leb v l) eqn:A; [inversion E; lra|].
    destruct (ext_ltb l v && ext_ltb v u) eqn:B.
    - inversion E; subst. apply andb_true_iff in B. destruct B as (B1 & B2).
      apply fi_bounds; auto. intro En. apply (P b); [left; auto|auto].
    - assert (rank + bc b <= x); [|lra].
      apply IH; auto.
      + inversion SS; auto.
      + intros b' I En. exfalso. eapply tail_no_ninf; eauto.
  Qed.

  Lemma cdf_loop_mono v1 v2 : ext_le v1 v2 -> forall bs rank,
    Forall (fun b => 0 <= bc b) bs -> Forall (wf_bucket (h_custom h)) bs ->
    StronglySorted (fun a b => ext_le (bu a) (bl b)) bs ->
    (forall b, In b bs -> bl b = NInf -> rank == 0) ->
    ole (cdf_loop v1 bs rank) (cdf_loop v2 bs rank).
  Proof.
    intros H12. induction bs as [|b bs IH]; intros rank FN FW SS P; simpl; [exact I|].
    destruct (fadjust h b) as [[l u] k] eqn:Ea.
    inversion FN as [|? ? Hc FN']; subst. inversion FW as [|? ? Hw FW']; subst.
    destruct (fadjust_facts b l u k Hw Ea) as (Hlu & Hnl & Hk).
    assert (Hn : l = NInf -> rank == 0) by (intro En; apply (P b); [left; auto|auto]).
    assert (SS' : StronglySorted (fun a b => ext_le (bu a) (bl b)) bs) by (inversion SS; auto).
    assert (P' : forall b', In b' bs -> bl b' = NInf -> rank + bc b == 0).
    { intros b' I En. exfalso. eapply tail_no_ninf; eauto. }
    destruct (ext_leb v1 l) eqn:A1.
    - destruct (ext_leb v2 l) eqn:A2; [simpl; lra|].
      destruct (ext_ltb l v2 && ext_ltb v2 u) eqn:B2.
      + simpl. apply andb_true_iff in B2. destruct B2 as (B21 & B22).
        apply fi_bounds; auto.
      + destruct (cdf_loop v2 bs (rank + bc b)) as [x2|] eqn:E2; simpl; auto.
        apply cdf_loop_lower in E2; auto. lra.
    - destruct (ext_ltb l v1 && ext_ltb v1 u) eqn:B1.
      + apply andb_true_iff in B1. destruct B1 as (B11 & B12).
        destruct (ext_leb v2 l) eqn:A2; [exfalso; clear - A1 A2 B11 H12; ext_brute|].
        destruct (ext_ltb l v2 && ext_ltb v2 u) eqn:B2.
        * simpl. apply andb_true_iff in B2. destruct B2 as (B21 & B22). apply fi_mono; auto.
        * destruct (cdf_loop v2 bs (rank + bc b)) as [x2|] eqn:E2; simpl; auto.
          apply cdf_loop_lower in E2; auto.
          destruct (fi_bounds k l u (bc b) rank v1); auto. lra.
      + destruct (ext_leb v2 l) eqn:A2; [exfalso; clear - A1 A2 H12; ext_brute|].
        destruct (ext_ltb l v2 && ext_ltb v2 u) eqn:B2; [exfalso; clear - A1 B1 A2 B2 H12; ext_brute|].
        apply IH; auto.
  Qed.

  Hypothesis W : wf_hist h.

  Lemma top_P : forall b, In b (h_buckets h) -> bl b = NInf -> 0 == 0.
  Proof. intros; lra. Qed.

  Lemma cdf_mono v1 v2 : ext_le v1 v2 -> cdf v1 <= cdf v2.
  Proof.
    intro H. unfold cdf. apply clampN_mono. destruct W.
    apply cdf_loop_mono; auto. apply top_P.
  Qed.

  Lemma cdf_range v : 0 <= cdf v /\ cdf v <= h_count h.
  Proof.
    unfold cdf, clampN. assert (Hp := wf_pos h W).
    destruct (cdf_loop v (h_buckets h) 0) as [x|] eqn:E; [|lra].
    apply cdf_loop_lower in E; try (destruct W; auto; fail); [|apply top_P].
    destruct (Qlt_bool (h_count h) x) eqn:Ex; qb; lra.
  Qed.

  Lemma fadjust_l_not_pinf b l u k :
    wf_bucket (h_custom h) b -> fadjust h b = (l, u, k) -> l <> PInf.
  Proof.
    intros (Hlt & _) E. unfold fadjust in E.
    destruct (ext_leb (bl b) (Fin 0) && ext_leb (Fin 0) (bu b)) eqn:Z.
    - apply andb_true_iff in Z. destruct Z as (Z1 & Z2).
      destruct (negb (h_hasneg h) && h_haspos h); [inversion E; discriminate|].
      destruct (negb (h_haspos h) && h_hasneg h); inversion E; subst;
        intro Hp; rewrite Hp in Z1; discriminate.
    - inversion E; subst. intro Hp. rewrite Hp in Hlt. unfold ext_lt, ext_ltb in Hlt.
      destruct (bu b); discriminate.
  Qed.

  Lemma cdf_loop_pinf : forall bs rank,
    Forall (wf_bucket (h_custom h)) bs -> cdf_loop PInf bs rank = None.
  Proof.
    induction bs as [|b bs IH]; intros rank FW; simpl; auto.
    inversion FW as [|? ? Hw FW']; subst.
    destruct (fadjust h b) as [[l u] k] eqn:Ea.
    assert (Hl := fadjust_l_not_pinf b l u k Hw Ea).
    assert (Hu : ext_ltb PInf u = false) by (destruct u; reflexivity).
    destruct l; try congruence; simpl; rewrite ?Hu; apply IH; auto.
  Qed.

  Lemma cdf_pinf : cdf PInf = h_count h.
  Proof. unfold cdf. rewrite cdf_loop_pinf; [reflexivity|apply (wf_bkt h W)]. Qed.

  Lemma cdf_ninf : cdf NInf == 0.
  Proof.
    unfold cdf. assert (Hp := wf_pos h W). assert (Ht := wf_tot h W).
    destruct (h_buckets h) as [|b bs] eqn:E; [simpl in Ht; lra|].
    simpl. destruct (fadjust h b) as [[l u] k]. simpl.
    replace (Qlt_bool (h_count h) 0) with false by (symmetry; apply Qlt_bool_false; lra). lra.
  Qed.

  Lemma hfraction_eq lo up :
    hfraction fexp lo up h =
    if ext_leb up lo then R (Fin 0) else R (Fin ((cdf up - cdf lo) / h_count h)).
  Proof.
    unfold hfraction. assert (Hp := wf_pos h W).
    replace (Qeq_bool (h_count h) 0) with false by (symmetry; apply Qeq_bool_false; lra).
    destruct (ext_leb up lo); [reflexivity|].
    rewrite hfranks_cdf; [reflexivity|apply (wf_sum h W)].
  Qed.

  (* the fraction lies in [0, 1] *)
  Theorem fraction_range lo up :
    exists x, hfraction fexp lo up h = R (Fin x) /\ 0 <= x /\ x <= 1.
  Proof.
    rewrite hfraction_eq. assert (Hp := wf_pos h W).
    destruct (ext_leb up lo) eqn:E; [exists 0; split; [reflexivity|lra]|].
    eexists; split; [reflexivity|].
    apply ext_leb_false, ext_lt_le in E. assert (Hm := cdf_mono lo up E).
    destruct (cdf_range lo), (cdf_range up).
    destruct (div_range (cdf up - cdf lo) (h_count h)) as (A & B & _); try lra.
  Qed.

  (* it does not decrease when the interval grows *)
  Theorem fraction_mono l1 u1 l2 u2 :
    ext_le l2 l1 -> ext_le u1 u2 ->
    exists x1 x2, hfraction fexp l1 u1 h = R (Fin x1) /\ hfraction fexp l2 u2 h = R (Fin x2) /\ x1 <= x2.
  Proof.
    intros Hl Hu. assert (Hp := wf_pos h W).
    destruct (fraction_range l2 u2) as (x2 & E2 & R20 & R21).
    rewrite (hfraction_eq l2 u2) in E2 |- *. rewrite (hfraction_eq l1 u1).
    destruct (ext_leb u1 l1) eqn:E1.
    - exists 0, x2. split; [reflexivity|]. split; [exact E2|lra].
    - apply ext_leb_false in E1.
      assert (E2' : ext_leb u2 l2 = false).
      { destruct (ext_leb u2 l2) eqn:X; auto. exfalso. clear - E1 Hl Hu X. ext_brute. }
      rewrite E2' in *. eexists; eexists. split; [reflexivity|]. split; [reflexivity|].
      assert (A := cdf_mono l2 l1 Hl). assert (B := cdf_mono u1 u2 Hu).
      apply Qmult_lt_0_le_reg_r with (z := h_count h); auto.
      unfold Qdiv. rewrite <- !Qmult_assoc.
      setoid_replace (/ h_count h * h_count h) with 1 by (field; lra). lra.
  Qed.

  (* and it is 1 over (-Inf, +Inf) *)
  Theorem fraction_total :
    exists x, hfraction fexp NInf PInf h = R (Fin x) /\ x == 1.
  Proof.
    rewrite hfraction_eq. simpl. eexists; split; [reflexivity|].
    rewrite cdf_pinf. assert (Hp := wf_pos h W). rewrite cdf_ninf. field. lra.
  Qed.
End FractionProofs.

(* ================================================================== the code before e11e8e804f *)
(* custom buckets (0,1]:3, (1,2]:4, three NaN observations (count 10, sum NaN) *)
Definition old_witness : hist :=
  mkH 10 RNaN true true false [mkB (Fin 0) (Fin 1) 3; mkB (Fin 1) (Fin 2) 4].

Lemma hquantile_old_refuted :
  exists h q1 q2,
    sum_nan h = true /\ 0 <= q1 /\ q1 <= q2 /\ q2 <= 1 /\
    forall iexp,
      ~ res_le (hquantile_old iexp q1 h) (hquantile_old iexp q2 h) /\
      res_le (hquantile iexp q1 h) (hquantile iexp q2 h).
Proof.
  exists old_witness, (1 # 4), (5 # 16).
  split; [reflexivity|]. split; [lra|]. split; [lra|]. split; [lra|].
  intro iexp. split.
  - vm_compute. discriminate.
  - vm_compute. reflexivity.
Qed.

(* non-vacuity: a well-formed histogram with negative, zero and positive buckets *)
Definition example_hist : hist :=
  mkH 10 (R (Fin 3)) false true true
      [mkB (Fin (-2)) (Fin (-1)) 2; mkB (Fin (-1 # 2)) (Fin (1 # 2)) 3; mkB (Fin 1) (Fin 2) 0; mkB (Fin 2) (Fin 4) 5].

Lemma example_hist_wf : wf_hist example_hist.
Proof.
  constructor; simpl.
  - lra.
  - reflexivity.
  - vm_compute. reflexivity.
  - repeat constructor; simpl; lra.
  - repeat constructor; simpl; try discriminate;
      try (intros (A & _); discriminate); try (intros _; eexists; eexists; split; reflexivity).
  - repeat constructor.
Qed.

Definition example_custom : hist :=
  mkH 8 (R (Fin 3)) true true false
      [mkB NInf (Fin (-10)) 2; mkB (Fin (-10)) (Fin 5) 2; mkB (Fin 5) (Fin 20) 2; mkB (Fin 20) PInf 2].

Lemma example_custom_wf : wf_hist example_custom.
Proof.
  constructor; simpl.
  - lra.
  - reflexivity.
  - vm_compute. reflexivity.
  - repeat constructor; simpl; lra.
  - repeat constructor; simpl; try discriminate;
      try (intros (A & B); discriminate); try (intros (A & B); discriminate B).
  - repeat constructor.
Qed.

(* ================================================================== NaN sums (NaN observations) *)
(* a histogram that observed NaNs: the sum is NaN and the count may exceed the buckets *)
Record wf_nan_hist (h : hist) : Prop := mkWFN {
  wfn_pos : 0 < h_count h;
  wfn_sum : sum_nan h = true;
  wfn_tot : sumc (h_buckets h) <= h_count h;
  wfn_cnt : Forall (fun b => 0 <= bc b) (h_buckets h);
  wfn_bkt : Forall (wf_bucket (h_custom h)) (h_buckets h);
  wfn_sorted : StronglySorted (fun a b => ext_le (bu a) (bl b)) (h_buckets h)
}.

Lemma last_default {A} (l : list A) a d1 d2 : last (a :: l) d1 = last (a :: l) d2.
Proof. revert a. induction l as [|x l IH]; intro a; [reflexivity|]. simpl in *. apply IH. Qed.

Lemma scan_last : forall bs rank cum lst b c,
  scan bs rank cum lst = (b, c, []) -> b = last bs lst.
Proof.
  induction bs as [|x bs IH]; intros rank cum lst b c E; simpl in E.
  - inversion E; auto.
  - assert (Hl : last bs x = last (x :: bs) lst).
    { destruct bs; [reflexivity|]. simpl. apply last_default. }
    destruct (Qeq_bool (bc x) 0).
    + apply IH in E. rewrite E. exact Hl.
    + destruct (Qle_bool rank (cum + bc x)).
      * inversion E; subst. reflexivity.
      * apply IH in E. rewrite E. exact Hl.
Qed.

Section NaNSum.
  Variable iexp : Q -> Q -> Q -> Q.
  Hypothesis iexp_range : forall a b f, a < b -> 0 <= f -> f <= 1 -> a <= iexp a b f /\ iexp a b f <= b.
  Hypothesis iexp_mono : forall a b f1 f2, a < b -> 0 <= f1 -> f1 <= f2 -> f2 <= 1 ->
                                          iexp a b f1 <= iexp a b f2.

  (* the two outcomes of the forward search on a histogram with NaN observations *)
  Lemma hquantile_nan_char h q :
    wf_nan_hist h -> 0 <= q -> q <= 1 ->
    (exists pre b post f,
        MinSel (h_buckets h) (q * h_count h) pre b post /\
        0 <= f /\ f <= 1 /\ f * bc b == q * h_count h - sumc pre /\
        hquantile iexp q h = qvalue iexp h b f)
    \/ ((sumc (h_buckets h) < q * h_count h \/ Forall (fun x => bc x == 0) (h_buckets h)) /\
        hquantile iexp q h =
        match qadjust h (last (h_buckets h) zero_bucket) with inl r => r | inr _ => RNaN end).
  Proof.
    intros W H0 H1. destruct W as [Wp Ws Wt Wc Wb Wo].
    set (N := h_count h) in *. set (bs := h_buckets h) in *.
    assert (HqN0 : 0 <= q * N) by nra.
    unfold hquantile, hquantile_gen.
    replace (Qlt_bool q 0) with false by (symmetry; apply Qlt_bool_false; lra).
    replace (Qlt_bool 1 q) with false by (symmetry; apply Qlt_bool_false; lra).
    replace (Qeq_bool (h_count h) 0) with false by (symmetry; apply Qeq_bool_false; fold N; lra).
    rewrite Ws. simpl orb. simpl andb. cbv beta iota. fold N. fold bs.
    destruct (scan bs (q * N) 0 zero_bucket) as [[b c] rest] eqn:Es.
    destruct (scan_spec _ _ _ _ _ _ _ HqN0 Es) as [(pre & E & Hnz & Hcc & Hle & Hr & Hmin)|(E & Hcc & Hd)].
    - left.
      assert (Hb : 0 < bc b).
      { apply (nonneg_pos bs); auto. rewrite E. apply in_or_app. right. left. auto. }
      assert (Hrest : 0 <= sumc rest).
      { apply sumc_nonneg. rewrite E in Wc. apply Forall_app in Wc. destruct Wc as (_ & Wc).
        inversion Wc; auto. }
      assert (HT : sumc bs == sumc pre + bc b + sumc rest).
      { rewrite E at 1. rewrite sumc_app. simpl. lra. }
      destruct (div_range (q * N - (c - bc b)) (bc b) Hb ltac:(lra) ltac:(lra)) as (F0 & F1 & Fm).
      exists pre, b, rest, ((q * N - (c - bc b)) / bc b).
      split.
      { split; [split; [auto|split; [auto|split; lra]]|].
        intros p1 x p2 Ep Hx. specialize (Hmin _ _ _ Ep Hx). lra. }
      split; [auto|]. split; [auto|]. split; [lra|].
      unfold qvalue. destruct (qadjust h b) as [r|[l u]]; [reflexivity|].
      replace (Qlt_bool N c) with false by (symmetry; apply Qlt_bool_false; lra).
      replace (Qlt_bool c (q * N)) with false by (symmetry; apply Qlt_bool_false; lra).
      replace (Qeq_bool (bc b) 0) with false by (symmetry; apply Qeq_bool_false; lra).
      reflexivity.
    - right. subst rest. apply scan_last in Es. subst b.
      split.
      { destruct Hd as [Hd|Hd]; [left; lra|right; auto]. }
      destruct (qadjust h (last bs zero_bucket)) as [r|[l u]]; [reflexivity|].
      assert (HcN : c <= N) by lra.
      replace (Qlt_bool N c) with false by (symmetry; apply Qlt_bool_false; lra).
      destruct (Qlt_bool c (q * N)) eqn:El; [reflexivity|].
      qb. destruct Hd as [Hd|Hd]; [lra|].
      assert (Hz := sumc_zero _ Hd).
      (* nothing populated and rank = 0: 0/0 *)
      assert (Hlast : bc (last bs zero_bucket) == 0).
      { clear - Hd. induction Hd; simpl; [lra|]. destruct l; auto. }
      replace (Qeq_bool (bc (last bs zero_bucket)) 0) with true by (symmetry; apply Qeq_bool_iff; auto).
      replace (Qeq_bool (q * N - (c - bc (last bs zero_bucket))) 0) with true; [reflexivity|].
      symmetry. apply Qeq_bool_iff. lra.
  Qed.

  Lemma last_split (bs : list bucket) : bs <> [] -> exists pre, bs = pre ++ [last bs zero_bucket].
  Proof.
    intro H. destruct (exists_last H) as (pre & a & E). exists pre. rewrite E at 2.
    rewrite last_last. exact E.
  Qed.

  Lemma qadjust_zero_bucket h : exists lu, qadjust h zero_bucket = inr lu.
  Proof.
    unfold qadjust, zero_bucket; simpl. destruct (h_custom h); simpl; eexists; reflexivity.
  Qed.

  (* an early return for the last bucket is a number inside that bucket *)
  Lemma qadjust_inl_range h b r :
    wf_bucket (h_custom h) b -> qadjust h b = inl r ->
    exists e, r = R e /\ ext_le (bl b) e /\ ext_le e (bu b).
  Proof.
    intros Wb E. destruct (qvalue_range iexp iexp_range h b 0 Wb ltac:(lra) ltac:(lra)) as (e & He & Hl & Hu).
    unfold qvalue in He. rewrite E in He. exists e. auto.
  Qed.

  (* with NaN observations (sum NaN, count >= buckets) the fixed code never decreases either:
     once q is so large that the rank lies beyond all buckets the result is NaN (or, for custom
     buckets, the early return of the last bucket) *)
  Theorem quantile_mono_nan h q1 q2 :
    wf_nan_hist h -> 0 <= q1 -> q1 <= q2 -> q2 <= 1 ->
    hquantile iexp q2 h = RNaN \/ res_le (hquantile iexp q1 h) (hquantile iexp q2 h).
  Proof.
    intros W H0 H12 H1.
    assert (Hp := wfn_pos h W). assert (Wc := wfn_cnt h W).
    assert (FB := wfn_bkt h W). rewrite Forall_forall in FB.
    assert (Hr : q1 * h_count h <= q2 * h_count h) by nra.
    destruct (hquantile_nan_char h q1 W H0 ltac:(lra))
      as [(pre1 & b1 & post1 & f1 & HM1 & F10 & F11 & Fm1 & Hv1)|(Hn1 & Hv1)];
    destruct (hquantile_nan_char h q2 W ltac:(lra) H1)
      as [(pre2 & b2 & post2 & f2 & HM2 & F20 & F21 & Fm2 & Hv2)|(Hn2 & Hv2)];
    rewrite Hv1, Hv2.
    - (* both found *)
      right.
      assert (Wb1 : wf_bucket (h_custom h) b1) by (apply FB; eapply sel_in; apply HM1).
      assert (Wb2 : wf_bucket (h_custom h) b2) by (apply FB; eapply sel_in; apply HM2).
      destruct (sel_order_fwd _ _ _ _ _ _ _ _ _ HM1 (proj1 HM2) Hr) as [(Ea & Eb & Ec)|(mid & Ea & Eb)].
      + subst pre2 b2 post2. destruct HM1 as ((_ & Hb & _) & _).
        apply qvalue_mono; auto. apply Qmult_lt_0_le_reg_r with (z := bc b1); auto. lra.
      + destruct (qvalue_range iexp iexp_range h b1 f1 Wb1 F10 F11) as (e1 & He1 & _ & Hu1).
        destruct (qvalue_range iexp iexp_range h b2 f2 Wb2 F20 F21) as (e2 & He2 & Hl2 & _).
        rewrite He1, He2. simpl.
        assert (Hm : ext_le (bu b1) (bl b2)).
        { apply (sorted_mid (h_buckets h) pre1 mid post2); [apply (wfn_sorted h W)|].
          destruct HM2 as ((E2 & _) & _). rewrite E2, Ea. rewrite <- app_assoc. reflexivity. }
        eapply ext_le_trans; [exact Hu1|]. eapply ext_le_trans; [exact Hm|exact Hl2].
    - (* q1 found, q2 beyond the buckets *)
      destruct (qadjust h (last (h_buckets h) zero_bucket)) as [r|lu] eqn:Ea; [right|left; reflexivity].
      assert (Wb1 : wf_bucket (h_custom h) b1) by (apply FB; eapply sel_in; apply HM1).
      destruct HM1 as ((E1 & Hb1 & _) & _).
      assert (Hne : h_buckets h <> []) by (rewrite E1; destruct pre1; discriminate).
      destruct (last_split _ Hne) as (pre & El).
      set (bl_ := last (h_buckets h) zero_bucket) in *.
      assert (Wbl : wf_bucket (h_custom h) bl_).
      { apply FB. rewrite El. apply in_or_app. right. left. auto. }
      destruct (qadjust_inl_range h bl_ r Wbl Ea) as (e & -> & Hl & Hu).
      destruct (qvalue_range iexp iexp_range h b1 f1 Wb1 F10 F11) as (e1 & He1 & _ & Hu1).
      rewrite E1 in El.
      destruct (split_cmp pre1 b1 post1 pre bl_ [] El) as [(Ex & Ey & Ez)|[(mid & Ex & Ey)|(mid & Ex & Ey)]].
      + (* b1 is the last bucket: same early return *)
        unfold qvalue. rewrite Ey, Ea. simpl. apply ext_le_refl.
      + rewrite He1. simpl.
        assert (Hm : ext_le (bu b1) (bl bl_)).
        { apply (sorted_mid (h_buckets h) pre1 mid []); [apply (wfn_sorted h W)|].
          rewrite E1, Ey. reflexivity. }
        eapply ext_le_trans; [exact Hu1|]. eapply ext_le_trans; [exact Hm|exact Hl].
      + destruct mid; discriminate.
    - (* q1 beyond the buckets but q2 not: impossible *)
      exfalso. destruct HM2 as ((E2 & Hb2 & Hlo2 & Hhi2) & _).
      assert (HT : sumc (h_buckets h) == sumc pre2 + bc b2 + sumc post2).
      { rewrite E2 at 1. rewrite sumc_app. simpl. lra. }
      assert (0 <= sumc post2).
      { apply sumc_nonneg. rewrite E2 in Wc. apply Forall_app in Wc. destruct Wc as (_ & Wc).
        inversion Wc; auto. }
      destruct Hn1 as [Hn1|Hn1]; [lra|].
      rewrite Forall_forall in Hn1. specialize (Hn1 b2). rewrite E2 in Hn1.
      specialize (Hn1 ltac:(apply in_or_app; right; left; auto)). lra.
    - (* both beyond the buckets: the same result *)
      destruct (qadjust h (last (h_buckets h) zero_bucket)) as [r|lu] eqn:Ea; [right|left; reflexivity].
      destruct (h_buckets h) as [|x l] eqn:Eb.
      { simpl in Ea. destruct (qadjust_zero_bucket h) as (lu & E). congruence. }
      rewrite <- Eb in *.
      assert (Hne : h_buckets h <> []) by (rewrite Eb; discriminate).
      destruct (last_split _ Hne) as (pre & El).
      assert (Wbl : wf_bucket (h_custom h) (last (h_buckets h) zero_bucket)).
      { apply FB. rewrite El at 2. apply in_or_app. right. left. auto. }
      destruct (qadjust_inl_range h _ r Wbl Ea) as (e & -> & Hl & Hu).
      simpl. apply ext_le_refl.
  Qed.
End NaNSum.

Definition example_nan : hist :=
  mkH 10 RNaN false true false [mkB (Fin (1 # 2)) (Fin 1) 3; mkB (Fin 1) (Fin 2) 4].
Lemma example_nan_wf : wf_nan_hist example_nan.
Proof.
  constructor; simpl.
  - lra.
  - reflexivity.
  - vm_compute. discriminate.
  - repeat constructor; simpl; lra.
  - repeat constructor; simpl; try discriminate;
      try (intros (A & _); discriminate); try (intros _; eexists; eexists; split; reflexivity).
  - repeat constructor.
Qed.

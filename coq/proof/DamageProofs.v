(* proof/DamageProofs.v — lemmas about model/Damage.v (C04). *)
From Coq Require Import List ZArith Bool Lia.
From Verif Require Import model.Damage.
Import ListNotations.
Open Scope Z_scope.

(* ------------------------------------------------------------------ level 1: what a reader delivers *)
Definition strip (l : list wrec) : list wrec :=
  filter (fun r => match r with ROther => false | _ => true end) l.

Lemma strip_app : forall a b, strip (a ++ b) = strip a ++ strip b.
Proof. intros. unfold strip. apply filter_app. Qed.

Lemma strip_phantoms : forall b, strip (phantoms b) = [].
Proof. destruct b; reflexivity. Qed.

Lemma phantoms_in : forall b r, In r (phantoms b) -> r = ROther.
Proof. destruct b; simpl; intros r H; [destruct H as [H|[]]; auto | destruct H]. Qed.

(* every record delivered is an original record or an empty one *)
Lemma rd_in : forall d o vend recs pos out st,
  rd d o vend pos recs = (out, st) ->
  forall r, In r out -> r = ROther \/ In r (map r_rec recs).
Proof.
  induction recs as [|x rest IH]; intros pos out st H r Hr; simpl in H.
  - destruct d as [|off|off v].
    + inversion H; subst. destruct Hr.
    + inversion H; subst. destruct Hr.
    + destruct ((pos <=? off) && (off <? vend)).
      * destruct (gap_byte pos vend off v); inversion H; subst; left; eapply phantoms_in; eauto.
      * inversion H; subst. destruct Hr.
  - destruct (hits d pos (r_end x)).
    + destruct (damaged_rec d o pos vend x) as [ph s|ph].
      * inversion H; subst. left. eapply phantoms_in; eauto.
      * destruct (rd d o vend (r_end x) rest) as [out' st'] eqn:E. inversion H; subst.
        apply in_app_or in Hr. destruct Hr as [Hr|Hr].
        -- left. eapply phantoms_in; eauto.
        -- simpl in Hr. destruct Hr as [Hr|Hr].
           ++ right. left. auto.
           ++ destruct (IH _ _ _ E r Hr); auto. right. right. auto.
    + destruct (rd d o vend (r_end x) rest) as [out' st'] eqn:E. inversion H; subst.
      simpl in Hr. destruct Hr as [Hr|Hr].
      * right. left. auto.
      * destruct (IH _ _ _ E r Hr); auto. right. right. auto.
Qed.

(* the records delivered are, empty records aside, a prefix of the original records; when the
   reader stops before the end it is at a record the damage touches *)
Lemma rd_prefix : forall d o vend recs pos out st,
  rd d o vend pos recs = (out, st) ->
  exists k, (k <= length recs)%nat /\ strip out = strip (map r_rec (firstn k recs)) /\
            (forall j r, (j < k)%nat -> nth_error recs j = Some r -> In (r_rec r) out).
Proof.
  induction recs as [|x rest IH]; intros pos out st H; simpl in H.
  - exists 0%nat. split; [lia|]. split.
    + destruct d as [|off|off v]; try (inversion H; subst; reflexivity).
      destruct ((pos <=? off) && (off <? vend)).
      * destruct (gap_byte pos vend off v); inversion H; subst; apply strip_phantoms.
      * inversion H; subst; reflexivity.
    + intros; lia.
  - destruct (hits d pos (r_end x)).
    + destruct (damaged_rec d o pos vend x) as [ph s|ph].
      * inversion H; subst. exists 0%nat. split; [simpl; lia|]. split; [apply strip_phantoms|intros; lia].
      * destruct (rd d o vend (r_end x) rest) as [out' st'] eqn:E. inversion H; subst.
        destruct (IH _ _ _ E) as (k & Hk & Hs & Hin).
        exists (S k). split; [simpl; lia|]. split.
        -- rewrite strip_app, strip_phantoms. simpl firstn. simpl map.
           change (r_rec x :: out') with ([r_rec x] ++ out').
           change (r_rec x :: map r_rec (firstn k rest)) with ([r_rec x] ++ map r_rec (firstn k rest)).
           rewrite !strip_app, Hs. reflexivity.
        -- intros j r Hj Hn. apply in_or_app. right. destruct j; simpl in Hn.
           ++ inversion Hn; subst. left; reflexivity.
           ++ right. eapply Hin; eauto. lia.
    + destruct (rd d o vend (r_end x) rest) as [out' st'] eqn:E. inversion H; subst.
      destruct (IH _ _ _ E) as (k & Hk & Hs & Hin).
      exists (S k). split; [simpl; lia|]. split.
      * simpl firstn. simpl map.
        change (r_rec x :: out') with ([r_rec x] ++ out').
        change (r_rec x :: map r_rec (firstn k rest)) with ([r_rec x] ++ map r_rec (firstn k rest)).
        rewrite !strip_app, Hs. reflexivity.
      * intros j r Hj Hn. destruct j; simpl in Hn.
        -- inversion Hn; subst. left; reflexivity.
        -- right. eapply Hin; eauto. lia.
Qed.

(* an undamaged segment reads back as its records, cleanly *)
Lemma rd_none : forall o vend recs pos, rd DNone o vend pos recs = (map r_rec recs, RClean).
Proof.
  induction recs as [|x rest IH]; intros pos; simpl; [reflexivity|].
  rewrite IH. reflexivity.
Qed.

Definition recs_of (segs : list (Z * seg)) : list wrec := flat_map (fun p => seg_contents (snd p)) segs.

Lemma read_log_in : forall segs out st,
  read_log segs = (out, st) -> forall r, In r out -> r = ROther \/ In r (recs_of segs).
Proof.
  induction segs as [|[i s] rest IH]; intros out st H r Hr; simpl in H.
  - inversion H; subst. destruct Hr.
  - destruct (read_seg s) as [o1 s1] eqn:E1. unfold read_seg in E1.
    assert (Hs : forall r, In r o1 -> r = ROther \/ In r (seg_contents s)).
    { intros r0 Hr0. eapply rd_in; eauto. }
    unfold recs_of; simpl; fold (recs_of rest).
    destruct s1.
    + destruct (read_log rest) as [o2 st2] eqn:E2. inversion H; subst.
      apply in_app_or in Hr. destruct Hr as [Hr|Hr].
      * destruct (Hs _ Hr); auto. right. apply in_or_app; auto.
      * destruct (IH _ _ eq_refl r Hr); auto. right. apply in_or_app; auto.
    + inversion H; subst. destruct (Hs _ Hr); auto. right. apply in_or_app; auto.
    + inversion H; subst. destruct (Hs _ Hr); auto. right. apply in_or_app; auto.
    + inversion H; subst. destruct (Hs _ Hr); auto. right. apply in_or_app; auto.
Qed.

(* a corrupt segment reported by read_log is one of the segments read *)
Lemma read_log_corrupt_idx : forall segs out idx kept,
  read_log segs = (out, LCorrupt idx kept) -> In idx (map fst segs).
Proof.
  induction segs as [|[i s] rest IH]; intros out idx kept H; simpl in H.
  - inversion H.
  - destruct (read_seg s) as [o1 s1]. destruct s1.
    + destruct (read_log rest) as [o2 st2] eqn:E2. inversion H; subst.
      right. eapply IH; eauto.
    + inversion H; subst. left; reflexivity.
    + inversion H.
    + inversion H.
Qed.

(* ------------------------------------------------------------------ head chunk files *)
Lemma citer_in : forall d ok cs pos out st, citer d ok pos cs = (out, st) -> forall c, In c out -> In c cs.
Proof.
  induction cs as [|x rest IH]; intros pos out st H c Hc; simpl in H.
  - inversion H; subst. destruct Hc.
  - destruct (hits d pos (c_end x)).
    + destruct d; try destruct (_ <=? _); try destruct ok; inversion H; subst; destruct Hc.
    + destruct (citer d ok (c_end x) rest) as [o2 s2] eqn:E. inversion H; subst.
      destruct Hc as [Hc|Hc]; [left; auto | right; eapply IH; eauto].
Qed.

Lemma read_cfile_in : forall last f out st, read_cfile last f = (out, st) -> forall c, In c out -> In c (cf_chunks f).
Proof.
  intros last f out st H c Hc. unfold read_cfile in H.
  destruct (cf_dmg f) as [|off|off v].
  - inversion H; subst; auto.
  - destruct (off <? 4).
    + destruct (last && (0 <? cf_idx f)); inversion H; subst; destruct Hc.
    + destruct (off <? 8); [inversion H; subst; destruct Hc|]. eapply citer_in; eauto.
  - destruct (off <? 5); [inversion H; subst; destruct Hc|].
    destruct (off <? 8); [inversion H; subst; auto|].
    destruct (off <? cf_end f); [eapply citer_in; eauto|].
    destruct (off <? cf_end f + 24).
    + destruct (cf_crc_ok f); inversion H; subst; auto.
    + inversion H; subst; auto.
Qed.

Lemma load_chunks_in : forall files cs fs rp,
  load_chunks files = ChOk cs fs rp -> forall c, In c cs -> In c (flat_map cf_chunks files).
Proof.
  induction files as [|f rest IH]; intros cs fs rp H c Hc; simpl in H.
  - inversion H; subst. destruct Hc.
  - destruct (read_cfile match rest with [] => true | _ :: _ => false end f) as [o1 s1] eqn:E.
    simpl. destruct s1.
    + destruct (load_chunks rest) as [cs2 fs2 rp2| | |] eqn:E2; try discriminate.
      inversion H; subst. apply in_app_or in Hc. apply in_or_app. destruct Hc as [Hc|Hc].
      * left. eapply read_cfile_in; eauto.
      * right. eapply IH; eauto.
    + destruct (existsb _ rest); [discriminate|]. inversion H; subst. destruct Hc.
    + discriminate.
    + inversion H; subst. destruct Hc.
    + discriminate.
    + discriminate.
Qed.

(* ------------------------------------------------------------------ replay never invents *)
Definition decls (rs : list wrec) : list (Z * Z) := flat_map (fun r => match r with RSeries l => l | _ => [] end) rs.
Definition smps (rs : list wrec) : list (Z * Z * Z) := flat_map (fun r => match r with RSamples l => l | _ => [] end) rs.
Definition chunk_triples (cs : list chunk) : list (Z * Z * Z) :=
  flat_map (fun c => map (fun p => (c_ref c, fst p, snd p)) (c_samples c)) cs.

Section Inv.
Variable D : list (Z * Z).          (* series declarations that exist on disk *)
Variable S : list (Z * Z * Z).      (* (ref, t, v) that exist on disk, in a log record or in a chunk *)

Definition all_samples (s : mseries) : list (Z * Z) := s_mm s ++ s_in s ++ s_oomm s ++ s_ooh s.

Definition sinv (ref : Z) (s : mseries) : Prop :=
  In (ref, s_id s) D /\ forall p, In p (all_samples s) -> In (ref, fst p, snd p) S.

Definition hinv (h : head) : Prop := forall ref s, In (ref, s) (h_series h) -> sinv ref s.

Lemma lookup_in : forall A k (l : list (Z * A)) v, lookup k l = Some v -> In (k, v) l.
Proof.
  induction l as [|[k' v'] t IH]; intros v H; simpl in H; [discriminate|].
  destruct (k' =? k) eqn:E.
  - apply Z.eqb_eq in E. inversion H; subst. left; reflexivity.
  - right; auto.
Qed.

Lemma update_in : forall A k (v : A) l k' v', In (k', v') (update k v l) -> (k', v') = (k, v) \/ In (k', v') l.
Proof.
  induction l as [|[k0 v0] t IH]; intros k' v' H; simpl in H.
  - destruct H as [H|[]]. left; auto.
  - destruct (k0 =? k).
    + destruct H as [H|H]; [left; auto | right; right; auto].
    + destruct H as [H|H]; [right; left; auto|]. destruct (IH _ _ H); auto. right; right; auto.
Qed.

Lemma hinv_update : forall h ref s', hinv h -> sinv ref s' ->
  hinv (mkH (update ref s' (h_series h)) (h_last h) (h_unmod h)).
Proof.
  intros h ref s' Hh Hs r s Hin. simpl in Hin. apply update_in in Hin. destruct Hin as [E|Hin].
  - inversion E; subst; auto.
  - apply Hh; auto.
Qed.

Lemma in_all : forall s p, In p (all_samples s) <-> In p (s_mm s) \/ In p (s_in s) \/ In p (s_oomm s) \/ In p (s_ooh s).
Proof.
  intros. unfold all_samples. rewrite !in_app_iff. tauto.
Qed.

Lemma wal_sample_inv : forall mv h x, In x S -> hinv h -> hinv (wal_sample mv h x).
Proof.
  intros mv h [[ref t] v] Hx Hh. unfold wal_sample.
  destruct (t <? mv); auto.
  destruct (lookup ref (h_series h)) as [s|] eqn:E; auto.
  apply lookup_in in E. destruct (Hh _ _ E) as [Hd Hs].
  destruct (t <=? s_mmmax s); auto.
  destruct (last_t (s_in s)) as [t0|].
  - destruct (t <=? t0); auto. apply hinv_update; auto. split; simpl; auto.
    intros p Hp. apply in_all in Hp; simpl in Hp. rewrite in_app_iff in Hp.
    destruct Hp as [Hp|[[Hp|Hp]|[Hp|Hp]]]; try (apply Hs; apply in_all; tauto).
    destruct Hp as [Hp|[]]. subst p. simpl. auto.
  - apply hinv_update; auto. split; simpl; auto.
    intros p Hp. apply in_all in Hp; simpl in Hp.
    destruct Hp as [Hp|[[Hp|[]]|[Hp|Hp]]]; try (apply Hs; apply in_all; tauto).
    subst p. simpl. auto.
Qed.

Lemma ooo_insert_inv : forall cap ref s t v, sinv ref s -> In (ref, t, v) S -> sinv ref (ooo_insert cap s t v).
Proof.
  intros cap ref s t v [Hd Hs] Hx. unfold ooo_insert.
  destruct (existsb _ (s_ooh s)).
  - split; simpl; auto.
  - destruct (Z.of_nat (length (s_ooh s)) >=? cap); split; simpl; auto; intros p Hp;
      apply in_all in Hp; simpl in Hp; rewrite ?in_app_iff in Hp.
    + destruct Hp as [Hp|[Hp|[[Hp|Hp]|Hp]]]; try (apply Hs; apply in_all; tauto).
      destruct Hp as [Hp|[]]. subst p; auto.
    + destruct Hp as [Hp|[Hp|[Hp|[Hp|Hp]]]]; try (apply Hs; apply in_all; tauto).
      destruct Hp as [Hp|[]]. subst p; auto.
Qed.

Lemma wbl_sample_inv : forall cap h x, In x S -> hinv h -> hinv (wbl_sample cap h x).
Proof.
  intros cap h [[ref t] v] Hx Hh. unfold wbl_sample.
  destruct (lookup ref (h_series h)) as [s|] eqn:E; auto.
  apply lookup_in in E. apply hinv_update; auto. apply ooo_insert_inv; auto.
Qed.

Lemma wbl_marker_inv : forall lm h x, hinv h -> hinv (wbl_marker lm h x).
Proof.
  intros lm h [ref mref] Hh. unfold wbl_marker.
  destruct (lm <? mref); auto.
  destruct (lookup ref (h_series h)) as [s|] eqn:E; auto.
  destruct (s_has_ooo s); auto.
  apply lookup_in in E. destruct (Hh _ _ E) as [Hd Hs].
  apply hinv_update; auto. split; simpl; auto.
  intros p Hp. apply in_all in Hp; simpl in Hp.
  destruct Hp as [Hp|[Hp|[Hp|[]]]]; apply Hs; apply in_all; tauto.
Qed.

Lemma fold_inv : forall A (f : head -> A -> head) (P : A -> Prop) l h,
  (forall h x, P x -> hinv h -> hinv (f h x)) -> (forall x, In x l -> P x) -> hinv h -> hinv (fold_left f l h).
Proof.
  induction l as [|x t IH]; intros h Hf Hl Hh; simpl; auto.
  apply IH; auto.
  - intros; apply Hl; right; auto.
  - apply Hf; auto. apply Hl; left; auto.
Qed.

Lemma create_series_inv : forall cs mv h ref id,
  In (ref, id) D -> (forall x, In x (chunk_triples cs) -> In x S) -> hinv h -> hinv (create_series cs mv h ref id).
Proof.
  intros cs mv h ref id Hd Hc Hh. unfold create_series.
  destruct (lookup ref (h_series h)); [exact Hh|].
  destruct (has_id id (h_series h)); [exact Hh|].
  intros r s Hin. simpl in Hin. apply in_app_or in Hin. destruct Hin as [Hin|Hin]; [apply Hh; auto|].
  destruct Hin as [E|[]]. inversion E; subst. split; simpl; auto.
  intros p Hp. apply in_all in Hp; simpl in Hp.
  assert (Hch : forall ooo, In p (flat_map c_samples (chunks_of r ooo mv cs)) -> In (r, fst p, snd p) S).
  { intros ooo Hf. apply in_flat_map in Hf. destruct Hf as (c & Hcin & Hpc).
    unfold chunks_of in Hcin. apply filter_In in Hcin. destruct Hcin as [Hcin Hcond].
    apply andb_true_iff in Hcond. destruct Hcond as [Hcond _].
    apply andb_true_iff in Hcond. destruct Hcond as [Hr _]. apply Z.eqb_eq in Hr.
    apply Hc. unfold chunk_triples. apply in_flat_map. exists c. split; auto.
    apply in_map_iff. exists p. split; auto. rewrite Hr. reflexivity. }
  destruct Hp as [Hp|[[]|[Hp|[]]]]; eapply Hch; eauto.
Qed.

Lemma wal_rec_inv : forall cs mv h r,
  (forall x, In x (chunk_triples cs) -> In x S) ->
  (forall x, In x (decls [r]) -> In x D) -> (forall x, In x (smps [r]) -> In x S) ->
  hinv h -> hinv (wal_rec cs mv h r).
Proof.
  intros cs mv h r Hc Hd Hs Hh. destruct r as [l|l|l|]; simpl; auto.
  - apply fold_inv with (P := fun p => In p D); auto.
    + intros h0 [ref id] Hp Hh0. apply create_series_inv; auto.
    + intros x Hx. apply Hd. simpl. rewrite app_nil_r. auto.
  - apply fold_inv with (P := fun x => In x S); auto.
    + intros; apply wal_sample_inv; auto.
    + intros x Hx. apply Hs. simpl. rewrite app_nil_r. auto.
Qed.

Lemma wbl_rec_inv : forall cap lm h r,
  (forall x, In x (smps [r]) -> In x S) -> hinv h -> hinv (wbl_rec cap lm h r).
Proof.
  intros cap lm h r Hs Hh. destruct r as [l|l|l|]; simpl; auto.
  - apply fold_inv with (P := fun x => In x S); auto.
    + intros; apply wbl_sample_inv; auto.
    + intros x Hx. apply Hs. simpl. rewrite app_nil_r. auto.
  - apply fold_inv with (P := fun _ => True); auto.
    intros; apply wbl_marker_inv; auto.
Qed.

Lemma gc_inv : forall h, hinv h -> hinv (gc h).
Proof.
  intros h Hh r s Hin. simpl in Hin. apply filter_In in Hin. apply Hh. tauto.
Qed.

Lemma decls_in : forall r rs x, In r rs -> In x (decls [r]) -> In x (decls rs).
Proof.
  intros r rs x Hr Hx. unfold decls in *. simpl in Hx. rewrite app_nil_r in Hx.
  apply in_flat_map. exists r. auto.
Qed.
Lemma smps_in : forall r rs x, In r rs -> In x (smps [r]) -> In x (smps rs).
Proof.
  intros r rs x Hr Hx. unfold smps in *. simpl in Hx. rewrite app_nil_r in Hx.
  apply in_flat_map. exists r. auto.
Qed.

Lemma replay_wal_inv : forall cs mv R recs h,
  (forall x, In x (chunk_triples cs) -> In x S) ->
  (forall x, In x (decls R) -> In x D) -> (forall x, In x (smps R) -> In x S) ->
  (forall r, In r recs -> r = ROther \/ In r R) ->
  hinv h -> hinv (fold_left (wal_rec cs mv) recs h).
Proof.
  intros cs mv R recs h Hc Hd Hs Hr Hh.
  apply fold_inv with (P := fun r => r = ROther \/ In r R); auto.
  intros h0 r [E|Hin] Hh0.
  - subst; simpl; auto.
  - apply wal_rec_inv; auto.
    + intros x Hx. apply Hd. eapply decls_in; eauto.
    + intros x Hx. apply Hs. eapply smps_in; eauto.
Qed.

Lemma replay_wbl_inv : forall cap lm R recs h,
  (forall x, In x (smps R) -> In x S) ->
  (forall r, In r recs -> r = ROther \/ In r R) ->
  hinv h -> hinv (fold_left (wbl_rec cap lm) recs h).
Proof.
  intros cap lm R recs h Hs Hr Hh.
  apply fold_inv with (P := fun r => r = ROther \/ In r R); auto.
  intros h0 r [E|Hin] Hh0.
  - subst; simpl; auto.
  - apply wbl_rec_inv; auto. intros x Hx. apply Hs. eapply smps_in; eauto.
Qed.

End Inv.

(* what is written on the (undamaged) disk *)
Definition disk_decls (d : disk) : list (Z * Z) := decls (recs_of (ckpt_recs d) ++ recs_of (d_wal d)).
Definition disk_samples (d : disk) : list (Z * Z * Z) :=
  smps (recs_of (ckpt_recs d) ++ recs_of (d_wal d)) ++ smps (recs_of (d_wbl d)) ++
  chunk_triples (flat_map cf_chunks (d_chunks d)).

Definition written (d : disk) (x : Z * Z * Z) : Prop :=
  In x (d_blocks d) \/
  exists ref, In (ref, fst (fst x)) (disk_decls d) /\ In (ref, snd (fst x), snd x) (disk_samples d).

Lemma decls_app : forall a b, decls (a ++ b) = decls a ++ decls b.
Proof. intros; unfold decls; apply flat_map_app. Qed.
Lemma smps_app : forall a b, smps (a ++ b) = smps a ++ smps b.
Proof. intros; unfold smps; apply flat_map_app. Qed.

Lemma chunk_triples_sub : forall cs all, (forall c, In c cs -> In c all) ->
  forall x, In x (chunk_triples cs) -> In x (chunk_triples all).
Proof.
  intros cs all H x Hx. unfold chunk_triples in *. apply in_flat_map in Hx. destruct Hx as (c & Hc & Hx).
  apply in_flat_map. exists c. split; auto.
Qed.

Definition first_ref (cs : list chunk) : Z := fold_left (fun a c => Z.max a (c_ref c)) cs 0.

Lemma hinv_empty : forall D S n, hinv D S (mkH [] n false).
Proof. intros D S n r s H. destruct H. Qed.

Lemma head_samples_written : forall d h, hinv (disk_decls d) (disk_samples d) h ->
  forall x, In x (head_samples h) -> written d x.
Proof.
  intros d h Hh x Hx. unfold head_samples in Hx. apply in_flat_map in Hx. destruct Hx as ([ref s] & Hin & Hx).
  simpl in Hx. unfold series_samples in Hx. apply in_map_iff in Hx. destruct Hx as (p & E & Hp).
  destruct (Hh _ _ Hin) as [Hd Hs]. right. exists ref. subst x. simpl. split; auto.
Qed.

(* the first open never shows a sample that is not on the disk under its series' ref *)
Theorem open_no_invention : forall d h d' k cr cl,
  open d = OOk h d' k cr cl -> forall x, In x (contents d h) -> written d x.
Proof.
  intros d h d' k cr cl H x Hx. unfold contents in Hx. apply in_app_or in Hx.
  destruct Hx as [Hx|Hx]; [left; auto|].
  eapply head_samples_written; eauto. clear x Hx.
  unfold open in H.
  destruct (load_chunks (d_chunks d)) as [cs files crep| | |] eqn:Ec; try discriminate.
  assert (Hc : forall x, In x (chunk_triples cs) -> In x (disk_samples d)).
  { intros x Hx. unfold disk_samples. apply in_or_app. right. apply in_or_app. right.
    apply (chunk_triples_sub cs); [|exact Hx]. intros c Hcin. eapply load_chunks_in; eauto. }
  destruct (read_log (ckpt_recs d)) as [crecs cst] eqn:Eck.
  destruct cst; try discriminate.
  2:{ destruct (repair (new_segment (d_wal d)) idx []) as [[w|] w2]; discriminate. }
  pose proof (read_log_in _ _ _ Eck) as Hck.
  set (R := recs_of (ckpt_recs d) ++ recs_of (d_wal d)).
  assert (HD : forall x, In x (decls R) -> In x (disk_decls d)) by (intros; auto).
  assert (HS : forall x, In x (smps R) -> In x (disk_samples d)).
  { intros x Hx. unfold disk_samples. apply in_or_app. left. auto. }
  assert (HB : forall x, In x (smps (recs_of (d_wbl d))) -> In x (disk_samples d)).
  { intros x Hx. unfold disk_samples. apply in_or_app. right. apply in_or_app. left. auto. }
  assert (H1 : hinv (disk_decls d) (disk_samples d) (fold_left (wal_rec cs (d_minvalid d)) crecs (mkH [] (first_ref cs) false))).
  { eapply replay_wal_inv with (R := R); eauto.
    - intros r Hr. destruct (Hck r Hr); auto. right. unfold R. apply in_or_app; auto.
    - apply hinv_empty. }
  destruct (read_log (d_wal d)) as [wrecs wst] eqn:Ew.
  pose proof (read_log_in _ _ _ Ew) as Hw.
  assert (H2 : hinv (disk_decls d) (disk_samples d)
                    (fold_left (wal_rec cs (d_minvalid d)) wrecs (fold_left (wal_rec cs (d_minvalid d)) crecs (mkH [] (first_ref cs) false)))).
  { eapply replay_wal_inv with (R := R); eauto.
    intros r Hr. destruct (Hw r Hr); auto. right. unfold R. apply in_or_app; auto. }
  destruct wst; try discriminate.
  - destruct (read_log (d_wbl d)) as [brecs bst] eqn:Eb.
    pose proof (read_log_in _ _ _ Eb) as Hb.
    assert (H3 : forall lm, hinv (disk_decls d) (disk_samples d)
                   (fold_left (wbl_rec (d_cap d) lm) brecs
                     (fold_left (wal_rec cs (d_minvalid d)) wrecs (fold_left (wal_rec cs (d_minvalid d)) crecs (mkH [] (first_ref cs) false))))).
    { intros lm. eapply replay_wbl_inv with (R := recs_of (d_wbl d)); eauto. }
    destruct bst; try discriminate.
    + inversion H; subst. apply gc_inv. apply H3.
    + destruct (repair _ idx kept) as [[b|] b2]; try discriminate. inversion H; subst. apply gc_inv. apply H3.
  - destruct (repair _ idx kept) as [[w|] w2]; try discriminate. inversion H; subst. apply gc_inv. apply H2.
Qed.

(* ------------------------------------------------------------------ a failed open *)
Lemma repair_some : forall segs idx kept, In idx (map fst segs) -> exists w u, repair segs idx kept = (Some w, u).
Proof.
  intros segs idx kept Hin. unfold repair.
  assert (E : existsb (fun p : Z * seg => fst p =? idx) segs = true).
  { apply existsb_exists. apply in_map_iff in Hin. destruct Hin as (p & Hp & Hin).
    exists p. split; auto. apply Z.eqb_eq; auto. }
  rewrite E. eauto.
Qed.

Lemma new_segment_fst : forall segs i, In i (map fst segs) -> In i (map fst (new_segment segs)).
Proof. intros. unfold new_segment. rewrite map_app. apply in_or_app; auto. Qed.

(* Open fails in exactly two ways: a head chunk file with a broken header (then nothing but the
   two fresh empty segments changes), or an unreadable checkpoint — and then every WAL segment
   with an index above the checkpoint's bad segment has been deleted *)
Theorem open_error_cases : forall d d',
  open d = OErr d' ->
  let wal1 := new_segment (d_wal d) in
  let wbl1 := if 0 <? d_cap d then new_segment (d_wbl d) else d_wbl d in
  d_blocks d' = d_blocks d /\ d_ckpt d' = d_ckpt d /\ d_wbl d' = wbl1 /\
  ((load_chunks (d_chunks d) = ChFail /\ d_wal d' = wal1 /\ d_chunks d' = d_chunks d) \/
   (exists crecs cidx kept, read_log (ckpt_recs d) = (crecs, LCorrupt cidx kept) /\
      d_wal d' = filter (fun p => fst p <=? cidx) wal1)).
Proof.
  intros d d' H. simpl. unfold open in H.
  destruct (load_chunks (d_chunks d)) as [cs files crep| | |] eqn:Ec; try discriminate.
  2:{ inversion H; subst; simpl. repeat split; auto. }
  destruct (read_log (ckpt_recs d)) as [crecs cst] eqn:Eck.
  destruct cst; try discriminate.
  - destruct (read_log (d_wal d)) as [wrecs wst] eqn:Ew.
    destruct wst; try discriminate.
    + destruct (read_log (d_wbl d)) as [brecs bst] eqn:Eb.
      destruct bst; try discriminate.
      exfalso. apply read_log_corrupt_idx in Eb.
      assert (Hin : In idx (map fst (if 0 <? d_cap d then new_segment (d_wbl d) else d_wbl d))).
      { destruct (0 <? d_cap d); auto. apply new_segment_fst; auto. }
      destruct (repair_some _ idx kept Hin) as (w & u & E). rewrite E in H. discriminate.
    + exfalso. apply read_log_corrupt_idx in Ew.
      destruct (repair_some _ idx kept (new_segment_fst _ _ Ew)) as (w & u & E). rewrite E in H. discriminate.
  - unfold repair in H. destruct (existsb _ _); [discriminate|].
    inversion H; subst; simpl. repeat split; auto. right. exists crecs, idx, kept. auto.
Qed.

(* ------------------------------------------------------------------ what a successful open replays *)
Definition replay (cs : list chunk) (mv cap lastmm : Z) (walrecs wblrecs : list wrec) : head :=
  fold_left (wbl_rec cap lastmm) wblrecs (fold_left (wal_rec cs mv) walrecs (mkH [] (first_ref cs) false)).

Theorem open_ok_shape : forall d h d' k cr cl,
  open d = OOk h d' k cr cl ->
  exists cs files crecs wrecs wst,
    load_chunks (d_chunks d) = ChOk cs files cr /\
    read_log (ckpt_recs d) = (crecs, LClean) /\ read_log (d_wal d) = (wrecs, wst) /\
    let rp := replay cs (d_minvalid d) (d_cap d) (last_mmref cs) (crecs ++ wrecs) in
    ((k = KNone /\ wst = LClean /\ exists brecs, read_log (d_wbl d) = (brecs, LClean) /\
        h = gc (rp brecs) /\ d_wal d' = new_segment (d_wal d)) \/
     (k = KWbl /\ wst = LClean /\ exists brecs idx kept, read_log (d_wbl d) = (brecs, LCorrupt idx kept) /\
        h = gc (rp brecs) /\ d_wal d' = new_segment (d_wal d)) \/
     (k = KWal /\ exists idx kept, wst = LCorrupt idx kept /\ h = gc (rp []) /\
        d_wbl d' = (if 0 <? d_cap d then new_segment (d_wbl d) else d_wbl d))).
Proof.
  intros d h d' k cr cl H. unfold open in H.
  destruct (load_chunks (d_chunks d)) as [cs files crep| | |] eqn:Ec; try discriminate.
  destruct (read_log (ckpt_recs d)) as [crecs cst] eqn:Eck.
  destruct cst; try discriminate.
  2:{ destruct (repair (new_segment (d_wal d)) idx []) as [[w|] w2]; discriminate. }
  destruct (read_log (d_wal d)) as [wrecs wst] eqn:Ew.
  destruct wst; try discriminate.
  - destruct (read_log (d_wbl d)) as [brecs bst] eqn:Eb.
    destruct bst; try discriminate.
    + inversion H; subst. exists cs, files, crecs, wrecs, LClean. repeat split; auto.
      left. repeat split; auto. exists brecs. repeat split; auto.
      unfold replay. rewrite fold_left_app. reflexivity.
    + destruct (repair _ idx kept) as [[b|] b2] eqn:Er; try discriminate. inversion H; subst.
      exists cs, files, crecs, wrecs, LClean. repeat split; auto.
      right. left. repeat split; auto. exists brecs, idx, kept. repeat split; auto.
      unfold replay. rewrite fold_left_app. reflexivity.
  - destruct (repair _ idx kept) as [[w|] w2] eqn:Er; try discriminate. inversion H; subst.
    exists cs, files, crecs, wrecs, (LCorrupt idx kept). repeat split; auto.
    right. right. split; auto. exists idx, kept. repeat split; auto.
    unfold replay. simpl. rewrite fold_left_app. reflexivity.
Qed.

(* replay ignores empty / unknown records *)
Lemma replay_wal_strip : forall cs mv recs h,
  fold_left (wal_rec cs mv) recs h = fold_left (wal_rec cs mv) (strip recs) h.
Proof.
  induction recs as [|r t IH]; intros h; simpl; auto.
  destruct r; simpl; auto.
Qed.
Lemma replay_wbl_strip : forall cap lm recs h,
  fold_left (wbl_rec cap lm) recs h = fold_left (wbl_rec cap lm) (strip recs) h.
Proof.
  induction recs as [|r t IH]; intros h; simpl; auto.
  destruct r; simpl; auto.
Qed.

(* the damage lies before offset b *)
Definition dmg_lt (d : dmg) (b : Z) : bool :=
  match d with DNone => false | DTrunc off => off <? b | DByte off _ => off <? b end.

Lemma hits_lt : forall d a b, dmg_lt d b = false -> hits d a b = false.
Proof.
  intros d a b H. destruct d; simpl in *; auto. rewrite H. apply andb_false_r.
Qed.

(* every record that ends before the damage is delivered, whatever the damage is *)
Lemma rd_before : forall d o vend recs m pos,
  (m <= length recs)%nat ->
  (forall j r, (j < m)%nat -> nth_error recs j = Some r -> dmg_lt d (r_end r) = false) ->
  exists out' st, rd d o vend pos recs = (map r_rec (firstn m recs) ++ out', st).
Proof.
  induction recs as [|x rest IH]; intros m pos Hm Hb.
  - assert (m = 0)%nat by (simpl in Hm; lia). subst. simpl firstn. simpl map. simpl app.
    destruct (rd d o vend pos []) as [out st]. eauto.
  - destruct m as [|m].
    + simpl firstn. simpl map. simpl app. destruct (rd d o vend pos (x :: rest)) as [out st]. eauto.
    + simpl. rewrite (hits_lt d pos (r_end x)).
      * destruct (IH m (r_end x)) as (out' & st & E).
        -- simpl in Hm. lia.
        -- intros j r Hj Hn. apply (Hb (S j) r); [lia|exact Hn].
        -- rewrite E. eauto.
      * apply (Hb 0%nat x); [lia|reflexivity].
Qed.

(* proof/PromqlParseProofs.v — C26: the main round-trip lemma (parse_e reads back print). *)
From Coq Require Import List ZArith Bool NArith Lia.
From Verif Require Import model.PromqlPrint model.PromqlParse proof.PromqlPrintProofs.
Import ListNotations.
Open Scope Z_scope.

Local Arguments lex_word : simpl never.
Local Arguments kw_lookup : simpl never.

(* ------------------------------------------------------------------ label matchers *)
Lemma matcher_head_print : forall m Y, matcher_head (print_matcher m ++ Y) = Ok (m, Y).
Proof.
  intros [name ty val] Y. unfold print_matcher. cbn [m_name m_type m_val app].
  destruct (legacy_label name); destruct ty; reflexivity.
Qed.

Lemma print_matcher_head : forall m Y, exists t r, print_matcher m ++ Y = t :: r /\ tk t <> KRK.
Proof.
  intros [name ty val] Y. unfold print_matcher. cbn [m_name app].
  destruct (legacy_label name); eexists; eexists; split; eauto; cbn; congruence.
Qed.

Definition pms (ms : list matcher) := commas (map print_matcher ms).

Lemma pms_cons : forall m ms, ms <> [] -> pms (m :: ms) = print_matcher m ++ T KCOMMA :: pms ms.
Proof. intros. unfold pms. cbn [map]. rewrite commas_cons; auto. apply map_nonnil; auto. Qed.

Lemma pms_head : forall m ms Y, exists t r, pms (m :: ms) ++ Y = t :: r /\ tk t <> KRK.
Proof.
  intros [name ty val] ms Y. destruct ms.
  - unfold pms, print_matcher. cbn [map commas m_name app]. destruct (legacy_label name); eexists; eexists; split; eauto; cbn; congruence.
  - rewrite pms_cons by congruence. unfold print_matcher. cbn [m_name app].
    destruct (legacy_label name); eexists; eexists; split; eauto; cbn; congruence.
Qed.

Lemma matchers_loop_print : forall ms n acc Y, ms <> [] -> (length ms <= n)%nat ->
  matchers_loop n (pms ms ++ T KRK :: Y) acc = Ok (acc ++ ms, Y).
Proof.
  induction ms as [|m ms IH]; intros n acc Y Hne Hn; [congruence|].
  destruct n; [simpl in Hn; lia|]. cbn [matchers_loop].
  destruct ms as [|m2 ms'].
  - unfold pms. cbn [map commas]. rewrite matcher_head_print. reflexivity.
  - rewrite pms_cons by congruence. rewrite <- app_assoc. rewrite matcher_head_print. cbn [app tk T].
    destruct (pms_head m2 ms' (T KRK :: Y)) as (t & r & E & NK). rewrite E. cbn [hd_kind].
    destruct (tk t) eqn:K; try congruence; rewrite <- E;
      (rewrite IH; [rewrite <- app_assoc; reflexivity|congruence|simpl in *; lia]).
Qed.

Lemma pms_length : forall ms, (length ms <= length (pms ms))%nat.
Proof.
  induction ms as [|m ms IH]; [simpl; lia|]. destruct ms.
  - unfold pms, print_matcher. simpl. lia.
  - rewrite pms_cons by congruence. rewrite app_length. unfold print_matcher at 1. simpl length in *. lia.
Qed.

Lemma matchers_print : forall ms Y, ms <> [] -> matchers (pms ms ++ T KRK :: Y) = Ok (ms, Y).
Proof.
  intros. unfold matchers. destruct ms as [|m ms]; [congruence|].
  destruct (pms_head m ms (T KRK :: Y)) as (t & r & E & NK). rewrite E. cbn [hd_kind].
  assert (L : (length (m :: ms) <= length (t :: r))%nat).
  { rewrite <- E. rewrite app_length. pose proof (pms_length (m :: ms)). lia. }
  destruct (tk t) eqn:K; try congruence; rewrite <- E; rewrite matchers_loop_print; auto; rewrite E; auto.
Qed.

(* ------------------------------------------------------------------ postfix modifiers *)
Section Post.
  Variable oc : orc.
  Variable o : opts.

  Lemma postfix_loop_mono : forall n e X r, postfix_loop n oc o e X = Ok r ->
    forall n', (n <= n')%nat -> postfix_loop n' oc o e X = Ok r.
  Proof.
    induction n; intros e X r H n' Hn.
    - destruct n'; auto. cbn [postfix_loop] in *.
      destruct (postfix_step oc o e X) as [[[e' rest]|x]|]; auto; discriminate.
    - destruct n'; [lia|]. cbn [postfix_loop] in *.
      destruct (postfix_step oc o e X) as [[[e' rest]|x]|]; auto. apply IHn; auto. lia.
  Qed.

  Lemma step_at : forall e a Y e', a <> AtNone -> at_ok oc a = true -> apply_at e a = Ok e' ->
    postfix_step oc o e (print_at oc a ++ Y) = Some (Ok (e', Y)).
  Proof.
    intros e a Y e' Hn Hok Ha. destruct a as [|ms| |]; [congruence| | |].
    - unfold at_ok in Hok. apply Z.eqb_eq in Hok. unfold print_at.
      destruct (ms <? 0) eqn:E; cbn [app postfix_step tk T tz].
      + apply Z.ltb_lt in E. rewrite Z.abs_neq in Hok by lia. rewrite Hok.
        replace (- - ms) with ms by lia. rewrite Ha. reflexivity.
      + apply Z.ltb_ge in E. rewrite Z.abs_eq in Hok by lia. rewrite Hok. rewrite Ha. reflexivity.
    - cbn. rewrite Ha. reflexivity.
    - cbn. rewrite Ha. reflexivity.
  Qed.

  Lemma step_off : forall e d Y e', d <> 0 -> off_ok oc d = true -> apply_offset e d = Ok e' ->
    postfix_step oc o e (print_off d ++ Y) = Some (Ok (e', Y)).
  Proof.
    intros e d Y e' Hn Hok Ha. unfold off_ok in Hok. apply orb_prop in Hok.
    destruct Hok as [Hok|Hok]; [apply Z.eqb_eq in Hok; lia|].
    unfold print_off. destruct (0 <? d) eqn:E.
    - apply Z.eqb_eq in Hok. cbn [app postfix_step tk TW TD tz]. rewrite Hok. rewrite Ha. reflexivity.
    - destruct (d <? 0) eqn:E2; [|apply Z.ltb_ge in E, E2; lia].
      apply Z.eqb_eq in Hok. cbn [app postfix_step tk TW T TD tz]. rewrite Hok. rewrite Ha. reflexivity.
  Qed.

  Lemma step_ext : forall e x Y e', x <> XNone -> apply_ext o e x = Ok e' ->
    postfix_step oc o e (print_ext x ++ Y) = Some (Ok (e', Y)).
  Proof.
    intros e x Y e' Hn Ha. destruct x; [congruence| |]; cbn; rewrite Ha; reflexivity.
  Qed.

  Lemma loop_at : forall n e a Y e' r, at_ok oc a = true ->
    match a with AtNone => e' = e | _ => apply_at e a = Ok e' end ->
    postfix_loop n oc o e' Y = Ok r -> postfix_loop (S n) oc o e (print_at oc a ++ Y) = Ok r.
  Proof.
    intros. destruct a eqn:A.
    - subst e'. cbn [print_at app]. eapply postfix_loop_mono; eauto.
    - cbn [postfix_loop]. rewrite <- A. erewrite step_at; subst; eauto. congruence.
    - cbn [postfix_loop]. rewrite <- A. erewrite step_at; subst; eauto. congruence.
    - cbn [postfix_loop]. rewrite <- A. erewrite step_at; subst; eauto. congruence.
  Qed.

  Lemma loop_off : forall n e d Y e' r, off_ok oc d = true ->
    (if d =? 0 then e' = e else apply_offset e d = Ok e') ->
    postfix_loop n oc o e' Y = Ok r -> postfix_loop (S n) oc o e (print_off d ++ Y) = Ok r.
  Proof.
    intros. destruct (d =? 0) eqn:E.
    - apply Z.eqb_eq in E. subst. change (print_off 0 ++ Y) with Y. eapply postfix_loop_mono; eauto.
    - apply Z.eqb_neq in E. cbn [postfix_loop]. erewrite step_off; eauto.
  Qed.

  Lemma loop_ext : forall n e x Y e' r,
    match x with XNone => e' = e | _ => apply_ext o e x = Ok e' end ->
    postfix_loop n oc o e' Y = Ok r -> postfix_loop (S n) oc o e (print_ext x ++ Y) = Ok r.
  Proof.
    intros. destruct x eqn:A.
    - subst e'. cbn [print_ext app]. eapply postfix_loop_mono; eauto.
    - cbn [postfix_loop]. rewrite <- A. erewrite step_ext; subst; eauto. congruence.
    - cbn [postfix_loop]. rewrite <- A. erewrite step_ext; subst; eauto. congruence.
  Qed.
End Post.

(* ------------------------------------------------------------------ unnorm keeps the shape *)
Lemma lprec_unnorm : forall e, lprec (unnorm e) = lprec e.
Proof. destruct e; reflexivity. Qed.
Lemma fb_unnorm : forall e, fb (unnorm e) = fb e.
Proof. destruct e; reflexivity. Qed.
Lemma atomb_unnorm : forall e, atomb (unnorm e) = atomb e.
Proof. destruct e; reflexivity. Qed.
Lemma is_lit_unnorm : forall e, is_lit (unnorm e) = is_lit e.
Proof. destruct e; reflexivity. Qed.

(* ------------------------------------------------------------------ first token of a printed expression *)
Definition okstart (k : kind) : Prop :=
  match k with
  | KNUM | KDUR | KSTR | KID | KMID | KLP | KLK | KAGG _ | KOP BSub | KOP BAdd
  | KSTART | KEND | KSTEP | KRANGE | KMAXOF | KMINOF => True
  | _ => False
  end.

Lemma is_name_matcher_nil : forall m, is_name_matcher [] m = false.
Proof.
  intros. unfold is_name_matcher. destruct (m_val m); simpl; rewrite ?andb_false_r; reflexivity.
Qed.

Lemma filter_name_nil : forall l, filter (fun m0 => negb (is_name_matcher [] m0)) l = l.
Proof. induction l; simpl; auto. rewrite is_name_matcher_nil. simpl. congruence. Qed.

Lemma filter_name_cons : forall name l, forallb (fun m => negb (seqb (m_name m) name_label)) l = true ->
  filter (fun m0 => negb (is_name_matcher name m0)) l = l.
Proof.
  induction l; simpl; auto. intros H. apply andb_prop in H. destruct H as [H1 H2].
  unfold is_name_matcher at 1. apply negb_true_iff in H1. rewrite H1. simpl. rewrite IHl; auto.
Qed.

Section Head.
  Variable oc : orc.
  Variable o : opts.
  Variable ft : ftab.

  Lemma print_num_head : forall b, exists t r, print_num b = t :: r /\ okstart (tk t).
  Proof.
    intros. unfold print_num. destruct (is_negf b); [|destruct (b =? inf_bits)];
      eexists; eexists; split; eauto; exact I.
  Qed.

  Lemma vs_base_head : forall v X, vs_ok oc o v = true ->
    exists t r, print_vs_base v ++ X = t :: r /\ okstart (tk t).
  Proof.
    intros v X H. unfold vs_ok in H. b2p. unfold print_vs_base.
    destruct (vs_name v) as [|c n] eqn:N.
    - destruct (vs_ms v) as [|m ms]; [discriminate|].
      assert (F : filter (fun m0 => negb (is_name_matcher [] m0)) (m :: ms) = m :: ms).
      { apply filter_name_nil. }
      rewrite F. cbn [app]. eexists; eexists; split; eauto. exact I.
    - unfold name_ok in H. cbn [app]. eexists; eexists; split; eauto.
      destruct (tk (lex_word (c :: n))); try discriminate; exact I.
  Qed.

  Lemma print_head : forall e X, wfb oc o ft e = true ->
    exists t r, print oc (unnorm e) ++ X = t :: r /\ okstart (tk t).
  Proof.
    induction e; intros X H; cbn [wfb] in H; cbn [unnorm print].
    - destruct (print_num_head bits) as (t & r & E & K). rewrite E. eexists; eexists; split; eauto. reflexivity.
    - destruct neg; eexists; eexists; split; cbn; eauto; exact I.
    - eexists; eexists; split; cbn; eauto; exact I.
    - unfold print_vs. rewrite <- app_assoc. apply vs_base_head. auto.
    - b2p. rewrite <- app_assoc. apply vs_base_head. auto.
    - b2p. rewrite <- app_assoc. apply IHe. auto.
    - b2p. cbn [app]. eexists; eexists; split; eauto.
      destruct (tk (lex_word f)); try discriminate; exact I.
    - cbn [app]. eexists; eexists; split; eauto. exact I.
    - b2p. rewrite <- app_assoc. apply IHe1. auto.
    - cbn [app]. eexists; eexists; split; eauto. destruct neg; exact I.
    - cbn [app]. eexists; eexists; split; eauto. exact I.
  Qed.
End Head.

(* ------------------------------------------------------------------ the main lemma *)
Lemma okstart_nomod : forall t r, okstart (tk t) -> nomod (t :: r).
Proof. intros. unfold nomod. cbn [hd_kind]. destruct (tk t); try contradiction; try exact I. Qed.

Lemma okstart_not_rp : forall t, okstart (tk t) -> tk t <> KRP.
Proof. intros t H E. rewrite E in H. exact H. Qed.

Lemma lprec_of_fb : forall op l, prec op < fb l -> prec op <= lprec l.
Proof.
  intros op l H. destruct l; cbn [fb lprec] in *; try (pose proof (prec_range op); lia).
  destruct (right_assoc op0); lia.
Qed.

Lemma minr_le6 : forall op, (if right_assoc op then prec op else prec op + 1) <= 6.
Proof. destruct op; simpl; lia. Qed.

Lemma fb_ge_lprec : forall m e, m <= 6 -> m <= lprec e -> m <= fb e.
Proof.
  intros m e H6 H. destruct e; cbn [fb lprec rprec] in *; try lia.
  - destruct (is_negf bits || (bits =? inf_bits)); lia.
  - destruct neg; lia.
  - destruct (right_assoc op); lia.
Qed.

Lemma vm_ok_unnorm : forall o op vm,
  match vm with Some m => vm_ok o m = true | None => True end -> vm_ok o (unnorm_vm op vm) = true.
Proof.
  intros o op vm H. destruct vm as [m|]; [|reflexivity]. unfold unnorm_vm.
  destruct (is_set_op op); auto. destruct (vm_card m) eqn:C; auto.
  unfold vm_ok in *. cbn [vm_card vm_on vm_labels vm_include vm_fl vm_fr]. rewrite C in H. exact H.
Qed.

Section Main.
  Variable oc : orc.
  Variable o : opts.
  Variable ft : ftab.
  Notation pr := (print oc).
  Notation wf := (wfb oc o ft).
  Notation PE := (parse_e oc o ft).

  Definition tlen (e : expr) : nat := length (pr (unnorm e)).
  Definition okX (X : list tok) : Prop :=
    match hd_kind X with KLP | KLK | KBY | KWITHOUT => False | _ => True end.

  Definition ML (e : expr) : Prop := forall f n minp X r,
    (n + tlen e <= f)%nat -> minp <= lprec e -> stop (fb e) X ->
    climb o (PE f) n minp (unnorm e) X = Ok r ->
    PE (S f) minp (pr (unnorm e) ++ X) = Ok r.

  Definition PL (e : expr) : Prop := atomb e = true -> forall f n X r,
    (n + tlen e <= f)%nat -> okX X ->
    postfix_loop n oc o (unnorm e) X = Ok r ->
    prefix oc o ft (PE f) f (pr (unnorm e) ++ X) = Ok r.

  Lemma stop_okX : forall m X, stop m X -> okX X.
  Proof. intros. unfold okX. destruct X; cbn in *; auto. destruct (tk t); try contradiction; exact I. Qed.

  Lemma tlen_pos : forall e, wf e = true -> (1 <= tlen e)%nat.
  Proof.
    intros. unfold tlen. destruct (print_head oc o ft e [] H) as (t & r & E & _).
    rewrite app_nil_r in E. rewrite E. simpl. lia.
  Qed.

  (* atoms: the prefix lemma gives the main lemma *)
  Lemma ML_of_PL : forall e, PL e -> atomb e = true -> ML e.
  Proof.
    intros e HP Ha f n minp X r Hf Hm Hs Hc. cbn [parse_e].
    rewrite (HP Ha f 0%nat X (unnorm e, X)).
    - eapply climb_mono; eauto. lia.
    - lia.
    - eapply stop_okX; eauto.
    - eapply postfix_none; eauto.
  Qed.

  Lemma ML_bin : forall op rb vm l r,
    (forall e', (tlen e' < tlen (EBin op rb vm l r))%nat -> wf e' = true -> ML e' /\ PL e') ->
    wf (EBin op rb vm l r) = true -> ML (EBin op rb vm l r).
  Proof.
    intros op rb vm l r IH Hwf f n minp X res Hf Hm Hs Hc.
    cbn [wfb] in Hwf. apply andb_prop in Hwf. destruct Hwf as [Hwf Hty].
    apply andb_prop in Hwf. destruct Hwf as [Hwf Hr]. apply andb_prop in Hwf. destruct Hwf as [Hwf Hl].
    apply andb_prop in Hwf. destruct Hwf as [Hwl Hwr]. b2p.
    cbn [lprec] in Hm. cbn [fb] in Hs.
    set (m' := unnorm_vm op vm) in *.
    assert (Hvm : vm_ok o m' = true).
    { apply vm_ok_unnorm. destruct vm; auto. b2p. auto. }
    assert (Hcard : vm_card m' <> CManyToMany).
    { unfold m', unnorm_vm. destruct vm as [m|]; [|cbn; congruence]. b2p.
      destruct (is_set_op op) eqn:S.
      - destruct (vm_card m) eqn:C; cbn; congruence.
      - intro C. rewrite C in *. discriminate. }
    destruct (print_head oc o ft l [] Hwl) as (tl_ & rl & El & _). rewrite app_nil_r in El.
    destruct (print_head oc o ft r X Hwr) as (tr & rr & Er & Kr).
    assert (Hlen : (tlen l + 1 + tlen r <= tlen (EBin op rb vm l r))%nat).
    { unfold tlen. cbn [unnorm print]. repeat rewrite app_length. cbn [length]. repeat rewrite app_length. lia. }
    assert (Hl1 : (1 <= tlen l)%nat) by (apply tlen_pos; auto).
    cbn [unnorm print] in *. fold m' in Hc |- *.
    repeat rewrite <- app_assoc. cbn [app]. repeat rewrite <- app_assoc.
    destruct (IH l) as [MLl _]; [lia|auto|].
    apply (MLl f (S n)); [lia| | |].
    - pose proof (lprec_of_fb _ _ Hl). lia.
    - cbn. exact Hl.
    - cbn [climb op_tok TW tk].
      assert (E1 : (prec op <? minp) = false) by (apply Z.ltb_ge; lia). rewrite E1.
      rewrite (bin_modifiers_print o rb m' (pr (unnorm r) ++ X) Hvm Hcard).
      2:{ rewrite Er. apply okstart_nomod; auto. }
      match goal with |- context [negb (o_fill o) && ?c] => replace (negb (o_fill o) && c) with false end.
      2:{ symmetry. unfold vm_ok in Hvm. b2p. destruct (vm_fl m'); destruct (vm_fr m'); b2p; try (rewrite andb_false_r; reflexivity);
          match goal with H : o_fill o = true |- _ => rewrite H; reflexivity end. }
      destruct f as [|f0]; [lia|].
      destruct (IH r) as [MLr _]; [lia|auto|].
      rewrite (MLr f0 0%nat _ X (unnorm r, X)); [exact Hc|lia|lia| |].
      + eapply stop_weaken; eauto. apply fb_ge_lprec; auto. apply minr_le6.
      + apply climb_stop. exact Hs.
  Qed.

  (* unary minus / plus *)
  Lemma ML_un : forall neg e1,
    (forall e', (tlen e' < tlen (EUn neg e1))%nat -> wf e' = true -> ML e' /\ PL e') ->
    wf (EUn neg e1) = true -> ML (EUn neg e1).
  Proof.
    intros neg e1 IH Hwf f n minp X res Hf Hm Hs Hc.
    cbn [wfb] in Hwf. b2p. cbn [fb rprec] in Hs.
    assert (Hlen : (tlen e1 + 1 <= tlen (EUn neg e1))%nat).
    { unfold tlen. cbn [unnorm print length]. lia. }
    cbn [unnorm print app] in *. cbn [parse_e prefix tk T].
    assert (EP : PE f 6 (pr (unnorm e1) ++ X) = Ok (unnorm e1, X)).
    { destruct f as [|f0]; [lia|]. destruct (IH e1) as [ML1 _]; [lia|auto|].
      apply (ML1 f0 0%nat); [lia|lia| |].
      - eapply stop_weaken; eauto. apply fb_ge_lprec; lia.
      - apply climb_stop. exact Hs. }
    destruct neg; rewrite EP; cbn [fold_unary];
      (assert (EL : is_lit (unnorm e1) = false) by (rewrite is_lit_unnorm; auto));
      destruct (unnorm e1); try discriminate EL; eapply climb_mono; eauto; lia.
  Qed.

  (* literals *)
  Lemma ML_num : forall b, wf (ENum b) = true -> ML (ENum b).
  Proof.
    intros b Hwf f n minp X res Hf Hm Hs Hc. cbn [wfb] in Hwf.
    cbn [unnorm print] in *. cbn [fb rprec] in Hs.
    assert (Hl : (1 <= tlen (ENum b))%nat) by (apply tlen_pos; auto).
    destruct f as [|f0]; [lia|].
    unfold print_num. destruct (is_negf b) eqn:EN; [|destruct (b =? inf_bits) eqn:EI].
    - cbn [orb] in Hs. assert (Hs6 : stop 6 X) by exact Hs.
      cbn [app parse_e prefix primary tk T TN tz]. rewrite (postfix_none oc o _ f0 6 X Hs6).
      rewrite (climb_stop o _ f0 6 _ X Hs6). cbn [fold_unary]. rewrite fneg_sub by auto.
      eapply climb_mono; eauto. lia.
    - rewrite orb_true_r in Hs. assert (Hs6 : stop 6 X) by exact Hs.
      cbn [app parse_e prefix primary tk T TN tz]. rewrite (postfix_none oc o _ f0 6 X Hs6).
      rewrite (climb_stop o _ f0 6 _ X Hs6). cbn [fold_unary].
      eapply climb_mono; eauto. lia.
    - cbn [orb] in Hs. cbn [app parse_e prefix primary tk TN tz].
      rewrite (postfix_none oc o _ (S f0) 8 X Hs). eapply climb_mono; eauto. lia.
  Qed.

  Lemma ML_dur : forall neg ns, wf (EDurLit neg ns) = true -> ML (EDurLit neg ns).
  Proof.
    intros neg ns Hwf f n minp X res Hf Hm Hs Hc. cbn [wfb] in Hwf. b2p.
    cbn [unnorm print] in *. cbn [fb rprec] in Hs.
    assert (Hl : (1 <= tlen (EDurLit neg ns))%nat) by (unfold tlen; cbn [unnorm print]; destruct neg; simpl; lia).
    destruct f as [|f0]; [lia|]. rewrite H0.
    destruct neg.
    - assert (Hs6 : stop 6 X) by exact Hs.
      cbn [app parse_e prefix primary tk T TD tz]. rewrite (postfix_none oc o _ f0 6 X Hs6).
      rewrite (climb_stop o _ f0 6 _ X Hs6). cbn [fold_unary negb].
      eapply climb_mono; eauto. lia.
    - cbn [app parse_e prefix primary tk TD tz].
      rewrite (postfix_none oc o _ (S f0) 8 X Hs). eapply climb_mono; eauto. lia.
  Qed.

  (* optional modifiers cost fuel only when printed *)
  Lemma loop_at' : forall n e a Y e' r m, at_ok oc a = true ->
    match a with AtNone => e' = e | _ => apply_at e a = Ok e' end ->
    postfix_loop n oc o e' Y = Ok r -> (n + length (print_at oc a) <= m)%nat ->
    postfix_loop m oc o e (print_at oc a ++ Y) = Ok r.
  Proof.
    intros. destruct a eqn:A.
    - subst e'. cbn [print_at app]. eapply postfix_loop_mono; eauto. lia.
    - eapply postfix_loop_mono; [eapply loop_at; eauto|]. destruct (ms <? 0); simpl in *; lia.
    - eapply postfix_loop_mono; [eapply loop_at; eauto|]. simpl in *; lia.
    - eapply postfix_loop_mono; [eapply loop_at; eauto|]. simpl in *; lia.
  Qed.

  Lemma loop_off' : forall n e d Y e' r m, off_ok oc d = true ->
    (if d =? 0 then e' = e else apply_offset e d = Ok e') ->
    postfix_loop n oc o e' Y = Ok r -> (n + length (print_off d) <= m)%nat ->
    postfix_loop m oc o e (print_off d ++ Y) = Ok r.
  Proof.
    intros. destruct (d =? 0) eqn:E.
    - apply Z.eqb_eq in E. subst. change (print_off 0 ++ Y) with Y. eapply postfix_loop_mono; eauto. lia.
    - eapply postfix_loop_mono; [eapply loop_off; eauto; rewrite E; auto|].
      apply Z.eqb_neq in E. unfold print_off in *. destruct (0 <? d) eqn:E1; [simpl in *; lia|].
      destruct (d <? 0) eqn:E2; [simpl in *; lia|]. b2p. lia.
  Qed.

  Lemma loop_ext' : forall n e x Y e' r m,
    match x with XNone => e' = e | _ => apply_ext o e x = Ok e' end ->
    postfix_loop n oc o e' Y = Ok r -> (n + length (print_ext x) <= m)%nat ->
    postfix_loop m oc o e (print_ext x ++ Y) = Ok r.
  Proof.
    intros. destruct x eqn:A.
    - subst e'. cbn [print_ext app]. eapply postfix_loop_mono; eauto. lia.
    - eapply postfix_loop_mono; [eapply loop_ext; eauto|]. simpl in *; lia.
    - eapply postfix_loop_mono; [eapply loop_ext; eauto|]. simpl in *; lia.
  Qed.

  Definition vs0 (v : vsel) : vsel := mkVS (vs_name v) (vs_ms v) AtNone XNone 0.

  (* metric_identifier [label_matchers] | label_matchers *)
  Lemma primary_vs : forall pe n v Y, vs_ok oc o v = true ->
    match hd_kind Y with KLP | KLK => False | _ => True end ->
    prefix oc o ft pe n (print_vs_base v ++ Y) = postfix_loop n oc o (EVS (vs0 v)) Y.
  Proof.
    intros pe n v Y Hok HY. unfold vs_ok in Hok. b2p. unfold print_vs_base, vs0.
    destruct (vs_name v) as [|c nm] eqn:N.
    - destruct (vs_ms v) as [|m ms] eqn:M; [discriminate|].
      rewrite filter_name_nil. cbn [app]. rewrite <- app_assoc. cbn [app].
      cbn [prefix primary tk T]. fold (pms (m :: ms)).
      rewrite matchers_print by congruence. reflexivity.
    - rewrite filter_name_cons by auto.
      assert (Htx : tx (lex_word (c :: nm)) = c :: nm).
      { apply lex_word_tx. unfold name_ok in *. intro E. rewrite E in *. discriminate. }
      unfold name_ok in *.
      destruct (vs_ms v) as [|m ms] eqn:M.
      + cbn [app]. cbn [prefix primary].
        destruct (tk (lex_word (c :: nm))) eqn:K; try discriminate;
          cbn [andb metric_ident]; rewrite Htx; unfold vs_tail;
          destruct (hd_kind Y); try contradiction; try reflexivity.
      + cbn [app]. rewrite <- app_assoc. cbn [app]. cbn [prefix primary].
        destruct (tk (lex_word (c :: nm))) eqn:K; try discriminate;
          cbn [andb metric_ident hd_kind tk T]; rewrite Htx; unfold vs_tail; cbn [hd_kind tk T tl];
          fold (pms (m :: ms)); rewrite matchers_print by congruence; reflexivity.
  Qed.

  Lemma okX_vs : forall X, okX X -> match hd_kind X with KLP | KLK => False | _ => True end.
  Proof. unfold okX. intros. destruct (hd_kind X); auto. Qed.

  Lemma PL_num : forall b, wf (ENum b) = true -> PL (ENum b).
  Proof.
    intros b Hwf Ha f n X r Hf HX Hp. unfold atomb in Ha. cbn [rprec] in Ha.
    destruct (is_negf b || (b =? inf_bits)) eqn:E; [b2p; lia|].
    apply orb_false_iff in E. destruct E as [E1 E2].
    cbn [unnorm print] in *. unfold print_num. rewrite E1, E2.
    cbn [app prefix primary tk TN tz]. eapply postfix_loop_mono; eauto. lia.
  Qed.

  Lemma PL_dur : forall neg ns, wf (EDurLit neg ns) = true -> PL (EDurLit neg ns).
  Proof.
    intros neg ns Hwf Ha f n X r Hf HX Hp. unfold atomb in Ha. cbn [rprec] in Ha.
    destruct neg; [b2p; lia|]. cbn [wfb] in Hwf. b2p.
    cbn [unnorm print] in *. rewrite H0.
    cbn [app prefix primary tk TD tz]. eapply postfix_loop_mono; eauto. lia.
  Qed.

  Lemma PL_str : forall s, PL (EStr s).
  Proof.
    intros s Ha f n X r Hf HX Hp. cbn [unnorm print] in *.
    cbn [app prefix primary tk TS tx]. eapply postfix_loop_mono; eauto. lia.
  Qed.

  Lemma PL_paren : forall e1,
    (forall e', (tlen e' < tlen (EParen e1))%nat -> wf e' = true -> ML e' /\ PL e') ->
    wf (EParen e1) = true -> PL (EParen e1).
  Proof.
    intros e1 IH Hwf Ha f n X r Hf HX Hp. cbn [wfb] in Hwf.
    assert (Hlen : (tlen e1 + 2 <= tlen (EParen e1))%nat).
    { unfold tlen. cbn [unnorm print length]. rewrite app_length. simpl. lia. }
    cbn [unnorm print] in *. cbn [app]. rewrite <- app_assoc. cbn [app].
    cbn [prefix primary tk T].
    destruct f as [|f0]; [lia|]. destruct (IH e1) as [ML1 _]; [lia|auto|].
    rewrite (ML1 f0 0%nat 0 (T KRP :: X) (unnorm e1, T KRP :: X)).
    - cbn [tk T]. eapply postfix_loop_mono; eauto. lia.
    - lia.
    - destruct e1; cbn; try lia. pose proof (prec_range op); lia.
    - exact I.
    - apply climb_stop. exact I.
  Qed.

  Lemma PL_vs : forall v, wf (EVS v) = true -> PL (EVS v).
  Proof.
    intros v Hwf Ha f n X r Hf HX Hp. cbn [wfb] in Hwf.
    assert (Hlen : (length (print_at oc (vs_at v)) + length (print_ext (vs_ext v)) + length (print_off (vs_off v)) <= tlen (EVS v))%nat).
    { unfold tlen. cbn [unnorm print]. unfold print_vs. repeat rewrite app_length. lia. }
    cbn [unnorm print] in *. unfold print_vs. repeat rewrite <- app_assoc.
    rewrite primary_vs; auto.
    2:{ pose proof Hwf as W. unfold vs_ok in W. b2p.
        destruct (vs_at v); cbn [print_at app hd_kind tk T]; try exact I.
        destruct (vs_ext v); cbn [print_ext app hd_kind tk TW]; try exact I.
        unfold print_off. destruct (0 <? vs_off v); [exact I|]. destruct (vs_off v <? 0); [exact I|].
        cbn [app]. apply okX_vs; auto. }
    pose proof Hwf as W. unfold vs_ok in W. b2p.
    destruct v as [name ms a x d]. cbn [vs_at vs_ext vs_off vs_name vs_ms] in *. unfold vs0. cbn [vs_name vs_ms].
    eapply loop_at' with (e' := EVS (mkVS name ms a XNone 0)) (n := (n + length (print_off d) + length (print_ext x))%nat); auto.
    - destruct a; reflexivity.
    - eapply loop_ext' with (e' := EVS (mkVS name ms a x 0)) (n := (n + length (print_off d))%nat).
      + destruct x; try reflexivity; unfold apply_ext;
          match goal with H : o_ext o = true |- _ => rewrite H end; reflexivity.
      + eapply loop_off' with (e' := EVS (mkVS name ms a x d)) (n := n); auto.
        destruct (d =? 0) eqn:E; [apply Z.eqb_eq in E; subst; reflexivity|reflexivity].
      + lia.
    - lia.
  Qed.

  Lemma dur_ok_facts : forall d, dur_ok oc d = true ->
    (trunc_ms d <=? 0) = false /\ olook (o_drt oc) (trunc_ms d) = d.
  Proof. unfold dur_ok. intros. b2p. split; auto. apply Z.leb_gt. lia. Qed.

  Lemma PL_mat : forall v rng, wf (EMat v rng) = true -> PL (EMat v rng).
  Proof.
    intros v rng Hwf Ha f n X r Hf HX Hp. cbn [wfb] in Hwf. apply andb_prop in Hwf. destruct Hwf as [Hv Hd].
    destruct (dur_ok_facts _ Hd) as [D1 D2].
    assert (Hlen : (3 + length (print_ext (vs_ext v)) + length (print_at oc (vs_at v)) + length (print_off (vs_off v)) <= tlen (EMat v rng))%nat).
    { unfold tlen. cbn [unnorm print]. repeat rewrite app_length. simpl. lia. }
    cbn [unnorm print] in *. repeat rewrite <- app_assoc. cbn [app].
    rewrite primary_vs; auto; [|exact I].
    destruct f as [|m]; [lia|].
    cbn [postfix_loop postfix_step tk T TD tz print_range]. rewrite D1, D2.
    pose proof Hv as W. unfold vs_ok in W. b2p.
    destruct v as [name ms a x d]. cbn [vs_at vs_ext vs_off vs_name vs_ms] in *. unfold vs0. cbn [vs_name vs_ms vs_at vs_off].
    cbn [Z.eqb].
    eapply loop_ext' with (e' := EMat (mkVS name ms AtNone x 0) rng) (n := (n + length (print_off d) + length (print_at oc a))%nat).
    - destruct x; try reflexivity; unfold apply_ext;
        match goal with H : o_ext o = true |- _ => rewrite H end; reflexivity.
    - eapply loop_at' with (e' := EMat (mkVS name ms a x 0) rng) (n := (n + length (print_off d))%nat); auto.
      + destruct a; reflexivity.
      + eapply loop_off' with (e' := EMat (mkVS name ms a x d) rng) (n := n); auto.
        destruct (d =? 0) eqn:E; [apply Z.eqb_eq in E; subst; reflexivity|reflexivity].
    - lia.
  Qed.

  Lemma PL_sub : forall e1 rng step a d,
    (forall e', (tlen e' < tlen (ESub e1 rng step a d))%nat -> wf e' = true -> ML e' /\ PL e') ->
    wf (ESub e1 rng step a d) = true -> PL (ESub e1 rng step a d).
  Proof.
    intros e1 rng step a d IH Hwf Ha f n X r Hf HX Hp. cbn [wfb] in Hwf.
    apply andb_prop in Hwf. destruct Hwf as [Hwf Hat]. apply andb_prop in Hwf. destruct Hwf as [Hwf Hoff].
    apply andb_prop in Hwf. destruct Hwf as [Hwf Hstep]. apply andb_prop in Hwf. destruct Hwf as [Hwf Hrng].
    apply andb_prop in Hwf. destruct Hwf as [Hw1 Hatom].
    destruct (dur_ok_facts _ Hrng) as [D1 D2].
    set (stoks := if step =? 0 then [] else [TD (trunc_ms step)]) in *.
    assert (Hlen : (tlen e1 + 4 + length stoks + length (print_at oc a) + length (print_off d) <= tlen (ESub e1 rng step a d))%nat).
    { unfold tlen. cbn [unnorm print]. fold stoks. repeat rewrite app_length. simpl. lia. }
    cbn [unnorm print] in *. fold stoks. repeat rewrite <- app_assoc. cbn [app].
    destruct (IH e1) as [_ PL1]; [lia|auto|].
    apply (PL1 Hatom f (S (n + length (print_off d) + length (print_at oc a)))); [lia|exact I|].
    cbn [postfix_loop postfix_step tk T TD tz print_range]. rewrite D1, D2.
    assert (E : exists Y', (stoks ++ T KRB :: print_at oc a ++ print_off d ++ X) = Y' /\
              match Y' with
              | s :: rest'' =>
                  match tk s with
                  | KRB => Ok (ESub (unnorm e1) rng 0 AtNone 0, rest'')
                  | KDUR => if tz s <=? 0 then Err EType else
                            match rest'' with
                            | b :: rest3 => match tk b with KRB => Ok (ESub (unnorm e1) rng (olook (o_drt oc) (tz s)) AtNone 0, rest3) | _ => Err ESyntax end
                            | [] => Err ESyntax end
                  | KNUM => Err EUnsup
                  | _ => Err ESyntax
                  end
              | [] => Err ESyntax
              end = Ok (ESub (unnorm e1) rng step AtNone 0, print_at oc a ++ print_off d ++ X)).
    { eexists; split; [reflexivity|]. unfold stoks. destruct (step =? 0) eqn:E0.
      - apply Z.eqb_eq in E0. subst. reflexivity.
      - cbn [orb] in Hstep. destruct (dur_ok_facts _ Hstep) as [S1 S2].
        cbn [app tk TD T tz]. rewrite S1, S2. reflexivity. }
    destruct E as (Y' & EY & EM). rewrite EY. rewrite EM.
    eapply loop_at' with (e' := ESub (unnorm e1) rng step a 0) (n := (n + length (print_off d))%nat); auto.
    - destruct a; reflexivity.
    - eapply loop_off' with (e' := ESub (unnorm e1) rng step a d) (n := n); auto.
      destruct (d =? 0) eqn:E; [apply Z.eqb_eq in E; subst; reflexivity|reflexivity].
  Qed.
End Main.

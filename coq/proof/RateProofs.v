(* proof/RateProofs.v — lemmas and proofs about model/Rate.v (property C30). *)
From Coq Require Import List ZArith QArith Qabs Bool Sorted Lia Lqa.
From Verif Require Import model.Rate.
Import ListNotations.
Open Scope Z_scope.

(* ------------------------------------------------------------------ *)
(* basic facts on Q booleans                                           *)
Lemma Qltb_true x y : Qltb x y = true <-> (x < y)%Q.
Proof.
  unfold Qltb. rewrite negb_true_iff. split; intro H.
  - apply Qnot_le_lt. intro C. apply Qle_bool_iff in C. congruence.
  - destruct (Qle_bool y x) eqn:E; auto. apply Qle_bool_iff in E. exfalso. apply (Qlt_not_le _ _ H E).
Qed.
Lemma Qltb_false x y : Qltb x y = false <-> (y <= x)%Q.
Proof.
  unfold Qltb. rewrite negb_false_iff. apply Qle_bool_iff.
Qed.
Lemma Qle_bool_false x y : Qle_bool x y = false <-> (y < x)%Q.
Proof.
  split; intro H.
  - apply Qnot_le_lt. intro C. apply Qle_bool_iff in C. congruence.
  - destruct (Qle_bool x y) eqn:E; auto. apply Qle_bool_iff in E. exfalso. apply (Qlt_not_le _ _ H E).
Qed.

Lemma Qdiv_nonneg a b : (0 <= a -> 0 <= b -> 0 <= a / b)%Q.
Proof.
  intros Ha Hb. unfold Qdiv. apply Qmult_le_0_compat; auto. apply Qinv_le_0_compat; auto.
Qed.

Lemma ms_nonneg z : 0 <= z -> (0 <= ms z)%Q.
Proof.
  intro H. unfold ms. apply Qdiv_nonneg; [| discriminate].
  change 0%Q with (inject_Z 0). rewrite <- Zle_Qle. exact H.
Qed.
Lemma ms_pos z : 0 < z -> (0 < ms z)%Q.
Proof.
  intro H. unfold ms. apply Qlt_shift_div_l; [reflexivity|].
  rewrite Qmult_0_l. change 0%Q with (inject_Z 0). rewrite <- Zlt_Qlt. exact H.
Qed.
Lemma ms_le a b : a <= b -> (ms a <= ms b)%Q.
Proof.
  intro H. unfold ms, Qdiv. apply Qmult_le_compat_r; [| discriminate].
  rewrite <- Zle_Qle. exact H.
Qed.

Lemma avg_nonneg S n : 0 <= S -> (0 <= avg_dur S n)%Q.
Proof.
  intro H. unfold avg_dur. destruct (0 <? n) eqn:E; [| apply Qle_refl].
  apply Qdiv_nonneg; [apply ms_nonneg; auto|].
  change 0%Q with (inject_Z 0). rewrite <- Zle_Qle. apply Z.ltb_lt in E. lia.
Qed.

Lemma last_nonempty_default {A} (b : A) l d d' : last (b :: l) d = last (b :: l) d'.
Proof.
  revert b. induction l as [| c l IH]; intro b; [reflexivity|].
  change (last (b :: c :: l) d) with (last (c :: l) d).
  change (last (b :: c :: l) d') with (last (c :: l) d'). apply IH.
Qed.
Lemma last_cons {A} (a : A) l d : last (a :: l) d = last l a.
Proof.
  destruct l as [| b l]; [reflexivity|].
  change (last (a :: b :: l) d) with (last (b :: l) d). apply last_nonempty_default.
Qed.

Lemma last_in_or {A} (l : list A) d : l <> [] -> In (last l d) l.
Proof.
  induction l as [| a l IH]; [congruence|]. intros _.
  destruct l as [| b l']; [left; reflexivity|].
  right. change (last (a :: b :: l') d) with (last (b :: l') d). apply IH. discriminate.
Qed.

Lemma last_Forall {A} (P : A -> Prop) first rest :
  Forall P (first :: rest) -> P (last rest first).
Proof.
  intro H. destruct rest as [| b l]; [inversion H; auto|].
  inversion H as [| ? ? _ Hr]; subst.
  rewrite Forall_forall in Hr. apply Hr. apply last_in_or. discriminate.
Qed.

(* ------------------------------------------------------------------ *)
(* windows                                                             *)
Lemma sorted_first_le_last first rest :
  StronglySorted lt_T (first :: rest) -> sT first <= sT (last rest first).
Proof.
  intro H. apply StronglySorted_inv in H. destruct H as [_ H].
  destruct rest as [| b l]; [simpl; lia|].
  rewrite Forall_forall in H.
  assert (In (last (b :: l) first) (b :: l)) by (apply last_in_or; discriminate).
  specialize (H _ H0). unfold lt_T in H. lia.
Qed.
Lemma sorted_first_lt_last first rest :
  StronglySorted lt_T (first :: rest) -> rest <> [] -> sT first < sT (last rest first).
Proof.
  intros H Hne. apply StronglySorted_inv in H. destruct H as [_ H].
  rewrite Forall_forall in H. apply (H _ (last_in_or rest first Hne)).
Qed.

Lemma Forall_filter {A} (P : A -> Prop) f (l : list A) : Forall P l -> Forall P (filter f l).
Proof.
  rewrite !Forall_forall. intros H x Hx. apply filter_In in Hx. apply H, Hx.
Qed.
Lemma sorted_filter f (l : list sample) : StronglySorted lt_T l -> StronglySorted lt_T (filter f l).
Proof.
  induction 1 as [| a l Hs IH Hf]; simpl; [constructor|].
  destruct (f a); auto. constructor; auto. apply Forall_filter; auto.
Qed.
Lemma window_valid ss rs re : StronglySorted lt_T ss -> valid_window (window ss rs re) rs re.
Proof.
  intro H. split; [apply sorted_filter; auto|].
  unfold window. rewrite Forall_forall. intros x Hx. apply filter_In in Hx.
  destruct Hx as [_ Hx]. unfold in_window in Hx. apply andb_true_iff in Hx. lia.
Qed.
Lemma window_nonneg ss rs re : nonneg ss -> nonneg (window ss rs re).
Proof. apply Forall_filter. Qed.

Lemma eff_T b w : map sT (eff b w) = map sT w.
Proof. destruct b; simpl; auto. rewrite map_map. reflexivity. Qed.
Lemma eff_valid b w rs re : valid_window w rs re -> valid_window (eff b w) rs re.
Proof.
  destruct b; simpl; auto. intros [Hs Hf]. split.
  - induction Hs as [| a l Hs IH Ha]; simpl; constructor; auto.
    + apply IH. inversion Hf; auto.
    + rewrite Forall_forall in *. intros x Hx. apply in_map_iff in Hx.
      destruct Hx as [y [<- Hy]]. apply (Ha _ Hy).
  - rewrite Forall_forall in *. intros x Hx. apply in_map_iff in Hx.
    destruct Hx as [y [<- Hy]]. apply (Hf _ Hy).
Qed.
Lemma eff_nonneg b w : nonneg w -> nonneg (eff b w).
Proof.
  destruct b; simpl; auto. unfold nonneg. rewrite !Forall_forall. intros H x Hx.
  apply in_map_iff in Hx. destruct Hx as [y [<- Hy]]. apply (H _ Hy).
Qed.

(* ------------------------------------------------------------------ *)
(* counter-reset correction = sum of per-step counter increments       *)
Lemma reset_correction_telescopes first rest :
  (sV (last rest first) - sV first + reset_corr first rest == Qsum (increments first rest))%Q.
Proof.
  revert first. induction rest as [| cur tl IH]; intro first.
  - simpl. ring.
  - rewrite last_cons. simpl. specialize (IH cur).
    destruct (is_reset first cur); unfold Qsum in *; simpl; rewrite <- IH; ring.
Qed.

Lemma increments_nonneg first rest :
  nonneg (first :: rest) -> Forall (fun x => (0 <= x)%Q) (increments first rest).
Proof.
  revert first. induction rest as [| cur tl IH]; intros first H; simpl; [constructor|].
  inversion H as [| ? ? Hf Hr]; subst. constructor; [| apply IH; auto].
  inversion Hr as [| ? ? Hc _]; subst.
  unfold is_reset. destruct (Qltb (sV cur) (sV first)) eqn:E; simpl; auto.
  apply Qltb_false in E. destruct (st_reset _ _ _ _); auto. lra.
Qed.
Lemma Qsum_nonneg l : Forall (fun x => (0 <= x)%Q) l -> (0 <= Qsum l)%Q.
Proof.
  induction 1; unfold Qsum in *; simpl; [apply Qle_refl|]. lra.
Qed.
Lemma counter_result_nonneg first rest :
  nonneg (first :: rest) -> (0 <= sV (last rest first) - sV first + reset_corr first rest)%Q.
Proof.
  intro H. rewrite reset_correction_telescopes. apply Qsum_nonneg, increments_nonneg, H.
Qed.

(* ------------------------------------------------------------------ *)
(* non-negativity of rate / increase                                   *)
Section Oracle.
  Variable fge : Z -> Z -> Z -> bool.

  Lemma finish_nonneg is_rate result SI dStart dEnd_ms S n range_ms :
    (0 <= result)%Q -> (0 <= SI)%Q -> (0 <= dStart)%Q -> 0 <= dEnd_ms -> 0 <= S -> 0 < range_ms ->
    (0 <= finish fge is_rate result SI dStart dEnd_ms S n range_ms)%Q.
  Proof.
    intros Hr HSI HdS HdE HS Hrg. unfold finish.
    apply Qmult_le_0_compat; auto.
    assert (Hend : (0 <= (if fge dEnd_ms S n then avg_dur S n / 2 else ms dEnd_ms))%Q).
    { destruct (fge _ _ _); [apply Qdiv_nonneg; [apply avg_nonneg; auto | discriminate] | apply ms_nonneg; auto]. }
    assert (Hf : (0 <= (if Qeq_bool SI 0 then 1
                        else (SI + dStart + (if fge dEnd_ms S n then avg_dur S n / 2 else ms dEnd_ms)) / SI))%Q).
    { destruct (Qeq_bool SI 0); [discriminate|]. apply Qdiv_nonneg; auto. lra. }
    destruct is_rate; auto. apply Qdiv_nonneg; auto. apply ms_nonneg. lia.
  Qed.

  Lemma extrapolated_rate_nonneg is_rate w rs re range_ms v :
    valid_window w rs re -> nonneg w -> 0 < range_ms ->
    extrapolated_rate fge true is_rate w rs re range_ms = Some v -> (0 <= v)%Q.
  Proof.
    intros [Hs Hw] Hnn Hrg. destruct w as [| first rest]; [discriminate|].
    pose proof (counter_result_nonneg first rest Hnn) as Hres.
    pose proof (sorted_first_le_last first rest Hs) as Hfl.
    pose proof (last_Forall _ _ _ Hw) as Hlast. cbv beta in Hlast.
    assert (Hfirst : rs < sT first <= re) by (inversion Hw; auto).
    assert (Hv0 : (0 <= sV first)%Q) by (inversion Hnn; auto).
    unfold extrapolated_rate. cbv zeta. simpl andb.
    destruct (negb (sST first =? 0) && (rs <? sST first) && (sST first <? sT first)) eqn:EST.
    - intro E. injection E as <-.
      apply andb_true_iff in EST. destruct EST as [EST E3]. apply Z.ltb_lt in E3.
      apply finish_nonneg; try lia; try lra. apply ms_nonneg. lia.
    - destruct (Z.of_nat (length rest) =? 0) eqn:En; [discriminate|].
      intro E. injection E as <-.
      set (S := sT (last rest first) - sT first) in *.
      set (n := Z.of_nat (length rest)) in *.
      assert (HS : 0 <= S) by (unfold S; lia).
      assert (Hd0 : (0 <= (if fge (sT first - rs) S n then avg_dur S n / 2 else ms (sT first - rs)))%Q).
      { destruct (fge _ _ _); [apply Qdiv_nonneg; [apply avg_nonneg; auto | discriminate] | apply ms_nonneg; lia]. }
      apply finish_nonneg; try lia; auto.
      + apply ms_nonneg; auto.
      + set (d0 := (if fge (sT first - rs) S n then avg_dur S n / 2 else ms (sT first - rs))%Q) in *.
        set (result := (sV (last rest first) - sV first + reset_corr first rest)%Q) in *.
        destruct (Qltb 0 result && Qle_bool 0 (sV first)) eqn:Ez.
        * apply andb_true_iff in Ez. destruct Ez as [Ez1 _]. apply Qltb_true in Ez1.
          destruct (Qltb (ms S * (sV first / result)) d0); auto.
          apply Qmult_le_0_compat; [apply ms_nonneg; auto|]. apply Qdiv_nonneg; lra.
        * destruct (Qltb d0 d0); auto.
  Qed.
End Oracle.

(* ------------------------------------------------------------------ *)
(* increase = rate * range seconds                                     *)
Section Oracle2.
  Variable fge : Z -> Z -> Z -> bool.

  Lemma finish_rate_increase result SI dStart dEnd_ms S n range_ms :
    0 < range_ms ->
    (finish fge false result SI dStart dEnd_ms S n range_ms ==
     finish fge true result SI dStart dEnd_ms S n range_ms * ms range_ms)%Q.
  Proof.
    intro Hr. pose proof (ms_pos _ Hr) as Hp. unfold finish. cbv zeta.
    field. intro C. rewrite C in Hp. apply (Qlt_irrefl _ Hp).
  Qed.

  Lemma increase_is_rate_times_range w rs re range_ms :
    0 < range_ms ->
    match extrapolated_rate fge true true w rs re range_ms,
          extrapolated_rate fge true false w rs re range_ms with
    | Some r, Some i => (i == r * ms range_ms)%Q
    | None, None => True
    | _, _ => False
    end.
  Proof.
    intro Hr. destruct w as [| first rest]; simpl; auto.
    destruct (negb (sST first =? 0) && (rs <? sST first) && (sST first <? sT first)).
    - apply finish_rate_increase; auto.
    - destruct (Z.of_nat (length rest) =? 0); auto. apply finish_rate_increase; auto.
  Qed.
End Oracle2.

(* ------------------------------------------------------------------ *)
(* the model equals the documented algorithm                           *)
Lemma Qltb_compat a b c d : (a == c)%Q -> (b == d)%Q -> Qltb a b = Qltb c d.
Proof.
  intros H1 H2. destruct (Qltb c d) eqn:E.
  - apply Qltb_true. apply Qltb_true in E. rewrite H1, H2. auto.
  - apply Qltb_false. apply Qltb_false in E. rewrite H1, H2. auto.
Qed.

Section Oracle3.
  Variable fge : Z -> Z -> Z -> bool.

  Lemma matches_doc_change is_counter w rs re range_ms :
    StronglySorted lt_T w ->
    oeq (extrapolated_rate fge is_counter false w rs re range_ms)
        (doc_change fge is_counter w rs re).
  Proof.
    intro Hs. destruct w as [| first rest]; [exact I|].
    pose proof (reset_correction_telescopes first rest) as Htel.
    pose proof (sorted_first_le_last first rest Hs) as Hfl.
    unfold extrapolated_rate, doc_change. cbv zeta.
    set (lst := last rest first) in *.
    set (n := Z.of_nat (length rest)) in *.
    set (S := sT lst - sT first) in *.
    destruct (is_counter && negb (sST first =? 0) && (rs <? sST first) && (sST first <? sT first)) eqn:EST.
    - (* start timestamp inside the range *)
      apply andb_true_iff in EST. destruct EST as [EST E3]. apply Z.ltb_lt in E3.
      apply andb_true_iff in EST. destruct EST as [EST _].
      apply andb_true_iff in EST. destruct EST as [Ec _]. subst is_counter.
      assert (Hpos : (0 < ms (sT lst - sST first))%Q) by (apply ms_pos; lia).
      unfold oeq, finish, extend. cbv zeta.
      destruct (Qeq_bool (ms (sT lst - sST first)) 0) eqn:Ez.
      { apply Qeq_bool_iff in Ez. rewrite Ez in Hpos. exfalso. apply (Qlt_irrefl _ Hpos). }
      rewrite <- Htel.
      set (dE := (if fge (re - sT lst) S n then avg_dur S n / 2 else ms (re - sT lst))%Q).
      field. intro C. rewrite C in Hpos. apply (Qlt_irrefl _ Hpos).
    - destruct (n =? 0) eqn:En; [exact I|].
      assert (Hne : rest <> []).
      { intro C. subst rest. simpl in n. subst n. discriminate. }
      pose proof (sorted_first_lt_last first rest Hs Hne) as Hlt. fold lst in Hlt.
      assert (Hpos : (0 < ms S)%Q) by (apply ms_pos; unfold S; lia).
      assert (HS0 : ~ (ms S == 0)%Q) by (intro C; rewrite C in Hpos; apply (Qlt_irrefl _ Hpos)).
      unfold oeq, finish, extend. cbv zeta.
      destruct (Qeq_bool (ms S) 0) eqn:Ez; [apply Qeq_bool_iff in Ez; contradiction|].
      set (dE := (if fge (re - sT lst) S n then avg_dur S n / 2 else ms (re - sT lst))%Q).
      set (d0 := (if fge (sT first - rs) S n then avg_dur S n / 2 else ms (sT first - rs))%Q).
      destruct is_counter; simpl andb.
      + set (result := (sV lst - sV first + reset_corr first rest)%Q) in *.
        set (inc := Qsum (increments first rest)) in *.
        rewrite (Qltb_compat 0 result 0 inc (Qeq_refl 0) Htel).
        destruct (Qltb 0 inc && Qle_bool 0 (sV first)) eqn:Ecl.
        * apply andb_true_iff in Ecl. destruct Ecl as [Ei _]. apply Qltb_true in Ei.
          assert (Hinc : ~ (inc == 0)%Q) by (intro C; rewrite C in Ei; apply (Qlt_irrefl _ Ei)).
          assert (Hres : ~ (result == 0)%Q) by (rewrite Htel; auto).
          assert (Hdz : (ms S * (sV first / result) == ms S * sV first / inc)%Q).
          { rewrite Htel. field. auto. }
          unfold Qminq.
          destruct (Qltb (ms S * (sV first / result)) d0) eqn:E1;
            destruct (Qle_bool d0 (ms S * sV first / inc)) eqn:E2.
          -- apply Qltb_true in E1. apply Qle_bool_iff in E2. rewrite Hdz in E1.
             exfalso. apply (Qlt_not_le _ _ E1 E2).
          -- rewrite Hdz, Htel. field. auto.
          -- rewrite Htel. field. auto.
          -- apply Qltb_false in E1. apply Qle_bool_false in E2. rewrite Hdz in E1.
             exfalso. apply (Qlt_not_le _ _ E2 E1).
        * assert (Hdd : Qltb d0 d0 = false) by (apply Qltb_false, Qle_refl).
          rewrite Hdd, Htel. unfold Qdiv. ring.
      + cbv beta iota. field. auto.
  Qed.

  Lemma matches_doc_rate w rs re range_ms :
    StronglySorted lt_T w -> 0 < range_ms ->
    oeq (extrapolated_rate fge true true w rs re range_ms) (doc_rate fge w rs re range_ms).
  Proof.
    intros Hs Hr. pose proof (matches_doc_change true w rs re range_ms Hs) as Hd.
    pose proof (increase_is_rate_times_range fge w rs re range_ms Hr) as Hi.
    unfold doc_rate.
    destruct (extrapolated_rate fge true true w rs re range_ms) as [r|];
      destruct (extrapolated_rate fge true false w rs re range_ms) as [i|];
      destruct (doc_change fge true w rs re) as [d|]; simpl in *; try contradiction; auto.
    rewrite <- Hd, Hi. pose proof (ms_pos _ Hr) as Hp. field.
    intro C. rewrite C in Hp. apply (Qlt_irrefl _ Hp).
  Qed.
End Oracle3.

(* ------------------------------------------------------------------ *)
(* bounds on the extrapolation                                         *)
Lemma ms_plus a b : (ms a + ms b == ms (a + b))%Q.
Proof. unfold ms. rewrite inject_Z_plus. field. Qed.

Section Oracle4.
  Variable fge : Z -> Z -> Z -> bool.
  Hypothesis Hfge : fge_ok fge.

  Lemma extend_bounds gap S n :
    0 <= gap -> 0 <= S -> 0 <= n ->
    (0 <= extend fge gap S n /\ extend fge gap S n <= ms gap /\ extend fge gap S n <= thr S n)%Q.
  Proof.
    intros Hg HS Hn. destruct (Hfge gap S n Hg HS Hn) as [H1 H2].
    pose proof (avg_nonneg S n HS) as Ha. pose proof (ms_nonneg gap Hg) as Hm.
    assert (Hh : (avg_dur S n / 2 == avg_dur S n * (1 # 2))%Q) by (unfold Qdiv; reflexivity).
    unfold extend, thr in *. destruct (fge gap S n) eqn:E; rewrite ?Hh.
    - assert (Hle : (avg_dur S n * (11 # 10) <= ms gap)%Q).
      { apply Qnot_lt_le. intro C. specialize (H2 C). congruence. }
      repeat split; lra.
    - assert (Hle : (ms gap <= avg_dur S n * (11 # 10))%Q).
      { apply Qnot_lt_le. intro C. specialize (H1 C). congruence. }
      repeat split; lra.
  Qed.

  Lemma doc_change_decomposed is_counter first rest rs re :
    st_path is_counter first rs = false -> rest <> [] ->
    doc_change fge is_counter (first :: rest) rs re =
    Some (doc_inc is_counter first rest *
          ((doc_left fge is_counter first rest rs + ms (sT (last rest first) - sT first)
            + doc_right fge first rest re) / ms (sT (last rest first) - sT first)))%Q.
  Proof.
    intros Hst Hne. unfold doc_change, st_path in *. rewrite Hst.
    destruct (Z.of_nat (length rest) =? 0) eqn:En.
    { apply Z.eqb_eq in En. destruct rest; [congruence | simpl in En; lia]. }
    unfold doc_left, doc_right, doc_inc. cbv zeta. destruct is_counter; reflexivity.
  Qed.

  Lemma extrapolation_bounds is_counter first rest rs re :
    valid_window (first :: rest) rs re -> rest <> [] ->
    let covered := ms (sT (last rest first) - sT first) in
    let left := doc_left fge is_counter first rest rs in
    let right := doc_right fge first rest re in
    let S := sT (last rest first) - sT first in
    let n := Z.of_nat (length rest) in
    (0 <= left /\ left <= ms (sT first - rs) /\ left <= thr S n /\
     0 <= right /\ right <= ms (re - sT (last rest first)) /\ right <= thr S n /\
     left + covered + right <= ms (re - rs) /\
     (is_counter = true -> 0 < doc_inc true first rest -> 0 <= sV first ->
      0 <= sV first - doc_inc true first rest / covered * left))%Q.
  Proof.
    intros [Hs Hw] Hne. cbv zeta.
    pose proof (sorted_first_lt_last first rest Hs Hne) as Hlt.
    pose proof (last_Forall _ _ _ Hw) as Hlast. cbv beta in Hlast.
    assert (Hfirst : rs < sT first <= re) by (inversion Hw; auto).
    set (lst := last rest first) in *.
    set (S := sT lst - sT first) in *. set (n := Z.of_nat (length rest)) in *.
    assert (Hn : 0 <= n) by (unfold n; lia).
    assert (HS : 0 <= S) by (unfold S; lia).
    destruct (extend_bounds (sT first - rs) S n ltac:(lia) HS Hn) as [L0 [L1 L2]].
    destruct (extend_bounds (re - sT lst) S n ltac:(lia) HS Hn) as [R0 [R1 R2]].
    assert (Hcov : (0 < ms S)%Q) by (apply ms_pos; unfold S; lia).
    unfold doc_right. fold lst S n.
    assert (Hleft : (0 <= doc_left fge is_counter first rest rs /\
                     doc_left fge is_counter first rest rs <= extend fge (sT first - rs) S n /\
                     (is_counter = true -> 0 < doc_inc true first rest -> 0 <= sV first ->
                      doc_left fge is_counter first rest rs <= ms S * sV first / doc_inc true first rest))%Q).
    { unfold doc_left. fold lst S n. cbv zeta.
      destruct (is_counter && Qltb 0 (doc_inc is_counter first rest) && Qle_bool 0 (sV first)) eqn:E.
      - apply andb_true_iff in E. destruct E as [E E3]. apply andb_true_iff in E. destruct E as [Ec E2].
        subst is_counter. apply Qltb_true in E2. apply Qle_bool_iff in E3.
        assert (Hz : (0 <= ms S * sV first / doc_inc true first rest)%Q).
        { apply Qdiv_nonneg; [| lra]. apply Qmult_le_0_compat; lra. }
        unfold Qminq. destruct (Qle_bool _ _) eqn:Em.
        + apply Qle_bool_iff in Em. repeat split; auto; lra.
        + apply Qle_bool_false in Em. repeat split; auto; lra.
      - repeat split; try lra. intros -> Hi Hv. exfalso.
        apply Qltb_true in Hi. apply Qle_bool_iff in Hv. rewrite Hi, Hv in E. discriminate. }
    destruct Hleft as [Hl0 [Hl1 Hl2]].
    repeat split; try lra.
    - assert (Hsum : (ms (sT first - rs) + ms S + ms (re - sT lst) == ms (re - rs))%Q).
      { rewrite !ms_plus. unfold S. replace (sT first - rs + (sT lst - sT first) + (re - sT lst)) with (re - rs) by lia. reflexivity. }
      lra.
    - intros Hc Hi Hv. specialize (Hl2 Hc Hi Hv).
      set (inc := doc_inc true first rest) in *. set (left := doc_left fge is_counter first rest rs) in *.
      assert (Hk : (0 < inc / ms S)%Q).
      { apply Qlt_shift_div_l; auto. lra. }
      assert (Hm : (inc / ms S * left <= inc / ms S * (ms S * sV first / inc))%Q).
      { apply Qmult_le_l; auto. }
      assert (Hs' : (inc / ms S * (ms S * sV first / inc) == sV first)%Q).
      { field. split; intro C; [rewrite C in Hi; apply (Qlt_irrefl _ Hi) | rewrite C in Hcov; apply (Qlt_irrefl _ Hcov)]. }
      lra.
  Qed.

  (* with a usable start timestamp nothing is added on the left and the covered interval
     starts at that timestamp, which lies inside the range *)
  Lemma st_path_bounds first rest rs re :
    valid_window (first :: rest) rs re -> st_path true first rs = true ->
    let covered := ms (sT (last rest first) - sST first) in
    let right := doc_right fge first rest re in
    (0 < covered /\ 0 <= right /\ covered + right <= ms (re - rs) /\
     doc_change fge true (first :: rest) rs re =
       Some ((sV first + Qsum (increments first rest)) * ((covered + right) / covered)))%Q.
  Proof.
    intros [Hs Hw] Hst. cbv zeta.
    pose proof (sorted_first_le_last first rest Hs) as Hfl.
    pose proof (last_Forall _ _ _ Hw) as Hlast. cbv beta in Hlast.
    unfold st_path in Hst. pose proof Hst as Hst'.
    apply andb_true_iff in Hst. destruct Hst as [Hst E3]. apply Z.ltb_lt in E3.
    apply andb_true_iff in Hst. destruct Hst as [_ E2]. apply Z.ltb_lt in E2.
    set (lst := last rest first) in *.
    destruct (extend_bounds (re - sT lst) (sT lst - sT first) (Z.of_nat (length rest))
                ltac:(lia) ltac:(lia) ltac:(lia)) as [R0 [R1 R2]].
    unfold doc_right. fold lst.
    repeat split; auto.
    - apply ms_pos. lia.
    - assert (Hle : (ms (sT lst - sST first) + ms (re - sT lst) <= ms (re - rs))%Q).
      { rewrite ms_plus. apply ms_le. lia. }
      lra.
    - unfold doc_change. rewrite Hst'. reflexivity.
  Qed.
End Oracle4.

Lemma fge_exact_ok : fge_ok fge_exact.
Proof.
  intros d S n _ _ _. unfold fge_exact. split; intro H.
  - apply Qle_bool_iff. lra.
  - apply Qle_bool_false. auto.
Qed.

(* ------------------------------------------------------------------ *)
(* irate / idelta                                                      *)
Lemma instant_value_last_two is_rate pre p l :
  instant_value is_rate (pre ++ [p; l]) =
  if sT l - sT p =? 0 then None
  else let v := if negb is_rate || negb (is_reset p l) then (sV l - sV p)%Q else sV l in
       Some (if is_rate then (v / ms (sT l - sT p))%Q else v).
Proof. unfold instant_value. rewrite rev_app_distr. reflexivity. Qed.

Lemma instant_value_short is_rate w : (length w < 2)%nat -> instant_value is_rate w = None.
Proof.
  intro H. destruct w as [| a [| b w']]; try reflexivity. simpl in H. lia.
Qed.

Lemma sorted_app_last_two pre p l : StronglySorted lt_T (pre ++ [p; l]) -> sT p < sT l.
Proof.
  induction pre as [| a pre IH]; simpl; intro H.
  - apply StronglySorted_inv in H. destruct H as [_ H]. inversion H; auto.
  - apply StronglySorted_inv in H. apply IH, H.
Qed.

Lemma irate_nonneg pre p l v :
  StronglySorted lt_T (pre ++ [p; l]) -> nonneg (pre ++ [p; l]) ->
  instant_value true (pre ++ [p; l]) = Some v -> (0 <= v)%Q.
Proof.
  intros Hs Hn. pose proof (sorted_app_last_two _ _ _ Hs) as Hlt.
  unfold nonneg in Hn. rewrite Forall_app in Hn. destruct Hn as [_ Hn].
  inversion Hn as [| ? ? Hp Hn']; subst. inversion Hn' as [| ? ? Hl _]; subst.
  rewrite instant_value_last_two. destruct (sT l - sT p =? 0) eqn:E; [discriminate|].
  cbv zeta. simpl orb. intro H. injection H as <-.
  apply Qdiv_nonneg; [| apply ms_nonneg; lia].
  unfold is_reset. destruct (Qltb (sV l) (sV p)) eqn:Er; simpl; auto.
  apply Qltb_false in Er. destruct (st_reset _ _ _ _); simpl; auto. lra.
Qed.

(* ------------------------------------------------------------------ *)
(* resets / changes                                                    *)
Definition reset_pair (pr : sample * sample) : bool := is_reset (fst pr) (snd pr).
Definition change_pair (pr : sample * sample) : bool := negb (Qeq_bool (sV (snd pr)) (sV (fst pr))).

Lemma count_resets_filter first rest :
  count_resets first rest = Z.of_nat (length (filter reset_pair (adjacent first rest))).
Proof.
  revert first. induction rest as [| cur tl IH]; intro first; [reflexivity|].
  simpl. rewrite IH. unfold reset_pair at 2. simpl fst. simpl snd.
  destruct (is_reset first cur); simpl length; lia.
Qed.
Lemma count_changes_filter first rest :
  count_changes first rest = Z.of_nat (length (filter change_pair (adjacent first rest))).
Proof.
  revert first. induction rest as [| cur tl IH]; intro first; [reflexivity|].
  simpl. rewrite IH. unfold change_pair at 2. simpl fst. simpl snd.
  destruct (Qeq_bool (sV cur) (sV first)); simpl length; lia.
Qed.
Lemma adjacent_length first rest : length (adjacent first rest) = length rest.
Proof. revert first. induction rest; intro; simpl; auto. Qed.
Lemma filter_length_le {A} f (l : list A) : (length (filter f l) <= length l)%nat.
Proof. induction l; simpl; [lia|]. destruct (f a); simpl; lia. Qed.

Lemma count_bounds first rest :
  0 <= count_resets first rest <= Z.of_nat (length rest) /\
  0 <= count_changes first rest <= Z.of_nat (length rest).
Proof.
  rewrite count_resets_filter, count_changes_filter.
  pose proof (filter_length_le reset_pair (adjacent first rest)).
  pose proof (filter_length_le change_pair (adjacent first rest)).
  rewrite adjacent_length in *. lia.
Qed.

Lemma st_reset_unset pst pt ct : st_reset pst pt 0 ct = false.
Proof. reflexivity. Qed.

Lemma resets_le_changes_no_st first rest :
  Forall (fun s => sST s = 0) rest -> count_resets first rest <= count_changes first rest.
Proof.
  revert first. induction rest as [| cur tl IH]; intros first H; simpl; [lia|].
  inversion H as [| ? ? Hc Ht]; subst. specialize (IH cur Ht).
  unfold is_reset. rewrite Hc, st_reset_unset, orb_false_r.
  destruct (Qltb (sV cur) (sV first)) eqn:E; destruct (Qeq_bool (sV cur) (sV first)) eqn:E2; try lia.
  apply Qltb_true in E. apply Qeq_bool_iff in E2. rewrite E2 in E. exfalso. apply (Qlt_irrefl _ E).
Qed.

Lemma no_resets_iff first rest :
  count_resets first rest = 0 <-> Forall (fun pr => is_reset (fst pr) (snd pr) = false) (adjacent first rest).
Proof.
  revert first. induction rest as [| cur tl IH]; intro first; simpl.
  - split; auto.
  - pose proof (count_bounds cur tl) as [[Hb _] _]. split.
    + intro H. destruct (is_reset first cur) eqn:E; [lia|]. constructor; auto. apply IH. lia.
    + intro H. inversion H as [| ? ? H1 H2]; subst. simpl in H1. rewrite H1.
      apply IH in H2. lia.
Qed.

Lemma no_changes_iff first rest :
  count_changes first rest = 0 <-> Forall (fun s => (sV s == sV first)%Q) rest.
Proof.
  revert first. induction rest as [| cur tl IH]; intro first; simpl.
  - split; auto.
  - pose proof (count_bounds cur tl) as [_ [Hb _]]. split.
    + intro H. destruct (Qeq_bool (sV cur) (sV first)) eqn:E; [| lia].
      apply Qeq_bool_iff in E. constructor; auto.
      assert (H0 : count_changes cur tl = 0) by lia. apply IH in H0.
      rewrite Forall_forall in *. intros x Hx. rewrite (H0 x Hx). auto.
    + intro H. inversion H as [| ? ? H1 H2]; subst.
      assert (E : Qeq_bool (sV cur) (sV first) = true) by (apply Qeq_bool_iff; auto). rewrite E.
      assert (H0 : count_changes cur tl = 0).
      { apply IH. rewrite Forall_forall in *. intros x Hx. rewrite (H2 x Hx). symmetry; auto. }
      lia.
Qed.

(* ------------------------------------------------------------------ *)
(* statements at the level of the instant query                        *)
Section EvalLevel.
  Variable fge : Z -> Z -> Z -> bool.
  Variables (use_st : bool) (ss : list sample) (ts range_ms off : Z).
  Hypothesis Hsorted : StronglySorted lt_T ss.
  Hypothesis Hrange : 0 < range_ms.
  Let re := ts - off.
  Let rs := re - range_ms.

  Lemma eval_valid b : valid_window (eff b (window ss rs re)) rs re.
  Proof. apply eff_valid, window_valid, Hsorted. Qed.

  Lemma eval_matches_doc :
    oeq (eval fge FIncrease use_st ss ts range_ms off)
        (doc_change fge true (eff use_st (window ss rs re)) rs re) /\
    oeq (eval fge FRate use_st ss ts range_ms off)
        (doc_rate fge (eff use_st (window ss rs re)) rs re range_ms) /\
    oeq (eval fge FDelta use_st ss ts range_ms off)
        (doc_change fge false (eff false (window ss rs re)) rs re).
  Proof.
    unfold eval. simpl gets_st. rewrite andb_true_r, andb_false_r. fold re rs.
    repeat split.
    - apply matches_doc_change, eval_valid.
    - apply matches_doc_rate; [apply eval_valid | exact Hrange].
    - apply matches_doc_change, eval_valid.
  Qed.

  Lemma eval_nonneg :
    nonneg ss ->
    (forall v, eval fge FRate use_st ss ts range_ms off = Some v -> (0 <= v)%Q) /\
    (forall v, eval fge FIncrease use_st ss ts range_ms off = Some v -> (0 <= v)%Q).
  Proof.
    intro Hnn. unfold eval. simpl gets_st. rewrite andb_true_r. fold re rs.
    split; intros v Hv;
      eapply extrapolated_rate_nonneg; try exact Hv; try exact Hrange;
      [apply eval_valid | apply eff_nonneg, window_nonneg, Hnn
      | apply eval_valid | apply eff_nonneg, window_nonneg, Hnn].
  Qed.

  Lemma eval_increase_rate :
    match eval fge FRate use_st ss ts range_ms off, eval fge FIncrease use_st ss ts range_ms off with
    | Some r, Some i => (i == r * ms range_ms)%Q
    | None, None => True
    | _, _ => False
    end.
  Proof.
    unfold eval. simpl gets_st. apply increase_is_rate_times_range, Hrange.
  Qed.
End EvalLevel.

(* proof/FastRegexProofs3.v — C17, continued: the pre-filters of compileMatchStringFunction
   (prefix / suffix / containsInOrder), the trueMatcher shortcut, NewFastRegexMatcher. *)
From Coq Require Import List ZArith Bool Lia.
From Verif Require Import lib.Regex lib.RegexProofs model.FastRegex proof.FastRegexProofs proof.FastRegexProofs2.
Import ListNotations.
Open Scope Z_scope.

Ltac bool_eq :=
  rewrite ?isnil_app; cbn [isnil app];
  repeat match goal with |- context [isnil ?l] => destruct (isnil l) end;
  repeat match goal with |- context [andb ?b _] => is_var b; destruct b end;
  reflexivity.
Ltac flags H :=
  match goal with
  | |- ?M ?b1 ?e1 ?r ?s =>
      match type of H with
      | _ ?b2 ?e2 _ _ =>
          let E1 := fresh in let E2 := fresh in
          assert (E1 : b2 = b1) by bool_eq; assert (E2 : e2 = e1) by bool_eq;
          exact (eq_ind e2 (fun e' => M b1 e' r s) (eq_ind b2 (fun b' => M b' e2 r s) H b1 E1) e1 E2)
      end
  end.

(* ---- strings.Index-based searches *)
Inductive InOrder : str -> list str -> Prop :=
| IO_nil : forall s, InOrder s []
| IO_cons : forall a x b t, InOrder b t -> InOrder (a ++ x ++ b) (x :: t).

Lemma InOrder_prepend c s t : InOrder s t -> InOrder (c ++ s) t.
Proof.
  intros H. inversion H; subst; [constructor |]. rewrite app_assoc. now constructor.
Qed.

Lemma skipn_app_le {A} n (u b : list A) : (n <= length u)%nat -> skipn n (u ++ b) = skipn n u ++ b.
Proof.
  intros H. rewrite skipn_app. replace (n - length u)%nat with 0%nat by lia. reflexivity.
Qed.

Lemma after_first_unfold x s :
  after_first x s = if is_prefix x s then Some (skipn (length x) s)
                    else match s with [] => None | _ :: t => after_first x t end.
Proof. destruct s; reflexivity. Qed.

Lemma after_first_found (x b : str) : forall a : str, exists c : str, after_first x (a ++ x ++ b) = Some (c ++ b).
Proof.
  induction a as [| h a IH].
  - exists []. simpl. rewrite after_first_unfold.
    assert (Hp : is_prefix x (x ++ b) = true) by (apply is_prefix_spec; eauto).
    rewrite Hp, skipn_app_len. reflexivity.
  - destruct IH as (c & Hc). rewrite after_first_unfold.
    destruct (is_prefix x ((h :: a) ++ x ++ b)) eqn:Hp.
    + exists (skipn (length x) ((h :: a) ++ x)).
      rewrite app_assoc. rewrite skipn_app_le; [reflexivity |]. rewrite app_length. unfold str, rune in *. lia.
    + exists c. exact Hc.
Qed.

Lemma after_first_sound x : forall s r, after_first x s = Some r -> exists a, s = a ++ x ++ r.
Proof.
  induction s as [| h s IH]; intros r H; rewrite after_first_unfold in H.
  - destruct (is_prefix x []) eqn:Hp; [| discriminate]. inversion H; subst.
    apply is_prefix_spec in Hp. destruct Hp as (r' & Hr). exists []. simpl.
    rewrite Hr at 1. rewrite Hr, skipn_app_len. reflexivity.
  - destruct (is_prefix x (h :: s)) eqn:Hp.
    + inversion H; subst. apply is_prefix_spec in Hp. destruct Hp as (r' & Hr). exists []. simpl.
      rewrite Hr at 1. rewrite Hr, skipn_app_len. reflexivity.
    + apply IH in H. destruct H as (a & ->). exists (h :: a). reflexivity.
Qed.

Lemma cio_multi_spec : forall subs s, contains_in_order_multi s subs = true <-> InOrder s subs.
Proof.
  induction subs as [| x t IH]; intros s; cbn [contains_in_order_multi].
  - split; [constructor | auto].
  - split.
    + intros H. destruct (after_first x s) as [r |] eqn:E; [| discriminate].
      apply after_first_sound in E. destruct E as (a & ->). constructor. now apply IH.
    + intros H. inversion H; subst. destruct (after_first_found x b a) as (c & ->).
      apply IH. now apply InOrder_prepend.
Qed.

Lemma contains_str_spec x : forall s, contains_str x s = true <-> exists a b, s = a ++ x ++ b.
Proof.
  induction s as [| h s IH]; simpl.
  - rewrite orb_false_r, is_prefix_spec. split.
    + intros (r & Hr). exists [], r. exact Hr.
    + intros (a & b & H). symmetry in H. apply app_eq_nil in H. destruct H as [-> H].
      apply app_eq_nil in H. destruct H as [-> ->]. exists []. reflexivity.
  - rewrite orb_true_iff, is_prefix_spec, IH. split.
    + intros [(r & Hr) | (a & b & ->)]; [exists [], r; exact Hr | exists (h :: a), b; reflexivity].
    + intros (a & b & H). destruct a as [| h' a]; [left; exists b; exact H | right].
      inversion H; subst. eauto.
Qed.

Lemma contains_in_order_spec subs s : contains_in_order s subs = true <-> InOrder s subs.
Proof.
  unfold contains_in_order. destruct subs as [| x [| y t]]; try apply cio_multi_spec.
  rewrite contains_str_spec. split.
  - intros (a & b & ->). constructor. constructor.
  - intros H. inversion H; subst. eauto.
Qed.

Section Top.
Variable F : rune -> rune -> bool.
Notation ML := (ML F).

Lemma ML_star_any b e s : ML b e (RStar RAny) s.
Proof.
  unfold FastRegexProofs.ML. simpl. apply star_chr_spec. simpl. induction s; auto.
Qed.

Lemma ML_lit b e rs s : ML b e (RLit false rs) s <-> s = rs.
Proof. unfold FastRegexProofs.ML. simpl. apply lit_cs_spec. Qed.

Lemma is_match_any_eq x : is_match_any x = true -> x = RStar RAny.
Proof. destruct x; simpl; try discriminate. destruct x; simpl; try discriminate. reflexivity. Qed.

Lemma is_cs_literal_eq x : is_cs_literal x = true -> exists rs, x = RLit false rs.
Proof. destruct x; simpl; try discriminate. destruct fold; try discriminate. eauto. Qed.

(* ---- pre-filters are necessary conditions *)
Lemma mc_cons x y t :
  middle_contains (x :: y :: t) =
  match x with RLit false rs => rs :: middle_contains (y :: t) | _ => middle_contains (y :: t) end.
Proof. reflexivity. Qed.

Lemma mc_necessary : forall t b e s, ML b e (RConcat t) s -> InOrder s (middle_contains t).
Proof.
  induction t as [| x [| y t'] IH]; intros b e s H.
  - constructor.
  - constructor.
  - apply ML_concat_cons in H. destruct H as (s1 & s2 & -> & H1 & H2). apply IH in H2.
    rewrite mc_cons.
    destruct x as [ | | f rs | | | | | | | | | | | | ]; try (apply InOrder_prepend; exact H2).
    destruct f; [apply InOrder_prepend; exact H2 |].
    apply ML_lit in H1. subst s1. change (rs ++ s2) with ([] ++ rs ++ s2). now constructor.
Qed.

Lemma prefix_necessary rs t b e s : ML b e (RConcat (RLit false rs :: t)) s -> is_prefix rs s = true.
Proof.
  intros H. apply ML_concat_cons in H. destruct H as (s1 & s2 & -> & H1 & _).
  apply ML_lit in H1. subst. apply is_prefix_spec. eauto.
Qed.

Lemma suffix_necessary rs l b e s : l <> [] -> last l RNoMatch = RLit false rs ->
  ML b e (RConcat l) s -> is_suffix rs s = true.
Proof.
  intros Hne Hl H. rewrite (app_removelast_last RNoMatch Hne), Hl in H.
  apply ML_concat_app in H. destruct H as (s1 & s2 & -> & _ & H2).
  rewrite ML_concat_single in H2. apply ML_lit in H2. subst. apply is_suffix_spec. eauto.
Qed.

(* the anchor stripping of optimizeConcatRegex *)
Definition strip_anchors (sub : list re) : list re :=
  let sub := match sub with x :: t => if is_begin x then t else sub | [] => sub end in
  if isnil sub then sub else if is_end (last sub RNoMatch) then removelast sub else sub.

Lemma strip_anchors_sem sub s :
  ML true true (RConcat sub) s -> ML true true (RConcat (strip_anchors sub)) s.
Proof.
  intros H. unfold strip_anchors.
  set (sub1 := match sub with x :: t => if is_begin x then t else sub | [] => sub end).
  assert (H1 : ML true true (RConcat sub1) s).
  { unfold sub1. destruct sub as [| x t]; auto. destruct (is_begin x) eqn:E; auto.
    apply is_begin_eq in E. subst x. rewrite drop_begin in H. exact H. }
  destruct (isnil sub1) eqn:En; auto.
  destruct (is_end (last sub1 RNoMatch)) eqn:Ee; auto.
  apply is_end_eq in Ee. assert (Hne : sub1 <> []) by (intros E; rewrite E in En; discriminate).
  exact (proj1 (drop_end F true sub1 s Hne Ee) H1).
Qed.

(* ---- trueMatcher + containsInOrder is exact when no two literals are adjacent *)
Definition mid_ok (x : re) : bool := is_match_any x || is_cs_literal x.
Fixpoint adjacent_lits (l : list re) : bool :=
  match l with
  | x :: t => match t with
              | y :: _ => (is_cs_literal x && is_cs_literal y) || adjacent_lits t
              | [] => false
              end
  | [] => false
  end.

Lemma simple_sufficient : forall n t, (length t <= n)%nat -> t <> [] ->
  is_match_any (last t RNoMatch) = true -> forallb mid_ok t = true -> adjacent_lits t = false ->
  forall s b e, InOrder s (middle_contains t) -> ML b e (RConcat (RStar RAny :: t)) s.
Proof.
  induction n as [| n IH]; intros t Hlen Hne Hlast Hok Hadj s b e Hio.
  - destruct t; [congruence | simpl in Hlen; lia].
  - destruct t as [| x t']; [congruence |]. clear Hne.
    destruct t' as [| y t''].
    + (* t = [x], x = .* *)
      simpl in Hlast. apply is_match_any_eq in Hlast. subst x.
      apply ML_concat_cons. exists s, []. rewrite app_nil_r. split; auto. split; [apply ML_star_any |].
      apply ML_concat_single. apply ML_star_any.
    + cbn [forallb] in Hok. apply andb_true_iff in Hok. destruct Hok as [Hx Hok].
      cbn [adjacent_lits] in Hadj. apply orb_false_iff in Hadj. destruct Hadj as [Hxy Hadj].
      assert (Hlast' : is_match_any (last (y :: t'') RNoMatch) = true) by exact Hlast.
      unfold mid_ok in Hx. apply orb_true_iff in Hx. destruct Hx as [Hx | Hx].
      * (* x = .* *)
        apply is_match_any_eq in Hx. subst x. rewrite mc_cons in Hio.
        apply ML_concat_cons. exists [], s. split; auto. split; [apply ML_star_any |].
        apply (IH (y :: t'')); auto; [simpl in *; lia | discriminate].
      * (* x = literal, so y = .* *)
        destruct (is_cs_literal_eq _ Hx) as (rs & ->).
        cbn [forallb] in Hok. apply andb_true_iff in Hok. destruct Hok as [Hy Hok].
        simpl in Hxy. unfold mid_ok in Hy. rewrite Hxy, orb_false_r in Hy.
        apply is_match_any_eq in Hy. subst y.
        rewrite mc_cons in Hio. inversion Hio as [| a x0 b0 t0 Hio']; subst.
        apply ML_concat_cons. exists a, (rs ++ b0). split; auto. split; [apply ML_star_any |].
        apply ML_concat_cons. exists rs, b0. split; auto. split; [now apply ML_lit |].
        destruct t'' as [| z t3].
        -- apply ML_concat_single. apply ML_star_any.
        -- apply (IH (z :: t3)); auto; try discriminate; try (simpl in *; lia);
             try (cbn [adjacent_lits] in Hadj; apply orb_false_iff in Hadj; tauto).
Qed.
End Top.

Section Final.
Variable F : rune -> rune -> bool.
Variable NL TL : bytes -> bytes.
Notation ML := (ML F).
Notation smm := (smm F NL).

Lemma new_multi_cs_sem n vals s : smm (new_multi NL true n vals) s = true <-> In s vals.
Proof.
  unfold new_multi. rewrite <- mem_str_In. destruct (n <? min_equal_multi_threshold); cbn [FastRegex.smm].
  - destruct (mem_str s vals) eqn:E; [rewrite (mask_of_mem _ _ E) | rewrite andb_false_r]; tauto.
  - destruct (isnil vals) eqn:Ev.
    + destruct vals; [| discriminate]. simpl. tauto.
    + assert (Ev' : @isnil (list Z) vals = false) by exact Ev. rewrite Ev'.
      destruct (mem_str s vals) eqn:E.
      * rewrite (mask_of_mem _ _ E). simpl. tauto.
      * destruct ((0 =? 0) && true && negb (mask_ok vals s)); simpl; split; discriminate.
Qed.

Lemma forallb_last {A} (f : A -> bool) d : forall l, l <> [] ->
  forallb f (removelast l) = true -> f (last l d) = true -> forallb f l = true.
Proof.
  induction l as [| a [| b l] IH]; intros Hne H1 H2; [congruence | simpl in *; now rewrite H2 |].
  cbn [removelast forallb] in H1. apply andb_true_iff in H1. destruct H1 as [Ha H1].
  cbn [forallb]. rewrite Ha. apply IH; auto. discriminate.
Qed.

Lemma forallb_tl {A} (f : A -> bool) l : forallb f l = true -> forallb f (tl l) = true.
Proof. destruct l; simpl; auto. intros H. apply andb_true_iff in H. tauto. Qed.

Lemma wf_strip_anchors sub : forallb wf_csb sub = true -> forallb wf_csb (strip_anchors sub) = true.
Proof.
  intros H. unfold strip_anchors.
  set (sub1 := match sub with x :: t => if is_begin x then t else sub | [] => sub end).
  assert (H1 : forallb wf_csb sub1 = true).
  { unfold sub1. destruct sub as [| x t]; auto. destruct (is_begin x); auto.
    simpl in H. apply andb_true_iff in H. tauto. }
  destruct (isnil sub1); auto. destruct (is_end _); auto. now apply forallb_removelast.
Qed.

Lemma map_strip_wf l : forallb wf_csb l = true -> forallb wf_csb (map strip l) = true.
Proof.
  induction l as [| a l IH]; simpl; auto. intros H. apply andb_true_iff in H. destruct H as [Ha H].
  rewrite (wf_strip a Ha). simpl. now apply IH.
Qed.

Lemma map_strip_lower l : map lower (map strip l) = map lower l.
Proof. rewrite map_map. apply map_ext. intros a. apply strip_lower. Qed.

Lemma cbe_concat2 x y t :
  clear_begin_end (RConcat (x :: y :: t)) = RConcat (strip_anchors (x :: y :: t)).
Proof.
  unfold strip_anchors. cbn [clear_begin_end].
  destruct (is_begin x); reflexivity.
Qed.

(* the three pre-filters of a top-level concatenation (case-sensitive fragment) *)
Definition pre_holds (prefix suffix : str) (contains : list str) (s : str) : bool :=
  (isnil prefix || is_prefix prefix s) && (isnil suffix || is_suffix suffix s) &&
  (isnil contains || contains_in_order s contains).

Definition oc_of (sub : list re) : bool * str * str * list str :=
  match sub with
  | [] => (false, [], [], [])
  | x :: t =>
      let '(ci, prefix) := match lit_of x with Some (f, rs) => (f, rs) | None => (false, []) end in
      let suffix := match lit_of (last sub RNoMatch) with Some (false, rs) => rs | _ => [] end in
      (ci, prefix, suffix, middle_contains t)
  end.

Lemma optimize_concat_eq l : optimize_concat l = oc_of (strip_anchors (map strip l)).
Proof. reflexivity. Qed.

Lemma suffix_ok sub s : sub <> [] -> ML true true (RConcat sub) s ->
  (isnil (match lit_of (last sub RNoMatch) with Some (false, rs) => rs | _ => [] end)
   || is_suffix (match lit_of (last sub RNoMatch) with Some (false, rs) => rs | _ => [] end) s) = true.
Proof.
  intros Hne HM. destruct (lit_of (last sub RNoMatch)) as [[[|] rs'] |] eqn:El; try reflexivity.
  apply lit_of_some in El. rewrite (suffix_necessary F rs' sub _ _ _ Hne El HM). apply orb_true_r.
Qed.

Lemma contains_ok x t s : ML true true (RConcat (x :: t)) s ->
  (isnil (middle_contains t) || contains_in_order s (middle_contains t)) = true.
Proof.
  intros HM. apply ML_concat_cons in HM. destruct HM as (s1 & s2 & -> & _ & H2).
  apply mc_necessary in H2. apply (InOrder_prepend s1) in H2.
  apply contains_in_order_spec in H2. rewrite H2. apply orb_true_r.
Qed.

Lemma pre_necessary sub ci prefix suffix contains s :
  forallb wf_csb sub = true -> oc_of sub = (ci, prefix, suffix, contains) ->
  ci = false /\ (ML true true (RConcat sub) s -> pre_holds prefix suffix contains s = true).
Proof.
  intros Hwf H. destruct sub as [| x t]; unfold oc_of in H.
  - inversion H; subst. split; auto.
  - assert (Hx : wf_csb x = true) by (simpl in Hwf; apply andb_true_iff in Hwf; tauto).
    assert (Hne : x :: t <> []) by discriminate.
    destruct (lit_of x) as [[f rs] |] eqn:Elx.
    + apply lit_of_some in Elx. subst x. simpl in Hx. apply andb_true_iff in Hx. destruct Hx as [Hf _].
      apply negb_true_iff in Hf. subst f. injection H as Hci Hp Hsuf Hc. subst ci prefix suffix contains.
      split; auto. intros HM. unfold pre_holds.
      apply andb_true_iff; split; [apply andb_true_iff; split |].
      * rewrite (prefix_necessary F rs t _ _ _ HM). apply orb_true_r.
      * apply (suffix_ok _ s Hne HM).
      * apply (contains_ok _ t s HM).
    + injection H as Hci Hp Hsuf Hc. subst ci prefix suffix contains.
      split; auto. intros HM. unfold pre_holds.
      apply andb_true_iff; split; [apply andb_true_iff; split |].
      * reflexivity.
      * apply (suffix_ok _ s Hne HM).
      * apply (contains_ok _ t s HM).
Qed.

Lemma simple_mid_props : forall m prev, simple_mid m prev = true ->
  forallb mid_ok m = true /\ adjacent_lits m = false /\
  (prev = true -> match m with x :: _ => is_cs_literal x = false | [] => True end).
Proof.
  induction m as [| x t IH]; intros prev H; simpl in H.
  - simpl. auto.
  - destruct (is_match_any x) eqn:Ea.
    + destruct (IH false H) as (H1 & H2 & _). apply is_match_any_eq in Ea. subst x.
      split; [simpl; exact H1 |]. split; [| reflexivity].
      destruct t as [| y t']; [reflexivity |].
      change (adjacent_lits (RStar RAny :: y :: t')) with ((is_cs_literal (RStar RAny) && is_cs_literal y) || adjacent_lits (y :: t')).
      exact H2.
    + destruct (is_cs_literal x) eqn:El; [| discriminate].
      destruct prev; [discriminate |]. destruct (IH true H) as (H1 & H2 & H3).
      split; [simpl; unfold mid_ok at 1; rewrite El, orb_true_r; exact H1 |].
      split; [| discriminate].
      destruct t as [| y t']; [reflexivity |].
      change (adjacent_lits (x :: y :: t')) with ((is_cs_literal x && is_cs_literal y) || adjacent_lits (y :: t')).
      rewrite (H3 eq_refl), andb_false_r. exact H2.
Qed.

Lemma adjacent_app_nonlit : forall m z, adjacent_lits m = false -> is_cs_literal z = false ->
  adjacent_lits (m ++ [z]) = false.
Proof.
  induction m as [| x [| y t] IH]; intros z Hm Hz.
  - reflexivity.
  - simpl. now rewrite Hz, andb_false_r.
  - cbn [adjacent_lits] in Hm. apply orb_false_iff in Hm. destruct Hm as [Hxy Hm].
    change ((x :: y :: t) ++ [z]) with (x :: (y :: t) ++ [z]).
    change (adjacent_lits (x :: (y :: t) ++ [z])) with
      ((is_cs_literal x && is_cs_literal y) || adjacent_lits ((y :: t) ++ [z])).
    rewrite Hxy. simpl orb. now apply IH.
Qed.

Lemma pre_exact sub ci prefix suffix contains s :
  is_simple_concat (RConcat sub) = true ->
  oc_of sub = (ci, prefix, suffix, contains) ->
  prefix = [] /\ suffix = [] /\
  ((isnil contains || contains_in_order s contains) = true <-> ML true true (RConcat sub) s).
Proof.
  intros Hs H. simpl in Hs.
  destruct (len sub <? 2) eqn:El; [discriminate |].
  apply andb_true_iff in Hs. destruct Hs as [Hs Hmid]. apply andb_true_iff in Hs. destruct Hs as [Hhd Hlast].
  destruct sub as [| x t]; [discriminate |]. simpl in Hhd. apply is_match_any_eq in Hhd. subst x.
  assert (Ht : t <> []). { intros ->. unfold len in El. simpl in El. discriminate. }
  assert (Hlast' : last (RStar RAny :: t) RNoMatch = last t RNoMatch) by (destruct t; [congruence | reflexivity]).
  unfold oc_of in H. rewrite Hlast' in H. rewrite Hlast' in Hlast.
  pose proof (is_match_any_eq _ Hlast) as El'. rewrite El' in H. simpl in H.
  injection H as Hci Hp Hsuf Hc. subst ci prefix suffix contains.
  split; auto. split; auto.
  simpl in Hmid. destruct (simple_mid_props _ _ Hmid) as (Hok0 & Hadj0 & _).
  assert (Hok : forallb mid_ok t = true).
  { apply (forallb_last mid_ok RNoMatch); auto. unfold mid_ok. now rewrite Hlast. }
  assert (Hadj' : adjacent_lits t = false).
  { rewrite (app_removelast_last RNoMatch Ht), El'. now apply adjacent_app_nonlit. }
  assert (E : (isnil (middle_contains t) || contains_in_order s (middle_contains t)) = true
              <-> InOrder s (middle_contains t)).
  { rewrite <- contains_in_order_spec. destruct (middle_contains t); simpl; [| tauto].
    split; auto. }
  rewrite E. split.
  - intros Hio. eapply simple_sufficient; eauto.
  - intros HM. apply ML_concat_cons in HM. destruct HM as (s1 & s2 & -> & _ & H2).
    apply mc_necessary in H2. now apply InOrder_prepend.
Qed.
End Final.

Section Final2.
Variable F : rune -> rune -> bool.
Variable NL TL : bytes -> bytes.
Notation smm := (smm F NL).

Definition top_frm (p1 p3 : re) (ci : bool) (prefix suffix : str) (contains : list str) : frm :=
  let '(matches, cs) := find_set_matches p3 in
  let p4 := clear_begin_end p3 in
  let set := if cs then matches else [] in
  let sm0 := if 1 <? len matches then Some (new_multi NL cs (len matches) matches) else None in
  let sm1 := match sm0 with
             | Some _ => sm0
             | None => if is_simple_concat p4 then Some STrue else string_matcher_from_regexp NL TL p4
             end in
  mkFrm (Some p1) set sm1 ci prefix suffix contains.

Lemma tail_sem p1 set sm prefix suffix contains s (R : Prop) :
  (forall x, set <> [x]) ->
  ((match sm with Some m => smm m s | None => re_match F p1 s end) = true <-> R) ->
  (R -> pre_holds prefix suffix contains s = true) ->
  match_string F NL (mkFrm (Some p1) set sm false prefix suffix contains) s = true <-> R.
Proof.
  intros Hset HV Hpre.
  assert (E : match_string F NL (mkFrm (Some p1) set sm false prefix suffix contains) s =
              if isnil prefix && isnil suffix && isnil contains &&
                 match sm with Some _ => true | None => false end
              then match sm with Some x => smm x s | None => false end
              else pre_holds prefix suffix contains s &&
                   match sm with Some x => smm x s | None => re_match F p1 s end).
  { unfold match_string. cbn [f_set f_prefix f_suffix f_contains f_sm f_ci andb re_fallback f_re].
    destruct set as [| a [| b l]]; try reflexivity. exfalso. now apply (Hset a). }
  rewrite E. clear E. destruct sm as [m |].
  - destruct (isnil prefix && isnil suffix && isnil contains && true) eqn:Ec; [exact HV |].
    rewrite andb_true_iff. split; [intros [_ H]; now apply HV | intros H; split; [now apply Hpre | now apply HV]].
  - rewrite andb_false_r. rewrite andb_true_iff.
    split; [intros [_ H]; now apply HV | intros H; split; [now apply Hpre | now apply HV]].
Qed.

Lemma top_core p1 p3 prefix suffix contains s :
  wf_csb p3 = true ->
  (Matches F p1 s <-> Matches F p3 s) ->
  (Matches F p3 s -> pre_holds prefix suffix contains s = true) ->
  (is_simple_concat (clear_begin_end p3) = true ->
   prefix = [] /\ suffix = [] /\
   ((isnil contains || contains_in_order s contains) = true <-> Matches F p3 s)) ->
  match_string F NL (top_frm p1 p3 false prefix suffix contains) s = true <-> Matches F p3 s.
Proof.
  intros Hwf H13 Hpre Hexact. unfold top_frm, find_set_matches.
  set (p4 := clear_begin_end p3) in *.
  assert (Hwf4 : wf_csb p4 = true) by (apply cbe_wf; exact Hwf).
  assert (H43 : Matches F p4 s <-> Matches F p3 s) by apply cbe_sem.
  destruct (fsm p4 []) as [matches cs] eqn:Ef.
  assert (Hset : matches <> [] -> cs = true /\ (Matches F p4 s <-> In s matches)).
  { intros Hne. assert (cs = true) by (exact (fsm_cs p4 Hwf4 [] matches cs Ef Hne)). subst cs. split; auto.
    now apply fsm_top_exact. }
  destruct matches as [| x [| y t]].
  - (* no set matches *)
    assert (E : (if cs then @nil str else []) = []) by (destruct cs; reflexivity).
    cbn [len length Z.of_nat Z.ltb Z.compare]. rewrite E.
    destruct (is_simple_concat p4) eqn:Esim.
    + destruct (Hexact eq_refl) as (-> & -> & Hex).
      destruct contains as [| c0 cl]; unfold match_string;
        cbn [f_set f_prefix f_suffix f_contains f_sm f_ci isnil andb orb FastRegex.smm];
        cbn [isnil orb] in Hex.
      * exact Hex.
      * rewrite andb_true_r. exact Hex.
    + apply tail_sem; [intros x; discriminate | | exact Hpre].
      destruct (string_matcher_from_regexp NL TL p4) as [m |] eqn:Em.
      * rewrite (smfr_correct F NL TL p4 m Hwf4 Em s). exact H43.
      * rewrite re_match_correct. exact H13.
  - (* a single value *)
    assert (Hne1 : [x] <> []) by discriminate.
    destruct (Hset Hne1) as [-> Hin].
    unfold match_string. cbn [f_set]. rewrite str_eqb_eq, <- H43, Hin. simpl.
    split; [intros ->; auto | intros [-> | []]; auto].
  - (* several values *)
    assert (Hne2 : x :: y :: t <> []) by discriminate.
    destruct (Hset Hne2) as [-> Hin].
    assert (E1 : 1 <? len (x :: y :: t) = true).
    { apply Z.ltb_lt. unfold len. cbn [length]. lia. }
    rewrite E1. apply tail_sem; [intros x0; discriminate | | exact Hpre].
    rewrite new_multi_cs_sem, <- H43. symmetry. exact Hin.
Unshelve. all: exact TL. Qed.
End Final2.

Section Final3.
Variable F : rune -> rune -> bool.
Variable NL TL : bytes -> bytes.

Lemma pre_holds_nil s : pre_holds [] [] [] s = true.
Proof. reflexivity. Qed.

Lemma Matches_strip r s : Matches F (strip r) s <-> Matches F r s.
Proof. unfold Matches. now rewrite strip_lower. Qed.

Lemma Matches_map_strip l s : Matches F (RConcat (map strip l)) s <-> Matches F (RConcat l) s.
Proof. unfold Matches. simpl. now rewrite map_strip_lower. Qed.

Lemma wf_strip_top r : wf_csb r = true -> wf_csb (strip r) = true.
Proof. apply wf_strip. Qed.

Lemma concat_case l s :
  forallb wf_csb l = true ->
  let '(ci, prefix, suffix, contains) := optimize_concat l in
  ci = false /\
  (Matches F (RConcat (map strip l)) s -> pre_holds prefix suffix contains s = true) /\
  (is_simple_concat (clear_begin_end (RConcat (map strip l))) = true ->
   prefix = [] /\ suffix = [] /\
   ((isnil contains || contains_in_order s contains) = true <-> Matches F (RConcat (map strip l)) s)).
Proof.
  intros Hwf. rewrite optimize_concat_eq.
  set (sub0 := map strip l). set (sub := strip_anchors sub0).
  assert (Hwf0 : forallb wf_csb sub0 = true) by (apply map_strip_wf; exact Hwf).
  assert (Hwfs : forallb wf_csb sub = true) by (apply wf_strip_anchors; exact Hwf0).
  destruct (oc_of sub) as [[[ci prefix] suffix] contains] eqn:Eoc.
  destruct (pre_necessary F NL TL sub ci prefix suffix contains s Hwfs Eoc) as [Hci Hnec].
  split; auto. split.
  - intros HM. apply Hnec. now apply strip_anchors_sem.
  - intros Hsim. destruct sub0 as [| x [| y t]] eqn:E0.
    + simpl in Hsim. discriminate.
    + simpl in Hsim. destruct (is_begin x || is_end x); simpl in Hsim; discriminate.
    + rewrite cbe_concat2 in Hsim. fold sub in Hsim.
      destruct (pre_exact F NL TL sub ci prefix suffix contains s Hsim Eoc) as (Hp & Hs & Hex).
      split; auto. split; auto. rewrite Hex.
      rewrite <- (cbe_sem F (RConcat (x :: y :: t)) s), cbe_concat2. fold sub. reflexivity.
Qed.

Theorem new_frm_correct pat ast s :
  wf_csb ast = true ->
  optimize_alternating_literals NL pat = None ->
  optimize_alt_simple_contains ast = ast ->
  match_string F NL (new_frm NL TL pat ast) s = true <-> Matches F ast s.
Proof.
  intros Hwf Hopt Hoasc. unfold new_frm, new_frm_gen. rewrite Hopt, Hoasc.
  pose proof (wf_strip ast Hwf) as Hwf2. pose proof (Matches_strip ast s) as H2.
  destruct (strip ast) as [ | f | f rs | f rg | | | | | r | r | r | r | mn mx r | l | l ] eqn:Ep2;
    try (match goal with
         | |- match_string F NL ?X s = true <-> _ =>
             match type of Ep2 with
             | _ = ?P => change X with (top_frm NL TL ast P false [] [] [])
             end
         end;
         rewrite <- H2; apply top_core;
         [ exact Hwf2
         | rewrite H2; reflexivity
         | intros _; reflexivity
         | intros Hsim; exfalso; simpl in Hsim;
           try (destruct (is_begin r || is_end r); simpl in Hsim); discriminate ]).
  (* the top-level concatenation *)
  simpl in Hwf2.
  pose proof (concat_case l s Hwf2) as Hc.
  destruct (optimize_concat l) as [[[ci prefix] suffix] contains] eqn:Eoc.
  destruct Hc as (-> & Hnec & Hex).
  match goal with
  | |- match_string F NL ?X s = true <-> _ =>
      change X with (top_frm NL TL ast (RConcat (map strip l)) false prefix suffix contains)
  end.
  assert (H3 : Matches F (RConcat (map strip l)) s <-> Matches F ast s).
  { rewrite Matches_map_strip. exact H2. }
  rewrite <- H3. apply top_core.
  - simpl. now apply map_strip_wf.
  - rewrite H3. reflexivity.
  - exact Hnec.
  - exact Hex.
Qed.
End Final3.

(* ================= optimizeAlternatingSimpleContains ================= *)
Section Oasc.
Variable F : rune -> rune -> bool.
Variable NL TL : bytes -> bytes.
Notation ML := (ML F).

Definition wrap (b : re) : re := RConcat [RStar RAny; b; RStar RAny].

Lemma scl_some x b : simple_contains_lit x = Some b -> x = wrap b /\ is_cs_literal b = true.
Proof.
  unfold simple_contains_lit. destruct x; try discriminate.
  destruct l as [| a [| b' [| c [| ? ?]]]]; try discriminate.
  destruct (is_cs_literal b') eqn:Eb; simpl; [| discriminate].
  destruct (is_match_any a) eqn:Ea; simpl; [| discriminate].
  destruct (is_match_any c) eqn:Ec; simpl; [| discriminate].
  intros H. inversion H; subst. apply is_match_any_eq in Ea. apply is_match_any_eq in Ec. subst.
  split; auto.
Qed.

Lemma all_some_scl : forall l lits, all_some (map simple_contains_lit l) = Some lits ->
  l = map wrap lits /\ Forall (fun b => is_cs_literal b = true) lits.
Proof.
  induction l as [| x l IH]; intros lits H; simpl in H.
  - inversion H; subst. split; constructor.
  - destruct (simple_contains_lit x) as [b |] eqn:Ex; [| discriminate].
    destruct (all_some (map simple_contains_lit l)) as [lits' |] eqn:El; [| discriminate].
    inversion H; subst. destruct (scl_some _ _ Ex) as [-> Hb]. destruct (IH lits' eq_refl) as [-> Hl].
    split; [reflexivity | constructor; auto].
Qed.

Lemma wrap_sem b0 e0 x s : (forall b e b' e' t, ML b e x t -> ML b' e' x t) ->
  (ML b0 e0 (wrap x) s <-> exists s1 s2 s3, s = s1 ++ s2 ++ s3 /\ ML true true x s2).
Proof.
  intros Hind. unfold wrap. rewrite ML_concat_cons. split.
  - intros (s1 & s' & -> & _ & H2). apply ML_concat_cons in H2.
    destruct H2 as (s2 & s3 & -> & H2 & _). exists s1, s2, s3. split; auto. eapply Hind; eauto.
  - intros (s1 & s2 & s3 & -> & H2). exists s1, (s2 ++ s3). split; auto. split; [apply ML_star_any |].
    apply ML_concat_cons. exists s2, s3. split; auto. split; [eapply Hind; eauto |].
    apply ML_concat_single. apply ML_star_any.
Qed.

Lemma lit_indep x : is_cs_literal x = true -> forall b e b' e' t, ML b e x t -> ML b' e' x t.
Proof.
  intros H. destruct (is_cs_literal_eq _ H) as (rs & ->). intros b e b' e' t Ht.
  apply ML_lit in Ht. now apply ML_lit.
Qed.

Lemma alt_lits_indep lits : Forall (fun b => is_cs_literal b = true) lits ->
  forall b e b' e' t, ML b e (RAlt lits) t -> ML b' e' (RAlt lits) t.
Proof.
  induction 1 as [| x l Hx _ IH]; intros b e b' e' t Ht.
  - apply ML_alt_nil in Ht. destruct Ht.
  - apply ML_alt_cons in Ht. apply ML_alt_cons. destruct Ht as [Ht | Ht].
    + left. eapply lit_indep; eauto.
    + right. eapply IH; eauto.
Qed.

Lemma alt_wrap_sem : forall lits, Forall (fun b => is_cs_literal b = true) lits ->
  forall b e s, ML b e (RAlt (map wrap lits)) s <-> ML b e (wrap (RAlt lits)) s.
Proof.
  intros lits Hl b e s. rewrite (wrap_sem b e (RAlt lits) s (alt_lits_indep lits Hl)).
  induction Hl as [| x l Hx Hl IH].
  - simpl. rewrite ML_alt_nil. split; [tauto |]. intros (s1 & s2 & s3 & _ & H). now apply ML_alt_nil in H.
  - cbn [map]. rewrite ML_alt_cons, IH, (wrap_sem b e x s (lit_indep x Hx)). split.
    + intros [(s1 & s2 & s3 & -> & H) | (s1 & s2 & s3 & -> & H)]; exists s1, s2, s3; split; auto;
        apply ML_alt_cons; auto.
    + intros (s1 & s2 & s3 & -> & H). apply ML_alt_cons in H. destruct H as [H | H]; [left | right]; eauto 6.
Qed.

Theorem oasc_sem r s : Matches F (optimize_alt_simple_contains r) s <-> Matches F r s.
Proof.
  unfold optimize_alt_simple_contains. destruct r; try reflexivity.
  destruct (all_some (map simple_contains_lit l)) as [lits |] eqn:E; [| reflexivity].
  destruct (1 <? len lits); [| reflexivity].
  destruct (all_some_scl _ _ E) as [-> Hl]. symmetry. apply (alt_wrap_sem lits Hl true true s).
Qed.

Lemma oasc_wf r : wf_csb r = true -> wf_csb (optimize_alt_simple_contains r) = true.
Proof.
  unfold optimize_alt_simple_contains. destruct r; auto.
  destruct (all_some (map simple_contains_lit l)) as [lits |] eqn:E; auto.
  destruct (1 <? len lits); auto.
  destruct (all_some_scl _ _ E) as [-> Hl]. simpl. intros H. rewrite andb_true_r.
  clear E Hl. induction lits as [| b lits IH]; simpl in *; auto.
  apply andb_true_iff in H. destruct H as [Hb H]. rewrite andb_true_r in Hb. rewrite Hb. simpl. now apply IH.
Qed.

Lemma oasc_idem r : optimize_alt_simple_contains (optimize_alt_simple_contains r) = optimize_alt_simple_contains r.
Proof.
  destruct r; try reflexivity.
  remember (optimize_alt_simple_contains (RAlt l)) as q eqn:Eq.
  unfold optimize_alt_simple_contains in Eq.
  destruct (all_some (map simple_contains_lit l)) as [lits |] eqn:E.
  - destruct (1 <? len lits) eqn:E1; subst q; [reflexivity |].
    unfold optimize_alt_simple_contains. now rewrite E, E1.
  - subst q. unfold optimize_alt_simple_contains. now rewrite E.
Qed.

Theorem new_frm_correct_full pat ast s :
  wf_csb ast = true ->
  optimize_alternating_literals NL pat = None ->
  match_string F NL (new_frm NL TL pat ast) s = true <-> Matches F ast s.
Proof.
  intros Hwf Hopt.
  assert (E : new_frm NL TL pat ast = new_frm NL TL pat (optimize_alt_simple_contains ast)).
  { unfold new_frm, new_frm_gen. rewrite Hopt, oasc_idem. reflexivity. }
  rewrite E, <- (oasc_sem ast s).
  apply new_frm_correct; auto; [now apply oasc_wf | apply oasc_idem].
Qed.
End Oasc.

(* ================= SetMatches of the parsed path; the alternating-literals fast path ======== *)
Section Sets.
Variable F : rune -> rune -> bool.
Variable NL TL : bytes -> bytes.

Theorem new_frm_set_exact pat ast :
  optimize_alternating_literals NL pat = None ->
  set_matches (new_frm NL TL pat ast) <> [] ->
  forall s, Matches F ast s <-> In s (set_matches (new_frm NL TL pat ast)).
Proof.
  intros Hopt.
  assert (E : exists p3, (forall s, Matches F p3 s <-> Matches F ast s) /\
              set_matches (new_frm NL TL pat ast) =
              (let '(m, cs) := find_set_matches p3 in if cs then m else [])).
  { unfold new_frm, new_frm_gen, set_matches. rewrite Hopt.
    pose proof (fun s => Matches_strip F (optimize_alt_simple_contains ast) s) as H2.
    destruct (strip (optimize_alt_simple_contains ast)) as [ | f | f rs | f rg | | | | | r | r | r | r | mn mx r | l | l ] eqn:Ep2;
      cbv beta iota zeta;
      try (match type of Ep2 with
           | _ = ?P => exists P; split;
                       [intros s; rewrite H2; apply (oasc_sem F NL TL)
                       | destruct (find_set_matches P); reflexivity]
           end).
    exists (RConcat (map strip l)). split.
    - intros s. rewrite Matches_map_strip, H2. apply (oasc_sem F NL TL).
    - destruct (optimize_concat l) as [[[? ?] ?] ?].
      destruct (find_set_matches (RConcat (map strip l))). reflexivity. }
  destruct E as (p3 & Hsem & ->). unfold find_set_matches.
  destruct (fsm (clear_begin_end p3) []) as [ms cs] eqn:Ef. destruct cs; [| congruence].
  intros Hne s. rewrite <- Hsem, <- (cbe_sem F p3 s). now apply fsm_top_exact.
Qed.

(* the text-level fast path *)
Lemma nodup_str_In x : forall l, In x (nodup_str l) <-> In x l.
Proof.
  induction l as [| a l IH]; simpl; [tauto |].
  destruct (mem_str a l) eqn:E.
  - rewrite IH. split; auto. intros [<- | H]; auto. now apply mem_str_In.
  - simpl. rewrite IH. tauto.
Qed.

Lemma split_bar_nobar : forall s cur, existsb (fun c => c =? 124) s = false -> split_bar s cur = [rev cur ++ s].
Proof.
  induction s as [| c s IH]; intros cur H; simpl.
  - now rewrite app_nil_r.
  - simpl in H. apply orb_false_iff in H. destruct H as [Hc Hs]. rewrite Hc, (IH _ Hs). simpl.
    now rewrite <- app_assoc.
Qed.

Lemma split_bar_nonempty : forall s cur, split_bar s cur <> [].
Proof.
  induction s as [| c s IH]; intros cur; simpl; [discriminate |].
  destruct (c =? 124); [discriminate | apply IH].
Qed.

Lemma split_bar_len1 : forall s cur, len (split_bar s cur) = 1 -> existsb (fun c => c =? 124) s = false.
Proof.
  induction s as [| c s IH]; intros cur H; simpl in *; auto.
  destruct (c =? 124) eqn:Ec; simpl.
  - exfalso. pose proof (split_bar_nonempty s []) as Hn. unfold len in H. simpl in H.
    destruct (split_bar s []); [congruence | simpl in H; lia].
  - eapply IH; eauto.
Qed.

Theorem altlit_correct pat m set :
  optimize_alternating_literals NL pat = Some (m, set) ->
  (forall s, smm F NL m s = true <-> In s (split_bar pat [])) /\
  (set <> [] -> forall s, In s set <-> In s (split_bar pat [])).
Proof.
  unfold optimize_alternating_literals. destruct (isnil pat) eqn:En.
  - destruct pat; [| discriminate]. intros H. inversion H; subst. split; [| congruence].
    intros s. simpl. destruct s; simpl; split; intros H0; auto; try discriminate.
    destruct H0 as [H0 | []]. discriminate.
  - destruct (len (split_bar pat []) =? 1) eqn:E1.
    + destruct (literal_str pat); [| discriminate]. intros H. inversion H; subst.
      apply Z.eqb_eq in E1. apply split_bar_len1 in E1. rewrite (split_bar_nobar pat [] E1). simpl.
      split; [| intros _]; intros s; cbn [FastRegex.smm]; rewrite ?str_eqb_eq; simpl; intuition congruence.
    + destruct (forallb literal_str (split_bar pat [])); [| discriminate]. intros H. inversion H; subst.
      split; [intros s; apply (new_multi_cs_sem F NL TL) |].
      unfold new_multi. destruct (len (split_bar pat []) <? min_equal_multi_threshold).
      * simpl. tauto.
      * cbn [multi_set_matches isnil negb].
        destruct (max_set_matches <=? len (nodup_str (split_bar pat []))); cbn [orb]; [congruence |].
        intros _ s0. apply nodup_str_In.
Qed.
End Sets.

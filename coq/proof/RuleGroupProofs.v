(* proof/RuleGroupProofs.v — lemmas and proofs about model/RuleGroup.v (property C45). *)
From Coq Require Import List ZArith Bool Lia.
From Verif Require Import model.RuleGroup.
Import ListNotations.
Open Scope Z_scope.

(* ------------------------------------------------------------------ equality tests *)
Lemma label_eqb_eq a b : label_eqb a b = true <-> a = b.
Proof.
  destruct a as [a1 a2], b as [b1 b2]; unfold label_eqb; cbn.
  rewrite andb_true_iff, !Z.eqb_eq. split; [intros [-> ->]; reflexivity | intros H; inversion H; auto].
Qed.

Lemma lset_eqb_eq a b : lset_eqb a b = true <-> a = b.
Proof.
  revert b; induction a as [|x a IH]; intros [|y b]; cbn; try (split; congruence).
  rewrite andb_true_iff, label_eqb_eq, IH. split; [intros [-> ->]; reflexivity | intros H; inversion H; auto].
Qed.

Lemma lset_eqb_refl a : lset_eqb a a = true.
Proof. apply lset_eqb_eq; reflexivity. Qed.

Lemma lset_eqb_neq a b : lset_eqb a b = false <-> a <> b.
Proof.
  split.
  - intros H E. apply lset_eqb_eq in E. congruence.
  - intros H. destruct (lset_eqb a b) eqn:E; auto. apply lset_eqb_eq in E. contradiction.
Qed.

Lemma val_eqb_eq a b : val_eqb a b = true <-> a = b.
Proof.
  destruct a, b; cbn; try (split; congruence).
  rewrite Z.eqb_eq. split; congruence.
Qed.

Lemma mem_In l ls : mem l ls = true <-> In l ls.
Proof.
  unfold mem. rewrite existsb_exists. split.
  - intros [x [Hin E]]. apply lset_eqb_eq in E. subst; auto.
  - intros H. exists l. split; auto. apply lset_eqb_refl.
Qed.

Lemma rkey_eqb_eq a b : rkey_eqb a b = true <-> a = b.
Proof.
  destruct a as [a1 a2], b as [b1 b2]; unfold rkey_eqb; cbn.
  rewrite andb_true_iff, Z.eqb_eq, lset_eqb_eq. split; [intros [-> ->]; reflexivity | intros H; inversion H; auto].
Qed.

Lemma rkey_eqb_refl a : rkey_eqb a a = true.
Proof. apply rkey_eqb_eq; reflexivity. Qed.

(* ------------------------------------------------------------------ the store *)
Lemma samples_put_same st l t v : samples (st_put st l t v) l = push (samples st l) t v.
Proof.
  induction st as [|[l' ss] st IH]; cbn.
  - rewrite lset_eqb_refl. reflexivity.
  - destruct (lset_eqb l l') eqn:E; cbn; rewrite E; auto.
Qed.

Lemma samples_put_other st l t v l' : l' <> l -> samples (st_put st l t v) l' = samples st l'.
Proof.
  intros Hne. induction st as [|[l0 ss] st IH]; cbn.
  - apply lset_eqb_neq in Hne. rewrite Hne. reflexivity.
  - destruct (lset_eqb l l0) eqn:E; cbn.
    + apply lset_eqb_eq in E. subst l0.
      apply lset_eqb_neq in Hne. rewrite Hne. reflexivity.
    + destruct (lset_eqb l' l0); auto.
Qed.

Lemma admission_ok_push ss t v : admission ss t v = AOk -> exists rest, push ss t v = (t, v) :: rest.
Proof.
  destruct ss as [|[t0 v0] ss]; cbn; intros H.
  - eexists; reflexivity.
  - destruct (t <? t0) eqn:E1; [discriminate|].
    destruct (t =? t0) eqn:E2.
    + destruct (val_eqb v v0) eqn:E3; [|discriminate].
      apply Z.eqb_eq in E2. apply val_eqb_eq in E3. subst. eexists; reflexivity.
    + eexists; reflexivity.
Qed.

Lemma push_incl ss t v s : In s ss -> In s (push ss t v).
Proof.
  destruct ss as [|[t0 v0] ss]; cbn; [tauto|].
  intros H. destruct (t =? t0); cbn; auto.
Qed.

(* what one append does, in terms of the series' sample lists *)
Lemma st_append_spec st l t v st' r :
  st_append st l t v = (st', r) ->
  r = admission (samples st l) t v /\
  (r = AOk -> samples st' l = push (samples st l) t v /\ forall l', l' <> l -> samples st' l' = samples st l') /\
  (r <> AOk -> st' = st).
Proof.
  unfold st_append. destruct (admission (samples st l) t v) eqn:E; intros H; inversion H; subst;
    (split; [reflexivity|]); split; try congruence; intros _.
  split; [apply samples_put_same | intros; apply samples_put_other; auto].
Qed.

(* the store is append-only *)
Lemma st_append_keeps st l t v s l' : In s (samples st l') -> In s (samples (fst (st_append st l t v)) l').
Proof.
  intros H. destruct (st_append st l t v) as [st' r] eqn:E. cbn.
  apply st_append_spec in E. destruct E as [_ [Hok Hrej]].
  destruct r; try (rewrite Hrej by congruence; assumption).
  destruct (Hok eq_refl) as [Hs Ho].
  destruct (lset_eqb l' l) eqn:El.
  - apply lset_eqb_eq in El. subst. rewrite Hs. apply push_incl; auto.
  - apply lset_eqb_neq in El. rewrite Ho; auto.
Qed.

(* an accepted sample is in the store *)
Lemma st_append_ok_in st l t v st' : st_append st l t v = (st', AOk) -> In (t, v) (samples st' l).
Proof.
  intros E. apply st_append_spec in E. destruct E as [Ha [Hok _]].
  destruct (Hok eq_refl) as [Hs _]. rewrite Hs.
  destruct (admission_ok_push (samples st l) t v) as [rest Hr]; [congruence|]. rewrite Hr. left; reflexivity.
Qed.

(* "the newest sample of series l is (qt, VNum z)" *)
Definition newest (st : store) (l : lset) (qt z : Z) : Prop :=
  exists rest, samples st l = (qt, VNum z) :: rest.

Lemma st_append_ok_newest st l qt z st' : st_append st l qt (VNum z) = (st', AOk) -> newest st' l qt z.
Proof.
  intros E. apply st_append_spec in E. destruct E as [Ha [Hok _]].
  destruct (Hok eq_refl) as [Hs _]. unfold newest. rewrite Hs.
  apply admission_ok_push. congruence.
Qed.

(* appends at the same timestamp never displace it *)
Lemma st_append_newest st l qt z l' v : newest st l qt z -> newest (fst (st_append st l' qt v)) l qt z.
Proof.
  intros [rest Hn]. destruct (st_append st l' qt v) as [st' r] eqn:E. cbn.
  apply st_append_spec in E. destruct E as [_ [Hok Hrej]].
  destruct r; try (rewrite Hrej by congruence; exists rest; assumption).
  destruct (Hok eq_refl) as [Hs Ho].
  destruct (lset_eqb l l') eqn:El.
  - apply lset_eqb_eq in El. subst l'. unfold newest. rewrite Hs, Hn. cbn. rewrite Z.eqb_refl. eauto.
  - apply lset_eqb_neq in El. unfold newest. rewrite Ho; eauto.
Qed.

(* an instant selector at qt returns the newest sample when it is at qt *)
Lemma sel_sample_newest st l qt z : newest st l qt z -> sel_sample (samples st l) qt = Some z.
Proof.
  intros [rest Hn]. rewrite Hn. unfold sel_sample. cbn. rewrite Z.leb_refl.
  replace (qt - lookback <? qt) with true; auto.
  symmetry. apply Z.ltb_lt. unfold lookback. lia.
Qed.

(* ------------------------------------------------------------------ append_vec / append_stale *)
Definition rec_lbl (a : arec) : lset := fst (fst (fst a)).
Definition rec_ts (a : arec) : Z := snd (fst (fst a)).
Definition rec_val (a : arec) : val := snd (fst a).
Definition rec_res (a : arec) : ares := snd a.

Lemma append_vec_log st vec qt st' ok log :
  append_vec st vec qt = (st', ok, log) ->
  map (fun a => (rec_lbl a, rec_ts a, rec_val a)) log = map (fun lz => (fst lz, qt, VNum (snd lz))) vec /\
  ok = map rec_lbl (filter (fun a => ares_ok (rec_res a)) log).
Proof.
  revert st st' ok log. induction vec as [|[l z] vec IH]; intros st st' ok log; cbn.
  - intros H; inversion H; subst. auto.
  - destruct (st_append st l qt (VNum z)) as [st1 r] eqn:E1.
    destruct (append_vec st1 vec qt) as [[st2 ok2] log2] eqn:E2.
    intros H; inversion H; subst. destruct (IH _ _ _ _ E2) as [H1 H2].
    split; cbn; [f_equal; auto|].
    unfold rec_res at 1; cbn. destruct (ares_ok r); cbn; subst; reflexivity.
Qed.

Lemma append_stale_log st ls qt st' log :
  append_stale st ls qt = (st', log) ->
  map (fun a => (rec_lbl a, rec_ts a, rec_val a)) log = map (fun l => (l, qt, VStale)) ls.
Proof.
  revert st st' log. induction ls as [|l ls IH]; intros st st' log; cbn.
  - intros H; inversion H; subst. auto.
  - destruct (st_append st l qt VStale) as [st1 r] eqn:E1.
    destruct (append_stale st1 ls qt) as [st2 log2] eqn:E2.
    intros H; inversion H; subst. cbn. f_equal. eauto.
Qed.

(* every accepted Append is in the store afterwards; nothing is ever removed *)
Lemma append_vec_keeps st vec qt s l : In s (samples st l) -> In s (samples (fst (fst (append_vec st vec qt))) l).
Proof.
  revert st. induction vec as [|[l0 z] vec IH]; intros st H; cbn; auto.
  destruct (st_append st l0 qt (VNum z)) as [st1 r] eqn:E1.
  destruct (append_vec st1 vec qt) as [[st2 ok2] log2] eqn:E2. cbn.
  specialize (IH st1). rewrite E2 in IH. cbn in IH. apply IH.
  pose proof (st_append_keeps st l0 qt (VNum z) s l H) as K. rewrite E1 in K. exact K.
Qed.

Lemma append_stale_keeps st ls qt s l : In s (samples st l) -> In s (samples (fst (append_stale st ls qt)) l).
Proof.
  revert st. induction ls as [|l0 ls IH]; intros st H; cbn; auto.
  destruct (st_append st l0 qt VStale) as [st1 r] eqn:E1.
  destruct (append_stale st1 ls qt) as [st2 log2] eqn:E2. cbn.
  specialize (IH st1). rewrite E2 in IH. cbn in IH. apply IH.
  pose proof (st_append_keeps st l0 qt VStale s l H) as K. rewrite E1 in K. exact K.
Qed.

Lemma append_vec_stored st vec qt st' ok log a :
  append_vec st vec qt = (st', ok, log) -> In a log -> rec_res a = AOk ->
  In (rec_ts a, rec_val a) (samples st' (rec_lbl a)).
Proof.
  revert st st' ok log. induction vec as [|[l z] vec IH]; intros st st' ok log; cbn.
  - intros H; inversion H; subst. intros [].
  - destruct (st_append st l qt (VNum z)) as [st1 r] eqn:E1.
    destruct (append_vec st1 vec qt) as [[st2 ok2] log2] eqn:E2.
    intros H; inversion H; subst. intros [Ha | Ha] Hr.
    + subst a. cbn in *. subst r.
      pose proof (append_vec_keeps st1 vec qt (qt, VNum z) l (st_append_ok_in _ _ _ _ _ E1)) as K.
      rewrite E2 in K. exact K.
    + eapply IH; eauto.
Qed.

Lemma append_stale_stored st ls qt st' log a :
  append_stale st ls qt = (st', log) -> In a log -> rec_res a = AOk ->
  In (rec_ts a, rec_val a) (samples st' (rec_lbl a)).
Proof.
  revert st st' log. induction ls as [|l ls IH]; intros st st' log; cbn.
  - intros H; inversion H; subst. intros [].
  - destruct (st_append st l qt VStale) as [st1 r] eqn:E1.
    destruct (append_stale st1 ls qt) as [st2 log2] eqn:E2.
    intros H; inversion H; subst. intros [Ha | Ha] Hr.
    + subst a. cbn in *. subst r.
      pose proof (append_stale_keeps st1 ls qt (qt, VStale) l (st_append_ok_in _ _ _ _ _ E1)) as K.
      rewrite E2 in K. exact K.
    + eapply IH; eauto.
Qed.

(* newest-at-qt is preserved by everything a group evaluation at qt does *)
Lemma append_vec_newest st vec qt l z : newest st l qt z -> newest (fst (fst (append_vec st vec qt))) l qt z.
Proof.
  revert st. induction vec as [|[l0 z0] vec IH]; intros st H; cbn; auto.
  destruct (st_append st l0 qt (VNum z0)) as [st1 r] eqn:E1.
  destruct (append_vec st1 vec qt) as [[st2 ok2] log2] eqn:E2. cbn.
  specialize (IH st1). rewrite E2 in IH. apply IH.
  pose proof (st_append_newest st l qt z l0 (VNum z0) H) as K. rewrite E1 in K. exact K.
Qed.

Lemma append_stale_newest st ls qt l z : newest st l qt z -> newest (fst (append_stale st ls qt)) l qt z.
Proof.
  revert st. induction ls as [|l0 ls IH]; intros st H; cbn; auto.
  destruct (st_append st l0 qt VStale) as [st1 r] eqn:E1.
  destruct (append_stale st1 ls qt) as [st2 log2] eqn:E2. cbn.
  specialize (IH st1). rewrite E2 in IH. apply IH.
  pose proof (st_append_newest st l qt z l0 VStale H) as K. rewrite E1 in K. exact K.
Qed.

Lemma append_vec_ok_newest st vec qt st' ok log a z :
  append_vec st vec qt = (st', ok, log) -> In a log -> rec_res a = AOk -> rec_val a = VNum z ->
  newest st' (rec_lbl a) qt z.
Proof.
  revert st st' ok log. induction vec as [|[l z0] vec IH]; intros st st' ok log; cbn.
  - intros H; inversion H; subst. intros [].
  - destruct (st_append st l qt (VNum z0)) as [st1 r] eqn:E1.
    destruct (append_vec st1 vec qt) as [[st2 ok2] log2] eqn:E2.
    intros H; inversion H; subst. intros [Ha | Ha] Hr Hv.
    + subst a. cbn in *. subst r. inversion Hv; subst.
      pose proof (append_vec_newest st1 vec qt l z (st_append_ok_newest _ _ _ _ _ E1)) as K.
      rewrite E2 in K. exact K.
    + eapply IH; eauto.
Qed.

(* ------------------------------------------------------------------ eval_rule *)
Section WithQuery.
Variable qf : store -> expr -> Z -> vector.

Definition triple (a : arec) := (rec_lbl a, rec_ts a, rec_val a).
Definition written (log : list arec) : list lset := map rec_lbl (filter (fun a => ares_ok (rec_res a)) log).
Definition is_marker (a : arec) : bool := match rec_val a with VStale => true | _ => false end.

Lemma eval_rule_failed st r prev qt limit :
  rule_eval qf st r qt limit = None -> eval_rule qf st r prev qt limit = (st, prev, None).
Proof. unfold eval_rule. intros ->. reflexivity. Qed.

(* the shape of a successful rule evaluation *)
Lemma eval_rule_ok st r prev qt limit vec :
  rule_eval qf st r qt limit = Some vec ->
  exists st' log1 log2,
    eval_rule qf st r prev qt limit = (st', written log1, Some (log1 ++ log2)) /\
    map triple log1 = map (fun lz => (fst lz, qt, VNum (snd lz))) vec /\
    map triple log2 = map (fun l => (l, qt, VStale)) (vanished prev (written log1)) /\
    (forall a, In a (log1 ++ log2) -> rec_res a = AOk -> In (rec_ts a, rec_val a) (samples st' (rec_lbl a))) /\
    (forall a z, In a log1 -> rec_res a = AOk -> rec_val a = VNum z -> newest st' (rec_lbl a) qt z) /\
    (forall s l, In s (samples st l) -> In s (samples st' l)) /\
    (forall l z, newest st l qt z -> newest st' l qt z).
Proof.
  intros Hr. unfold eval_rule. rewrite Hr.
  destruct (append_vec st vec qt) as [[st1 ok] log1] eqn:E1.
  destruct (append_stale st1 (vanished prev ok) qt) as [st2 log2] eqn:E2.
  destruct (append_vec_log _ _ _ _ _ _ E1) as [L1 L2]. subst ok.
  exists st2, log1, log2. split; [reflexivity|].
  split; [exact L1|]. split; [eapply append_stale_log; eauto|].
  split; [|split; [|split]].
  - intros a Ha Hres. apply in_app_or in Ha. destruct Ha as [Ha | Ha].
    + pose proof (append_vec_stored _ _ _ _ _ _ a E1 Ha Hres) as K.
      pose proof (append_stale_keeps st1 (vanished prev (written log1)) qt _ _ K) as K2.
      unfold written in K2. rewrite E2 in K2. exact K2.
    + eapply append_stale_stored; eauto.
  - intros a z Ha Hres Hv.
    pose proof (append_vec_ok_newest _ _ _ _ _ _ a z E1 Ha Hres Hv) as K.
    pose proof (append_stale_newest st1 (vanished prev (written log1)) qt _ _ K) as K2.
    unfold written in K2. rewrite E2 in K2. exact K2.
  - intros s l Hs.
    pose proof (append_vec_keeps st vec qt s l Hs) as K. rewrite E1 in K. cbn in K.
    pose proof (append_stale_keeps st1 (vanished prev (written log1)) qt s l K) as K2.
    unfold written in K2. rewrite E2 in K2. exact K2.
  - intros l z Hn.
    pose proof (append_vec_newest st vec qt l z Hn) as K. rewrite E1 in K. cbn in K.
    pose proof (append_stale_newest st1 (vanished prev (written log1)) qt l z K) as K2.
    unfold written in K2. rewrite E2 in K2. exact K2.
Qed.

Lemma vanished_spec prev ok l : In l (vanished prev ok) <-> In l prev /\ ~ In l ok.
Proof.
  unfold vanished. rewrite filter_In, negb_true_iff. split; intros [H1 H2]; split; auto.
  - intros Hin. apply mem_In in Hin. congruence.
  - destruct (mem l ok) eqn:E; auto. apply mem_In in E. contradiction.
Qed.

(* any rule evaluation keeps stored samples and keeps a newest-at-qt sample newest *)
Lemma eval_rule_keeps st r prev qt limit :
  let st' := fst (fst (eval_rule qf st r prev qt limit)) in
  (forall s l, In s (samples st l) -> In s (samples st' l)) /\
  (forall l z, newest st l qt z -> newest st' l qt z).
Proof.
  destruct (rule_eval qf st r qt limit) as [vec|] eqn:E.
  - destruct (eval_rule_ok st r prev qt limit vec E) as (st' & l1 & l2 & He & _ & _ & _ & _ & K1 & K2).
    rewrite He. cbn. auto.
  - rewrite (eval_rule_failed st r prev qt limit E). cbn. auto.
Qed.

(* ------------------------------------------------------------------ relabelling *)
Lemma lget_lput_same l k v : lget (lput l k v) k = Some v.
Proof.
  induction l as [|[k' v'] l IH]; cbn.
  - rewrite Z.eqb_refl. reflexivity.
  - destruct (k <? k') eqn:E1; cbn.
    + rewrite Z.eqb_refl. reflexivity.
    + destruct (k =? k') eqn:E2; cbn.
      * rewrite Z.eqb_refl. reflexivity.
      * rewrite E2. exact IH.
Qed.

Lemma lget_lput_other l k v k' : k' <> k -> lget (lput l k v) k' = lget l k'.
Proof.
  intros Hne. induction l as [|[k0 v0] l IH]; cbn.
  - apply Z.eqb_neq in Hne. rewrite Hne. reflexivity.
  - destruct (k <? k0) eqn:E1; cbn.
    + apply Z.eqb_neq in Hne. rewrite Hne. reflexivity.
    + destruct (k =? k0) eqn:E2; cbn.
      * apply Z.eqb_eq in E2. subst k0. apply Z.eqb_neq in Hne. rewrite Hne. reflexivity.
      * destruct (k' =? k0); auto.
Qed.

Lemma fold_lput_other kvs l k :
  ~ In k (map fst kvs) ->
  lget (fold_left (fun acc kv => lput acc (fst kv) (snd kv)) kvs l) k = lget l k.
Proof.
  revert l. induction kvs as [|[k0 v0] kvs IH]; intros l Hn; cbn; auto.
  rewrite IH by (intros H; apply Hn; right; exact H).
  apply lget_lput_other. intros ->. apply Hn. left; reflexivity.
Qed.

Lemma fold_lput_in kvs l k v :
  NoDup (map fst kvs) -> In (k, v) kvs ->
  lget (fold_left (fun acc kv => lput acc (fst kv) (snd kv)) kvs l) k = Some v.
Proof.
  revert l. induction kvs as [|[k0 v0] kvs IH]; intros l Hnd Hin; cbn; [destruct Hin|].
  inversion Hnd as [|? ? Hn Hnd']; subst. destruct Hin as [Hin | Hin].
  - inversion Hin; subst. rewrite fold_lput_other by exact Hn. apply lget_lput_same.
  - apply IH; auto.
Qed.

(* the rule's name and labels are on every output series *)
Lemma relabel_name r l : ~ In name_label (map fst (r_labels r)) -> lget (relabel r l) name_label = Some (r_name r).
Proof. intros H. unfold relabel. rewrite fold_lput_other by exact H. apply lget_lput_same. Qed.

Lemma relabel_label r l k v : NoDup (map fst (r_labels r)) -> In (k, v) (r_labels r) -> lget (relabel r l) k = Some v.
Proof. intros Hnd Hin. unfold relabel. apply fold_lput_in; auto. Qed.

(* labels the rule does not set are those of the expression's sample *)
Lemma relabel_other r l k : k <> name_label -> ~ In k (map fst (r_labels r)) -> lget (relabel r l) k = lget l k.
Proof. intros H1 H2. unfold relabel. rewrite fold_lput_other by exact H2. apply lget_lput_other; auto. Qed.

Lemma rule_eval_vec st r qt limit vec :
  rule_eval qf st r qt limit = Some vec ->
  vec = map (fun lz => (relabel r (fst lz), snd lz)) (qf st (r_expr r) qt).
Proof.
  unfold rule_eval. destruct (has_dup _); [discriminate|]. destruct (_ && _); [discriminate|].
  intros H; inversion H; reflexivity.
Qed.

(* ------------------------------------------------------------------ eval_rules *)
Lemma eval_rules_app gid st qt limit i pre post :
  eval_rules qf gid st qt limit i (pre ++ post) =
  let '(st1, pre', ev1) := eval_rules qf gid st qt limit i pre in
  let '(st2, post', ev2) := eval_rules qf gid st1 qt limit (i + Z.of_nat (length pre)) post in
  (st2, pre' ++ post', ev1 ++ ev2).
Proof.
  revert st i. induction pre as [|[r prev] pre IH]; intros st i.
  - cbn [app eval_rules length Z.of_nat]. rewrite Z.add_0_r.
    destruct (eval_rules qf gid st qt limit i post) as [[a b] c]. reflexivity.
  - cbn [app eval_rules].
    destruct (eval_rule qf st r prev qt limit) as [[st1 prev1] apps].
    rewrite IH.
    destruct (eval_rules qf gid st1 qt limit (i + 1) pre) as [[st2 pre'] ev1].
    replace (i + 1 + Z.of_nat (length pre)) with (i + Z.of_nat (length ((r, prev) :: pre)))
      by (cbn [length]; lia).
    destruct (eval_rules qf gid st2 qt limit _ post) as [[st3 post'] ev2]. reflexivity.
Qed.

(* what the earlier rules of this evaluation wrote successfully is the newest sample of its
   series in the store the next rule is evaluated against *)
Lemma eval_rules_visible gid st qt limit i rules :
  let '(st', _, evs) := eval_rules qf gid st qt limit i rules in
  (forall l z, newest st l qt z -> newest st' l qt z) /\
  (forall j log a z, In (EvRule gid j (Some log)) evs -> In a log -> rec_res a = AOk -> rec_val a = VNum z ->
                     newest st' (rec_lbl a) qt z).
Proof.
  revert st i. induction rules as [|[r prev] rules IH]; intros st i; cbn [eval_rules].
  - split; auto. intros j log a z [].
  - destruct (eval_rule qf st r prev qt limit) as [[st1 prev1] apps] eqn:E1.
    specialize (IH st1 (i + 1)).
    destruct (eval_rules qf gid st1 qt limit (i + 1) rules) as [[st2 rs2] evs] eqn:E2.
    destruct IH as [IH1 IH2].
    pose proof (eval_rule_keeps st r prev qt limit) as K. rewrite E1 in K. cbn in K. destruct K as [_ K2].
    split; [intros l z Hn; apply IH1, K2, Hn|].
    intros j log a z [Hev | Hev] Ha Hres Hv; [|eapply IH2; eauto].
    inversion Hev; subst j apps.
    destruct (rule_eval qf st r qt limit) as [vec|] eqn:Er.
    + destruct (eval_rule_ok st r prev qt limit vec Er) as (st' & l1 & l2 & He & _ & L2 & _ & Hn & _ & _).
      rewrite He in E1. inversion E1; subst st1 prev1 log.
      apply IH1. apply in_app_or in Ha. destruct Ha as [Ha | Ha]; [eapply Hn; eauto|].
      exfalso. assert (Hm : In (triple a) (map triple l2)) by (apply in_map; exact Ha).
      rewrite L2 in Hm. apply in_map_iff in Hm. destruct Hm as [l0 [Hm _]].
      unfold triple in Hm. inversion Hm. congruence.
    + rewrite (eval_rule_failed st r prev qt limit Er) in E1. inversion E1.
Qed.

(* cleanup *)
Lemma cleanup_nil gid st qt : cleanup gid st [] qt = (st, []).
Proof. reflexivity. Qed.

Lemma cleanup_cons gid st l ls qt :
  exists st' log, cleanup gid st (l :: ls) qt = (st', [EvCleanup gid log]) /\
                  map triple log = map (fun l => (l, qt, VStale)) (l :: ls) /\
                  (forall a, In a log -> rec_res a = AOk -> In (rec_ts a, rec_val a) (samples st' (rec_lbl a))).
Proof.
  unfold cleanup. destruct (append_stale st (l :: ls) qt) as [st' log] eqn:E.
  exists st', log. split; [reflexivity|]. split; [eapply append_stale_log; eauto|].
  intros a Ha Hr. eapply append_stale_stored; eauto.
Qed.

End WithQuery.

(* ------------------------------------------------------------------ CopyState *)
Lemma rm_get_push_same m k p : rm_get (rm_push m k p) k <> [].
Proof.
  induction m as [|[k' q] m IH]; cbn.
  - rewrite rkey_eqb_refl. discriminate.
  - destruct (rkey_eqb k k') eqn:E; cbn; rewrite E; auto.
    destruct q; discriminate.
Qed.

Lemma rm_get_push_mono m k p k' : rm_get m k' <> [] -> rm_get (rm_push m k p) k' <> [].
Proof.
  induction m as [|[k0 q] m IH]; cbn; [congruence|].
  destruct (rkey_eqb k k0) eqn:E; cbn.
  - destruct (rkey_eqb k' k0); auto. destruct q; cbn; congruence.
  - destruct (rkey_eqb k' k0); auto.
Qed.

Lemma build_map_has from m0 r p :
  In (r, p) from \/ rm_get m0 (rkey_of r) <> [] ->
  rm_get (fold_left (fun m rp => rm_push m (rkey_of (fst rp)) (snd rp)) from m0) (rkey_of r) <> [].
Proof.
  revert m0. induction from as [|[r0 p0] from IH]; intros m0 [H | H]; cbn.
  - destruct H.
  - exact H.
  - destruct H as [H | H].
    + inversion H; subst. apply IH. right. apply rm_get_push_same.
    + apply IH. left; exact H.
  - apply IH. right. apply rm_get_push_mono; exact H.
Qed.

Lemma rm_get_pop_other m k k' : k' <> k -> rm_get (rm_pop m k) k' = rm_get m k'.
Proof.
  intros Hne. induction m as [|[k0 q] m IH]; cbn; auto.
  destruct (rkey_eqb k k0) eqn:E; cbn.
  - apply rkey_eqb_eq in E. subst k0.
    destruct (rkey_eqb k' k) eqn:E2; auto. apply rkey_eqb_eq in E2. contradiction.
  - destruct (rkey_eqb k' k0); auto.
Qed.

Lemma match_rules_other m rules k :
  ~ In k (map rkey_of rules) -> rm_get (snd (match_rules m rules)) k = rm_get m k.
Proof.
  revert m. induction rules as [|r rs IH]; intros m Hn; cbn; auto.
  assert (Hk : k <> rkey_of r) by (intros ->; apply Hn; left; reflexivity).
  assert (Hn' : ~ In k (map rkey_of rs)) by (intros H; apply Hn; right; exact H).
  destruct (rm_get m (rkey_of r)) as [|p q].
  - specialize (IH m Hn'). destruct (match_rules m rs) as [out m']. cbn in *. exact IH.
  - specialize (IH (rm_pop m (rkey_of r)) Hn'). destruct (match_rules (rm_pop m (rkey_of r)) rs) as [out m'].
    cbn in *. rewrite IH. apply rm_get_pop_other; auto.
Qed.

Lemma match_rules_rules m rules : map fst (fst (match_rules m rules)) = rules.
Proof.
  revert m. induction rules as [|r rs IH]; intros m; cbn; auto.
  destruct (rm_get m (rkey_of r)) as [|p q].
  - specialize (IH m). destruct (match_rules m rs); cbn in *. f_equal; auto.
  - specialize (IH (rm_pop m (rkey_of r))). destruct (match_rules (rm_pop m (rkey_of r)) rs); cbn in *. f_equal; auto.
Qed.

(* series of an old rule whose (name, labels) no longer occurs go to staleSeries; so do the
   series that were already waiting there *)
Lemma copy_state_removed newrules from r p l :
  In (r, p) (g_rules from) -> ~ In (rkey_of r) (map rkey_of newrules) -> In l p ->
  In l (snd (copy_state newrules from)).
Proof.
  intros Hin Hnk Hl. unfold copy_state.
  pose proof (match_rules_other (build_map (g_rules from)) newrules (rkey_of r) Hnk) as K.
  destruct (match_rules (build_map (g_rules from)) newrules) as [matched m']. cbn in *.
  apply in_or_app. right. apply in_flat_map. exists (r, p). split; auto. cbn.
  destruct (rm_get m' (rkey_of r)) eqn:E; auto.
  exfalso. symmetry in K. unfold build_map in K.
  exact (build_map_has (g_rules from) [] r p (or_introl Hin) K).
Qed.

Lemma copy_state_keeps_stale newrules from l :
  In l (g_stale from) -> In l (snd (copy_state newrules from)).
Proof.
  intros H. unfold copy_state.
  destruct (match_rules (build_map (g_rules from)) newrules) as [matched m']. cbn.
  apply in_or_app. left; exact H.
Qed.

Lemma copy_state_rules newrules from : map fst (fst (copy_state newrules from)) = newrules.
Proof.
  unfold copy_state.
  pose proof (match_rules_rules (build_map (g_rules from)) newrules) as K.
  destruct (match_rules (build_map (g_rules from)) newrules) as [matched m']. exact K.
Qed.

(* a rule with a unique key on both sides keeps its previous series *)
Lemma rm_get_push_other m k p k' : k' <> k -> rm_get (rm_push m k p) k' = rm_get m k'.
Proof.
  intros Hne. induction m as [|[k0 q] m IH]; cbn.
  - destruct (rkey_eqb k' k) eqn:E; auto. apply rkey_eqb_eq in E. contradiction.
  - destruct (rkey_eqb k k0) eqn:E; cbn.
    + apply rkey_eqb_eq in E. subst k0.
      destruct (rkey_eqb k' k) eqn:E2; auto. apply rkey_eqb_eq in E2. contradiction.
    + destruct (rkey_eqb k' k0); auto.
Qed.

(* ------------------------------------------------------------------ group_eval *)
Section WithQuery2.
Variable qf : store -> expr -> Z -> vector.

Lemma group_eval_stale_reset gid st g ts : g_stale (snd (fst (group_eval qf gid st g ts))) = [].
Proof.
  unfold group_eval.
  destruct (eval_rules qf gid st (ts - g_offset g) (g_limit g) 0 (g_rules g)) as [[st1 rs] evs].
  destruct (cleanup gid st1 (g_stale g) (ts - g_offset g)) as [st2 evc]. reflexivity.
Qed.

Lemma eval_rules_no_cleanup gid st qt limit i rules g' log :
  ~ In (EvCleanup g' log) (snd (eval_rules qf gid st qt limit i rules)).
Proof.
  revert st i. induction rules as [|[r prev] rules IH]; intros st i; cbn [eval_rules]; [intros []|].
  destruct (eval_rule qf st r prev qt limit) as [[st1 prev1] apps].
  specialize (IH st1 (i + 1)).
  destruct (eval_rules qf gid st1 qt limit (i + 1) rules) as [[st2 rs2] evs]. cbn in *.
  intros [H | H]; [discriminate | auto].
Qed.

(* the series waiting in staleSeries are all marked at the evaluation's timestamp by one
   cleanup appender, whose accepted markers are in the store *)
Lemma group_eval_marks gid st g ts l :
  In l (g_stale g) ->
  let '(st', g', evs) := group_eval qf gid st g ts in
  exists log, In (EvCleanup gid log) evs /\
              map triple log = map (fun l => (l, ts - g_offset g, VStale)) (g_stale g) /\
              (forall a, In a log -> rec_res a = AOk -> In (rec_ts a, rec_val a) (samples st' (rec_lbl a))) /\
              g_stale g' = [].
Proof.
  intros Hl. unfold group_eval.
  destruct (eval_rules qf gid st (ts - g_offset g) (g_limit g) 0 (g_rules g)) as [[st1 rs] evs].
  destruct (g_stale g) as [|l0 ls] eqn:Es; [destruct Hl|].
  destruct (cleanup_cons gid st1 l0 ls (ts - g_offset g)) as (st' & log & Hc & Hm & Hs).
  rewrite Hc. exists log. split; [apply in_or_app; right; left; reflexivity|].
  split; [exact Hm|]. split; [exact Hs | reflexivity].
Qed.

(* ... and only once: with nothing waiting, an evaluation opens no cleanup appender *)
Lemma group_eval_no_cleanup gid st g ts g' log :
  g_stale g = [] -> ~ In (EvCleanup g' log) (snd (group_eval qf gid st g ts)).
Proof.
  intros Hs. unfold group_eval. rewrite Hs.
  pose proof (eval_rules_no_cleanup gid st (ts - g_offset g) (g_limit g) 0 (g_rules g) g' log) as K.
  destruct (eval_rules qf gid st (ts - g_offset g) (g_limit g) 0 (g_rules g)) as [[st1 rs] evs].
  cbn in *. rewrite app_nil_r. exact K.
Qed.

End WithQuery2.

(* ------------------------------------------------------------------ the property lemmas *)
Section Main.
Variable qf : store -> expr -> Z -> vector.

Lemma results_stored st r prev qt limit vec :
  rule_eval qf st r qt limit = Some vec ->
  exists st' log1 log2,
    eval_rule qf st r prev qt limit = (st', written log1, Some (log1 ++ log2)) /\
    map triple log1 = map (fun lz => (fst lz, qt, VNum (snd lz))) vec /\
    (forall a, In a log2 -> rec_val a = VStale) /\
    (forall a, In a (log1 ++ log2) -> rec_res a = AOk -> In (rec_ts a, rec_val a) (samples st' (rec_lbl a))).
Proof.
  intros H. destruct (eval_rule_ok qf st r prev qt limit vec H) as (st' & l1 & l2 & He & L1 & L2 & Hs & _).
  exists st', l1, l2. repeat split; auto.
  intros a Ha. assert (Hm : In (triple a) (map triple l2)) by (apply in_map; exact Ha).
  rewrite L2 in Hm. apply in_map_iff in Hm. destruct Hm as [l0 [Hm _]]. unfold triple in Hm. inversion Hm. auto.
Qed.

Lemma results_named st r qt limit vec l z :
  rule_eval qf st r qt limit = Some vec -> In (l, z) vec ->
  ~ In name_label (map fst (r_labels r)) -> NoDup (map fst (r_labels r)) ->
  lget l name_label = Some (r_name r) /\ forall k v, In (k, v) (r_labels r) -> lget l k = Some v.
Proof.
  intros H Hin Hn Hnd. apply rule_eval_vec in H. subst vec.
  apply in_map_iff in Hin. destruct Hin as [[l0 z0] [E _]]. inversion E; subst. cbn.
  split; [apply relabel_name; auto | intros; apply relabel_label; auto].
Qed.

Lemma stale_diff st r prev qt limit vec :
  rule_eval qf st r qt limit = Some vec ->
  exists st' log1 log2,
    eval_rule qf st r prev qt limit = (st', written log1, Some (log1 ++ log2)) /\
    map triple log1 = map (fun lz => (fst lz, qt, VNum (snd lz))) vec /\
    map triple log2 = map (fun l => (l, qt, VStale)) (vanished prev (written log1)) /\
    (forall l, In l (vanished prev (written log1)) <-> In l prev /\ ~ In l (written log1)).
Proof.
  intros H. destruct (eval_rule_ok qf st r prev qt limit vec H) as (st' & l1 & l2 & He & L1 & L2 & _).
  exists st', l1, l2. split; [exact He|]. split; [exact L1|]. split; [exact L2|].
  intros l. apply vanished_spec.
Qed.

Lemma order_dependency gid st qt limit pre r prev post :
  exists st1 pre' ev1,
    eval_rules qf gid st qt limit 0 pre = (st1, pre', ev1) /\
    (exists rest, snd (eval_rules qf gid st qt limit 0 (pre ++ (r, prev) :: post)) =
                  ev1 ++ EvRule gid (Z.of_nat (length pre)) (snd (eval_rule qf st1 r prev qt limit)) :: rest) /\
    (forall j log a z, In (EvRule gid j (Some log)) ev1 -> In a log -> rec_res a = AOk -> rec_val a = VNum z ->
        sel_sample (samples st1 (rec_lbl a)) qt = Some z).
Proof.
  pose proof (eval_rules_visible qf gid st qt limit 0 pre) as V.
  rewrite eval_rules_app.
  destruct (eval_rules qf gid st qt limit 0 pre) as [[st1 pre'] ev1].
  exists st1, pre', ev1. split; [reflexivity|]. destruct V as [_ V2]. split.
  - cbn [eval_rules]. rewrite Z.add_0_l.
    destruct (eval_rule qf st1 r prev qt limit) as [[st2 prev2] apps].
    destruct (eval_rules qf gid st2 qt limit (Z.of_nat (length pre) + 1) post) as [[st3 post'] ev2].
    cbn. eexists. reflexivity.
  - intros. apply sel_sample_newest. eapply V2; eauto.
Qed.

(* groups in the state *)
Lemma find_set_same gs gid g : find_group (set_group gs gid g) gid = Some g.
Proof.
  induction gs as [|[i g0] gs IH]; cbn.
  - rewrite Z.eqb_refl. reflexivity.
  - destruct (i =? gid) eqn:E; cbn.
    + rewrite Z.eqb_refl. reflexivity.
    + rewrite E. exact IH.
Qed.

Lemma load_group_offset old rules off lim : g_offset (load_group old rules off lim) = off.
Proof. unfold load_group. destruct old as [from|]; [destruct (copy_state rules from)|]; reflexivity. Qed.

Lemma removed_rule_marked s gid from rules off lim r p l ts :
  find_group (s_groups s) gid = Some from ->
  In (r, p) (g_rules from) -> ~ In (rkey_of r) (map rkey_of rules) -> In l p ->
  let s1 := fst (step qf s (OpLoad gid rules off lim)) in
  let s2 := fst (step qf s1 (OpEval gid ts)) in
  (exists log, In (EvCleanup gid log) (snd (step qf s1 (OpEval gid ts))) /\
               In (l, ts - off, VStale) (map triple log) /\
               (forall a, In a log -> rec_res a = AOk ->
                          In (rec_ts a, rec_val a) (samples (s_store s2) (rec_lbl a)))) /\
  (forall ts' g' log', ~ In (EvCleanup g' log') (snd (step qf s2 (OpEval gid ts')))).
Proof.
  intros Hf Hin Hnk Hl. cbn [step fst]. rewrite Hf. cbn [s_groups s_store].
  rewrite find_set_same.
  set (g1 := load_group (Some from) rules off lim).
  assert (Hst : In l (g_stale g1)).
  { unfold g1, load_group. pose proof (copy_state_removed rules from r p l Hin Hnk Hl) as K.
    destruct (copy_state rules from) as [rs stale]. exact K. }
  assert (Hoff : g_offset g1 = off) by apply load_group_offset.
  pose proof (group_eval_marks qf gid (s_store s) g1 ts l Hst) as M.
  pose proof (group_eval_no_cleanup qf gid) as N.
  destruct (group_eval qf gid (s_store s) g1 ts) as [[st' g'] evs] eqn:E.
  destruct M as (log & M1 & M2 & M3 & M4). cbn [fst snd s_groups s_store]. split.
  - exists log. split; [exact M1|]. split; [|exact M3].
    rewrite M2, Hoff. apply in_map with (f := fun l => (l, ts - off, VStale)). exact Hst.
  - intros ts' g'' log'. rewrite find_set_same.
    specialize (N st' g' ts' g'' log' M4).
    destruct (group_eval qf gid st' g' ts') as [[st3 g3] evs3]. exact N.
Qed.

Lemma removed_group_marked s gid g ts l r p :
  find_group (s_groups s) gid = Some g -> In (r, p) (g_rules g) -> In l p ->
  let s' := fst (step qf s (OpRemove gid ts)) in
  exists log, snd (step qf s (OpRemove gid ts)) = [EvCleanup gid log] /\
              map triple log = map (fun l => (l, ts - g_offset g, VStale)) (g_stale g ++ flat_map snd (g_rules g)) /\
              In (l, ts - g_offset g, VStale) (map triple log) /\
              (forall a, In a log -> rec_res a = AOk -> In (rec_ts a, rec_val a) (samples (s_store s') (rec_lbl a))) /\
              find_group (s_groups s') gid = None.
Proof.
  intros Hf Hin Hl. cbn [step]. rewrite Hf.
  assert (Hall : In l (g_stale g ++ flat_map snd (g_rules g))).
  { apply in_or_app. right. apply in_flat_map. exists (r, p). auto. }
  destruct (g_stale g ++ flat_map snd (g_rules g)) as [|l0 ls] eqn:Es; [destruct Hall|].
  destruct (cleanup_cons gid (s_store s) l0 ls (ts - g_offset g)) as (st' & log & Hc & Hm & Hs).
  rewrite Hc. cbn [fst snd s_store s_groups]. exists log. split; [reflexivity|]. split; [exact Hm|].
  split; [rewrite Hm; apply in_map with (f := fun l => (l, ts - g_offset g, VStale)); exact Hall|].
  split; [exact Hs|].
  unfold del_group. clear. induction (s_groups s) as [|[i g0] gs IH]; cbn; auto.
  destruct (i =? gid) eqn:E; cbn; auto. rewrite E. exact IH.
Qed.

(* the store is append-only over whole histories *)
Lemma eval_rules_keeps gid st qt limit i rules s l :
  In s (samples st l) -> In s (samples (fst (fst (eval_rules qf gid st qt limit i rules))) l).
Proof.
  revert st i. induction rules as [|[r prev] rules IH]; intros st i H; cbn [eval_rules]; auto.
  pose proof (eval_rule_keeps qf st r prev qt limit) as K.
  destruct (eval_rule qf st r prev qt limit) as [[st1 prev1] apps]. cbn in K. destruct K as [K _].
  specialize (IH st1 (i + 1) (K _ _ H)).
  destruct (eval_rules qf gid st1 qt limit (i + 1) rules) as [[st2 rs2] evs]. exact IH.
Qed.

Lemma cleanup_keeps gid st stale qt s l : In s (samples st l) -> In s (samples (fst (cleanup gid st stale qt)) l).
Proof.
  intros H. unfold cleanup. destruct stale as [|l0 ls]; auto.
  pose proof (append_stale_keeps st (l0 :: ls) qt s l H) as K.
  destruct (append_stale st (l0 :: ls) qt) as [st' log]. exact K.
Qed.

Lemma step_keeps s o x l : In x (samples (s_store s) l) -> In x (samples (s_store (fst (step qf s o))) l).
Proof.
  intros H. destruct o as [l0 t v | gid rules off lim | gid ts | gid ts]; cbn [step].
  - pose proof (st_append_keeps (s_store s) l0 t v x l H) as K.
    destruct (st_append (s_store s) l0 t v) as [st' r]. exact K.
  - exact H.
  - destruct (find_group (s_groups s) gid) as [g|]; auto.
    unfold group_eval.
    pose proof (eval_rules_keeps gid (s_store s) (ts - g_offset g) (g_limit g) 0 (g_rules g) x l H) as K.
    destruct (eval_rules qf gid (s_store s) (ts - g_offset g) (g_limit g) 0 (g_rules g)) as [[st1 rs] evs].
    pose proof (cleanup_keeps gid st1 (g_stale g) (ts - g_offset g) x l K) as K2.
    destruct (cleanup gid st1 (g_stale g) (ts - g_offset g)) as [st2 evc]. exact K2.
  - destruct (find_group (s_groups s) gid) as [g|]; auto.
    pose proof (cleanup_keeps gid (s_store s) (g_stale g ++ flat_map snd (g_rules g)) (ts - g_offset g) x l H) as K.
    destruct (cleanup gid (s_store s) (g_stale g ++ flat_map snd (g_rules g)) (ts - g_offset g)) as [st' evs]. exact K.
Qed.

Lemma run_from_keeps s ops x l :
  In x (samples (s_store s) l) -> In x (samples (s_store (fst (run_from qf s ops))) l).
Proof.
  revert s. induction ops as [|o ops IH]; intros s H; cbn [run_from]; auto.
  pose proof (step_keeps s o x l H) as K.
  destruct (step qf s o) as [s1 e1]. specialize (IH s1 K).
  destruct (run_from qf s1 ops) as [s2 e2]. exact IH.
Qed.

Lemma run_from_app s a b :
  run_from qf s (a ++ b) =
  let (s1, e1) := run_from qf s a in let (s2, e2) := run_from qf s1 b in (s2, e1 ++ e2).
Proof.
  revert s. induction a as [|o a IH]; intros s; cbn [app run_from].
  - destruct (run_from qf s b). reflexivity.
  - destruct (step qf s o) as [s1 e1]. rewrite IH.
    destruct (run_from qf s1 a) as [s2 e2]. destruct (run_from qf s2 b) as [s3 e3].
    rewrite app_assoc. reflexivity.
Qed.

Lemma history_append_only ops1 ops2 x l :
  In x (samples (s_store (fst (run qf ops1))) l) -> In x (samples (s_store (fst (run qf (ops1 ++ ops2)))) l).
Proof.
  unfold run. rewrite run_from_app. intros H.
  destruct (run_from qf init ops1) as [s1 e1].
  pose proof (run_from_keeps s1 ops2 x l H) as K.
  destruct (run_from qf s1 ops2) as [s2 e2]. exact K.
Qed.

End Main.

(* ------------------------------------------------------------------ batches respect dependencies *)
Definition before (bs : list (list nat)) (i j : nat) : Prop :=
  exists pre b mid c post, bs = pre ++ b :: mid ++ c :: post /\ In i b /\ In j c.

Lemma seq_split a n i : (a <= i < a + n)%nat ->
  seq a n = seq a (i - a) ++ i :: seq (S i) (a + n - S i).
Proof.
  intros H. replace n with ((i - a) + S (a + n - S i))%nat at 1 by lia.
  rewrite seq_app. f_equal. cbn [seq]. replace (a + (i - a))%nat with i by lia. reflexivity.
Qed.

Lemma filter_seq_split (P : nat -> bool) a n i : (a <= i < a + n)%nat -> P i = true ->
  filter P (seq a n) = filter P (seq a (i - a)) ++ i :: filter P (seq (S i) (a + n - S i)).
Proof.
  intros H Hp. rewrite (seq_split a n i H) at 1. rewrite filter_app. cbn [filter]. rewrite Hp. reflexivity.
Qed.

Lemma filter_seq_split2 (P : nat -> bool) n i j : (i < j < n)%nat -> P i = true -> P j = true ->
  exists m1 m2 m3, filter P (seq 0 n) = m1 ++ i :: m2 ++ j :: m3.
Proof.
  intros H Hi Hj.
  rewrite (filter_seq_split P 0 n i) by (auto; lia).
  rewrite (filter_seq_split P (S i) (0 + n - S i) j) by (auto; lia).
  do 3 eexists. reflexivity.
Qed.

Lemma nth_error_firstn_In {A} (l : list A) i j x : (i < j)%nat -> nth_error l i = Some x -> In x (firstn j l).
Proof.
  revert i j. induction l as [|y l IH]; intros i j Hlt H; [destruct i; discriminate|].
  destruct j; [lia|]. destruct i; cbn in *.
  - inversion H; auto.
  - right. eapply IH; eauto. lia.
Qed.

Lemma nth_error_skipn_In {A} (l : list A) i j x : (i < j)%nat -> nth_error l j = Some x -> In x (skipn (S i) l).
Proof.
  revert i j. induction l as [|y l IH]; intros i j Hlt H; [destruct j; discriminate|].
  destruct j; [lia|]. cbn in H. destruct i; cbn [skipn].
  - eapply nth_error_In; eauto.
  - apply (IH i j); [lia | exact H].
Qed.

Lemma one_batch_in b x : In x b -> one_batch b = [b].
Proof. destruct b; [intros []|reflexivity]. Qed.

Lemma batches_respect rules i j ri rj :
  (i < j)%nat -> nth_error rules i = Some ri -> nth_error rules j = Some rj -> dep_on rj ri = true ->
  before (split_batches rules) i j.
Proof.
  intros Hlt Hi Hj Hd.
  assert (Hjn : (j < length rules)%nat) by (apply nth_error_Some; congruence).
  assert (Dj : has_dependency rules j = true).
  { unfold has_dependency. rewrite Hj. apply existsb_exists. exists ri. split; auto.
    eapply nth_error_firstn_In; eauto. }
  assert (Ti : has_dependent rules i = true).
  { unfold has_dependent. rewrite Hi. apply existsb_exists. exists rj. split; auto.
    eapply nth_error_skipn_In; eauto. }
  assert (Ii : In i (seq 0 (length rules))) by (apply in_seq; lia).
  assert (Ij : In j (seq 0 (length rules))) by (apply in_seq; lia).
  unfold split_batches.
  set (idx := seq 0 (length rules)) in *.
  set (P0 := fun i => negb (has_dependency rules i)).
  set (P1 := fun i => has_dependency rules i && has_dependent rules i).
  set (P2 := fun i => has_dependency rules i && negb (has_dependent rules i)).
  destruct (has_dependency rules i) eqn:Di; destruct (has_dependent rules j) eqn:Tj.
  - (* both sequential *)
    destruct (filter_seq_split2 P1 (length rules) i j) as (m1 & m2 & m3 & E);
      [lia | unfold P1; rewrite Di, Ti; reflexivity | unfold P1; rewrite Dj, Tj; reflexivity |].
    unfold idx. rewrite E.
    exists (one_batch (filter P0 (seq 0 (length rules))) ++ map (fun i => [i]) m1), [i],
           (map (fun i => [i]) m2), [j],
           (map (fun i => [i]) m3 ++ one_batch (filter P2 (seq 0 (length rules)))).
    split; [|split; left; reflexivity].
    rewrite !map_app. cbn [map]. rewrite !map_app. cbn [map]. rewrite <- !app_assoc. cbn [app].
    rewrite <- !app_assoc. reflexivity.
  - (* i sequential, j in the last batch *)
    assert (I1 : In i (filter P1 idx)) by (apply filter_In; split; auto; unfold P1; rewrite Di, Ti; reflexivity).
    assert (I2 : In j (filter P2 idx)) by (apply filter_In; split; auto; unfold P2; rewrite Dj, Tj; reflexivity).
    destruct (in_split _ _ I1) as (m1 & m2 & E). rewrite E. rewrite (one_batch_in _ _ I2).
    exists (one_batch (filter P0 idx) ++ map (fun i => [i]) m1), [i], (map (fun i => [i]) m2), (filter P2 idx), [].
    split; [|split; [left; reflexivity | exact I2]].
    rewrite map_app. cbn [map]. rewrite <- !app_assoc. cbn [app]. reflexivity.
  - (* i in the first batch, j sequential *)
    assert (I0 : In i (filter P0 idx)) by (apply filter_In; split; auto; unfold P0; rewrite Di; reflexivity).
    assert (I1 : In j (filter P1 idx)) by (apply filter_In; split; auto; unfold P1; rewrite Dj, Tj; reflexivity).
    destruct (in_split _ _ I1) as (m1 & m2 & E). rewrite E. rewrite (one_batch_in _ _ I0).
    exists [], (filter P0 idx), (map (fun i => [i]) m1), [j], (map (fun i => [i]) m2 ++ one_batch (filter P2 idx)).
    split; [|split; [exact I0 | left; reflexivity]].
    rewrite map_app. cbn [map app]. rewrite <- !app_assoc. cbn [app]. reflexivity.
  - (* first and last batch *)
    assert (I0 : In i (filter P0 idx)) by (apply filter_In; split; auto; unfold P0; rewrite Di; reflexivity).
    assert (I2 : In j (filter P2 idx)) by (apply filter_In; split; auto; unfold P2; rewrite Dj, Tj; reflexivity).
    rewrite (one_batch_in _ _ I0), (one_batch_in _ _ I2).
    exists [], (filter P0 idx), (map (fun i => [i]) (filter P1 idx)), (filter P2 idx), [].
    split; [reflexivity | split; assumption].
Qed.

(* every rule is in exactly the batches' concatenation once: the batches are a partition *)
Lemma batches_cover rules i : (i < length rules)%nat -> In i (concat (split_batches rules)).
Proof.
  intros H. assert (Ii : In i (seq 0 (length rules))) by (apply in_seq; lia).
  unfold split_batches. rewrite !concat_app. apply in_or_app.
  destruct (has_dependency rules i) eqn:D.
  - right. apply in_or_app. destruct (has_dependent rules i) eqn:T.
    + left. apply in_concat. exists [i]. split; [|left; reflexivity].
      apply in_map with (f := fun i => [i]). apply filter_In. split; auto. rewrite D, T. reflexivity.
    + right. assert (I2 : In i (filter (fun i => has_dependency rules i && negb (has_dependent rules i)) (seq 0 (length rules))))
        by (apply filter_In; split; auto; rewrite D, T; reflexivity).
      rewrite (one_batch_in _ _ I2). cbn. rewrite app_nil_r. exact I2.
  - left. assert (I0 : In i (filter (fun i => negb (has_dependency rules i)) (seq 0 (length rules))))
      by (apply filter_In; split; auto; rewrite D; reflexivity).
    rewrite (one_batch_in _ _ I0). cbn. rewrite app_nil_r. exact I0.
Qed.

(* Int64.v — Go int64/uint64 arithmetic made explicit: wrap-around, truncating division. *)
From Coq Require Import ZArith Lia.
Open Scope Z_scope.

Definition minInt64 : Z := -9223372036854775808.
Definition maxInt64 : Z := 9223372036854775807.
Definition two64 : Z := 18446744073709551616.

Definition int64 (z : Z) : Prop := minInt64 <= z <= maxInt64.
Definition int64b (z : Z) : bool := (minInt64 <=? z) && (z <=? maxInt64).

(* two's complement wrap of an arbitrary integer into int64 *)
Definition wrap64 (z : Z) : Z := (z + 9223372036854775808) mod two64 - 9223372036854775808.
(* uint64 wrap *)
Definition u64 (z : Z) : Z := z mod two64.

Definition add64 (a b : Z) : Z := wrap64 (a + b).
Definition sub64 (a b : Z) : Z := wrap64 (a - b).
Definition neg64 (a : Z) : Z := wrap64 (- a).
Definition mul64 (a b : Z) : Z := wrap64 (a * b).

(* Go's / and % truncate toward zero: Z.quot / Z.rem, NOT Z.div / Z.modulo *)
Definition godiv (a b : Z) : Z := Z.quot a b.
Definition gorem (a b : Z) : Z := Z.rem a b.

Lemma wrap64_id z : int64 z -> wrap64 z = z.
Proof.
  unfold int64, wrap64, minInt64, maxInt64, two64. intros H.
  rewrite Z.mod_small by lia. lia.
Qed.

Lemma wrap64_range z : int64 (wrap64 z).
Proof.
  unfold int64, wrap64, minInt64, maxInt64, two64.
  pose proof (Z.mod_pos_bound (z + 9223372036854775808) 18446744073709551616 ltac:(lia)). lia.
Qed.

Lemma wrap64_idem z : wrap64 (wrap64 z) = wrap64 z.
Proof. apply wrap64_id, wrap64_range. Qed.

Lemma int64b_spec z : int64b z = true <-> int64 z.
Proof. unfold int64b, int64. rewrite Bool.andb_true_iff, !Z.leb_le. tauto. Qed.

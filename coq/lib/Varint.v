(* lib/Varint.v — base-128 varints as used by encoding/binary (PutUvarint/PutVarint) on the
   write side and github.com/dennwc/varint.Uvarint (an unrolled binary.Uvarint) on the read
   side, plus the varint-flavoured Decbuf/Encbuf methods of tsdb/encoding/encoding.go. *)
From Coq Require Import List NArith ZArith Lia Bool.
From Verif Require Import lib.Int64 lib.Bytes.
Import ListNotations.
Open Scope N_scope.

(* ---------------------------------------------------------------- uvarint *)
(* binary.PutUvarint:  for x >= 0x80 { buf[i] = byte(x)|0x80; x >>= 7; i++ }; buf[i] = byte(x).
   x is a uint64, so at most 10 bytes are produced (the size of Encbuf.C); fuel 10 is exact
   for x < 2^64 (lemma uv_enc_fuel_enough below: more fuel changes nothing). *)
Fixpoint uv_enc_fuel (fuel : nat) (x : N) : list N :=
  match fuel with
  | O => []
  | S f => if x <? 128 then [x] else (x mod 128 + 128) :: uv_enc_fuel f (x / 128)
  end.
Definition put_uvarint (x : N) : list N := uv_enc_fuel 10 x.

(* binary.Uvarint / dennwc varint.Uvarint, reduced to what Decbuf uses (value, n>=1) or failure
   (n<1: buffer too short, or more than 64 bits).  [n] = bytes still allowed (10 at the start),
   [s] = current shift, [acc] = bits so far.  `x | uint64(b)<<s` is written acc + b*2^s: the
   bits are disjoint (acc < 2^s).  The 10th byte may only be 0 or 1; a 10th byte with the
   continuation bit always ends in failure (overflow, or buffer exhausted). *)
Fixpoint uv_dec_aux (n : nat) (s acc : N) (bs : list N) : option (N * list N) :=
  match n with
  | O => None
  | S n' =>
      match bs with
      | [] => None
      | b :: r =>
          if b <? 128 then
            if Nat.eqb n' 0 && (1 <? b) then None else Some (acc + b * 2 ^ s, r)
          else uv_dec_aux n' (s + 7) (acc + (b - 128) * 2 ^ s) r
      end
  end.
Definition get_uvarint (bs : list N) : option (N * list N) := uv_dec_aux 10 0 0 bs.

(* ---------------------------------------------------------------- zig-zag *)
(* binary.PutVarint: ux := uint64(x) << 1; if x < 0 { ux = ^ux } *)
Definition zigzag (x : Z) : N := Z.to_N (if (x <? 0)%Z then (-2 * x - 1)%Z else (2 * x)%Z).
(* Decbuf.Varint64: x := int64(ux >> 1); if ux&1 != 0 { x = ^x } *)
Definition unzigzag (u : N) : Z := if N.even u then Z.of_N (u / 2) else (- Z.of_N (u / 2) - 1)%Z.

Definition put_varint (x : Z) : list N := put_uvarint (zigzag x).

(* ---------------------------------------------------------------- Encbuf / Decbuf methods *)
Definition put_uvarint_bytes (s : list N) : list N := put_uvarint (N.of_nat (length s)) ++ s.  (* PutUvarintStr/-Bytes *)

Definition d_uvarint64 : dec N :=                       (* Decbuf.Uvarint64 *)
  fun bs => match get_uvarint bs with Some (x, r) => Ok (x, r) | None => Err ESize end.
Definition d_varint64 : dec Z := dmap unzigzag d_uvarint64.   (* Decbuf.Varint64 *)
(* Decbuf.Uvarint: int(uint64) — values >= 2^63 become negative *)
Definition d_uvarint_int : dec Z := dmap to_i64 d_uvarint64.
(* Decbuf.Uvarint32: uint32(uint64) *)
Definition d_uvarint32 : dec N := dmap (fun x => x mod 4294967296) d_uvarint64.

(* Decbuf.UvarintBytes / UvarintStr:
     l := d.Uvarint64(); if len(d.B) < int(l) { E = ErrInvalidSize }; s := d.B[:l]
   int(l) is negative for l >= 2^63, the length check passes and the slice expression panics. *)
Definition d_uvarint_bytes : dec (list N) :=
  fun bs => match d_uvarint64 bs with
            | Err e => Err e
            | Ok (l, r) =>
                if 9223372036854775808 <=? l then Err EPanic
                else match take_bytes (N.to_nat l) r with
                     | Some (s, t) => Ok (s, t)
                     | None => Err ESize
                     end
            end.

(* ================================================================ lemmas *)
Ltac Zify.zify_post_hook ::= Z.to_euclidean_division_equations.

Lemma uv_enc_fuel_S f x :
  uv_enc_fuel (S f) x = if x <? 128 then [x] else (x mod 128 + 128) :: uv_enc_fuel f (x / 128).
Proof. reflexivity. Qed.

Lemma uv_dec_aux_cons n s acc b r :
  uv_dec_aux (S n) s acc (b :: r) =
  if b <? 128 then (if Nat.eqb n 0 && (1 <? b) then None else Some (acc + b * 2 ^ s, r))
  else uv_dec_aux n (s + 7) (acc + (b - 128) * 2 ^ s) r.
Proof. reflexivity. Qed.

Lemma uv_dec_enc : forall n x s acc rest,
  (n <= 9)%nat -> s = 7 * (9 - N.of_nat n) -> x * 2 ^ s < two64N ->
  uv_dec_aux (S n) s acc (uv_enc_fuel (S n) x ++ rest) = Some (acc + x * 2 ^ s, rest).
Proof.
  induction n as [|n IH]; intros x s acc rest Hn Hs Hx.
  - (* last byte: s = 63, x <= 1 *)
    simpl in Hs. subst s. unfold two64N in Hx.
    assert (x <= 1) by (change (2 ^ 63) with 9223372036854775808 in Hx; lia).
    rewrite uv_enc_fuel_S. destruct (x <? 128) eqn:E; [|apply N.ltb_ge in E; lia].
    cbn [app]. rewrite uv_dec_aux_cons, E. cbn [Nat.eqb andb].
    destruct (1 <? x) eqn:E1; [apply N.ltb_lt in E1; lia|]. reflexivity.
  - rewrite uv_enc_fuel_S. destruct (x <? 128) eqn:E.
    + cbn [app]. rewrite uv_dec_aux_cons, E. cbn [Nat.eqb andb]. reflexivity.
    + apply N.ltb_ge in E.
      cbn [app]. rewrite uv_dec_aux_cons.
      assert (Hb : (x mod 128 + 128 <? 128) = false) by (apply N.ltb_ge; lia).
      rewrite Hb.
      replace (x mod 128 + 128 - 128) with (x mod 128) by lia.
      assert (Hs' : s + 7 = 7 * (9 - N.of_nat n)) by lia.
      assert (Hpow : 2 ^ (s + 7) = 2 ^ s * 128) by (rewrite N.pow_add_r; reflexivity).
      pose proof (N.div_mod x 128 ltac:(discriminate)) as Hdm.
      pose proof (N.mod_lt x 128 ltac:(discriminate)) as Hml.
      set (q := x / 128) in *. set (m := x mod 128) in *. set (p := 2 ^ s) in *.
      rewrite IH; [| lia | exact Hs' | ].
      * f_equal. f_equal. rewrite Hpow. fold p. nia.
      * rewrite Hpow. fold p. nia.
Qed.

Lemma get_put_uvarint x rest : u64_ok x -> get_uvarint (put_uvarint x ++ rest) = Some (x, rest).
Proof.
  intros H. unfold get_uvarint, put_uvarint.
  rewrite (uv_dec_enc 9 x 0 0 rest); [| lia | reflexivity | ].
  - f_equal. f_equal. change (2 ^ 0) with 1. lia.
  - change (2 ^ 0) with 1. unfold u64_ok in H. lia.
Qed.

Lemma d_uvarint64_put x rest : u64_ok x -> d_uvarint64 (put_uvarint x ++ rest) = Ok (x, rest).
Proof. intros H. unfold d_uvarint64. rewrite get_put_uvarint by exact H. reflexivity. Qed.

Lemma uv_enc_fuel_nonempty f x : uv_enc_fuel (S f) x <> [].
Proof. simpl. destruct (x <? 128); discriminate. Qed.

Lemma put_uvarint_nonempty x : put_uvarint x <> [].
Proof. apply uv_enc_fuel_nonempty. Qed.

(* more fuel than 10 changes nothing for a uint64: the fuel is not a restriction *)
Lemma uv_enc_fuel_enough : forall f x k, x < 128 ^ N.of_nat f -> (0 < f)%nat ->
  uv_enc_fuel (f + k) x = uv_enc_fuel f x.
Proof.
  induction f as [|f IH]; intros x k Hx Hf; [lia|].
  cbn [uv_enc_fuel Nat.add]. destruct (x <? 128) eqn:E; [reflexivity|].
  apply N.ltb_ge in E. f_equal.
  rewrite Nnat.Nat2N.inj_succ, N.pow_succ_r' in Hx.
  assert (Hd : x / 128 < 128 ^ N.of_nat f) by (apply N.div_lt_upper_bound; [discriminate | exact Hx]).
  destruct f as [|f']; [simpl in Hd; assert (x / 128 = 0) by lia;
                        assert (x < 128) by (apply N.div_small_iff in H; [exact H|discriminate]); lia|].
  apply IH; [exact Hd | lia].
Qed.

Lemma put_uvarint_fuel_irrelevant x k : u64_ok x -> uv_enc_fuel (10 + k) x = put_uvarint x.
Proof.
  intros H. unfold put_uvarint. apply uv_enc_fuel_enough; [|lia].
  unfold u64_ok, two64N in H. change (128 ^ N.of_nat 10) with 1180591620717411303424. lia.
Qed.

(* ---- zig-zag *)
Lemma zigzag_ok x : int64 x -> u64_ok (zigzag x).
Proof.
  unfold int64, minInt64, maxInt64, u64_ok, two64N, zigzag. intros H.
  destruct (x <? 0)%Z eqn:E; [apply Z.ltb_lt in E | apply Z.ltb_ge in E]; lia.
Qed.

Lemma unzigzag_zigzag x : unzigzag (zigzag x) = x.
Proof.
  unfold unzigzag, zigzag.
  destruct (x <? 0)%Z eqn:E; [apply Z.ltb_lt in E | apply Z.ltb_ge in E].
  - set (a := Z.to_N (- x - 1)).
    replace (Z.to_N (-2 * x - 1)) with (1 + 2 * a) by (unfold a; lia).
    rewrite N.even_add_mul_2. cbn [N.even].
    replace ((1 + 2 * a) / 2) with a.
    + unfold a. lia.
    + apply N.div_unique with (r := 1); lia.
  - set (a := Z.to_N x).
    replace (Z.to_N (2 * x)) with (0 + 2 * a) by (unfold a; lia).
    rewrite N.even_add_mul_2. cbn [N.even].
    replace ((0 + 2 * a) / 2) with a.
    + unfold a. lia.
    + apply N.div_unique with (r := 0); lia.
Qed.

Lemma d_varint64_put x rest : int64 x -> d_varint64 (put_varint x ++ rest) = Ok (x, rest).
Proof.
  intros H. unfold d_varint64, dmap, dbind, put_varint.
  rewrite d_uvarint64_put by (apply zigzag_ok; exact H).
  unfold dret. rewrite unzigzag_zigzag. reflexivity.
Qed.

Lemma put_varint_nonempty x : put_varint x <> [].
Proof. apply put_uvarint_nonempty. Qed.

Lemma d_uvarint_int_put x rest : x < 9223372036854775808 ->
  d_uvarint_int (put_uvarint x ++ rest) = Ok (Z.of_N x, rest).
Proof.
  intros H. unfold d_uvarint_int, dmap, dbind.
  rewrite d_uvarint64_put by (unfold u64_ok, two64N; lia).
  unfold dret. f_equal. f_equal. unfold to_i64. apply wrap64_id.
  unfold int64, minInt64, maxInt64. lia.
Qed.

Lemma d_uvarint32_put x rest : x < 4294967296 -> d_uvarint32 (put_uvarint x ++ rest) = Ok (x, rest).
Proof.
  intros H. unfold d_uvarint32, dmap, dbind.
  rewrite d_uvarint64_put by (unfold u64_ok, two64N; lia).
  unfold dret. rewrite N.mod_small by exact H. reflexivity.
Qed.

Lemma d_uvarint_bytes_put s rest : N.of_nat (length s) < 9223372036854775808 ->
  d_uvarint_bytes (put_uvarint_bytes s ++ rest) = Ok (s, rest).
Proof.
  intros H. unfold d_uvarint_bytes, put_uvarint_bytes. rewrite <- app_assoc.
  rewrite d_uvarint64_put by (unfold u64_ok, two64N; lia).
  destruct (9223372036854775808 <=? N.of_nat (length s)) eqn:E; [apply N.leb_le in E; lia|].
  rewrite Nnat.Nat2N.id, take_bytes_app. reflexivity.
Qed.

Lemma put_uvarint_bytes_nonempty s : put_uvarint_bytes s <> [].
Proof.
  unfold put_uvarint_bytes. pose proof (put_uvarint_nonempty (N.of_nat (length s))).
  destruct (put_uvarint (N.of_nat (length s))); [congruence | discriminate].
Qed.

(* lib/Bits.v — bit streams as [list bool] (first element = first bit written = most
   significant bit of the first byte), n-bit big-endian fields, byte packing, and the
   leading/trailing-zero counts of 64-bit patterns.  Executable definitions and their
   round-trip lemmas (shared by C10, C11). *)
From Coq Require Import List ZArith Lia Bool.
Import ListNotations.
Open Scope Z_scope.

Definition bits := list bool.

(* ---- n-bit fields ------------------------------------------------------------------ *)

(* the n right-most bits of x (two's complement for negative x), most significant first:
   bstream.writeBits(u, n) *)
Fixpoint put_bits (n : nat) (x : Z) : bits :=
  match n with
  | O => []
  | S n' => Z.testbit x (Z.of_nat n') :: put_bits n' x
  end.

Fixpoint get_bits_acc (n : nat) (bs : bits) (acc : Z) : option (Z * bits) :=
  match n with
  | O => Some (acc, bs)
  | S n' => match bs with
            | [] => None                                  (* io.EOF *)
            | b :: r => get_bits_acc n' r (2 * acc + Z.b2z b)
            end
  end.

(* bstreamReader.readBits(n): an unsigned n-bit number, or None at end of stream *)
Definition get_bits (n : nat) (bs : bits) : option (Z * bits) := get_bits_acc n bs 0.

Definition get_bit (bs : bits) : option (bool * bits) :=
  match bs with [] => None | b :: r => Some (b, r) end.

Lemma put_bits_length n x : length (put_bits n x) = n.
Proof. induction n; cbn [put_bits length]; congruence. Qed.

Lemma mod_pow2_succ x n : 0 <= n ->
  x mod 2 ^ (n + 1) = Z.b2z (Z.testbit x n) * 2 ^ n + x mod 2 ^ n.
Proof.
  intros Hn. rewrite Z.pow_add_r, Z.pow_1_r by lia.
  rewrite Z.rem_mul_r by lia. rewrite Z.testbit_spec' by lia. lia.
Qed.

Lemma get_put_acc n : forall x r acc,
  get_bits_acc n (put_bits n x ++ r) acc = Some (acc * 2 ^ Z.of_nat n + x mod 2 ^ Z.of_nat n, r).
Proof.
  induction n as [|n IH]; intros x r acc.
  - cbn [put_bits get_bits_acc app]. change (Z.of_nat 0) with 0. rewrite Z.pow_0_r, Z.mod_1_r. f_equal. f_equal. lia.
  - cbn [put_bits get_bits_acc app]. rewrite IH. f_equal. f_equal.
    rewrite Nat2Z.inj_succ. unfold Z.succ. rewrite (mod_pow2_succ x (Z.of_nat n)) by lia.
    rewrite Z.pow_add_r, Z.pow_1_r by lia. lia.
Qed.

(* reading back an n-bit field yields the written number modulo 2^n *)
Lemma get_put_mod n x r : get_bits n (put_bits n x ++ r) = Some (x mod 2 ^ Z.of_nat n, r).
Proof. unfold get_bits. rewrite get_put_acc. f_equal. Qed.

Lemma get_put n x r : 0 <= x < 2 ^ Z.of_nat n -> get_bits n (put_bits n x ++ r) = Some (x, r).
Proof. intros H. rewrite get_put_mod, Z.mod_small by lia. reflexivity. Qed.

Lemma get_bits_acc_range n : forall bs acc v r, 0 <= acc ->
  get_bits_acc n bs acc = Some (v, r) -> acc * 2 ^ Z.of_nat n <= v < (acc + 1) * 2 ^ Z.of_nat n.
Proof.
  induction n as [|n IH]; intros bs acc v r Ha H.
  - cbn in H. inversion H; subst. change (Z.of_nat 0) with 0. rewrite Z.pow_0_r. lia.
  - cbn [get_bits_acc] in H. destruct bs as [|b bs]; [discriminate|].
    apply IH in H; [|destruct b; cbn [Z.b2z]; lia].
    rewrite Nat2Z.inj_succ. unfold Z.succ. rewrite Z.pow_add_r, Z.pow_1_r by lia.
    assert (Hp : 0 < 2 ^ Z.of_nat n) by (apply Z.pow_pos_nonneg; lia).
    destruct b; cbn [Z.b2z] in H; nia.
Qed.

Lemma get_bits_range n bs v r : get_bits n bs = Some (v, r) -> 0 <= v < 2 ^ Z.of_nat n.
Proof. unfold get_bits. intros H. apply get_bits_acc_range in H; lia. Qed.

(* ---- bytes <-> bits ---------------------------------------------------------------- *)

Definition unpack_bytes (bs : list Z) : bits := flat_map (put_bits 8) bs.

Definition byte_of_bits (bs : bits) : Z :=
  fold_left (fun acc (b : bool) => 2 * acc + Z.b2z b) bs 0.

(* bits -> bytes, the last byte padded with zero bits (what bstream leaves there) *)
Fixpoint pack_bits (bs : bits) : list Z :=
  match bs with
  | b7 :: b6 :: b5 :: b4 :: b3 :: b2 :: b1 :: b0 :: r =>
      byte_of_bits [b7; b6; b5; b4; b3; b2; b1; b0] :: pack_bits r
  | [] => []
  | _ => [byte_of_bits (firstn 8 (bs ++ repeat false 7))]
  end.

(* zero padding up to the next byte boundary: what "count = 0" on a reloaded chunk means *)
Definition pad8 (bs : bits) : bits :=
  bs ++ repeat false (Nat.modulo (8 - Nat.modulo (length bs) 8) 8).

Lemma put8_byte_of b7 b6 b5 b4 b3 b2 b1 b0 :
  put_bits 8 (byte_of_bits [b7;b6;b5;b4;b3;b2;b1;b0]) = [b7;b6;b5;b4;b3;b2;b1;b0].
Proof. destruct b7, b6, b5, b4, b3, b2, b1, b0; reflexivity. Qed.

Lemma unpack_pack_len : forall n bs, (length bs <= n)%nat ->
  exists pad, unpack_bytes (pack_bits bs) = bs ++ pad /\ Forall (fun b => b = false) pad.
Proof.
  induction n as [|n IH]; intros bs Hl.
  - destruct bs; [|cbn in Hl; lia]. exists []. split; [reflexivity|constructor].
  - destruct bs as [|b7 [|b6 [|b5 [|b4 [|b3 [|b2 [|b1 [|b0 r]]]]]]]].
    + exists []. split; [reflexivity|constructor].
    + exists (repeat false 7). split; [|repeat constructor].
      cbn [pack_bits firstn app repeat unpack_bytes flat_map]. rewrite put8_byte_of. reflexivity.
    + exists (repeat false 6). split; [|repeat constructor].
      cbn [pack_bits firstn app repeat unpack_bytes flat_map]. rewrite put8_byte_of. reflexivity.
    + exists (repeat false 5). split; [|repeat constructor].
      cbn [pack_bits firstn app repeat unpack_bytes flat_map]. rewrite put8_byte_of. reflexivity.
    + exists (repeat false 4). split; [|repeat constructor].
      cbn [pack_bits firstn app repeat unpack_bytes flat_map]. rewrite put8_byte_of. reflexivity.
    + exists (repeat false 3). split; [|repeat constructor].
      cbn [pack_bits firstn app repeat unpack_bytes flat_map]. rewrite put8_byte_of. reflexivity.
    + exists (repeat false 2). split; [|repeat constructor].
      cbn [pack_bits firstn app repeat unpack_bytes flat_map]. rewrite put8_byte_of. reflexivity.
    + exists (repeat false 1). split; [|repeat constructor].
      cbn [pack_bits firstn app repeat unpack_bytes flat_map]. rewrite put8_byte_of. reflexivity.
    + destruct (IH r) as [pad [Hp Hz]]; [cbn [length] in Hl; lia|].
      exists pad. split; [|exact Hz].
      cbn [pack_bits unpack_bytes flat_map]. fold (unpack_bytes (pack_bits r)).
      rewrite Hp, put8_byte_of. reflexivity.
Qed.

(* unpacking the packed bytes gives the bits back, followed by zero padding *)
Lemma unpack_pack bs :
  exists pad, unpack_bytes (pack_bits bs) = bs ++ pad /\ Forall (fun b => b = false) pad.
Proof. apply (unpack_pack_len (length bs)). lia. Qed.

(* ---- leading / trailing zeros of a 64-bit pattern ---------------------------------- *)

Fixpoint tz_pos (p : positive) : Z :=
  match p with xO p' => 1 + tz_pos p' | _ => 0 end.

(* bits.TrailingZeros64 / bits.LeadingZeros64 for 0 <= d < 2^64 *)
Definition tz64 (d : Z) : Z := match d with Zpos p => tz_pos p | _ => 64 end.
Definition lz64 (d : Z) : Z := match d with Zpos _ => 63 - Z.log2 d | _ => 64 end.

Lemma tz_pos_nonneg p : 0 <= tz_pos p.
Proof. induction p; cbn [tz_pos]; lia. Qed.

Lemma tz_pos_divide p : exists q, Zpos p = q * 2 ^ tz_pos p /\ 0 < q.
Proof.
  induction p as [p IH|p IH|].
  - exists (Zpos p~1). cbn [tz_pos]. rewrite Z.pow_0_r. lia.
  - destruct IH as [q [Hq Hp]]. exists q. cbn [tz_pos].
    pose proof (tz_pos_nonneg p). rewrite Z.pow_add_r by lia.
    change (Z.pos p~0) with (2 * Z.pos p). rewrite Hq. rewrite Z.pow_1_r. lia.
  - exists 1. cbn [tz_pos]. rewrite Z.pow_0_r. lia.
Qed.

(* shifting right then left by at most the number of trailing zeros restores the number *)
Lemma shiftr_shiftl_tz d k : 0 < d -> 0 <= k <= tz64 d -> Z.shiftl (Z.shiftr d k) k = d.
Proof.
  intros Hd Hk. destruct d as [|p|p]; try lia. cbn [tz64] in Hk.
  destruct (tz_pos_divide p) as [q [Hq Hq0]].
  rewrite Z.shiftr_div_pow2, Z.shiftl_mul_pow2 by lia.
  assert (He : 2 ^ tz_pos p = 2 ^ (tz_pos p - k) * 2 ^ k) by (rewrite <- Z.pow_add_r by lia; f_equal; lia).
  rewrite Hq, He, Z.mul_assoc, Z.div_mul by (apply Z.pow_nonzero; lia). reflexivity.
Qed.

Lemma lz64_bound d : 0 < d < 2 ^ 64 -> 0 <= lz64 d <= 63 /\ d < 2 ^ (64 - lz64 d).
Proof.
  intros Hd. destruct d as [|p|p]; try lia. cbn [lz64].
  pose proof (Z.log2_spec (Zpos p) ltac:(lia)) as [Hlo Hhi].
  assert (Z.log2 (Z.pos p) < 64) by (apply Z.log2_lt_pow2; lia).
  pose proof (Z.log2_nonneg (Z.pos p)).
  split; [lia|]. replace (64 - (63 - Z.log2 (Z.pos p))) with (Z.succ (Z.log2 (Z.pos p))) by lia. exact Hhi.
Qed.

Lemma tz64_bound d : 0 < d < 2 ^ 64 -> 0 <= tz64 d /\ lz64 d + tz64 d <= 63.
Proof.
  intros Hd. destruct d as [|p|p]; try lia. cbn [tz64 lz64].
  pose proof (tz_pos_nonneg p). split; [lia|].
  destruct (tz_pos_divide p) as [q [Hq Hq0]].
  assert (2 ^ tz_pos p <= Z.pos p) by nia.
  assert (tz_pos p <= Z.log2 (Z.pos p)) by (apply Z.log2_le_pow2; lia). lia.
Qed.

(* d shifted right by k <= tz fits in 64 - l - k bits whenever l <= lz *)
Lemma shiftr_fits d l k : 0 < d < 2 ^ 64 -> 0 <= l <= lz64 d -> 0 <= k <= tz64 d ->
  0 <= Z.shiftr d k < 2 ^ (64 - l - k).
Proof.
  intros Hd Hl Hk. pose proof (lz64_bound d Hd) as [Hlz Hlt]. pose proof (tz64_bound d Hd) as [Htz Hsum].
  rewrite Z.shiftr_div_pow2 by lia.
  assert (Hp : 0 < 2 ^ k) by (apply Z.pow_pos_nonneg; lia).
  split; [apply Z.div_pos; lia|].
  apply Z.div_lt_upper_bound; [lia|]. rewrite <- Z.pow_add_r by lia.
  replace (k + (64 - l - k)) with (64 - l) by lia.
  eapply Z.lt_le_trans; [exact Hlt|]. apply Z.pow_le_mono_r; lia.
Qed.

(* lib/RegexProofs.v — the derivative matcher of lib/Regex.v decides the denotation CM. *)
From Coq Require Import List ZArith Bool Lia.
From Verif Require Import lib.Regex.
Import ListNotations.
Open Scope Z_scope.

Section Proofs.
Variable F : rune -> rune -> bool.
Notation CM := (CM F).
Notation deriv := (deriv F).
Notation cmatch := (cmatch F).

(* ---- inversion lemmas *)
Lemma CM_none_inv b e s : CM b e CNone s -> False.
Proof. inversion 1. Qed.
Lemma CM_eps_inv b e s : CM b e CEps s -> s = [].
Proof. inversion 1; auto. Qed.
Lemma CM_beg_inv b e s : CM b e CBeg s -> s = [] /\ b = true.
Proof. inversion 1; auto. Qed.
Lemma CM_end_inv b e s : CM b e CEnd s -> s = [] /\ e = true.
Proof. inversion 1; auto. Qed.
Lemma CM_chr_inv b e p s : CM b e (CChr p) s -> exists c, s = [c] /\ cp_match F p c = true.
Proof. inversion 1; subst; eauto. Qed.
Lemma CM_cat_inv b e x y s : CM b e (CCat x y) s ->
  exists s1 s2, s = s1 ++ s2 /\ CM b (e && isnil s2) x s1 /\ CM (b && isnil s1) e y s2.
Proof. inversion 1; subst; eauto. Qed.
Lemma CM_alt_inv b e x y s : CM b e (CAlt x y) s -> CM b e x s \/ CM b e y s.
Proof. inversion 1; subst; auto. Qed.
Lemma CM_star_inv b e x s : CM b e (CStar x) s ->
  s = [] \/ exists s1 s2, s = s1 ++ s2 /\ s1 <> [] /\ CM b (e && isnil s2) x s1 /\ CM false e (CStar x) s2.
Proof. inversion 1; subst; auto. right; eauto 8. Qed.

Ltac cat_intro := apply CM_cat; simpl; rewrite ?andb_true_r, ?andb_false_r; auto.

(* ---- nullable *)
Lemma nullable_spec : forall r b e, nullable b e r = true <-> CM b e r [].
Proof.
  induction r; intros b e; simpl.
  - split; [discriminate | intros H; destruct (CM_none_inv _ _ _ H)].
  - split; [constructor | auto].
  - split; [intros ->; constructor | intros H; apply CM_beg_inv in H; tauto].
  - split; [intros ->; constructor | intros H; apply CM_end_inv in H; tauto].
  - split; [discriminate | intros H; apply CM_chr_inv in H; destruct H as (c & Hc & _); discriminate].
  - rewrite andb_true_iff, IHr1, IHr2. split.
    + intros [H1 H2]. change (@nil rune) with (@nil rune ++ []).
      cat_intro.
    + intros H. apply CM_cat_inv in H. destruct H as (s1 & s2 & Hs & H1 & H2).
      symmetry in Hs. apply app_eq_nil in Hs. destruct Hs; subst. simpl in *.
      rewrite andb_true_r in *. auto.
  - rewrite orb_true_iff, IHr1, IHr2. split.
    + intros [H | H]; [apply CM_altl | apply CM_altr]; auto.
    + apply CM_alt_inv.
  - split; [constructor | auto].
Qed.

(* ---- smart constructors *)
Lemma CM_cat_none_l b e y s : CM b e (CCat CNone y) s -> False.
Proof. intros H. apply CM_cat_inv in H. destruct H as (? & ? & _ & H & _). inversion H. Qed.
Lemma CM_cat_none_r b e x s : CM b e (CCat x CNone) s -> False.
Proof. intros H. apply CM_cat_inv in H. destruct H as (? & ? & _ & _ & H). inversion H. Qed.
Lemma CM_cat_eps_l b e y s : CM b e (CCat CEps y) s <-> CM b e y s.
Proof.
  split.
  - intros H. apply CM_cat_inv in H. destruct H as (s1 & s2 & -> & H1 & H2).
    apply CM_eps_inv in H1. subst. simpl in *. now rewrite andb_true_r in H2.
  - intros H. change s with ([] ++ s). cat_intro. constructor.
Qed.

Lemma mk_cat_spec b e x y s : CM b e (mk_cat x y) s <-> CM b e (CCat x y) s.
Proof.
  assert (N : forall z, CM b e CNone s <-> CM b e (CCat z CNone) s).
  { intros z. split; intros H; [inversion H | destruct (CM_cat_none_r _ _ _ _ H)]. }
  destruct x; simpl.
  - split; intros H; [inversion H | destruct (CM_cat_none_l _ _ _ _ H)].
  - destruct y; symmetry; apply CM_cat_eps_l.
  - destruct y; try reflexivity; apply N.
  - destruct y; try reflexivity; apply N.
  - destruct y; try reflexivity; apply N.
  - destruct y; try reflexivity; apply N.
  - destruct y; try reflexivity; apply N.
  - destruct y; try reflexivity; apply N.
Qed.

Lemma mk_alt_spec b e x y s : CM b e (mk_alt x y) s <-> CM b e (CAlt x y) s.
Proof.
  assert (N : forall z, CM b e z s <-> CM b e (CAlt z CNone) s).
  { intros z. split; intros H; [now apply CM_altl | apply CM_alt_inv in H; destruct H as [H | H]; [auto | inversion H]]. }
  destruct x; simpl.
  - split; intros H; [now apply CM_altr | apply CM_alt_inv in H; destruct H as [H | H]; [inversion H | auto]].
  - destruct y; try reflexivity; apply N.
  - destruct y; try reflexivity; apply N.
  - destruct y; try reflexivity; apply N.
  - destruct y; try reflexivity; apply N.
  - destruct y; try reflexivity; apply N.
  - destruct y; try reflexivity; apply N.
  - destruct y; try reflexivity; apply N.
Qed.

(* ---- derivative *)
Lemma deriv_spec : forall r b e c s, CM false e (deriv b c r) s <-> CM b e r (c :: s).
Proof.
  induction r; intros b e c s; simpl.
  - split; intros H; inversion H.
  - split; intros H; inversion H.
  - split; intros H; inversion H.
  - split; intros H; inversion H.
  - destruct (cp_match F p c) eqn:E.
    + split; intros H.
      * apply CM_eps_inv in H. subst. now constructor.
      * apply CM_chr_inv in H. destruct H as (c' & Hc & _). inversion Hc; subst. constructor.
    + split; intros H.
      * inversion H.
      * apply CM_chr_inv in H. destruct H as (c' & Hc & Hm). inversion Hc; subst. congruence.
  - rewrite mk_alt_spec. split; intros H.
    + apply CM_alt_inv in H. destruct H as [H | H].
      * apply mk_cat_spec in H. apply CM_cat_inv in H. destruct H as (s1 & s2 & -> & H1 & H2).
        apply IHr1 in H1. simpl in H2.
        change (c :: s1 ++ s2) with ((c :: s1) ++ s2).
        cat_intro.
      * destruct (nullable b false r1) eqn:N; [| inversion H].
        apply IHr2 in H. apply nullable_spec in N.
        change (c :: s) with ([] ++ c :: s).
        cat_intro.
    + apply CM_cat_inv in H. destruct H as (s1 & s2 & Hs & H1 & H2).
      destruct s1 as [| c1 s1]; simpl in Hs.
      * subst s2. simpl in *. rewrite andb_false_r in H1. rewrite andb_true_r in H2.
        apply CM_altr. apply nullable_spec in H1. rewrite H1. now apply IHr2.
      * inversion Hs; subst. apply CM_altl. apply mk_cat_spec.
        simpl in H2. rewrite andb_false_r in H2.
        cat_intro. now apply IHr1.
  - rewrite mk_alt_spec. split; intros H.
    + apply CM_alt_inv in H. destruct H as [H | H]; [apply CM_altl; now apply IHr1 | apply CM_altr; now apply IHr2].
    + apply CM_alt_inv in H. destruct H as [H | H]; [apply CM_altl; now apply IHr1 | apply CM_altr; now apply IHr2].
  - rewrite mk_cat_spec. split; intros H.
    + apply CM_cat_inv in H. destruct H as (s1 & s2 & -> & H1 & H2).
      apply IHr in H1. simpl in H2.
      change (c :: s1 ++ s2) with ((c :: s1) ++ s2).
      apply CM_star1; auto. discriminate.
    + apply CM_star_inv in H. destruct H as [H | (s1 & s2 & Hs & Hn & H1 & H2)]; [discriminate |].
      destruct s1 as [| c1 s1]; [congruence |]. inversion Hs; subst.
      cat_intro. now apply IHr.
Qed.

Theorem cmatch_spec : forall s r b, cmatch b r s = true <-> CM b true r s.
Proof.
  induction s as [| c s IH]; intros r b; simpl.
  - apply nullable_spec.
  - rewrite IH. apply deriv_spec.
Qed.

(* the reference matcher decides the anchored meaning of the syntax tree *)
Theorem re_match_correct : forall r s, re_match F r s = true <-> Matches F r s.
Proof. intros. apply cmatch_spec. Qed.

End Proofs.

(* lib/Regex.v — regular expressions as Go's regexp/syntax produces them after
   Parse(Perl|DotNL) (the tree labels.NewFastRegexMatcher works on), their meaning, and an
   executable reference matcher (Brzozowski derivatives with begin/end-of-text awareness).
   Definitions only; the correctness proof of the matcher is in lib/RegexProofs.v.

   Strings are lists of runes (Unicode code points, Z); i.e. valid UTF-8 only.
   Unicode simple case folding is a parameter [F : rune -> rune -> bool] ("a and b are
   different runes of one folding orbit"); the harness tabulates the orbits per case. *)
From Coq Require Import List ZArith Bool.
Import ListNotations.
Open Scope Z_scope.

Definition rune := Z.
Definition str := list rune.

(* ---- the syntax tree (regexp/syntax.Regexp; only what matters for matching).
   [fold] is the FoldCase flag of the node (the code reads it on literals, classes and empty
   matches). Classes are lists of inclusive ranges (Go: flat pairs in Regexp.Rune).
   Not represented: line anchors, word boundaries (never generated). *)
Inductive re :=
| RNoMatch
| REmpty (fold : bool)
| RLit (fold : bool) (rs : str)
| RClass (fold : bool) (rg : list (rune * rune))
| RAny
| RAnyNotNL
| RBeginText
| REndText
| RCapture (r : re)
| RStar (r : re)
| RPlus (r : re)
| RQuest (r : re)
| RRepeat (mn mx : Z) (r : re)      (* mx = -1: unbounded *)
| RConcat (l : list re)
| RAlt (l : list re).

(* ---- core regular expressions over rune predicates *)
Inductive cpred :=
| PLit (fold : bool) (r : rune)
| PClass (rg : list (rune * rune))
| PAny
| PNotNL.

Inductive cre :=
| CNone | CEps | CBeg | CEnd
| CChr (p : cpred)
| CCat (a b : cre)
| CAlt (a b : cre)
| CStar (a : cre).

Definition isnil {A} (l : list A) : bool := match l with [] => true | _ => false end.

Definition in_ranges (rg : list (rune * rune)) (c : rune) : bool :=
  existsb (fun p => (fst p <=? c) && (c <=? snd p)) rg.

Section Fold.
Variable F : rune -> rune -> bool.

(* equal under simple case folding *)
Definition feq (a b : rune) : bool := (a =? b) || F a b.

Definition cp_match (p : cpred) (c : rune) : bool :=
  match p with
  | PLit f r => (r =? c) || (f && F r c)
  | PClass rg => in_ranges rg c
  | PAny => true
  | PNotNL => negb (c =? 10)
  end.

(* [CM b e r s]: r matches exactly s, where b = "s starts at the beginning of the text" and
   e = "s ends at the end of the text". *)
Inductive CM : bool -> bool -> cre -> str -> Prop :=
| CM_eps : forall b e, CM b e CEps []
| CM_beg : forall e, CM true e CBeg []
| CM_end : forall b, CM b true CEnd []
| CM_chr : forall b e p c, cp_match p c = true -> CM b e (CChr p) [c]
| CM_cat : forall b e r1 r2 s1 s2,
    CM b (e && isnil s2) r1 s1 -> CM (b && isnil s1) e r2 s2 -> CM b e (CCat r1 r2) (s1 ++ s2)
| CM_altl : forall b e r1 r2 s, CM b e r1 s -> CM b e (CAlt r1 r2) s
| CM_altr : forall b e r1 r2 s, CM b e r2 s -> CM b e (CAlt r1 r2) s
| CM_star0 : forall b e r, CM b e (CStar r) []
| CM_star1 : forall b e r s1 s2, s1 <> [] ->
    CM b (e && isnil s2) r s1 -> CM false e (CStar r) s2 -> CM b e (CStar r) (s1 ++ s2).

(* ---- derivative matcher *)
Fixpoint nullable (b e : bool) (r : cre) : bool :=
  match r with
  | CNone => false
  | CEps => true
  | CBeg => b
  | CEnd => e
  | CChr _ => false
  | CCat x y => nullable b e x && nullable b e y
  | CAlt x y => nullable b e x || nullable b e y
  | CStar _ => true
  end.

Definition mk_cat (x y : cre) : cre :=
  match x, y with
  | CNone, _ => CNone
  | _, CNone => CNone
  | CEps, _ => y
  | _, _ => CCat x y
  end.

Definition mk_alt (x y : cre) : cre :=
  match x, y with
  | CNone, _ => y
  | _, CNone => x
  | _, _ => CAlt x y
  end.

(* derivative by rune c; b = "c is the first rune of the text" *)
Fixpoint deriv (b : bool) (c : rune) (r : cre) : cre :=
  match r with
  | CNone | CEps | CBeg | CEnd => CNone
  | CChr p => if cp_match p c then CEps else CNone
  | CCat x y => mk_alt (mk_cat (deriv b c x) y) (if nullable b false x then deriv b c y else CNone)
  | CAlt x y => mk_alt (deriv b c x) (deriv b c y)
  | CStar x => mk_cat (deriv b c x) (CStar x)
  end.

Fixpoint cmatch (b : bool) (r : cre) (s : str) : bool :=
  match s with
  | [] => nullable b true r
  | c :: t => cmatch false (deriv b c r) t
  end.

(* ---- meaning of the syntax tree: lowering to the core *)
Fixpoint ccat_list (l : list cre) : cre :=
  match l with [] => CEps | x :: t => CCat x (ccat_list t) end.
Fixpoint calt_list (l : list cre) : cre :=
  match l with [] => CNone | x :: t => CAlt x (calt_list t) end.
Fixpoint crep (n : nat) (x : cre) : cre :=
  match n with O => CEps | S k => CCat x (crep k x) end.
(* at most n copies: (x(x(...)?)?)? *)
Fixpoint copt (n : nat) (x : cre) : cre :=
  match n with O => CEps | S k => CAlt CEps (CCat x (copt k x)) end.

Fixpoint lower (r : re) : cre :=
  match r with
  | RNoMatch => CNone
  | REmpty _ => CEps
  | RLit f rs => ccat_list (map (fun c => CChr (PLit f c)) rs)
  | RClass _ rg => CChr (PClass rg)
  | RAny => CChr PAny
  | RAnyNotNL => CChr PNotNL
  | RBeginText => CBeg
  | REndText => CEnd
  | RCapture x => lower x
  | RStar x => CStar (lower x)
  | RPlus x => CCat (lower x) (CStar (lower x))
  | RQuest x => CAlt (lower x) CEps
  | RRepeat mn mx x =>
      let c := lower x in
      CCat (crep (Z.to_nat mn) c)
           (if mx <? 0 then CStar c else copt (Z.to_nat (mx - mn)) c)
  | RConcat l => ccat_list (map lower l)
  | RAlt l => calt_list (map lower l)
  end.

(* the fully anchored match ^(?s:r)$ *)
Definition Matches (r : re) (s : str) : Prop := CM true true (lower r) s.
Definition re_match (r : re) (s : str) : bool := cmatch true (lower r) s.

End Fold.

(* fold relation from a table of orbits *)
Definition memZ (x : Z) (l : list Z) : bool := existsb (Z.eqb x) l.
Definition fold_of (orbits : list (list rune)) (a b : rune) : bool :=
  negb (a =? b) && existsb (fun o => memZ a o && memZ b o) orbits.

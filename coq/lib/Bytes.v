(* lib/Bytes.v — bytes as N (< 256), byte strings as list N, big-endian fixed-width integers,
   and the Decbuf/Encbuf model of tsdb/encoding/encoding.go (fixed-width part).

   Decbuf has a *sticky* error: once E is set every later read returns 0 and the callers in
   /repo only look at the final Err().  A decoder is therefore modelled in the error monad
   [dec A := list N -> res (A * list N)] (first error wins, nothing after it is observable).
   Distinct failure kinds are distinct constructors of [err]; a Go panic is [EPanic],
   running out of fuel in a fuelled loop is [EFuel]. *)
From Coq Require Import List NArith ZArith Lia Bool.
From Verif Require Import lib.Int64.
Import ListNotations.
Open Scope N_scope.

(* ---------------------------------------------------------------- bytes *)
Definition byte_ok (b : N) : Prop := b < 256.
Definition bytes_ok (l : list N) : Prop := Forall byte_ok l.
Definition bytes_okb (l : list N) : bool := forallb (fun b => b <? 256) l.

Fixpoint bytes_eqb (a b : list N) : bool :=
  match a, b with
  | [], [] => true
  | x :: a', y :: b' => (x =? y) && bytes_eqb a' b'
  | _, _ => false
  end.

(* ---------------------------------------------------------------- results *)
Inductive err := ESize      (* encoding.ErrInvalidSize (short buffer, bad varint) *)
               | EType      (* "invalid record type" *)
               | ETrailing  (* "unexpected %d bytes left in entry" *)
               | EPanic     (* a Go run-time panic *)
               | EFuel      (* model artefact: fuelled loop ran out of fuel *)
               | EOther.    (* any other error returned by the code *)

Inductive res (A : Type) := Ok (a : A) | Err (e : err).
Arguments Ok {A} a.
Arguments Err {A} e.

Definition err_eqb (a b : err) : bool :=
  match a, b with
  | ESize, ESize | EType, EType | ETrailing, ETrailing | EPanic, EPanic | EFuel, EFuel | EOther, EOther => true
  | _, _ => false
  end.

(* a decoder consumes a prefix of the buffer *)
Definition dec (A : Type) := list N -> res (A * list N).

Definition dret {A} (a : A) : dec A := fun bs => Ok (a, bs).
Definition dfail {A} (e : err) : dec A := fun _ => Err e.
Definition dbind {A B} (d : dec A) (k : A -> dec B) : dec B :=
  fun bs => match d bs with Ok (a, r) => k a r | Err e => Err e end.
Definition dmap {A B} (f : A -> B) (d : dec A) : dec B := dbind d (fun a => dret (f a)).

Declare Scope dec_scope.
Delimit Scope dec_scope with dec.
Notation "x <- d ;; k" := (dbind d (fun x => k)) (at level 61, d at next level, right associativity) : dec_scope.
Notation "' p <- d ;; k" := (dbind d (fun p => k)) (at level 61, p pattern, d at next level, right associativity) : dec_scope.

(* run a decoder n times in sequence (Go: `for range n { ... }` / `for i := range slice`) *)
Fixpoint drepeat {A} (n : nat) (d : dec A) : dec (list A) :=
  match n with
  | O => dret []
  | S k => dbind d (fun a => dbind (drepeat k d) (fun l => dret (a :: l)))
  end.

(* ---------------------------------------------------------------- big endian *)
(* n bytes, most significant first, of x mod 256^n  (binary.BigEndian.PutUintNN) *)
Fixpoint be_enc (n : nat) (x : N) : list N :=
  match n with
  | O => []
  | S k => (x / 256 ^ N.of_nat k) mod 256 :: be_enc k x
  end.

(* read n bytes big-endian into an accumulator; None when the buffer is shorter *)
Fixpoint be_take (n : nat) (acc : N) (bs : list N) : option (N * list N) :=
  match n with
  | O => Some (acc, bs)
  | S k => match bs with [] => None | b :: r => be_take k (acc * 256 + b) r end
  end.

Definition put_be16 (x : N) : list N := be_enc 2 x.
Definition put_be32 (x : N) : list N := be_enc 4 x.
Definition put_be64 (x : N) : list N := be_enc 8 x.

Definition d_be (n : nat) : dec N :=
  fun bs => match be_take n 0 bs with Some (x, r) => Ok (x, r) | None => Err ESize end.
Definition d_be16 : dec N := d_be 2.
Definition d_be32 : dec N := d_be 4.   (* Decbuf.Be32 *)
Definition d_be64 : dec N := d_be 8.   (* Decbuf.Be64 *)

(* Decbuf.Byte *)
Definition d_byte : dec N := fun bs => match bs with [] => Err ESize | b :: r => Ok (b, r) end.

(* take exactly n raw bytes *)
Fixpoint take_bytes (n : nat) (bs : list N) : option (list N * list N) :=
  match n with
  | O => Some ([], bs)
  | S k => match bs with [] => None | b :: r =>
             match take_bytes k r with Some (h, t) => Some (b :: h, t) | None => None end end
  end.

(* ---------------------------------------------------------------- int64 <-> uint64 views *)
Definition two64N : N := 18446744073709551616.
Definition u64_ok (x : N) : Prop := x < two64N.
Definition u64_okb (x : N) : bool := x <? two64N.

(* Go uint64(x) for an int64 (or any integer) x *)
Definition to_u64 (z : Z) : N := Z.to_N (z mod two64).
(* Go int64(x) for a uint64 x *)
Definition to_i64 (n : N) : Z := wrap64 (Z.of_N n).
(* Go int32(x) truncation of an int64 *)
Definition wrap32 (z : Z) : Z := (z + 2147483648) mod 4294967296 - 2147483648.
Definition int32 (z : Z) : Prop := (-2147483648 <= z <= 2147483647)%Z.
Definition int32b (z : Z) : bool := ((-2147483648 <=? z) && (z <=? 2147483647))%Z.

(* ================================================================ lemmas *)

Lemma bytes_okb_spec l : bytes_okb l = true <-> bytes_ok l.
Proof.
  unfold bytes_okb, bytes_ok, byte_ok. rewrite forallb_forall, Forall_forall.
  split; intros H x Hx; specialize (H x Hx); [apply N.ltb_lt | apply N.ltb_lt]; exact H.
Qed.

Lemma bytes_eqb_eq a b : bytes_eqb a b = true <-> a = b.
Proof.
  revert b; induction a as [|x a IH]; intros [|y b]; simpl; try (split; [discriminate|discriminate]); try tauto.
  rewrite andb_true_iff, N.eqb_eq, IH. split; [intros [-> ->]; reflexivity | intros H; inversion H; auto].
Qed.

Lemma be_enc_length n x : length (be_enc n x) = n.
Proof. induction n; simpl; auto. Qed.

Lemma be_enc_bytes_ok n x : bytes_ok (be_enc n x).
Proof.
  induction n; simpl; constructor; auto. unfold byte_ok. apply N.mod_lt. discriminate.
Qed.

Lemma be_take_enc n : forall x acc rest,
  be_take n acc (be_enc n x ++ rest) = Some (acc * 256 ^ N.of_nat n + x mod 256 ^ N.of_nat n, rest).
Proof.
  induction n as [|k IH]; intros x acc rest.
  - simpl. rewrite N.mod_1_r. f_equal. f_equal. lia.
  - cbn [be_enc be_take app]. rewrite IH. f_equal. f_equal.
    rewrite Nnat.Nat2N.inj_succ, N.pow_succ_r'.
    set (p := 256 ^ N.of_nat k).
    assert (Hp : p <> 0) by (apply N.pow_nonzero; discriminate).
    rewrite (N.mul_comm 256 p).
    rewrite (N.mod_mul_r x p 256) by (auto; discriminate).
    lia.
Qed.

Lemma d_be_enc n x rest : x < 256 ^ N.of_nat n -> d_be n (be_enc n x ++ rest) = Ok (x, rest).
Proof.
  intros H. unfold d_be. rewrite be_take_enc. rewrite N.mod_small by exact H. reflexivity.
Qed.

Lemma d_be64_put x rest : u64_ok x -> d_be64 (put_be64 x ++ rest) = Ok (x, rest).
Proof. intros H. apply d_be_enc. exact H. Qed.

Lemma d_be32_put x rest : x < 4294967296 -> d_be32 (put_be32 x ++ rest) = Ok (x, rest).
Proof. intros H. apply d_be_enc. exact H. Qed.

Lemma d_be16_put x rest : x < 65536 -> d_be16 (put_be16 x ++ rest) = Ok (x, rest).
Proof. intros H. apply d_be_enc. exact H. Qed.

Lemma put_be64_length x : length (put_be64 x) = 8%nat.
Proof. apply be_enc_length. Qed.

Lemma be_take_short n : forall acc bs, (length bs < n)%nat -> be_take n acc bs = None.
Proof.
  induction n as [|k IH]; intros acc bs H; [inversion H|].
  destruct bs as [|b r]; simpl; auto. apply IH. simpl in H. lia.
Qed.

Lemma take_bytes_app s rest : take_bytes (length s) (s ++ rest) = Some (s, rest).
Proof. induction s as [|b s IH]; simpl; auto. rewrite IH. reflexivity. Qed.

(* ---- int64/uint64 views *)
Lemma to_u64_ok z : u64_ok (to_u64 z).
Proof.
  unfold u64_ok, to_u64, two64N, two64.
  pose proof (Z.mod_pos_bound z 18446744073709551616 ltac:(lia)). lia.
Qed.

Lemma to_i64_range n : int64 (to_i64 n).
Proof. apply wrap64_range. Qed.

Lemma to_i64_to_u64 z : to_i64 (to_u64 z) = wrap64 z.
Proof.
  unfold to_i64, to_u64, wrap64, two64.
  pose proof (Z.mod_pos_bound z 18446744073709551616 ltac:(lia)) as Hb.
  rewrite Z2N.id by lia.
  rewrite Zplus_mod_idemp_l. reflexivity.
Qed.

Lemma to_u64_to_i64 n : u64_ok n -> to_u64 (to_i64 n) = n.
Proof.
  unfold u64_ok, two64N, to_u64, to_i64, wrap64, two64. intros H.
  rewrite Zminus_mod_idemp_l.
  replace (Z.of_N n + 9223372036854775808 - 9223372036854775808)%Z with (Z.of_N n) by lia.
  rewrite Z.mod_small by lia. apply N2Z.id.
Qed.

Lemma to_u64_wrap64 z : to_u64 (wrap64 z) = to_u64 z.
Proof.
  unfold to_u64, wrap64, two64. f_equal.
  rewrite Zminus_mod_idemp_l. f_equal. lia.
Qed.

(* the two lemmas every delta encoding needs: a delta computed and re-applied with wrap-around
   restores the value *)
Lemma wrap64_add_wrap_r a b : wrap64 (a + wrap64 b) = wrap64 (a + b).
Proof.
  unfold wrap64, two64.
  replace (a + ((b + 9223372036854775808) mod 18446744073709551616 - 9223372036854775808) + 9223372036854775808)%Z
    with (a + (b + 9223372036854775808) mod 18446744073709551616)%Z by lia.
  rewrite Zplus_mod_idemp_r. f_equal. f_equal. lia.
Qed.

Lemma delta64_restore base x : int64 x -> add64 base (sub64 x base) = x.
Proof.
  intros H. unfold add64, sub64. rewrite wrap64_add_wrap_r.
  replace (base + (x - base))%Z with x by lia. apply wrap64_id. exact H.
Qed.

Lemma wrap32_id z : int32 z -> wrap32 z = z.
Proof. unfold int32, wrap32. intros H. rewrite Z.mod_small by lia. lia. Qed.

Lemma int32b_spec z : int32b z = true <-> int32 z.
Proof. unfold int32b, int32. rewrite andb_true_iff, !Z.leb_le. tauto. Qed.

Lemma int32_int64 z : int32 z -> int64 z.
Proof. unfold int32, int64, minInt64, maxInt64. lia. Qed.

Lemma u64_okb_spec x : u64_okb x = true <-> u64_ok x.
Proof. unfold u64_okb, u64_ok. apply N.ltb_lt. Qed.

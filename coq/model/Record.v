(* model/Record.v — executable model of tsdb/record/record.go (the Encoder and Decoder methods) over the
   Encbuf/Decbuf model of lib/Bytes.v + lib/Varint.v.  Definitions only; proofs are in
   proof/RecordProofs.v.

   Conventions
   * uint64 values (series refs, float64 bit patterns, counts) are N, int64 values
     (timestamps, start timestamps, deltas, bucket deltas) are Z; Go conversions
     int64(u)/uint64(i) are to_i64/to_u64, wrapping arithmetic is add64/sub64 (lib/Int64.v).
   * strings / []byte are list N; labels are an association list in Range order.
   * float64 values are carried as their bit pattern (math.Float64bits), so "bitwise
     equality of floats" is equality of N.
   * A Decbuf error is sticky and the decoders only look at Err() at the end, so decoders are
     written in the error monad (lib/Bytes.v).  `for len(dec.B) > 0 && dec.Err() == nil`
     is [dloop]; its fuel is the number of remaining bytes (every iteration that does not fail
     consumes at least one byte), out-of-fuel is the distinct error EFuel.
   * The `if len(dec.B) > 0 { "unexpected %d bytes left" }` checks after those loops are
     unreachable in the Go code (the loop only ends with Err()!=nil or len(B)==0), so the
     model has no ETrailing outcome for them.
   * Decoders are modelled for an EMPTY destination slice (all callers pass `buf[:0]`; with a
     non-empty destination Decoder.samplesV1/V2 may drop or mis-decode, see notes/C14.md). *)
From Coq Require Import List NArith ZArith Bool.
From Verif Require Import lib.Int64 lib.Bytes lib.Varint.
Import ListNotations.
Open Scope N_scope.
Open Scope dec_scope.

(* ---------------------------------------------------------------- values *)
Definition bstr := list N.
Definition labels := list (bstr * bstr).

Record ref_series := mkSeries { s_ref : N; s_labels : labels }.
Record ref_sample := mkSample { sm_ref : N; sm_st : Z; sm_t : Z; sm_v : N }.
Record stone := mkStone { st_ref : N; st_ivs : list (Z * Z) }.
Record ref_exemplar := mkEx { ex_ref : N; ex_t : Z; ex_v : N; ex_labels : labels }.
Record ref_metadata := mkMeta { md_ref : N; md_type : N; md_unit : bstr; md_help : bstr }.
Record ref_mmap := mkMmap { mm_ref : N; mm_mref : N }.

Record span := mkSpan { sp_off : Z (* int32 *); sp_len : N (* uint32 *) }.
(* histogram.Histogram: counts are uint64, buckets int64 deltas, floats as bits *)
Record hist := mkHist { h_hint : N; h_schema : Z; h_zt : N; h_zc : N; h_count : N; h_sum : N;
                        h_ps : list span; h_ns : list span; h_pb : list Z; h_nb : list Z; h_cv : list N }.
(* histogram.FloatHistogram: everything float64 (bits) *)
Record fhist := mkFHist { fh_hint : N; fh_schema : Z; fh_zt : N; fh_zc : N; fh_count : N; fh_sum : N;
                          fh_ps : list span; fh_ns : list span; fh_pb : list N; fh_nb : list N; fh_cv : list N }.
Record ref_hist := mkRH { rh_ref : N; rh_st : Z; rh_t : Z; rh_h : hist }.
Record ref_fhist := mkRFH { rf_ref : N; rf_st : Z; rf_t : Z; rf_h : fhist }.

(* record.Type *)
Definition tSeries : N := 1.      Definition tSamples : N := 2.    Definition tTombstones : N := 3.
Definition tExemplars : N := 4.   Definition tMmapMarkers : N := 5. Definition tMetadata : N := 6.
Definition tHistogramSamples : N := 7.              Definition tFloatHistogramSamples : N := 8.
Definition tCustomBucketsHistogramSamples : N := 9. Definition tCustomBucketsFloatHistogramSamples : N := 10.
Definition tSamplesV2 : N := 11.  Definition tHistogramSamplesV2 : N := 12. Definition tFloatHistogramSamplesV2 : N := 13.

(* uint64 addition *)
Definition addu64 (a b : N) : N := (a + b) mod two64N.

(* ---------------------------------------------------------------- loops *)
(* encoder side: `for _, x := range xs { ... }` threading an encoder state *)
Fixpoint eloop {X T} (estep : T -> X -> list N * T) (t : T) (xs : list X) : list N :=
  match xs with
  | [] => []
  | x :: r => fst (estep t x) ++ eloop estep (snd (estep t x)) r
  end.

(* decoder side: `for len(dec.B) > 0 && dec.Err() == nil { ... }`; one iteration appends
   zero or one (a list of) outputs and updates the decoder state *)
Fixpoint dloop {A St} (fuel : nat) (step : St -> dec (list A * St)) (s : St) (bs : list N) : res (list A) :=
  match bs with
  | [] => Ok []
  | _ :: _ =>
      match fuel with
      | O => Err EFuel
      | S f =>
          match step s bs with
          | Err e => Err e
          | Ok ((out, s'), r) =>
              match dloop f step s' r with Ok l => Ok (out ++ l) | Err e => Err e end
          end
      end
  end.

(* `dec := Decbuf{B: rec}; if Type(dec.Byte()) != T { return "invalid record type" }`
   (Byte() on an empty record yields 0 and a sticky error; 0 is no valid type) *)
Definition with_type {A} (accept : N -> option (list N -> res A)) (rec : list N) : res A :=
  match rec with
  | [] => Err EType
  | t :: r => match accept t with Some k => k r | None => Err EType end
  end.

(* ---------------------------------------------------------------- labels *)
(* EncodeLabels *)
Definition enc_label (l : bstr * bstr) : list N := put_uvarint_bytes (fst l) ++ put_uvarint_bytes (snd l).
Definition enc_labels (ls : labels) : list N :=
  put_uvarint (N.of_nat (length ls)) ++ flat_map enc_label ls.
(* Decoder.DecodeLabels: nLabels := dec.Uvarint(); for range nLabels {...}  (negative: no iteration) *)
Definition dec_label : dec (bstr * bstr) := a <- d_uvarint_bytes ;; b <- d_uvarint_bytes ;; dret (a, b).
Definition dec_labels : dec labels := n <- d_uvarint_int ;; drepeat (Z.to_nat n) dec_label.

(* ---------------------------------------------------------------- series *)
Definition enc_series1 (s : ref_series) : list N := put_be64 (s_ref s) ++ enc_labels (s_labels s).
Definition enc_series (l : list ref_series) : list N :=
  tSeries :: eloop (fun (_ : unit) s => (enc_series1 s, tt)) tt l.

Definition dec_series1 (_ : unit) : dec (list ref_series * unit) :=
  r <- d_be64 ;; ls <- dec_labels ;; dret ([mkSeries r ls], tt).
Definition dec_series : list N -> res (list ref_series) :=
  with_type (fun t => if t =? tSeries then Some (fun r => dloop (length r) dec_series1 tt r) else None).

(* ---------------------------------------------------------------- samples V1 *)
Definition enc_sample_v1 (first : ref_sample) (s : ref_sample) : list N :=
  put_varint (sub64 (to_i64 (sm_ref s)) (to_i64 (sm_ref first))) ++
  put_varint (sub64 (sm_t s) (sm_t first)) ++
  put_be64 (sm_v s).
Definition enc_samples_v1 (l : list ref_sample) : list N :=
  tSamples ::
  match l with
  | [] => []
  | first :: _ =>
      put_be64 (sm_ref first) ++ put_be64 (to_u64 (sm_t first)) ++
      eloop (fun (_ : unit) s => (enc_sample_v1 first s, tt)) tt l
  end.

Definition dec_sample_v1 (baseRef : N) (baseTime : Z) (_ : unit) : dec (list ref_sample * unit) :=
  dref <- d_varint64 ;; dtime <- d_varint64 ;; v <- d_be64 ;;
  dret ([mkSample (to_u64 (add64 (to_i64 baseRef) dref)) 0 (add64 baseTime dtime) v], tt).
Definition dec_samples_v1 (r : list N) : res (list ref_sample) :=
  match r with
  | [] => Ok []                                  (* if dec.Len() == 0 { return samples, nil } *)
  | _ :: _ =>
      match (b <- d_be64 ;; t <- d_be64 ;; dret (b, to_i64 t)) r with
      | Err e => Err e
      | Ok ((b, t), r') => dloop (length r') (dec_sample_v1 b t) tt r'
      end
  end.

(* ---------------------------------------------------------------- samples V2 *)
Definition noST : N := 0.  Definition sameST : N := 1.  Definition explicitST : N := 2.

(* writeSTMarker: switch st { case 0: noST; case prevST: sameST; default: explicitST, st-firstST } *)
Definition write_st_marker (st firstST prevST : Z) : list N :=
  if (st =? 0)%Z then [noST]
  else if (st =? prevST)%Z then [sameST]
  else explicitST :: put_varint (sub64 st firstST).
(* readSTMarker *)
Definition read_st_marker (prevST firstST : Z) : dec Z :=
  m <- d_byte ;;
  if m =? noST then dret 0%Z
  else if m =? sameST then dret prevST
  else (d <- d_varint64 ;; dret (add64 firstST d)).

(* encoder state: None before the first sample, then (first, prev) *)
Definition enc_sample_v2 (st : option (ref_sample * ref_sample)) (s : ref_sample)
  : list N * option (ref_sample * ref_sample) :=
  match st with
  | None =>
      (put_varint (to_i64 (sm_ref s)) ++ put_varint (sm_t s) ++ put_varint (sm_st s) ++ put_be64 (sm_v s),
       Some (s, s))
  | Some (first, prev) =>
      (put_varint (sub64 (to_i64 (sm_ref s)) (to_i64 (sm_ref prev))) ++
       put_varint (sub64 (sm_t s) (sm_t first)) ++
       write_st_marker (sm_st s) (sm_st first) (sm_st prev) ++
       put_be64 (sm_v s),
       Some (first, s))
  end.
Definition enc_samples_v2 (l : list ref_sample) : list N := tSamplesV2 :: eloop enc_sample_v2 None l.

(* decoder state: None while len(samples)==0, then (firstT, firstST, prev.Ref, prev.ST) *)
Definition v2state := option (Z * Z * N * Z).
Definition dec_sample_v2 (st : v2state) : dec (list ref_sample * v2state) :=
  match st with
  | None =>
      ref <- d_varint64 ;; t <- d_varint64 ;; st <- d_varint64 ;; v <- d_be64 ;;
      dret ([mkSample (to_u64 ref) st t v], Some (t, st, to_u64 ref, st))
  | Some (firstT, firstST, prevRef, prevST) =>
      dref <- d_varint64 ;; dt <- d_varint64 ;; st <- read_st_marker prevST firstST ;; v <- d_be64 ;;
      let ref := to_u64 (add64 (to_i64 prevRef) dref) in
      dret ([mkSample ref st (add64 firstT dt) v], Some (firstT, firstST, ref, st))
  end.
Definition dec_samples_v2 (r : list N) : res (list ref_sample) := dloop (length r) dec_sample_v2 None r.

(* Encoder.Samples / Decoder.Samples *)
Definition enc_samples (enableST : bool) (l : list ref_sample) : list N :=
  if enableST then enc_samples_v2 l else enc_samples_v1 l.
Definition dec_samples : list N -> res (list ref_sample) :=
  with_type (fun t => if t =? tSamples then Some dec_samples_v1
                      else if t =? tSamplesV2 then Some dec_samples_v2 else None).

(* ---------------------------------------------------------------- tombstones *)
(* the nested loops `for s in stones { for iv in s.Intervals {...} }` visit this list *)
Definition flatten_stones (l : list stone) : list (N * (Z * Z)) :=
  flat_map (fun s => map (fun iv => (st_ref s, iv)) (st_ivs s)) l.
Definition enc_stone1 (x : N * (Z * Z)) : list N :=
  put_be64 (fst x) ++ put_varint (fst (snd x)) ++ put_varint (snd (snd x)).
Definition enc_tombstones (l : list stone) : list N :=
  tTombstones :: eloop (fun (_ : unit) x => (enc_stone1 x, tt)) tt (flatten_stones l).

Definition dec_stone1 (_ : unit) : dec (list stone * unit) :=
  r <- d_be64 ;; mint <- d_varint64 ;; maxt <- d_varint64 ;; dret ([mkStone r [(mint, maxt)]], tt).
Definition dec_tombstones : list N -> res (list stone) :=
  with_type (fun t => if t =? tTombstones then Some (fun r => dloop (length r) dec_stone1 tt r) else None).

(* what a decoded tombstone record looks like: one stone per interval *)
Definition canon_stones (l : list stone) : list stone :=
  map (fun x => mkStone (fst x) [snd x]) (flatten_stones l).

(* ---------------------------------------------------------------- exemplars *)
Definition enc_exemplar1 (first : ref_exemplar) (e : ref_exemplar) : list N :=
  put_varint (sub64 (to_i64 (ex_ref e)) (to_i64 (ex_ref first))) ++
  put_varint (sub64 (ex_t e) (ex_t first)) ++
  put_be64 (ex_v e) ++ enc_labels (ex_labels e).
Definition enc_exemplars (l : list ref_exemplar) : list N :=
  tExemplars ::
  match l with
  | [] => []
  | first :: _ =>
      put_be64 (ex_ref first) ++ put_be64 (to_u64 (ex_t first)) ++
      eloop (fun (_ : unit) e => (enc_exemplar1 first e, tt)) tt l
  end.

Definition dec_exemplar1 (baseRef : N) (baseTime : Z) (_ : unit) : dec (list ref_exemplar * unit) :=
  dref <- d_varint64 ;; dtime <- d_varint64 ;; v <- d_be64 ;; ls <- dec_labels ;;
  dret ([mkEx (addu64 baseRef (to_u64 dref)) (add64 baseTime dtime) v ls], tt).
Definition dec_exemplars_buf (r : list N) : res (list ref_exemplar) :=
  match r with
  | [] => Ok []
  | _ :: _ =>
      match (b <- d_be64 ;; t <- d_be64 ;; dret (b, to_i64 t)) r with
      | Err e => Err e
      | Ok ((b, t), r') => dloop (length r') (dec_exemplar1 b t) tt r'
      end
  end.
Definition dec_exemplars : list N -> res (list ref_exemplar) :=
  with_type (fun t => if t =? tExemplars then Some dec_exemplars_buf else None).

(* ---------------------------------------------------------------- metadata *)
Definition unitMetaName : bstr := [85; 78; 73; 84].   (* "UNIT" *)
Definition helpMetaName : bstr := [72; 69; 76; 80].   (* "HELP" *)

Definition enc_metadata1 (m : ref_metadata) : list N :=
  put_uvarint (md_ref m) ++ [md_type m] ++ put_uvarint 2 ++
  put_uvarint_bytes unitMetaName ++ put_uvarint_bytes (md_unit m) ++
  put_uvarint_bytes helpMetaName ++ put_uvarint_bytes (md_help m).
Definition enc_metadata (l : list ref_metadata) : list N :=
  tMetadata :: eloop (fun (_ : unit) m => (enc_metadata1 m, tt)) tt l.

(* the `switch fieldName` over the decoded fields, in order *)
Definition pick_fields (fs : list (bstr * bstr)) : bstr * bstr :=
  fold_left (fun (uh : bstr * bstr) f =>
               if bytes_eqb (fst f) unitMetaName then (snd f, snd uh)
               else if bytes_eqb (fst f) helpMetaName then (fst uh, snd f)
               else uh) fs ([], []).
Definition dec_metadata1 (_ : unit) : dec (list ref_metadata * unit) :=
  r <- d_uvarint64 ;; typ <- d_byte ;; n <- d_uvarint_int ;;
  fs <- drepeat (Z.to_nat n) dec_label ;;
  dret ([mkMeta r typ (fst (pick_fields fs)) (snd (pick_fields fs))], tt).
Definition dec_metadata : list N -> res (list ref_metadata) :=
  with_type (fun t => if t =? tMetadata then Some (fun r => dloop (length r) dec_metadata1 tt r) else None).

(* ---------------------------------------------------------------- mmap markers *)
Definition enc_mmap1 (m : ref_mmap) : list N := put_be64 (mm_ref m) ++ put_be64 (mm_mref m).
Definition enc_mmap (l : list ref_mmap) : list N :=
  tMmapMarkers :: eloop (fun (_ : unit) m => (enc_mmap1 m, tt)) tt l.
Definition dec_mmap1 (_ : unit) : dec (list ref_mmap * unit) :=
  r <- d_be64 ;; m <- d_be64 ;; dret ([mkMmap r m], tt).
Definition dec_mmap : list N -> res (list ref_mmap) :=
  with_type (fun t => if t =? tMmapMarkers then Some (fun r => dloop (length r) dec_mmap1 tt r) else None).

(* ---------------------------------------------------------------- decidable equality *)
Definition labels_eqb (a b : labels) : bool :=
  (Nat.eqb (length a) (length b)) &&
  forallb (fun p => bytes_eqb (fst (fst p)) (fst (snd p)) && bytes_eqb (snd (fst p)) (snd (snd p))) (combine a b).
Definition list_eqb {A} (eqb : A -> A -> bool) (a b : list A) : bool :=
  (Nat.eqb (length a) (length b)) && forallb (fun p => eqb (fst p) (snd p)) (combine a b).

Definition series_eqb (a b : ref_series) := (s_ref a =? s_ref b) && labels_eqb (s_labels a) (s_labels b).
Definition sample_eqb (a b : ref_sample) :=
  (sm_ref a =? sm_ref b) && (sm_st a =? sm_st b)%Z && (sm_t a =? sm_t b)%Z && (sm_v a =? sm_v b).
Definition zpair_eqb (a b : Z * Z) := ((fst a =? fst b) && (snd a =? snd b))%Z.
Definition stone_eqb (a b : stone) := (st_ref a =? st_ref b) && list_eqb zpair_eqb (st_ivs a) (st_ivs b).
Definition exemplar_eqb (a b : ref_exemplar) :=
  (ex_ref a =? ex_ref b) && (ex_t a =? ex_t b)%Z && (ex_v a =? ex_v b) && labels_eqb (ex_labels a) (ex_labels b).
Definition metadata_eqb (a b : ref_metadata) :=
  (md_ref a =? md_ref b) && (md_type a =? md_type b) && bytes_eqb (md_unit a) (md_unit b) && bytes_eqb (md_help a) (md_help b).
Definition mmap_eqb (a b : ref_mmap) := (mm_ref a =? mm_ref b) && (mm_mref a =? mm_mref b).

(* V1 sample records do not carry ST: it decodes as 0 *)
Definition drop_st (s : ref_sample) : ref_sample := mkSample (sm_ref s) 0 (sm_t s) (sm_v s).

(* ---------------------------------------------------------------- type ranges (boolean) *)
Definition str_okb (s : bstr) : bool := bytes_okb s.
Definition labels_okb (ls : labels) : bool := forallb (fun l => str_okb (fst l) && str_okb (snd l)) ls.
Definition series_okb (s : ref_series) := u64_okb (s_ref s) && labels_okb (s_labels s).
Definition sample_okb (s : ref_sample) :=
  u64_okb (sm_ref s) && int64b (sm_st s) && int64b (sm_t s) && u64_okb (sm_v s).
Definition stone_okb (s : stone) :=
  u64_okb (st_ref s) && forallb (fun iv => int64b (fst iv) && int64b (snd iv)) (st_ivs s).
Definition exemplar_okb (e : ref_exemplar) :=
  u64_okb (ex_ref e) && int64b (ex_t e) && u64_okb (ex_v e) && labels_okb (ex_labels e).
Definition metadata_okb (m : ref_metadata) :=
  u64_okb (md_ref m) && (md_type m <? 256) && str_okb (md_unit m) && str_okb (md_help m).
Definition mmap_okb (m : ref_mmap) := u64_okb (mm_ref m) && u64_okb (mm_mref m).

(* ================================================================ native histograms *)
(* histogram.IsCustomBucketsSchema / IsKnownSchema (generic.go): custom = -53, known =
   custom or the reserved exponential range -9..52; the supported exponential range is -4..8 *)
Definition is_custom (s : Z) : bool := (s =? -53)%Z.
Definition is_known_schema (s : Z) : bool := is_custom s || ((-9 <=? s) && (s <=? 52))%Z.
Definition needs_reduce (s : Z) : bool := ((8 <? s) && (s <=? 52))%Z.

(* `buf.PutUvarint(len(xs)); for _, x := range xs {...}` *)
Definition enc_list {X} (f : X -> list N) (l : list X) : list N :=
  put_uvarint (N.of_nat (length l)) ++ flat_map f l.
(* `l := buf.Uvarint(); if l > 0 { xs = make([]T, l) }; for i := range xs {...}`
   (l <= 0: no iteration.  A huge l makes the Go code allocate/loop l times before the sticky
   error is looked at; the model short-circuits — same result, not the same resources.) *)
Definition dec_list {X} (d : dec X) : dec (list X) := n <- d_uvarint_int ;; drepeat (Z.to_nat n) d.

Definition enc_span (s : span) : list N := put_varint (sp_off s) ++ put_uvarint (sp_len s).
Definition dec_span : dec span := o <- d_varint64 ;; l <- d_uvarint32 ;; dret (mkSpan (wrap32 o) l).

(* EncodeHistogram *)
Definition enc_hist (h : hist) : list N :=
  [h_hint h] ++ put_varint (h_schema h) ++ put_be64 (h_zt h) ++
  put_uvarint (h_zc h) ++ put_uvarint (h_count h) ++ put_be64 (h_sum h) ++
  enc_list enc_span (h_ps h) ++ enc_list enc_span (h_ns h) ++
  enc_list put_varint (h_pb h) ++ enc_list put_varint (h_nb h) ++
  (if is_custom (h_schema h) then enc_list put_be64 (h_cv h) else []).
(* DecodeHistogram *)
Definition dec_hist : dec hist :=
  hint <- d_byte ;; sch <- d_varint64 ;; zt <- d_be64 ;;
  zc <- d_uvarint64 ;; cnt <- d_uvarint64 ;; sum <- d_be64 ;;
  ps <- dec_list dec_span ;; ns <- dec_list dec_span ;;
  pb <- dec_list d_varint64 ;; nb <- dec_list d_varint64 ;;
  cv <- (if is_custom (wrap32 sch) then dec_list d_be64 else dret []) ;;
  dret (mkHist hint (wrap32 sch) zt zc cnt sum ps ns pb nb cv).

(* EncodeFloatHistogram / DecodeFloatHistogram *)
Definition enc_fhist (h : fhist) : list N :=
  [fh_hint h] ++ put_varint (fh_schema h) ++ put_be64 (fh_zt h) ++
  put_be64 (fh_zc h) ++ put_be64 (fh_count h) ++ put_be64 (fh_sum h) ++
  enc_list enc_span (fh_ps h) ++ enc_list enc_span (fh_ns h) ++
  enc_list put_be64 (fh_pb h) ++ enc_list put_be64 (fh_nb h) ++
  (if is_custom (fh_schema h) then enc_list put_be64 (fh_cv h) else []).
Definition dec_fhist : dec fhist :=
  hint <- d_byte ;; sch <- d_varint64 ;; zt <- d_be64 ;;
  zc <- d_be64 ;; cnt <- d_be64 ;; sum <- d_be64 ;;
  ps <- dec_list dec_span ;; ns <- dec_list dec_span ;;
  pb <- dec_list d_be64 ;; nb <- dec_list d_be64 ;;
  cv <- (if is_custom (wrap32 sch) then dec_list d_be64 else dret []) ;;
  dret (mkFHist hint (wrap32 sch) zt zc cnt sum ps ns pb nb cv).

(* after DecodeHistogram: unknown schema -> skipped with a warning (`continue`); schema in 9..52
   -> ReduceResolution, which is NOT modelled (EOther marks the unmodelled path; the theorems
   exclude it and the harness does not generate it) *)
Definition keep_schema {A St} (schema : Z) (x : A) (s : St) : dec (list A * St) :=
  if negb (is_known_schema schema) then dret ([], s)
  else if needs_reduce schema then dfail EOther
  else dret ([x], s).

(* ---- generic over the payload (int / float histogram) *)
Record rsample (H : Type) := mkRS { r_ref : N; r_st : Z; r_t : Z; r_h : H }.
Arguments mkRS {H}.
Arguments r_ref {H}. Arguments r_st {H}. Arguments r_t {H}. Arguments r_h {H}.

Section HistRecords.
  Context {H : Type} (h_enc : H -> list N) (h_dec : dec H) (schema_of : H -> Z).
  Notation rsample := (rsample H).
  Definition r_custom (x : rsample) : bool := is_custom (schema_of (r_h x)).

  (* -- V1: BE64 base ref/time of histograms[0], varint deltas to it; custom-bucket ones
        are skipped by the exponential encoder and returned to the caller *)
  Definition enc_rs_v1 (first x : rsample) : list N :=
    put_varint (sub64 (to_i64 (r_ref x)) (to_i64 (r_ref first))) ++
    put_varint (sub64 (r_t x) (r_t first)) ++ h_enc (r_h x).
  Definition enc_rs_v1_skip (first : rsample) (_ : unit) (x : rsample) : list N * unit :=
    if r_custom x then ([], tt) else (enc_rs_v1 first x, tt).
  (* Encoder.histogramSamplesV1 / floatHistogramSamplesV1 : (record, custom-bucket leftovers);
     the record is EMPTY (not even a type byte: buf.Reset()) when every sample was custom *)
  Definition enc_hists_v1 (typ : N) (l : list rsample) : list N * list rsample :=
    match l with
    | [] => ([typ], [])
    | first :: _ =>
        let custom := filter r_custom l in
        let body := typ :: put_be64 (r_ref first) ++ put_be64 (to_u64 (r_t first)) ++
                    eloop (enc_rs_v1_skip first) tt l in
        (if Nat.eqb (length l) (length custom) then [] else body, custom)
    end.
  (* Encoder.customBucketsHistogramSamplesV1: encodes everything it is given *)
  Definition enc_cbhists_v1 (typ : N) (l : list rsample) : list N :=
    typ ::
    match l with
    | [] => []
    | first :: _ =>
        put_be64 (r_ref first) ++ put_be64 (to_u64 (r_t first)) ++
        eloop (fun (_ : unit) x => (enc_rs_v1 first x, tt)) tt l
    end.

  Definition dec_rs_v1 (baseRef : N) (baseTime : Z) (_ : unit) : dec (list rsample * unit) :=
    dref <- d_varint64 ;; dtime <- d_varint64 ;; h <- h_dec ;;
    keep_schema (schema_of h) (mkRS (addu64 baseRef (to_u64 dref)) 0 (add64 baseTime dtime) h) tt.
  Definition dec_hists_v1 (r : list N) : res (list rsample) :=
    match r with
    | [] => Ok []
    | _ :: _ =>
        match (b <- d_be64 ;; t <- d_be64 ;; dret (b, to_i64 t)) r with
        | Err e => Err e
        | Ok ((b, t), r') => dloop (length r') (dec_rs_v1 b t) tt r'
        end
    end.

  (* -- V2: varint first ref/T/ST, then per sample delta to prev ref, delta to first T, ST marker *)
  Definition enc_rs_v2 (st : option (rsample * rsample)) (x : rsample) : list N * option (rsample * rsample) :=
    match st with
    | None =>
        (put_varint (to_i64 (r_ref x)) ++ put_varint (r_t x) ++ put_varint (r_st x) ++ h_enc (r_h x),
         Some (x, x))
    | Some (first, prev) =>
        (put_varint (sub64 (to_i64 (r_ref x)) (to_i64 (r_ref prev))) ++
         put_varint (sub64 (r_t x) (r_t first)) ++
         write_st_marker (r_st x) (r_st first) (r_st prev) ++ h_enc (r_h x),
         Some (first, x))
    end.
  Definition enc_hists_v2 (typ : N) (l : list rsample) : list N := typ :: eloop enc_rs_v2 None l.

  Definition dec_rs_v2 (firstRef : N) (firstT firstST : Z) (st : option (N * Z))
    : dec (list rsample * option (N * Z)) :=
    match st with
    | None =>
        h <- h_dec ;;
        keep_schema (schema_of h) (mkRS firstRef firstST firstT h) (Some (firstRef, firstST))
    | Some (prevRef, prevST) =>
        dref <- d_varint64 ;; dt <- d_varint64 ;; st <- read_st_marker prevST firstST ;;
        h <- h_dec ;;
        let ref := to_u64 (add64 (to_i64 prevRef) dref) in
        keep_schema (schema_of h) (mkRS ref st (add64 firstT dt) h) (Some (ref, st))
    end.
  Definition dec_hists_v2 (r : list N) : res (list rsample) :=
    match r with
    | [] => Ok []
    | _ :: _ =>
        match (fr <- d_varint64 ;; ft <- d_varint64 ;; fst <- d_varint64 ;; dret (to_u64 fr, ft, fst)) r with
        | Err e => Err e
        | Ok ((fr, ft, fst), r') => dloop (length r') (dec_rs_v2 fr ft fst) None r'
        end
    end.
End HistRecords.

(* Encoder.HistogramSamples / CustomBucketsHistogramSamples / Decoder.HistogramSamples *)
Definition enc_histogram_samples (enableST : bool) (l : list (rsample hist)) : list N * list (rsample hist) :=
  if enableST then (enc_hists_v2 enc_hist tHistogramSamplesV2 l, [])
  else enc_hists_v1 enc_hist h_schema tHistogramSamples l.
Definition enc_cb_histogram_samples (enableST : bool) (l : list (rsample hist)) : list N :=
  if enableST then enc_hists_v2 enc_hist tHistogramSamplesV2 l
  else enc_cbhists_v1 enc_hist tCustomBucketsHistogramSamples l.
Definition dec_histogram_samples : list N -> res (list (rsample hist)) :=
  with_type (fun t => if (t =? tHistogramSamples) || (t =? tCustomBucketsHistogramSamples)
                      then Some (dec_hists_v1 dec_hist h_schema)
                      else if t =? tHistogramSamplesV2 then Some (dec_hists_v2 dec_hist h_schema) else None).

Definition enc_float_histogram_samples (enableST : bool) (l : list (rsample fhist)) : list N * list (rsample fhist) :=
  if enableST then (enc_hists_v2 enc_fhist tFloatHistogramSamplesV2 l, [])
  else enc_hists_v1 enc_fhist fh_schema tFloatHistogramSamples l.
Definition enc_cb_float_histogram_samples (enableST : bool) (l : list (rsample fhist)) : list N :=
  if enableST then enc_hists_v2 enc_fhist tFloatHistogramSamplesV2 l
  else enc_cbhists_v1 enc_fhist tCustomBucketsFloatHistogramSamples l.
Definition dec_float_histogram_samples : list N -> res (list (rsample fhist)) :=
  with_type (fun t => if (t =? tFloatHistogramSamples) || (t =? tCustomBucketsFloatHistogramSamples)
                      then Some (dec_hists_v1 dec_fhist fh_schema)
                      else if t =? tFloatHistogramSamplesV2 then Some (dec_hists_v2 dec_fhist fh_schema) else None).

(* what decoding gives back for one histogram: custom values survive only for the custom schema *)
Definition canon_hist (h : hist) : hist :=
  mkHist (h_hint h) (h_schema h) (h_zt h) (h_zc h) (h_count h) (h_sum h) (h_ps h) (h_ns h) (h_pb h) (h_nb h)
         (if is_custom (h_schema h) then h_cv h else []).
Definition canon_fhist (h : fhist) : fhist :=
  mkFHist (fh_hint h) (fh_schema h) (fh_zt h) (fh_zc h) (fh_count h) (fh_sum h) (fh_ps h) (fh_ns h) (fh_pb h) (fh_nb h)
          (if is_custom (fh_schema h) then fh_cv h else []).
(* a decoded batch: unknown schemas are dropped; V1 has no ST *)
Definition canon_rs {H} (canon_h : H -> H) (schema_of : H -> Z) (v2 : bool) (l : list (rsample H)) : list (rsample H) :=
  map (fun x => mkRS (r_ref x) (if v2 then r_st x else 0%Z) (r_t x) (canon_h (r_h x)))
      (filter (fun x => is_known_schema (schema_of (r_h x))) l).

(* equality *)
Definition span_eqb (a b : span) := (sp_off a =? sp_off b)%Z && (sp_len a =? sp_len b).
Definition hist_eqb (a b : hist) : bool :=
  (h_hint a =? h_hint b) && (h_schema a =? h_schema b)%Z && (h_zt a =? h_zt b) && (h_zc a =? h_zc b) &&
  (h_count a =? h_count b) && (h_sum a =? h_sum b) &&
  list_eqb span_eqb (h_ps a) (h_ps b) && list_eqb span_eqb (h_ns a) (h_ns b) &&
  list_eqb Z.eqb (h_pb a) (h_pb b) && list_eqb Z.eqb (h_nb a) (h_nb b) && list_eqb N.eqb (h_cv a) (h_cv b).
Definition fhist_eqb (a b : fhist) : bool :=
  (fh_hint a =? fh_hint b) && (fh_schema a =? fh_schema b)%Z && (fh_zt a =? fh_zt b) && (fh_zc a =? fh_zc b) &&
  (fh_count a =? fh_count b) && (fh_sum a =? fh_sum b) &&
  list_eqb span_eqb (fh_ps a) (fh_ps b) && list_eqb span_eqb (fh_ns a) (fh_ns b) &&
  list_eqb N.eqb (fh_pb a) (fh_pb b) && list_eqb N.eqb (fh_nb a) (fh_nb b) && list_eqb N.eqb (fh_cv a) (fh_cv b).
Definition rs_eqb {H} (heqb : H -> H -> bool) (a b : rsample H) : bool :=
  (r_ref a =? r_ref b) && (r_st a =? r_st b)%Z && (r_t a =? r_t b)%Z && heqb (r_h a) (r_h b).

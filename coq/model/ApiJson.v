(* model/ApiJson.v — executable model of the query API's JSON value encoding (definitions only).
   Transcribed from
     util/jsonutil/marshal.go      MarshalTimestamp, MarshalFloat, MarshalHistogram
     web/api/v1/json_codec.go      marshalSampleJSON, marshalSeriesJSON, marshalFPointJSON,
                                   marshalHPointJSON, marshalLabelsJSON, vector / matrix encoders
     promql/value.go               Scalar.MarshalJSON (float64(T)/1000 through encoding/json)
     model/histogram               AllBucketIterator = reverse iterator over the negative buckets,
                                   zero bucket, forward iterator (fast path) over the positive ones,
                                   baseBucketIterator.at, getBound for custom buckets, ZeroBucket.
   Bytes are [list N]. A float64 is its IEEE-754 bit pattern as a [Z] in [0, 2^64); the few float
   operations the code performs on values (abs, negation, <, >=, !=, ==0) are defined on bit patterns.
   Oracles (Section variables): [fmt] = strconv.AppendFloat(_, f, 'e'|'f', -1, 64), [ebound] =
   histogram.getBoundExponential(idx, schema). Both are tabulated per case by the harness. *)
From Coq Require Import List ZArith NArith Bool String Ascii.
From Verif Require Import lib.Int64.
Import ListNotations.
Open Scope Z_scope.

Definition bytes := list N.
Definition s2b (s : string) : bytes := map N_of_ascii (list_ascii_of_string s).

Inductive res (A : Type) := Ok (a : A) | Panic.
Arguments Ok {A} a.
Arguments Panic {A}.
Definition bind {A B} (r : res A) (f : A -> res B) : res B :=
  match r with Ok a => f a | Panic => Panic end.

(* ------------------------------------------------------------------ decimal integers *)
(* jsoniter Stream.WriteInt64 / WriteInt: plain decimal, '-' for negatives, no leading zeros.
   [pdigits] has fuel; with fuel 20 every |v| < 10^20 (all of int64/uint64) is printed in full;
   out of fuel yields the empty digit string, which no number parser accepts. *)
Definition digit (d : Z) : N := Z.to_N (48 + d).
Fixpoint pdigits (fuel : nat) (n : Z) : bytes :=
  match fuel with
  | O => []
  | S f => if n <? 10 then [digit n] else pdigits f (n / 10) ++ [digit (n mod 10)]
  end.
(* WriteInt64(v): val = uint64(v) if v >= 0 else uint64(-v) (exact also for MinInt64), '-' prefix *)
Definition write_int64 (v : Z) : bytes :=
  if v <? 0 then 45%N :: pdigits 20 (- v) else pdigits 20 v.

(* ------------------------------------------------------------------ MarshalTimestamp *)
Definition marshal_timestamp (t0 : Z) : bytes :=
  let neg := t0 <? 0 in
  let t := if neg then neg64 t0 else t0 in                 (* t = -t wraps for MinInt64 *)
  let pre := if neg then [45%N] else [] in
  let ip := write_int64 (godiv t 1000) in
  let fraction := gorem t 1000 in
  pre ++ ip ++
  (if fraction =? 0 then []
   else [46%N] ++ (if fraction <? 100 then [48%N] else [])
               ++ (if fraction <? 10 then [48%N] else [])
               ++ write_int64 fraction).

(* ------------------------------------------------------------------ float64 as bit patterns *)
Definition two63 : Z := 9223372036854775808.
Definition two52 : Z := 4503599627370496.
Definition inf_bits : Z := 9218868437227405312.            (* 0x7FF0000000000000 *)
Definition ninf_bits : Z := inf_bits + two63.
Definition fabs (b : Z) : Z := b mod two63.
Definition fsign (b : Z) : bool := two63 <=? b.
Definition fnan (b : Z) : bool := inf_bits <? fabs b.
Definition fnegate (b : Z) : Z := if fsign b then b - two63 else b + two63.
(* order-preserving key of a non-NaN float; +0 and -0 both map to 0 *)
Definition fkey (b : Z) : Z := if fsign b then - fabs b else b.
Definition flt (a b : Z) : bool := negb (fnan a) && negb (fnan b) && (fkey a <? fkey b).
Definition fge (a b : Z) : bool := negb (fnan a) && negb (fnan b) && (fkey b <=? fkey a).
Definition fgt (a b : Z) : bool := flt b a.
Definition fne (a b : Z) : bool := fnan a || fnan b || negb (fkey a =? fkey b).   (* Go != *)
Definition feq (a b : Z) : bool := negb (fne a b).                              (* Go == *)
Definition fzero : Z := 0.
Definition c_1em6 : Z := 4517329193108106637.              (* float64(1e-6) *)
Definition c_1e21 : Z := 4921056587992461136.              (* float64(1e21) *)
(* lossless up to the sign/payload of NaN *)
Definition fsame (a b : Z) : bool := (a =? b) || (fnan a && fnan b).

(* round-to-nearest-even of the positive rational n/d to a (normal) float64 bit pattern *)
Definition round_ratio (n d : Z) : Z :=
  let e0 := Z.log2 n - Z.log2 d in
  let qr := fun e => let sh := 52 - e in
                     let n' := if 0 <=? sh then n * 2 ^ sh else n in
                     let d' := if 0 <=? sh then d else d * 2 ^ (- sh) in
                     (n' / d', n' mod d', d') in
  let e := if two52 <=? fst (fst (qr e0)) then e0 else e0 - 1 in
  let '(q, r, d') := qr e in
  let q' := if (d' <? 2 * r) || ((d' =? 2 * r) && Z.odd q) then q + 1 else q in
  (e + 1023) * two52 + (q' - two52).
(* float64(int64 t) *)
Definition f_of_int (t : Z) : Z :=
  if t =? 0 then 0 else if t <? 0 then two63 + round_ratio (- t) 1 else round_ratio t 1.
(* f / 1000 for a finite normal f *)
Definition fdiv1000 (b : Z) : Z :=
  let a := fabs b in
  if a =? 0 then b else
  let e := a / two52 - 1023 in
  let m := a mod two52 + two52 in
  let n := if 52 <=? e then m * 2 ^ (e - 52) else m in
  let d := if 52 <=? e then 1000 else 1000 * 2 ^ (52 - e) in
  (if fsign b then two63 else 0) + round_ratio n d.
(* Scalar.MarshalJSON: float64(s.T) / 1000 *)
Definition scalar_ts_bits (t : Z) : Z := fdiv1000 (f_of_int t).

Inductive fmtk := FmtE | FmtF.

(* ------------------------------------------------------------------ histograms *)
Record span := mkSpan { sp_off : Z; sp_len : Z }.
Record hist := mkHist {
  h_schema : Z; h_zt : Z; h_zc : Z; h_count : Z; h_sum : Z;
  h_pspans : list span; h_nspans : list span;
  h_pb : list Z; h_nb : list Z; h_custom : list Z }.
Record bucket := mkB { b_lo : Z; b_hi : Z; b_loinc : bool; b_hiinc : bool; b_cnt : Z }.

Definition custom_schema : Z := -53.

(* reverseFloatBucketIterator: spans and buckets are passed reversed; the head of [rs] is the
   current span (spansIdx), [idxIn] is idxInSpan, [cur] is currIdx. *)
Fixpoint rskip (rs : list span) (idxIn cur : Z) : option (list span * Z * Z) :=
  if idxIn <? 0 then
    match rs with
    | [] => None                                            (* spansIdx-- < 0 *)
    | s :: rs' =>
        match rs' with
        | [] => None
        | s' :: _ => rskip rs' (sp_len s' - 1) (cur - sp_off s)
        end
    end
  else Some (rs, idxIn, cur).
Fixpoint rnext_all (rb : list Z) (rs : list span) (idxIn cur : Z) : list (Z * Z) :=
  match rb with
  | [] => []                                                (* bucketsIdx < 0 *)
  | b :: rb' =>
      let cur := cur - 1 in
      match rskip rs idxIn cur with
      | None => []
      | Some (rs2, idxIn2, cur2) => (cur2, b) :: rnext_all rb' rs2 (idxIn2 - 1) cur2
      end
  end.
(* newReverseFloatBucketIterator *)
Definition rev_iter (spans : list span) (buckets : list Z) : list (Z * Z) :=
  let rs := rev spans in
  let idxIn := match rs with [] => 0 | s :: _ => sp_len s - 1 end in
  let cur := fold_left (fun a s => a + sp_off s + sp_len s) spans 0 in
  rnext_all (rev buckets) rs idxIn cur.

(* floatBucketIterator.Next, fast path (schema == targetSchema, absoluteStartValue == 0) *)
Fixpoint fskip (s : span) (rest : list span) (idxIn cur : Z) : option (span * list span * Z * Z) :=
  if sp_len s <=? idxIn then
    match rest with
    | [] => None
    | s' :: r' => fskip s' r' 0 (cur + sp_off s')
    end
  else Some (s, rest, idxIn, cur).
Fixpoint fnext_all (bs : list Z) (first : bool) (ss : list span) (idxIn cur : Z) : list (Z * Z) :=
  match bs with
  | [] => []
  | b :: bs' =>
      match ss with
      | [] => []                                            (* spansIdx >= len(spans) *)
      | s :: rest =>
          let cur := if first then sp_off s else cur + 1 in
          match fskip s rest idxIn cur with
          | None => []
          | Some (s2, rest2, idxIn2, cur2) =>
              (cur2, b) :: fnext_all bs' false (s2 :: rest2) (idxIn2 + 1) cur2
          end
      end
  end.
Definition fwd_iter (spans : list span) (buckets : list Z) : list (Z * Z) :=
  fnext_all buckets true spans 0 0.

Section Oracles.
Variable fmt : Z -> fmtk -> bytes.          (* strconv.AppendFloat(nil, f, 'e'|'f', -1, 64) *)
Variable ebound : Z -> Z -> Z.              (* getBoundExponential(idx, schema): schema, idx |-> bits *)

(* ---------------- MarshalFloat *)
Definition choose_fmt (f : Z) : fmtk :=
  let a := fabs f in
  if fne a fzero then (if flt a c_1em6 || fge a c_1e21 then FmtE else FmtF) else FmtF.
Definition marshal_float (f : Z) : bytes := [34%N] ++ fmt f (choose_fmt f) ++ [34%N].

(* ---------------- getBound *)
Definition get_bound (h : hist) (idx : Z) : res Z :=
  if h_schema h =? custom_schema then
    let len := Z.of_nat (List.length (h_custom h)) in
    if (len <? idx) || (idx <? -1) then Panic
    else if idx =? len then Ok inf_bits
    else if idx =? -1 then Ok ninf_bits
    else match nth_error (h_custom h) (Z.to_nat idx) with Some v => Ok v | None => Panic end
  else Ok (ebound (h_schema h) idx).

(* baseBucketIterator.at *)
Definition bucket_at (h : hist) (positive : bool) (ic : Z * Z) : res bucket :=
  let '(idx, cnt) := ic in
  bind (get_bound h idx) (fun b1 =>
  bind (get_bound h (idx - 1)) (fun b0 =>
  let lo := if positive then b0 else fnegate b1 in
  let hi := if positive then b1 else fnegate b0 in
  if h_schema h =? custom_schema
  then Ok (mkB lo hi (idx =? 0) true cnt)
  else Ok (mkB lo hi (flt lo fzero) (fgt hi fzero) cnt))).

(* allFloatBucketIterator.Next: the two clipping cases are the same in state -1 and state 1 *)
Definition clip (h : hist) (b : bucket) : bucket :=
  if flt (b_hi b) fzero && fgt (b_hi b) (fnegate (h_zt h))
  then mkB (b_lo b) (fnegate (h_zt h)) (b_loinc b) (b_hiinc b) (b_cnt b)
  else if fgt (b_lo b) fzero && flt (b_lo b) (h_zt h)
  then mkB (h_zt h) (b_hi b) (b_loinc b) (b_hiinc b) (b_cnt b)
  else b.

Fixpoint mapM {A B} (f : A -> res B) (l : list A) : res (list B) :=
  match l with
  | [] => Ok []
  | a :: l' => bind (f a) (fun b => bind (mapM f l') (fun bs => Ok (b :: bs)))
  end.

(* the whole sequence produced by AllBucketIterator (Next/At until exhausted) *)
Definition all_buckets (h : hist) : res (list bucket) :=
  bind (mapM (fun ic => bind (bucket_at h false ic) (fun b => Ok (clip h b)))
             (rev_iter (h_nspans h) (h_nb h))) (fun negs =>
  bind (if fgt (h_zc h) fzero
        then (if h_schema h =? custom_schema then Panic          (* ZeroBucket() panics *)
              else Ok [mkB (fnegate (h_zt h)) (h_zt h) true true (h_zc h)])
        else Ok []) (fun zero =>
  bind (mapM (fun ic => bind (bucket_at h true ic) (fun b => Ok (clip h b)))
             (fwd_iter (h_pspans h) (h_pb h))) (fun poss =>
  Ok (negs ++ zero ++ poss)))).

(* ---------------- MarshalHistogram *)
Definition boundaries (b : bucket) : Z :=
  if b_loinc b then (if b_hiinc b then 3 else 1) else (if b_hiinc b then 0 else 2).
Definition marshal_bucket (b : bucket) : bytes :=
  [91%N] ++ write_int64 (boundaries b) ++ [44%N] ++ marshal_float (b_lo b) ++ [44%N]
         ++ marshal_float (b_hi b) ++ [44%N] ++ marshal_float (b_cnt b) ++ [93%N].
(* the loop over the iterator; [found] is bucketFound *)
Fixpoint marshal_buckets_loop (found : bool) (bs : list bucket) : bytes :=
  match bs with
  | [] => if found then [93%N] else []
  | b :: bs' =>
      if feq (b_cnt b) fzero then marshal_buckets_loop found bs'
      else [44%N] ++ (if found then [] else s2b """buckets"":[") ++ marshal_bucket b
                  ++ marshal_buckets_loop true bs'
  end.
Definition marshal_histogram (h : hist) : res bytes :=
  bind (all_buckets h) (fun bs =>
  Ok (s2b "{""count"":" ++ marshal_float (h_count h) ++ s2b ",""sum"":" ++ marshal_float (h_sum h)
      ++ marshal_buckets_loop false bs ++ [125%N])).

(* ---------------- json_codec.go *)
Definition labels := list (bytes * bytes).      (* names/values restricted to [A-Za-z0-9_] *)
Definition quote (s : bytes) : bytes := [34%N] ++ s ++ [34%N].
Fixpoint marshal_labels_loop (first : bool) (l : labels) : bytes :=
  match l with
  | [] => []
  | (n, v) :: l' => (if first then [] else [44%N]) ++ quote n ++ [58%N] ++ quote v
                    ++ marshal_labels_loop false l'
  end.
Definition marshal_labels (l : labels) : bytes := [123%N] ++ marshal_labels_loop true l ++ [125%N].

Inductive jvalue := JFloat (f : Z) | JHist (h : hist).
Record sample := mkSample { sm_labels : labels; sm_t : Z; sm_v : jvalue }.
Record series := mkSeries { sr_labels : labels; sr_floats : list (Z * Z); sr_hists : list (Z * hist) }.

Definition marshal_sample (s : sample) : res bytes :=
  let head := s2b "{""metric"":" ++ marshal_labels (sm_labels s) ++ [44%N] in
  match sm_v s with
  | JFloat f => Ok (head ++ s2b """value"":[" ++ marshal_timestamp (sm_t s) ++ [44%N]
                         ++ marshal_float f ++ s2b "]}")
  | JHist h => bind (marshal_histogram h) (fun hb =>
               Ok (head ++ s2b """histogram"":[" ++ marshal_timestamp (sm_t s) ++ [44%N]
                        ++ hb ++ s2b "]}"))
  end.

Definition marshal_fpoint (p : Z * Z) : bytes :=
  [91%N] ++ marshal_timestamp (fst p) ++ [44%N] ++ marshal_float (snd p) ++ [93%N].
Definition marshal_hpoint (p : Z * hist) : res bytes :=
  bind (marshal_histogram (snd p)) (fun hb =>
  Ok ([91%N] ++ marshal_timestamp (fst p) ++ [44%N] ++ hb ++ [93%N])).

Fixpoint marshal_floats_loop (first : bool) (l : list (Z * Z)) : bytes :=
  match l with
  | [] => if first then [] else [93%N]
  | p :: l' => [44%N] ++ (if first then s2b """values"":[" else []) ++ marshal_fpoint p
               ++ marshal_floats_loop false l'
  end.
Fixpoint marshal_hists_loop (first : bool) (l : list (Z * hist)) : res bytes :=
  match l with
  | [] => Ok (if first then [] else [93%N])
  | p :: l' => bind (marshal_hpoint p) (fun pb =>
               bind (marshal_hists_loop false l') (fun rest =>
               Ok ([44%N] ++ (if first then s2b """histograms"":[" else []) ++ pb ++ rest)))
  end.
Definition marshal_series (s : series) : res bytes :=
  bind (marshal_hists_loop true (sr_hists s)) (fun hb =>
  Ok (s2b "{""metric"":" ++ marshal_labels (sr_labels s)
      ++ marshal_floats_loop true (sr_floats s) ++ hb ++ [125%N])).

(* `[x,x,...]` with the comma written after every element but the last *)
Fixpoint marshal_array_loop {A} (f : A -> res bytes) (l : list A) : res bytes :=
  match l with
  | [] => Ok []
  | a :: l' => bind (f a) (fun ab => bind (marshal_array_loop f l') (fun rest =>
               Ok (ab ++ (match l' with [] => [] | _ => [44%N] end) ++ rest)))
  end.
Definition marshal_array {A} (f : A -> res bytes) (l : list A) : res bytes :=
  bind (marshal_array_loop f l) (fun b => Ok ([91%N] ++ b ++ [93%N])).

(* promql.Scalar.MarshalJSON: json.Marshal([...]any{float64(T)/1000, FormatFloat(V,'f',-1,64)});
   encoding/json prints a float64 x with 1e-6 <= |x| < 1e21 (or x = 0) as AppendFloat(x,'f',-1,64);
   |T/1000| is 0 or within [1e-3, 9.3e15]. *)
Definition marshal_scalar (t v : Z) : bytes :=
  [91%N] ++ fmt (scalar_ts_bits t) FmtF ++ [44%N] ++ quote (fmt v FmtF) ++ [93%N].

Inductive doc := DVector (l : list sample) | DMatrix (l : list series) | DScalar (t v : Z).
Definition marshal_doc (d : doc) : res bytes :=
  match d with
  | DVector l => marshal_array marshal_sample l
  | DMatrix l => marshal_array marshal_series l
  | DScalar t v => Ok (marshal_scalar t v)
  end.
End Oracles.

(* ------------------------------------------------------------------ specification side *)
(* The API's time range in milliseconds (web/api/v1: MinTime, MaxTime). *)
Definition api_min_ms : Z := (godiv minInt64 1000 + 62135596801) * 1000.
Definition api_max_ms : Z := (godiv maxInt64 1000 - 62135596801) * 1000 + 999.
Definition in_api_range (t : Z) : bool := (api_min_ms <=? t) && (t <=? api_max_ms).

(* Independent decoder of a JSON number without exponent: optional '-', then 0 or a non-zero digit followed by digits, then optionally '.' and one or more digits.
   Result (m, k): the number is exactly m / 10^k; [neg] is kept because "-0" is legal. *)
Definition is_digit (c : N) : bool := ((48 <=? c) && (c <=? 57))%N.
Fixpoint take_digits (bs : bytes) : bytes * bytes :=
  match bs with
  | c :: r => if is_digit c then let (d, r') := take_digits r in (c :: d, r') else ([], bs)
  | [] => ([], [])
  end.
Fixpoint digits_val (acc : Z) (ds : bytes) : Z :=
  match ds with [] => acc | c :: r => digits_val (acc * 10 + (Z.of_N c - 48)) r end.
Definition int_ok (ip : bytes) : bool :=
  match ip with [] => false | [_] => true | c :: _ => negb (c =? 48)%N end.
Definition parse_unsigned (sg : Z) (r : bytes) : option (Z * Z) :=
  let '(ip, r2) := take_digits r in
  if int_ok ip then
    match r2 with
    | [] => Some (sg * digits_val 0 ip, 0)
    | c :: fr =>
        if (c =? 46)%N then
          let '(fp, r3) := take_digits fr in
          match fp, r3 with
          | _ :: _, [] => Some (sg * digits_val (digits_val 0 ip) fp, Z.of_nat (List.length fp))
          | _, _ => None
          end
        else None
    end
  else None.
Definition parse_number (bs : bytes) : option (Z * Z) :=
  match bs with
  | [] => None
  | c :: r => if (c =? 45)%N then parse_unsigned (-1) r else parse_unsigned 1 bs
  end.

(* JSON string without escapes: the content between the quotes *)
Definition plain_char (c : N) : bool := ((32 <=? c) && (c <? 127) && negb (c =? 34) && negb (c =? 92))%N.
Definition unquote (bs : bytes) : option bytes :=
  match bs with
  | [] => None
  | q :: r =>
      if (q =? 34)%N then
        match rev r with
        | [] => None
        | q' :: body' =>
            if (q' =? 34)%N then
              let body := rev body' in if forallb plain_char body then Some body else None
            else None
        end
      else None
  end.

(* What a histogram means, independently of the iterators: spans expanded left to right. *)
Fixpoint zip_idx (start : Z) (cs : list Z) : list (Z * Z) :=
  match cs with [] => [] | c :: r => (start, c) :: zip_idx (start + 1) r end.
Fixpoint expand (ss : list span) (bs : list Z) (next : Z) : list (Z * Z) :=
  match ss with
  | [] => []
  | s :: r => let st := next + sp_off s in
              let n := Z.to_nat (sp_len s) in
              zip_idx st (firstn n bs) ++ expand r (skipn n bs) (st + sp_len s)
  end.
Definition spans_ok (ss : list span) (bs : list Z) : bool :=
  forallb (fun s => 0 <=? sp_len s) ss &&
  (fold_left (fun a s => a + sp_len s) ss 0 =? Z.of_nat (List.length bs)).
Definition hist_valid (h : hist) : bool :=
  spans_ok (h_pspans h) (h_pb h) && spans_ok (h_nspans h) (h_nb h) &&
  (if h_schema h =? custom_schema
   then feq (h_zc h) fzero && Nat.eqb (List.length (h_nb h)) 0 &&
        forallb (fun ic => (0 <=? fst ic) && (fst ic <=? Z.of_nat (List.length (h_custom h))))
                (expand (h_pspans h) (h_pb h) 0)
   else true).

Section Spec.
Variable ebound : Z -> Z -> Z.
(* bound with index idx: upper bound of bucket idx (custom: +Inf past the last, -Inf before the first) *)
Definition spec_bound (h : hist) (idx : Z) : Z :=
  if h_schema h =? custom_schema then
    if idx <? 0 then ninf_bits else nth (Z.to_nat idx) (h_custom h) inf_bits
  else ebound (h_schema h) idx.
(* exposed bucket: (inclusiveness code, lower, upper, count) *)
Definition spec_pos (h : hist) (ic : Z * Z) : Z * Z * Z * Z :=
  let lo := spec_bound h (fst ic - 1) in
  let lo' := if fgt lo fzero && flt lo (h_zt h) then h_zt h else lo in   (* overlaps the zero bucket *)
  ((if (h_schema h =? custom_schema) && (fst ic =? 0) then 3 else 0), lo', spec_bound h (fst ic), snd ic).
Definition spec_neg (h : hist) (ic : Z * Z) : Z * Z * Z * Z :=
  let hi := fnegate (spec_bound h (fst ic - 1)) in
  let hi' := if flt hi fzero && fgt hi (fnegate (h_zt h)) then fnegate (h_zt h) else hi in
  (1, fnegate (spec_bound h (fst ic)), hi', snd ic).
Definition spec_all (h : hist) : list (Z * Z * Z * Z) :=
  map (spec_neg h) (rev (expand (h_nspans h) (h_nb h) 0))
  ++ (if fne (h_zc h) fzero then [(3, fnegate (h_zt h), h_zt h, h_zc h)] else [])
  ++ map (spec_pos h) (expand (h_pspans h) (h_pb h) 0).
Definition spec_exposed (h : hist) : list (Z * Z * Z * Z) :=
  filter (fun b => fne (snd b) fzero) (spec_all h).
End Spec.

(* model/Isolation.v — executable model of the head's read isolation (definitions only).

   Transcribed from /repo/tsdb:
     isolation.go    isolation.newAppendID / closeAppend / State / lowWatermarkLocked,
                     txRing.add / cleanupAppendIDsBelow / iterator (index arithmetic as written)
     head_append.go  headAppenderBase.Commit -> commitFloats: per sample, under the series lock:
                     in-order check, memSeries.append (txs.add(appendID)), cleanupAppendIDsBelow;
                     deferred closeAppend; Rollback (cleanupAppendIDsBelow per sample, closeAppend)
     head_read.go    memSeries.iterator: the stopAfter computation
     head.go         memSeries.mmapChunks (all head chunks but the newest become m-mapped)

   Actors and atomic steps (each one critical section of the real code; a pause point of the
   harness sits between any two of them): see [ev].  Every Go index / slice expression that is
   bounds-checked yields [RPanic] when out of range.  Chunk cutting (appendPreprocessor's
   policy: samplesPerChunk, chunkRange, byte size) is NOT modelled: whether a sample opens a new
   head chunk is an input of the step ([cut]), observed on the implementation by the harness;
   every theorem holds for any cutting policy.

   Assumptions written into the model: appendIDs are unbounded (uint64 never wraps: 2^64
   appenders), ring positions are unbounded naturals (txIDFirst/txIDCount are uint32; they stay
   below 2*len(txIDs), so this is exact for rings shorter than 2^31 entries). *)
From Coq Require Import List ZArith Bool Arith Lia.
Import ListNotations.
Open Scope Z_scope.

Inductive result (A : Type) := ROk (a : A) | RInvalid | RPanic.
Arguments ROk {A} a.
Arguments RInvalid {A}.
Arguments RPanic {A}.

(* ------------------------------------------------------------------ txRing *)

Record ring := mkRing { r_ids : list Z; r_first : nat; r_count : nat }.

(* newTxRing(0) *)
Definition ring_new : ring := mkRing [] 0 0.

Definition set_nth (n : nat) (x : Z) (l : list Z) : list Z := firstn n l ++ x :: skipn (S n) l.

(* txRing.add.  None = Go panic (slice bounds / modulo by zero). *)
Definition ring_add (r : ring) (id : Z) : option ring :=
  let len := length (r_ids r) in
  let grown :=
    if Nat.eqb (r_count r) len then
      (* newLen := count*2; if newLen == 0 { newLen = 4 } *)
      let newLen := (if Nat.eqb (r_count r * 2) 0 then 4 else r_count r * 2)%nat in
      if Nat.leb (r_first r) len then
        (* idx := copy(newRing, txIDs[first:]); copy(newRing[idx:], txIDs[:first]) *)
        Some (mkRing (skipn (r_first r) (r_ids r) ++ firstn (r_first r) (r_ids r) ++ repeat 0 (newLen - len))
                     0 (r_count r))
      else None
    else Some r in
  match grown with
  | None => None
  | Some g =>
      let len' := length (r_ids g) in
      if Nat.eqb len' 0 then None else
      (* txIDs[int(first+count) % len] = appendID; count++ *)
      Some (mkRing (set_nth ((r_first g + r_count g) mod len') id (r_ids g)) (r_first g) (S (r_count g)))
  end.

(* the loop of txRing.cleanupAppendIDsBelow; it runs at most txIDCount times *)
Fixpoint cleanup_loop (ids : list Z) (bound : Z) (count first pos : nat) : option (nat * nat) :=
  match count with
  | O => Some (first, O)
  | S c =>
      match nth_error ids pos with
      | None => None
      | Some x =>
          if x >=? bound then Some (first, count)
          else cleanup_loop ids bound c (S first) (if Nat.eqb (S pos) (length ids) then O else S pos)
      end
  end.

Definition ring_cleanup (r : ring) (bound : Z) : option ring :=
  if Nat.eqb (length (r_ids r)) 0 then Some r else
  match cleanup_loop (r_ids r) bound (r_count r) (r_first r) (r_first r) with
  | None => None
  | Some (f, c) => Some (mkRing (r_ids r) (f mod length (r_ids r)) c)   (* txIDFirst %= len *)
  end.

(* txRingIterator: At() = ids[pos] (bounds-checked), Next() wraps.
   [scan] is the loop of memSeries.iterator over the first n ring entries:
   Some None = every entry visible, Some (Some index) = first invisible entry. *)
Fixpoint scan (vis : Z -> bool) (ids : list Z) (pos n index : nat) : option (option nat) :=
  match n with
  | O => Some None
  | S n' =>
      match nth_error ids pos with
      | None => None
      | Some id =>
          if vis id then scan vis ids (if Nat.eqb (S pos) (length ids) then O else S pos) n' (S index)
          else Some (Some index)
      end
  end.

(* ------------------------------------------------------------------ series *)

(* s_owner is the appendID the sample was written with (ghost for the reader: the
   implementation only keeps it in the ring). *)
Record sample := mkS { s_t : Z; s_v : Z; s_owner : Z }.

(* chunks oldest first; the last head chunk is the open one *)
Record mseries := mkSer { m_mm : list (list sample); m_hd : list (list sample); m_txs : ring }.

Definition ser_new : mseries := mkSer [] [] ring_new.

Definition chunks_of (s : mseries) : list (list sample) := m_mm s ++ m_hd s.
Definition all_samples (s : mseries) : list sample := concat (chunks_of s).

Definition last_t (s : mseries) : option Z :=
  match rev (all_samples s) with [] => None | x :: _ => Some (s_t x) end.

Definition push_sample (hd : list (list sample)) (cut : bool) (x : sample) : list (list sample) :=
  match rev hd with
  | [] => [[x]]
  | c :: before => if cut then hd ++ [[x]] else rev before ++ [c ++ [x]]
  end.

(* one iteration of commitFloats for an in-order-capable float sample (OOO disabled):
   appendable / appendPreprocessor accept iff t is above the series' newest timestamp;
   then txs.add(appendID); cleanupAppendIDsBelow(bound) runs in either case. *)
Definition ser_apply (s : mseries) (id bound t v : Z) (cut : bool) : option mseries :=
  let inorder := match last_t s with None => true | Some lt => t >? lt end in
  let s1 :=
    if inorder then
      match ring_add (m_txs s) id with
      | None => None
      | Some r => Some (mkSer (m_mm s) (push_sample (m_hd s) cut (mkS t v id)) r)
      end
    else Some s in
  match s1 with
  | None => None
  | Some s1 =>
      match ring_cleanup (m_txs s1) bound with
      | None => None
      | Some r => Some (mkSer (m_mm s1) (m_hd s1) r)
      end
  end.

Definition ser_cleanup (s : mseries) (bound : Z) : option mseries :=
  match ring_cleanup (m_txs s) bound with
  | None => None
  | Some r => Some (mkSer (m_mm s) (m_hd s) r)
  end.

(* memSeries.mmapChunks *)
Definition ser_mmap (s : mseries) : mseries :=
  match rev (m_hd s) with
  | [] => s
  | c :: before => mkSer (m_mm s ++ rev before) [c] (m_txs s)
  end.

(* ------------------------------------------------------------------ isolation *)

Record reader := mkR {
  rd_key : Z;              (* harness-side name of the querier *)
  rd_max : Z;              (* isolationState.maxAppendID *)
  rd_inc : list Z;         (* isolationState.incompleteAppends *)
  rd_low : Z;              (* isolationState.lowWatermark *)
  rd_snap : list Z         (* ghost: the appendIDs closed when the reader was created *)
}.

Record appender := mkA { a_id : Z; a_bound : Z (* cleanupAppendIDsBelow *) }.

Record state := mkSt {
  st_last : Z;                   (* appendsOpenList.appendID: last issued id *)
  st_open : list appender;       (* appendsOpenList, in list order *)
  st_readers : list reader;      (* readsOpen, newest first (State inserts at the front) *)
  st_series : Z -> mseries;      (* by series ref; an unknown ref is a fresh empty series *)
  st_closed : list Z             (* ghost: appendIDs whose closeAppend has run *)
}.

Definition init : state := mkSt 0 [] [] (fun _ => ser_new) [].

Definition memZ (x : Z) (l : list Z) : bool := existsb (Z.eqb x) l.

(* the check in memSeries.iterator *)
Definition visible (rd : reader) (id : Z) : bool := (id <=? rd_max rd) && negb (memZ id (rd_inc rd)).

(* appendsOpenList.next.appendID: lowest open appendID, or the last issued one *)
Definition first_open (last : Z) (open : list appender) : Z :=
  match open with [] => last | a :: _ => a_id a end.

(* isolation.lowWatermarkLocked: readsOpen.prev is the oldest read *)
Definition low_watermark (last : Z) (open : list appender) (readers : list reader) : Z :=
  match rev readers with
  | rd :: _ => rd_low rd
  | [] => first_open last open
  end.

Definition find_app (id : Z) (open : list appender) : option appender :=
  find (fun a => a_id a =? id) open.

Definition upd (f : Z -> mseries) (k : Z) (s : mseries) : Z -> mseries :=
  fun k' => if k' =? k then s else f k'.

Inductive ev :=
| ENewApp                                  (* Head.appender: iso.newAppendID *)
| EApply (a sref t v : Z) (cut : bool)     (* one sample of appender a's Commit *)
| ECleanup (a sref : Z)                    (* one sample of appender a's Rollback *)
| EClose (a : Z)                           (* iso.closeAppend at the end of Commit / Rollback *)
| ENewReader (key : Z)                     (* iso.State at querier creation *)
| ECloseReader (key : Z)                   (* isolationState.Close *)
| EMmap (sref : Z).                        (* memSeries.mmapChunks *)

Definition step (st : state) (e : ev) : result state :=
  match e with
  | ENewApp =>
      let id := st_last st + 1 in
      (* the bound is computed after the new appender was linked in *)
      let open' := st_open st ++ [mkA id 0] in
      let b := low_watermark id open' (st_readers st) in
      ROk (mkSt id (st_open st ++ [mkA id b]) (st_readers st) (st_series st) (st_closed st))
  | EApply a sref t v cut =>
      match find_app a (st_open st) with
      | None => RInvalid
      | Some ap =>
          match ser_apply (st_series st sref) a (a_bound ap) t v cut with
          | None => RPanic
          | Some s => ROk (mkSt (st_last st) (st_open st) (st_readers st) (upd (st_series st) sref s) (st_closed st))
          end
      end
  | ECleanup a sref =>
      match find_app a (st_open st) with
      | None => RInvalid
      | Some ap =>
          match ser_cleanup (st_series st sref) (a_bound ap) with
          | None => RPanic
          | Some s => ROk (mkSt (st_last st) (st_open st) (st_readers st) (upd (st_series st) sref s) (st_closed st))
          end
      end
  | EClose a =>
      match find_app a (st_open st) with
      | None => RInvalid
      | Some _ =>
          ROk (mkSt (st_last st) (filter (fun x => negb (a_id x =? a)) (st_open st)) (st_readers st)
                    (st_series st) (a :: st_closed st))
      end
  | ENewReader key =>
      if existsb (fun rd => rd_key rd =? key) (st_readers st) then RInvalid else
      let rd := mkR key (st_last st) (map a_id (st_open st)) (first_open (st_last st) (st_open st)) (st_closed st) in
      ROk (mkSt (st_last st) (st_open st) (rd :: st_readers st) (st_series st) (st_closed st))
  | ECloseReader key =>
      if existsb (fun rd => rd_key rd =? key) (st_readers st) then
        ROk (mkSt (st_last st) (st_open st) (filter (fun rd => negb (rd_key rd =? key)) (st_readers st))
                  (st_series st) (st_closed st))
      else RInvalid
  | EMmap sref =>
      ROk (mkSt (st_last st) (st_open st) (st_readers st) (upd (st_series st) sref (ser_mmap (st_series st sref))) (st_closed st))
  end.

Fixpoint run (st : state) (tr : list ev) : result state :=
  match tr with
  | [] => ROk st
  | e :: tr' => match step st e with ROk st' => run st' tr' | RInvalid => RInvalid | RPanic => RPanic end
  end.

(* ------------------------------------------------------------------ reading *)

Definition total_len (cs : list (list sample)) : nat := length (concat cs).

(* memSeries.iterator for chunk number ix (0 = oldest chunk of the series); the result is the
   list of samples the returned iterator yields.  None = Go panic. *)
Definition read_chunk (rd : reader) (s : mseries) (ix : nat) : option (list sample) :=
  let cs := chunks_of s in
  match nth_error cs ix with
  | None => Some []
  | Some c =>
      let num := Z.of_nat (length c) in
      let total := Z.of_nat (total_len cs) in
      let prev := Z.of_nat (total_len (firstn ix cs)) in
      (* appendIDsToConsider := int(txIDCount) - (totalSamples - (previousSamples + numSamples)) *)
      let n := Z.of_nat (r_count (m_txs s)) - (total - (prev + num)) in
      match scan (visible rd) (r_ids (m_txs s)) (r_first (m_txs s)) (Z.to_nat n) 0 with
      | None => None
      | Some None => Some c
      | Some (Some index) =>
          (* stopAfter = max(numSamples-(appendIDsToConsider-index), 0) *)
          Some (firstn (Z.to_nat (Z.max (num - (n - Z.of_nat index)) 0)) c)
      end
  end.

Fixpoint read_chunks (rd : reader) (s : mseries) (ixs : list nat) : option (list sample) :=
  match ixs with
  | [] => Some []
  | ix :: rest =>
      match read_chunk rd s ix, read_chunks rd s rest with
      | Some a, Some b => Some (a ++ b)
      | _, _ => None
      end
  end.

(* what a querier holding [rd] returns for the series: all its chunks, oldest first *)
Definition read_series (rd : reader) (s : mseries) : option (list sample) :=
  read_chunks rd s (seq 0 (length (chunks_of s))).

Definition find_reader (key : Z) (st : state) : option reader :=
  find (fun rd => rd_key rd =? key) (st_readers st).

(* ------------------------------------------------------------------ specification side *)

(* the samples of the series the reader is entitled to: those of appenders closed before it
   was created *)
Definition entitled (rd : reader) (x : sample) : bool := memZ (s_owner x) (rd_snap rd).

Fixpoint takewhile {A} (p : A -> bool) (l : list A) : list A :=
  match l with
  | [] => []
  | x :: l' => if p x then x :: takewhile p l' else []
  end.

(* the ring's logical contents, oldest first *)
Definition ring_contents (r : ring) : list Z :=
  map (fun k => nth ((r_first r + k) mod length (r_ids r)) (r_ids r) 0) (seq 0 (r_count r)).

Definition lastn {A} (n : nat) (l : list A) : list A := skipn (length l - n) l.

(* model/CompactMerge.v — executable model of the data path of a compaction (C07):

     tsdb/querier.go   blockBaseSeriesSet.Next            (chunk prefilter, trim intervals)
                       populateWithDelGenericSeriesIterator.next  (intervals overlapping the chunk)
                       DeletedIterator.Next                (stateful walk over the intervals)
                       populateWithDelChunkSeriesIterator.Next / populateCurrForSingleChunk
     tsdb/compact.go   DefaultBlockPopulator.PopulateBlock (merge of the block sets, chunk
                       collection, "skip series with all deleted chunks", BlockMeta.Stats)
                       CompactBlockMetas                   (output range of LeveledCompactor.Compact)
     storage/merge.go  NewMergeChunkSeriesSet + compacting / concatenating merger: model/Merge.v (C19)
     tsdb/tombstones   Intervals.Add: model/Intervals.v (C20)
     tsdb/index        Writer.AddSeries: only its chunk-order check

   A block is a list of series (label rank, chunks, tombstone intervals) in index order; chunks
   are (MinTime, MaxTime, samples) as in model/Merge.v. Persisted blocks only: ChunkOrIterable
   always returns a chunk, never an iterable (the head path is not modelled).
   Heap tie-breaking is left open by the choice stream [ch] of model/Merge.v.
   No proofs in this file. *)
From Coq Require Import List ZArith Bool.
From Verif Require Import lib.Int64 model.Intervals model.Merge.
Import ListNotations.
Open Scope Z_scope.

Record bseries := mkBS { bs_l : Z; bs_chunks : list chunk; bs_tombs : list interval }.
Record block := mkB { b_min : Z; b_max : Z; b_series : list bseries }.

(* ------------------------------------------------------------------ tombstones.Interval *)
Definition in_bounds (i : interval) (t : Z) : bool := (imin i <=? t) && (t <=? imax i).
(* Interval{c.MinTime, c.MaxTime}.IsSubrange(intervals) *)
Definition is_subrange (c : chunk) (ivs : list interval) : bool :=
  existsb (fun r => in_bounds r (c_min c) && in_bounds r (c_max c)) ivs.
(* chunks.Meta.OverlapsClosedInterval(i.Mint, i.Maxt) *)
Definition overlaps_closed (c : chunk) (i : interval) : bool :=
  (c_min c <=? imax i) && (imin i <=? c_max c).

(* ------------------------------------------------------------------ DeletedIterator.Next *)
(* inner loop for one timestamp: (is the sample shown?, it.Intervals afterwards) *)
Fixpoint del_check (ts : Z) (ivs : list interval) : bool * list interval :=
  match ivs with
  | [] => (true, [])
  | tr :: r =>
      if in_bounds tr ts then (false, ivs)          (* continue Outer *)
      else if ts <=? imax tr then (true, ivs)       (* return valueType *)
      else del_check ts r                           (* it.Intervals = it.Intervals[1:] *)
  end.
(* the samples a DeletedIterator over [l] with intervals [ivs] shows when drained with Next *)
Fixpoint del_filter (ivs : list interval) (l : list sample) : list sample :=
  match l with
  | [] => []
  | s :: r => let (keep, ivs') := del_check (s_t s) ivs in
              if keep then s :: del_filter ivs' r else del_filter ivs' r
  end.

(* ------------------------------------------------------------------ one chunk
   populateWithDelGenericSeriesIterator.next + populateCurrForSingleChunk.
   None = error (Intervals.Add panic, or "found value type .. in chunk with ..");
   Some None = no chunk produced (every sample deleted); Some (Some c) = chunk handed out. *)
Definition del_chunk (ivs : list interval) (c : chunk) : option (option chunk) :=
  match fold_add [] (filter (overlaps_closed c) ivs) with
  | Panic => None
  | Ok [] => Some (Some c)                          (* currDelIter == nil: chunk taken as it is *)
  | Ok civs =>
      match del_filter civs (c_smp c) with
      | [] => Some None
      | s :: r =>
          if forallb (fun x => s_k x =? s_k s) r
          then Some (Some (mkC (s_t s) (s_t (last r s)) (s :: r)))   (* re-encoded chunk *)
          else None
      end
  end.

Fixpoint del_chunks (ivs : list interval) (cs : list chunk) : option (list chunk) :=
  match cs with
  | [] => Some []
  | c :: r =>
      match del_chunk ivs c, del_chunks ivs r with
      | Some (Some c'), Some r' => Some (c' :: r')
      | Some None, Some r' => Some r'
      | _, _ => None
      end
  end.

(* ------------------------------------------------------------------ blockBaseSeriesSet.Next
   for one series of the index. [maxt] is the closed upper end (meta.MaxTime - 1). *)
Definition keep_chunk (mint maxt : Z) (ivs : list interval) (c : chunk) : bool :=
  negb (c_max c <? mint) && negb (maxt <? c_min c) && negb (is_subrange c ivs).

(* None = error; Some None = series skipped by the set; Some (Some (chunks, intervals)) *)
Definition base_series (mint maxt : Z) (s : bseries) : option (option (list chunk * list interval)) :=
  match filter (keep_chunk mint maxt (bs_tombs s)) (bs_chunks s) with
  | [] => Some None
  | chks =>
      let trimFront := existsb (fun c => c_min c <? mint) chks in
      let trimBack := existsb (fun c => maxt <? c_max c) chks in
      match (if trimFront then add (bs_tombs s) (mkI minInt64 (wrap64 (mint - 1))) else Ok (bs_tombs s)) with
      | Panic => None
      | Ok ivs1 =>
          match (if trimBack then add ivs1 (mkI (wrap64 (maxt + 1)) maxInt64) else Ok ivs1) with
          | Panic => None
          | Ok ivs2 => Some (Some (chks, ivs2))
          end
      end
  end.

(* a chunk series as the block's ChunkSeriesSet hands it out: label and the chunks its
   iterator yields (evaluated here at once; the code evaluates them when the merged series
   is iterated, with no observable difference as nothing can fail in between) *)
Definition cseries := (Z * list chunk)%type.

Fixpoint block_set (mint maxt : Z) (ss : list bseries) : option (list cseries) :=
  match ss with
  | [] => Some []
  | s :: r =>
      match base_series mint maxt s, block_set mint maxt r with
      | Some None, Some r' => Some r'
      | Some (Some (chks, ivs)), Some r' =>
          match del_chunks ivs chks with
          | Some cs => Some ((bs_l s, cs) :: r')
          | None => None
          end
      | _, _ => None
      end
  end.

Fixpoint block_sets (mint maxt : Z) (bs : list block) : option (list (list cseries)) :=
  match bs with
  | [] => Some []
  | b :: r =>
      match block_set mint maxt (b_series b), block_sets mint maxt r with
      | Some s, Some r' => Some (s :: r')
      | _, _ => None
      end
  end.

(* ------------------------------------------------------------------ merge of the sets
   storage.NewMergeChunkSeriesSet only looks at the labels and carries the series along.
   model/Merge.v's [merge_sets] is run on the label ranks, each series carrying (as its one
   sample's timestamp) the index of the set it came from; the chunks are looked up afterwards.
   A failing lookup is an error of the model (excluded by the theorems). *)
Fixpoint tag_sets (i : Z) (sets : list (list cseries)) : list (list series) :=
  match sets with
  | [] => []
  | s :: r => map (fun x => mkSer (fst x) [mkS i 0 0]) s :: tag_sets (i + 1) r
  end.

Definition resolve (sets : list (list cseries)) (x : series) : option (list chunk) :=
  match ser_s x with
  | [tg] =>
      match nth_error sets (Z.to_nat (s_t tg)) with
      | Some set =>
          match find (fun y => fst y =? ser_l x) set with
          | Some y => Some (snd y)
          | None => None
          end
      | None => None
      end
  | _ => None
  end.

Fixpoint resolve_all (sets : list (list cseries)) (g : list series) : option (list (list chunk)) :=
  match g with
  | [] => Some []
  | x :: r => match resolve sets x, resolve_all sets r with
              | Some cs, Some r' => Some (cs :: r')
              | _, _ => None
              end
  end.

(* genericMergeSeriesSet.At: the only series itself, else mergeFunc(series...) and its iterator *)
Definition merge_group (ch : choices) (compacting : bool) (g : list (list chunk))
  : option (list chunk) * choices :=
  match g with
  | [cs] => (Some cs, ch)
  | _ => if compacting then compact_chunks ch g else (Some (concat_chunks g), ch)
  end.

(* ------------------------------------------------------------------ BlockMeta.Stats *)
Record stats := mkSt { st_series : Z; st_chunks : Z; st_samples : Z; st_hist : Z; st_float : Z }.
Definition stats0 : stats := mkSt 0 0 0 0 0.

(* chunk encoding class, from the value type the chunk holds: 1 XOR, 2/3 (float) histogram *)
Definition chunk_kind (c : chunk) : Z := match c_smp c with [] => 0 | s :: _ => s_k s end.
Definition nsamples (c : chunk) : Z := Z.of_nat (length (c_smp c)).

Definition add_chunk_stats (st : stats) (c : chunk) : stats :=
  let n := nsamples c in
  let k := chunk_kind c in
  mkSt (st_series st) (st_chunks st) (st_samples st + n)
       (if (k =? 2) || (k =? 3) then st_hist st + n else st_hist st)
       (if k =? 1 then st_float st + n else st_float st).

Definition add_series_stats (st : stats) (chks : list chunk) : stats :=
  fold_left add_chunk_stats chks
            (mkSt (st_series st + 1) (st_chunks st + Z.of_nat (length chks))
                  (st_samples st) (st_hist st) (st_float st)).

(* index.Writer.AddSeries: "chunk minT %d is not higher than previous chunk maxT %d" *)
Fixpoint chunks_inorder (cs : list chunk) : bool :=
  match cs with
  | a :: ((b :: _) as r) => (c_max a <? c_min b) && chunks_inorder r
  | _ => true
  end.

(* ------------------------------------------------------------------ PopulateBlock main loop *)
Fixpoint populate_loop (ch : choices) (compacting : bool) (sets : list (list cseries))
         (groups : list (list series)) (st : stats)
  : option (list cseries * stats) * choices :=
  match groups with
  | [] => (Some ([], st), ch)
  | g :: rest =>
      match g, resolve_all sets g with
      | x :: _, Some css =>
          match merge_group ch compacting css with
          | (None, ch1) => (None, ch1)
          | (Some [], ch1) => populate_loop ch1 compacting sets rest st   (* all chunks deleted *)
          | (Some chks, ch1) =>
              if negb (chunks_inorder chks) then (None, ch1)          (* indexw.AddSeries fails *)
              else
              match populate_loop ch1 compacting sets rest (add_series_stats st chks) with
              | (Some (out, st'), ch2) => (Some ((ser_l x, chks) :: out, st'), ch2)
              | (None, ch2) => (None, ch2)
              end
          end
      | _, _ => (None, ch)
      end
  end.

(* PopulateBlock(blocks, meta{MinTime, MaxTime}): the series written to the index (label,
   chunks) in order, and meta.Stats. None = an error is returned. *)
Definition populate_block (ch : choices) (compacting : bool) (blocks : list block) (mint maxt : Z)
  : option (list cseries * stats) * choices :=
  match blocks with
  | [] => (None, ch)                                  (* "cannot populate block from no readers" *)
  | _ =>
      match block_sets mint (wrap64 (maxt - 1)) blocks with
      | None => (None, ch)
      | Some sets =>
          match merge_sets ch 0 (tag_sets 0 sets) with
          | (None, ch1) => (None, ch1)
          | (Some groups, ch1) => populate_loop ch1 compacting sets groups stats0
          end
      end
  end.

(* CompactBlockMetas: the output range of LeveledCompactor.Compact *)
Definition compact_range (blocks : list block) : Z * Z :=
  match blocks with
  | [] => (0, 0)                                       (* blocks[0] panics; never called so *)
  | b :: r => (fold_left (fun m x => if b_min x <? m then b_min x else m) blocks (b_min b),
               fold_left (fun m x => if m <? b_max x then b_max x else m) blocks (b_max b))
  end.

Definition compact_blocks (ch : choices) (compacting : bool) (blocks : list block)
  : option (list cseries * stats) * choices :=
  let (mint, maxt) := compact_range blocks in populate_block ch compacting blocks mint maxt.

(* ------------------------------------------------------------------ list-level specification
   (what props/C07.v states and what corr/CorrC07.v [holds] evaluates on the observed output) *)
Definition all_smps (cs : list chunk) : list sample := concat (map c_smp cs).

(* a sample of series [s] survives: inside the closed range and in no deleted interval *)
Definition alive (mint maxt : Z) (s : bseries) (x : sample) : bool :=
  (mint <=? s_t x) && (s_t x <=? maxt) && negb (coveredb (bs_tombs s) (s_t x)).

(* all surviving samples, over all blocks, of the series with label l *)
Definition survivors (mint maxt : Z) (blocks : list block) (l : Z) : list sample :=
  flat_map (fun b => flat_map (fun s => if bs_l s =? l
                                        then filter (alive mint maxt s) (all_smps (bs_chunks s))
                                        else []) (b_series b)) blocks.

(* sorted de-duplicated timestamps of a sample list *)
Definition dedup_ts (l : list sample) : list Z := merged_ts [l].

Definition all_labels (blocks : list block) : list Z :=
  fold_right ins [] (map bs_l (flat_map b_series blocks)).

(* the labels that must be in the output: those with at least one surviving sample *)
Definition live_labels (mint maxt : Z) (blocks : list block) : list Z :=
  filter (fun l => match survivors mint maxt blocks l with [] => false | _ => true end)
         (all_labels blocks).

(* stats recomputed from a series list *)
Definition count_stats (out : list cseries) : stats :=
  let cs := flat_map (@snd _ _) out in
  let cnt (p : chunk -> bool) := fold_right (fun c a => if p c then nsamples c + a else a) 0 cs in
  mkSt (Z.of_nat (length out)) (Z.of_nat (length cs)) (cnt (fun _ => true))
       (cnt (fun c => (chunk_kind c =? 2) || (chunk_kind c =? 3)))
       (cnt (fun c => chunk_kind c =? 1)).

Definition stats_eqb (a b : stats) : bool :=
  (st_series a =? st_series b) && (st_chunks a =? st_chunks b) && (st_samples a =? st_samples b)
  && (st_hist a =? st_hist b) && (st_float a =? st_float b).

(* model/RemoteRead.v — executable model of the remote-read data path (C42).

   Transcribed from /repo/storage/remote:
     codec.go        ToQueryResult, FromQueryResult, concreteSeriesIterator.Next,
                     StreamChunkedReadResponses, MergeLabels, chunkedSeriesSet.Next,
                     chunkedSeriesIterator.Next
     read_handler.go remoteReadSamples / remoteReadStreamedXORChunks (external labels merged
                     into every series, one query)
     prompb          Chunk.Size, Label.Size, sovTypes (protobuf size arithmetic that decides
                     where StreamChunkedReadResponses cuts a frame)

   A sample is (timestamp, value kind, payload); the payload is the float64 bit pattern for a
   float sample and a 64 bit digest of all histogram fields (counter-reset hint excluded) for
   a histogram sample.  Strings are byte lists.  Not modelled (trusted, see spec/C42.json):
   protobuf / snappy / CRC framing bytes, XOR / histogram chunk encoding (a chunk is the list
   of samples it decodes to plus the length of its data), histogram validation in
   setCurrentHistogram, label validation, HTTP. No proofs in this file. *)
From Coq Require Import List ZArith Bool NArith.
From Verif Require Import lib.Int64.
Import ListNotations.
Open Scope Z_scope.

(* ------------------------------------------------------------------ samples, labels, series *)

Inductive vkind := KF | KH | KFH.          (* float, integer histogram, float histogram *)

Definition vkind_eqb (a b : vkind) : bool :=
  match a, b with KF, KF | KH, KH | KFH, KFH => true | _, _ => false end.

Record sample := mkS { s_t : Z; s_k : vkind; s_v : Z }.

Definition sample_eqb (a b : sample) : bool :=
  (s_t a =? s_t b) && vkind_eqb (s_k a) (s_k b) && (s_v a =? s_v b).

Definition str := list N.
Definition label := (str * str)%type.       (* name, value *)
Definition labels := list label.

Fixpoint str_cmp (a b : str) : comparison :=   (* Go string comparison: bytewise *)
  match a, b with
  | [], [] => Eq
  | [], _ :: _ => Lt
  | _ :: _, [] => Gt
  | x :: a', y :: b' => match N.compare x y with Eq => str_cmp a' b' | c => c end
  end.

Definition str_eqb (a b : str) : bool := match str_cmp a b with Eq => true | _ => false end.

Fixpoint labels_eqb (a b : labels) : bool :=
  match a, b with
  | [], [] => true
  | (n1, v1) :: a', (n2, v2) :: b' => str_eqb n1 n2 && str_eqb v1 v2 && labels_eqb a' b'
  | _, _ => false
  end.

(* labels.Compare: name then value, pairwise; the shorter set first *)
Fixpoint labels_cmp (a b : labels) : comparison :=
  match a, b with
  | [], [] => Eq
  | [], _ :: _ => Lt
  | _ :: _, [] => Gt
  | (n1, v1) :: a', (n2, v2) :: b' =>
      match str_cmp n1 n2 with
      | Eq => match str_cmp v1 v2 with Eq => labels_cmp a' b' | c => c end
      | c => c
      end
  end.

Record series := mkSer { ser_l : labels; ser_s : list sample }.

Fixpoint samples_eqb (a b : list sample) : bool :=
  match a, b with
  | [], [] => true
  | x :: a', y :: b' => sample_eqb x y && samples_eqb a' b'
  | _, _ => false
  end.

Definition series_eqb (a b : series) : bool :=
  labels_eqb (ser_l a) (ser_l b) && samples_eqb (ser_s a) (ser_s b).

Fixpoint serieslist_eqb (a b : list series) : bool :=
  match a, b with
  | [], [] => true
  | x :: a', y :: b' => series_eqb x y && serieslist_eqb a' b'
  | _, _ => false
  end.

(* ------------------------------------------------------------------ MergeLabels (codec.go) *)
(* merges two name-sorted label lists, preferring primary on equal names; the recursion on
   the secondary list is the inner fixpoint *)
Fixpoint merge_labels (p s : labels) : labels :=
  let fix inner (s : labels) : labels :=
    match p, s with
    | [], _ => s
    | _, [] => p
    | (pn, pv) :: p', (sn, sv) :: s' =>
        match str_cmp pn sn with
        | Lt => (pn, pv) :: merge_labels p' s
        | Gt => (sn, sv) :: inner s'
        | Eq => (pn, pv) :: merge_labels p' s'
        end
    end in
  inner s.

(* ------------------------------------------------------------------ sampled response *)

(* prompb.TimeSeries as far as remote read uses it: labels, float samples (t, bits),
   histograms (t, is-float-histogram, digest) *)
Record pbts := mkTS { ts_l : labels; ts_f : list (Z * Z); ts_h : list (Z * bool * Z) }.

Inductive result (A : Type) := Ok (a : A) | ErrLimit.
Arguments Ok {A} a.
Arguments ErrLimit {A}.

(* the inner loop of ToQueryResult for one series: split by value type, in order *)
Fixpoint floats_of (l : list sample) : list (Z * Z) :=
  match l with
  | [] => []
  | s :: r => match s_k s with KF => (s_t s, s_v s) :: floats_of r | _ => floats_of r end
  end.

Fixpoint hists_of (l : list sample) : list (Z * bool * Z) :=
  match l with
  | [] => []
  | s :: r => match s_k s with
              | KF => hists_of r
              | KH => (s_t s, false, s_v s) :: hists_of r
              | KFH => (s_t s, true, s_v s) :: hists_of r
              end
  end.

(* ToQueryResult: numSamples is counted over the whole series set; with sampleLimit > 0 the
   first sample beyond the limit aborts the whole response *)
Fixpoint to_query_result_from (n : Z) (limit : Z) (ss : list series) : result (list pbts) :=
  match ss with
  | [] => Ok []
  | s :: r =>
      let n' := n + Z.of_nat (length (ser_s s)) in
      if (0 <? limit) && (limit <? n') then ErrLimit
      else match to_query_result_from n' limit r with
           | Ok l => Ok (mkTS (ser_l s) (floats_of (ser_s s)) (hists_of (ser_s s)) :: l)
           | ErrLimit => ErrLimit
           end
  end.

Definition to_query_result (limit : Z) (ss : list series) : result (list pbts) :=
  to_query_result_from 0 limit ss.

(* remoteReadSamples: ts.Labels = MergeLabels(ts.Labels, sortedExternalLabels) *)
Definition add_ext (ext : labels) (l : list pbts) : list pbts :=
  map (fun t => mkTS (merge_labels (ts_l t) ext) (ts_f t) (ts_h t)) l.

(* concreteSeriesIterator.Next, driven until it returns ValNone.  The cursors only ever move
   forward by one, so the state is the pair of not yet consumed suffixes (floats after
   floatsCur, histograms after histogramsCur).  noTS = MaxInt64 is the "nothing to peek"
   sentinel of the Go code; a real sample with that timestamp is indistinguishable from it. *)
Definition noTS : Z := maxInt64.

Definition peek_f (l : list (Z * Z)) : Z := match l with [] => noTS | (t, _) :: _ => t end.
Definition peek_h (l : list (Z * bool * Z)) : Z := match l with [] => noTS | (t, _, _) :: _ => t end.

Definition hist_sample (h : Z * bool * Z) : sample :=
  match h with (t, isf, d) => mkS t (if isf then KFH else KH) d end.

Fixpoint concrete_iter (fuel : nat) (fl : list (Z * Z)) (hl : list (Z * bool * Z)) : list sample :=
  match fuel with
  | O => []
  | S fuel' =>
      let pf := peek_f fl in
      let ph := peek_h hl in
      if pf <? ph then                                   (* case peekFloatTS < peekHistTS *)
        match fl with
        | (t, v) :: fl' => mkS t KF v :: concrete_iter fuel' fl' hl
        | [] => []                                       (* unreachable: pf < ph <= noTS *)
        end
      else if ph <? pf then                              (* case peekHistTS < peekFloatTS *)
        match hl with
        | h :: hl' => hist_sample h :: concrete_iter fuel' fl hl'
        | [] => []
        end
      else if (pf =? noTS) && (ph =? noTS) then []       (* exhausted *)
      else                                               (* same timestamp: float wins, both advance *)
        match fl, hl with
        | (t, v) :: fl', _ :: hl' => mkS t KF v :: concrete_iter fuel' fl' hl'
        | _, _ => []
        end
  end.

Definition iter_fuel (fl : list (Z * Z)) (hl : list (Z * bool * Z)) : nat := S (length fl + length hl).

Definition series_of_ts (t : pbts) : series :=
  mkSer (ts_l t) (concrete_iter (iter_fuel (ts_f t) (ts_h t)) (ts_f t) (ts_h t)).

(* ---- concreteSeriesIterator with Seek: the index-based state of the Go struct.
   floatsCur / histogramsCur start at -1; curValType None = ValNone.  An index out of range
   (a Go panic) is the outer None.  sort.Search is applied to a monotone predicate (sorted
   timestamps), where it returns the first index satisfying it: modelled as that. *)
Record cstate := mkCst { st_fc : Z; st_hc : Z; st_cur : option vkind }.

Definition cst_init : cstate := mkCst (-1) (-1) None.

Definition zlen {A} (l : list A) : Z := Z.of_nat (length l).

Definition f_at (fl : list (Z * Z)) (i : Z) : option (Z * Z) :=
  if i <? 0 then None else nth_error fl (Z.to_nat i).
Definition h_at (hl : list (Z * bool * Z)) (i : Z) : option (Z * bool * Z) :=
  if i <? 0 then None else nth_error hl (Z.to_nat i).

Definition obind {A B} (o : option A) (f : A -> option B) : option B :=
  match o with Some a => f a | None => None end.

Definition h_kind (h : Z * bool * Z) : vkind := if snd (fst h) then KFH else KH.
Definition h_ts (h : Z * bool * Z) : Z := fst (fst h).

(* Next() *)
Definition cnext (fl : list (Z * Z)) (hl : list (Z * bool * Z)) (st : cstate) : option cstate :=
  obind (if st_fc st + 1 <? zlen fl then option_map fst (f_at fl (st_fc st + 1)) else Some noTS) (fun pf =>
  obind (if st_hc st + 1 <? zlen hl then option_map h_ts (h_at hl (st_hc st + 1)) else Some noTS) (fun ph =>
  if pf <? ph then Some (mkCst (st_fc st + 1) (st_hc st) (Some KF))
  else if ph <? pf then
    obind (h_at hl (st_hc st + 1)) (fun h => Some (mkCst (st_fc st) (st_hc st + 1) (Some (h_kind h))))
  else if (pf =? noTS) && (ph =? noTS) then Some (mkCst (zlen fl) (zlen hl) None)
  else Some (mkCst (st_fc st + 1) (st_hc st + 1) (Some KF)))).

(* first index i >= from with timestamp >= t, else the length *)
Fixpoint search_from {A} (ts : A -> Z) (t : Z) (l : list A) (from : nat) (idx : Z) : Z :=
  match l with
  | [] => idx
  | x :: r => match from with
              | S f => search_from ts t r f (idx + 1)
              | O => if t <=? ts x then idx else search_from ts t r O (idx + 1)
              end
  end.

(* Seek(t): the new state and the returned value type *)
Definition cseek (fl : list (Z * Z)) (hl : list (Z * bool * Z)) (t : Z) (st : cstate)
  : option (cstate * option vkind) :=
  let fc := if st_fc st =? -1 then 0 else st_fc st in
  let hc := if st_hc st =? -1 then 0 else st_hc st in
  if (zlen fl <=? fc) && (zlen hl <=? hc) then Some (mkCst fc hc (st_cur st), None)
  else
    (* no-op check *)
    obind (match st_cur st with
           | Some KF => option_map (fun p => t <=? fst p) (f_at fl fc)
           | Some _ => option_map (fun h => t <=? h_ts h) (h_at hl hc)
           | None => Some false
           end) (fun noop =>
    if noop then Some (mkCst fc hc (st_cur st), st_cur st)
    else
      let fc := search_from fst t fl (Z.to_nat fc) 0 in
      let hc := search_from h_ts t hl (Z.to_nat hc) 0 in
      if (fc <? zlen fl) && (hc <? zlen hl) then
        obind (f_at fl fc) (fun f => obind (h_at hl hc) (fun h =>
          if fst f <=? h_ts h then
            Some (if fst f =? h_ts h then mkCst fc hc (Some KF) else mkCst fc (hc - 1) (Some KF), Some KF)
          else
            (* histogram selected: the float cursor steps back, setCurrentHistogram picks the kind *)
            Some (mkCst (fc - 1) hc (Some (h_kind h)), Some (h_kind h))))
      else if fc <? zlen fl then Some (mkCst fc hc (Some KF), Some KF)
      else if hc <? zlen hl then
        obind (h_at hl hc) (fun h => Some (mkCst fc hc (Some (h_kind h)), Some (h_kind h)))
      else Some (mkCst fc hc None, None)).

(* At / AtHistogram / AtFloatHistogram *)
Definition cat (fl : list (Z * Z)) (hl : list (Z * bool * Z)) (st : cstate) : option sample :=
  match st_cur st with
  | Some KF => option_map (fun p => mkS (fst p) KF (snd p)) (f_at fl (st_fc st))
  | Some _ => option_map hist_sample (h_at hl (st_hc st))
  | None => None
  end.

Fixpoint cdrain (fuel : nat) (fl : list (Z * Z)) (hl : list (Z * bool * Z)) (st : cstate)
  : option (list sample) :=
  match fuel with
  | O => Some []
  | S fuel' =>
      obind (cnext fl hl st) (fun st' =>
      match st_cur st' with
      | None => Some []
      | Some _ => obind (cat fl hl st') (fun s => option_map (cons s) (cdrain fuel' fl hl st'))
      end)
  end.

Fixpoint cnexts (n : nat) (fl : list (Z * Z)) (hl : list (Z * bool * Z)) (st : cstate) : option cstate :=
  match n with O => Some st | S n' => obind (cnext fl hl st) (cnexts n' fl hl) end.

(* a probe: fresh iterator, `skip` calls of Next, Seek(t), then read the current sample and
   drain with Next.  Some None = Seek returned ValNone. *)
Definition seek_probe (fl : list (Z * Z)) (hl : list (Z * bool * Z)) (skip : nat) (t : Z)
  : option (option (list sample)) :=
  obind (cnexts skip fl hl cst_init) (fun st =>
  obind (cseek fl hl t st) (fun r =>
  match snd r with
  | None => Some None
  | Some _ =>
      obind (cat fl hl (fst r)) (fun s =>
      option_map (fun l => Some (s :: l)) (cdrain (S (length fl + length hl)) fl hl (fst r)))
  end)).

(* what Seek must do according to chunkenc.Iterator: stand on the first sample at or after
   the current one whose timestamp is >= t *)
Fixpoint drop_before (t : Z) (l : list sample) : list sample :=
  match l with [] => [] | s :: r => if s_t s <? t then drop_before t r else l end.

Definition seek_spec (all : list sample) (skip : nat) (t : Z) : list sample :=
  drop_before t (skipn (pred skip) all).

(* slices.SortFunc by labels.Compare; modelled as insertion sort (the inputs of remote read
   have pairwise distinct label sets, so stability does not matter) *)
Fixpoint insert_series (s : series) (l : list series) : list series :=
  match l with
  | [] => [s]
  | x :: r => match labels_cmp (ser_l s) (ser_l x) with
              | Gt => x :: insert_series s r
              | _ => s :: l
              end
  end.

Fixpoint sort_series (l : list series) : list series :=
  match l with [] => [] | s :: r => insert_series s (sort_series r) end.

(* FromQueryResult + draining every series iterator *)
Definition from_query_result (sortSeries : bool) (res : list pbts) : list series :=
  let l := map series_of_ts res in
  if sortSeries then sort_series l else l.

(* prompb.Sample on the wire (generated gogo-proto code, types.pb.go): the value field is
   written only `if m.Value != 0`; -0.0 != 0 is false in Go, so a negative zero is not written
   and is read back as +0.0.  (Timestamp 0 is omitted too, and read back as 0.) *)
Definition neg_zero_bits : Z := 9223372036854775808.
Definition pb_double (v : Z) : Z := if v =? neg_zero_bits then 0 else v.

Definition wire_ts (t : pbts) : pbts :=
  mkTS (ts_l t) (map (fun p => (fst p, pb_double (snd p))) (ts_f t)) (ts_h t).

(* the whole sampled path of one query: handler side, the wire, then client side *)
Definition sampled_path (limit : Z) (ext : labels) (sortSeries : bool) (ss : list series)
  : result (list series) :=
  match to_query_result limit ss with
  | Ok l => Ok (from_query_result sortSeries (map wire_ts (add_ext ext l)))
  | ErrLimit => ErrLimit
  end.

(* ------------------------------------------------------------------ streamed chunks *)

(* a chunk as the chunk querier hands it to StreamChunkedReadResponses *)
Record chunk := mkC { c_min : Z; c_max : Z; c_enc : Z; c_len : Z; c_samples : list sample }.
Record cseries := mkCS { cs_l : labels; cs_c : list chunk }.

(* sovTypes(x) = (bits.Len64(x|1)+6)/7 on the uint64 image of x *)
Definition sov (x : Z) : Z := (Z.log2 (Z.lor (u64 x) 1) + 1 + 6) / 7.

Definition bytes_field_size (l : Z) : Z := if 0 <? l then 1 + l + sov l else 0.
Definition varint_field_size (v : Z) : Z := if v =? 0 then 0 else 1 + sov v.

(* prompb.Chunk.Size *)
Definition chunk_size (c : chunk) : Z :=
  varint_field_size (c_min c) + varint_field_size (c_max c) + varint_field_size (c_enc c)
  + bytes_field_size (c_len c).

(* prompb.Label.Size *)
Definition strlen (s : str) : Z := Z.of_nat (length s).
Definition label_size (l : label) : Z := bytes_field_size (strlen (fst l)) + bytes_field_size (strlen (snd l)).

Definition max_data_length (maxBytes : Z) (lbls : labels) : Z :=
  fold_left (fun a l => a - label_size l) lbls maxBytes.

(* the "for isNext" loop of StreamChunkedReadResponses for one series:
   acc = chks collected for the frame being built, left = frameBytesLeft *)
Fixpoint frames_go (maxData : Z) (acc : list chunk) (left : Z) (rest : list chunk) : list (list chunk) :=
  match rest with
  | [] => []                      (* loop not entered / left after the last frame was sent *)
  | c :: rest' =>
      let acc' := acc ++ [c] in
      let left' := left - chunk_size c in
      match rest' with
      | _ :: _ => if 0 <? left' then frames_go maxData acc' left' rest'
                  else acc' :: frames_go maxData [] maxData rest'
      | [] => [acc']
      end
  end.

Definition frames_of (maxBytes : Z) (lbls : labels) (chs : list chunk) : list (list chunk) :=
  let md := max_data_length maxBytes lbls in frames_go md [] md chs.

(* one frame on the wire: the (merged) labels and the chunks *)
Record frame := mkF { f_l : labels; f_c : list chunk }.

Definition stream_series (maxBytes : Z) (ext : labels) (s : cseries) : list frame :=
  let lbls := merge_labels (cs_l s) ext in
  map (mkF lbls) (frames_of maxBytes lbls (cs_c s)).

Definition stream_frames (maxBytes : Z) (ext : labels) (ss : list cseries) : list frame :=
  flat_map (stream_series maxBytes ext) ss.

(* chunkedSeriesIterator.Next driven to exhaustion.  scan = the inner for-loop over the
   current chunk: skip samples below mint, stop everything (it.chunks = nil) at the first
   sample above maxt.  The boolean is "iterator exhausted by a sample above maxt". *)
Fixpoint scan (mint maxt : Z) (cur : list sample) : list sample * bool :=
  match cur with
  | [] => ([], false)
  | s :: cur' =>
      if maxt <? s_t s then ([], true)
      else let '(r, d) := scan mint maxt cur' in
           if mint <=? s_t s then (s :: r, d) else (r, d)
  end.

Fixpoint chunked_iter (mint maxt : Z) (chs : list chunk) : list sample :=
  match chs with
  | [] => []
  | c :: rest =>
      let '(r, d) := scan mint maxt (c_samples c) in
      if d then r else r ++ chunked_iter mint maxt rest
  end.

(* chunkedSeriesSet.Next: every frame becomes one storage.Series *)
Definition client_chunked (mint maxt : Z) (fs : list frame) : list series :=
  map (fun f => mkSer (f_l f) (chunked_iter mint maxt (f_c f))) fs.

Definition chunked_path (maxBytes : Z) (ext : labels) (mint maxt : Z) (ss : list cseries) : list series :=
  client_chunked mint maxt (stream_frames maxBytes ext ss).

(* ------------------------------------------------------------------ read.go: the querier on top of a ReadClient *)

Definition str_mem (n : str) (l : list str) : bool := existsb (str_eqb n) l.

(* querier.addExternalLabels: an equality matcher is added for every external label that has
   no user-supplied matcher of the same name; the names of the added ones are returned *)
Definition added_names (ext : labels) (mnames : list str) : list str :=
  map fst (filter (fun l => negb (str_mem (fst l) mnames)) ext).

(* seriesFilter.Labels: labels.NewBuilder(l).Del(names...).Labels(); the builder also drops
   labels with an empty value *)
Definition strip_labels (names : list str) (l : labels) : labels :=
  filter (fun p => negb (str_mem (fst p) names) && negb (match snd p with [] => true | _ => false end)) l.

Definition strip_series (names : list str) (l : list series) : list series :=
  map (fun s => mkSer (strip_labels names (ser_l s)) (ser_s s)) l.

(* querier.Select through a client that got the chunked (true) or the sampled (false)
   response; the serving side and the querier are configured with the same external labels *)
Definition querier_path (chunkedResp : bool) (limit maxBytes : Z) (ext : labels) (mnames : list str)
           (sortSeries : bool) (mint maxt : Z) (direct : list series) (chunks : list cseries)
  : result (list series) :=
  let names := added_names ext mnames in
  if chunkedResp then Ok (strip_series names (chunked_path maxBytes ext mint maxt chunks))
  else match sampled_path limit ext sortSeries direct with
       | Ok l => Ok (strip_series names l)
       | ErrLimit => ErrLimit
       end.

(* ------------------------------------------------------------------ specification side *)

Definition in_range (mint maxt : Z) (s : sample) : bool := (mint <=? s_t s) && (s_t s <=? maxt).

(* what a direct query over [mint, maxt] returns for a series stored as these chunks *)
Definition all_samples (chs : list chunk) : list sample := flat_map c_samples chs.

Definition trim_series (mint maxt : Z) (ext : labels) (s : cseries) : series :=
  mkSer (merge_labels (cs_l s) ext) (filter (in_range mint maxt) (all_samples (cs_c s))).

(* what a consumer has to do to get whole series back from the client's series set: glue
   neighbouring entries with equal label sets (the Go client does not do this) *)
Fixpoint reassemble (l : list series) : list series :=
  match l with
  | [] => []
  | s :: r =>
      match reassemble r with
      | s' :: r' => if labels_eqb (ser_l s) (ser_l s')
                    then mkSer (ser_l s) (ser_s s ++ ser_s s') :: r'
                    else s :: s' :: r'
      | [] => [s]
      end
  end.

(* model/Agent.v — executable model for C48 (agent-mode storage logs every accepted sample).

   Anchors (tsdb/agent):
     db.go            appender.Append / AppendHistogram / AppendExemplar    -> append_v1 / exemplar_v1
                      appenderBase.getOrCreate                              -> get_or_create
                      appenderBase.minValidTime                             -> min_valid
                      appenderBase.validateExemplar                         -> ex_check
                      appenderBase.log / logSeries / commit / rollback      -> log_records / commit / rollback
                      memSeries.updateTimestamp (series.go)                 -> update_ts
                      DB.truncate / gc / keepSeriesInWALCheckpointFn,
                      stripeSeries.GC (series.go)                           -> truncate (through Checkpoint.agent_truncate)
                      DB.replayWAL / loadWAL                                -> replay_rec / replay / restart
                      DB.Querier / ChunkQuerier / ExemplarQuerier           -> query
     db_append_v2.go  appenderV2.Append / appendExemplars /
                      bestEffortAppendSTZeroSample                          -> append_v2 / ex_fold / best_effort
     checkpoint.go    Checkpoint (Options.CheckpointFromInMemorySeries)     -> inmem_checkpoint
   wlog.Checkpoint, the WAL directory and the agent's keep function are the definitions of
   model/Checkpoint.v (property C15), re-used unchanged.

   Label sets, sample values and exemplars are integers interned by the harness:
     lab > 0  a valid label set (after WithoutEmpty), lab = 0 the empty label set,
     lab < 0  a label set with a duplicate label name.
   Sample kinds: 0 float, 1 histogram, 2 float histogram, 3 custom-buckets histogram,
   4 custom-buckets float histogram (kinds 1/3 share pendingHistograms, 2/4 pendingFloatHistograms).

   Definitions only; proofs are in proof/AgentProofs.v. *)
From Coq Require Import List ZArith Bool.
From Verif Require Import lib.Int64 model.Checkpoint.
Import ListNotations.
Open Scope Z_scope.

(* ------------------------------------------------------------------ error classes *)
Definition E_OK : Z := 0.
Definition E_OOO : Z := 1.          (* storage.ErrOutOfOrderSample *)
Definition E_INVALID : Z := 2.      (* tsdb.ErrInvalidSample: empty label set / duplicate label name *)
Definition E_UNKNOWN_REF : Z := 3.  (* "unknown series ref when trying to add exemplar" *)
Definition E_EX_LEN : Z := 4.       (* storage.ErrExemplarLabelLength *)
Definition E_EX_DUP : Z := 5.       (* tsdb.ErrInvalidExemplar (duplicate label name) *)
Definition E_HIST : Z := 6.         (* histogram validation error *)
Definition E_PARTIAL : Z := 7.      (* storage.AppendPartialError (appender V2, exemplar errors) *)
Definition E_UNSUPPORTED : Z := 8.  (* agent.ErrUnsupported *)

(* ------------------------------------------------------------------ state *)
Record mser := mkS { s_ref : ref; s_lab : lab; s_last : Z }.

Record opts := mkO {
  o_oow : Z;        (* Options.OutOfOrderTimeWindow *)
  o_stz : bool;     (* Options.EnableSTAsZeroSample *)
  o_inmem : bool    (* Options.CheckpointFromInMemorySeries *)
}.

Record db := mkDB {
  d_next : Z;                      (* nextRef *)
  d_series : list mser;            (* db.series, in creation order *)
  d_deleted : list (ref * Z);      (* db.deleted: ref -> lastSegment *)
  d_lastex : list (ref * Z);       (* stripeSeries.exemplars: ref -> latest exemplar (interned) *)
  d_wal : wal;
  d_dlab : list (ref * lab)        (* db.deleted[ref].labels (kept only with CheckpointFromInMemorySeries) *)
}.

Definition sample := (ref * Z * Z)%type.     (* ((ref, t), v) *)

(* one appender's pending lists *)
Record app := mkApp {
  p_series : list (ref * lab);
  p_samples : list sample;
  p_hist : list (bool * sample);     (* flag: UsesCustomBuckets *)
  p_fhist : list (bool * sample);
  p_ex : list sample
}.

Definition app_empty : app := mkApp [] [] [] [] [].

Record state := mkSt { st_db : db; st_apps : list (Z * app) }.

Definition db_empty : db := mkDB 0 [] [] [] wal_empty [].
Definition st_empty : state := mkSt db_empty [].

Definition get_app (st : state) (a : Z) : app :=
  match lookup a (st_apps st) with Some p => p | None => app_empty end.

(* ------------------------------------------------------------------ series lookups *)
Fixpoint find_id (r : ref) (l : list mser) : option mser :=
  match l with
  | [] => None
  | s :: t => if s_ref s =? r then Some s else find_id r t
  end.

Fixpoint find_lab (b : lab) (l : list mser) : option mser :=
  match l with
  | [] => None
  | s :: t => if s_lab s =? b then Some s else find_lab b t
  end.

Fixpoint set_last (r : ref) (f : Z -> Z) (l : list mser) : list mser :=
  match l with
  | [] => []
  | s :: t => if s_ref s =? r then mkS (s_ref s) (s_lab s) (f (s_last s)) :: t else s :: set_last r f t
  end.

(* appenderBase.minValidTime *)
Definition min_valid (oow lastTs : Z) : Z :=
  if lastTs <? wrap64 (minInt64 + oow) then minInt64 else wrap64 (lastTs - oow).

(* appenderBase.getOrCreate: Ok (db', app', series) | error class *)
Definition get_or_create (d : db) (p : app) (r : ref) (b : lab) : (db * app * mser) + Z :=
  match (if r =? 0 then None else find_id r (d_series d)) with
  | Some s => inl (d, p, s)
  | None =>
      if b <=? 0 then inr E_INVALID else
      match find_lab b (d_series d) with
      | Some s => inl (d, p, s)
      | None =>
          let nr := d_next d + 1 in
          let s := mkS nr b minInt64 in
          inl (mkDB nr (d_series d ++ [s]) (d_deleted d) (d_lastex d) (d_wal d) (d_dlab d),
               mkApp (p_series p ++ [(nr, b)]) (p_samples p) (p_hist p) (p_fhist p) (p_ex p),
               s)
      end
  end.

Definition push (p : app) (kind : Z) (x : sample) : app :=
  if kind =? 0 then mkApp (p_series p) (p_samples p ++ [x]) (p_hist p) (p_fhist p) (p_ex p)
  else if (kind =? 1) || (kind =? 3) then
    mkApp (p_series p) (p_samples p) (p_hist p ++ [(kind =? 3, x)]) (p_fhist p) (p_ex p)
  else mkApp (p_series p) (p_samples p) (p_hist p) (p_fhist p ++ [(kind =? 4, x)]) (p_ex p).

Definition push_ex (p : app) (x : sample) : app :=
  mkApp (p_series p) (p_samples p) (p_hist p) (p_fhist p) (p_ex p ++ [x]).

(* result of an append: returned ref, error class, exemplar error classes of a partial error *)
Definition ares := (Z * Z * list Z)%type.

(* appender.Append / AppendHistogram (V1) *)
Definition append_v1 (o : opts) (d : db) (p : app) (r : ref) (b : lab) (t v kind : Z) (hbad : bool)
  : db * app * ares :=
  if negb (kind =? 0) && hbad then (d, p, (0, E_HIST, [])) else
  match get_or_create d p r b with
  | inr e => (d, p, (0, e, []))
  | inl (d1, p1, s) =>
      if t <=? min_valid (o_oow o) (s_last s) then (d1, p1, (0, E_OOO, []))
      else (d1, push p1 kind (s_ref s, t, v), (s_ref s, E_OK, []))
  end.

(* an exemplar as seen by the appender: interned identity (labels, value, ts), its timestamp, and the
   validation class of its labels: 0 fine, 1 duplicate label name, 2 label set too long *)
Definition exemplar := (Z * Z * Z)%type.   (* ((id, ts), bad) *)

Definition set_lastex (d : db) (r : ref) (e : Z) : db :=
  match find_id r (d_series d) with   (* SetLatestExemplar: only for a ref in the series map *)
  | Some _ => mkDB (d_next d) (d_series d) (d_deleted d) (upsert r e (d_lastex d)) (d_wal d) (d_dlab d)
  | None => d
  end.

(* validateExemplar: 0 accept, -1 duplicate of the latest exemplar, else error class *)
Definition ex_check (d : db) (r : ref) (e : exemplar) : Z :=
  let '((id, _), bad) := e in
  if bad =? 1 then E_EX_DUP else
  if bad =? 2 then E_EX_LEN else
  match lookup r (d_lastex d) with
  | Some id' => if id =? id' then -1 else 0
  | None => 0
  end.

(* appender.AppendExemplar (V1) *)
Definition exemplar_v1 (d : db) (p : app) (r : ref) (e : exemplar) : db * app * ares :=
  match find_id r (d_series d) with
  | None => (d, p, (0, E_UNKNOWN_REF, []))
  | Some s =>
      let c := ex_check d (s_ref s) e in
      if c =? -1 then (d, p, (0, E_OK, []))
      else if negb (c =? 0) then (d, p, (0, c, []))
      else (set_lastex d (s_ref s) (fst (fst e)), push_ex p (s_ref s, snd (fst e), fst (fst e)), (s_ref s, E_OK, []))
  end.

(* appenderV2.appendExemplars *)
Fixpoint ex_fold (d : db) (p : app) (r : ref) (es : list exemplar) (errs : list Z) : db * app * list Z :=
  match es with
  | [] => (d, p, errs)
  | e :: t =>
      let c := ex_check d r e in
      if c =? -1 then ex_fold d p r t errs
      else if negb (c =? 0) then ex_fold d p r t (errs ++ [c])
      else ex_fold (set_lastex d r (fst (fst e))) (push_ex p (r, snd (fst e), fst (fst e))) r t errs
  end.

(* appenderV2.bestEffortAppendSTZeroSample; zv = interned value of the zero sample *)
Definition best_effort (p : app) (s : mser) (lastTS st t zv kind : Z) : app :=
  if t <=? st then p else
  if st <=? lastTS then p else
  push p kind (s_ref s, st, zv).

(* appenderV2.Append *)
Definition append_v2 (o : opts) (d : db) (p : app) (r : ref) (b : lab) (st t v zv kind : Z)
  (hbad stale : bool) (exs : list exemplar) : db * app * ares :=
  if negb (kind =? 0) && hbad then (d, p, (0, E_HIST, [])) else
  match get_or_create d p r b with
  | inr e => (d, p, (0, e, []))
  | inl (d1, p1, s) =>
      let lastTS := s_last s in
      let p2 := if o_stz o && negb (st =? 0) then best_effort p1 s lastTS st t zv kind else p1 in
      if t <=? min_valid (o_oow o) lastTS then (d1, p2, (0, E_OOO, [])) else
      let p3 := push p2 kind (s_ref s, t, v) in
      if stale then (d1, p3, (s_ref s, E_OK, [])) else
      match exs with
      | [] => (d1, p3, (s_ref s, E_OK, []))
      | _ =>
          let '(d4, p4, errs) := ex_fold d1 p3 (s_ref s) exs [] in
          match errs with
          | [] => (d4, p4, (s_ref s, E_OK, []))
          | _ => (d4, p4, (s_ref s, E_PARTIAL, errs))
          end
      end
  end.

(* ------------------------------------------------------------------ commit / rollback *)
Definition nonempty {A} (mk : list A -> record) (l : list A) : list record :=
  match l with [] => [] | _ => [mk l] end.

Definition sel (c : bool) (l : list (bool * sample)) : list sample :=
  map snd (filter (fun x => Bool.eqb (fst x) c) l).

(* appenderBase.log: series, samples, histograms (custom-buckets ones in a record of their own),
   float histograms (ditto), exemplars *)
Definition log_records (p : app) : list record :=
  nonempty RSeries (p_series p) ++
  nonempty (RSamples 0) (p_samples p) ++
  nonempty (RSamples 1) (sel false (p_hist p)) ++ nonempty (RSamples 3) (sel true (p_hist p)) ++
  nonempty (RSamples 2) (sel false (p_fhist p)) ++ nonempty (RSamples 4) (sel true (p_fhist p)) ++
  nonempty RExemplars (p_ex p).

(* wlog.Log: the records go to the current segment; `rolls` is the oracle of segment rollover:
   the n-th entry is the number of segments the WAL advanced before writing the n-th record *)
Fixpoint attach (cur : Z) (rolls : list Z) (recs : list record) : list (Z * record) :=
  match recs with
  | [] => []
  | r :: t =>
      let '(k, rolls') := match rolls with [] => (0, []) | k :: q => (Z.max 0 k, q) end in
      (cur + k, r) :: attach (cur + k) rolls' t
  end.

Definition wal_write (w : wal) (rolls : list Z) (recs : list record) : wal :=
  wal_log w (attach (w_cur w) rolls recs).

(* memSeries.updateTimestamp *)
Definition update_ts (t : Z) (lastTs : Z) : Z := if lastTs <=? t then t else lastTs.

Definition bump (l : list mser) (xs : list sample) : list mser :=
  fold_left (fun l x => set_last (fst (fst x)) (update_ts (snd (fst x))) l) xs l.

Definition commit (d : db) (p : app) (rolls : list Z) : db :=
  let ser := bump (bump (bump (d_series d) (p_samples p)) (map snd (p_hist p))) (map snd (p_fhist p)) in
  mkDB (d_next d) ser (d_deleted d) (d_lastex d) (wal_write (d_wal d) rolls (log_records p)) (d_dlab d).

Definition rollback (d : db) (p : app) (rolls : list Z) : db :=
  mkDB (d_next d) (d_series d) (d_deleted d) (d_lastex d)
       (wal_write (d_wal d) rolls (nonempty RSeries (p_series p))) (d_dlab d).

(* ------------------------------------------------------------------ truncate / gc *)
(* stripeSeries.GC: series without a write since mint *)
Definition gc_gone (mint : Z) (l : list mser) : list ref :=
  map s_ref (filter (fun s => s_last s <? mint) l).

(* agent.Checkpoint (CheckpointFromInMemorySeries): nothing is read back from the WAL.  The new checkpoint
   holds a series record of every active series together with a float sample record carrying the
   series' last timestamps (value 0 = interned `zv`), then the series records of the deleted series that
   are still needed (lastSegment > last) with the labels remembered in db.deleted.  Batches of 1000
   series (the harness stays far below: one batch).  The order inside each record is Go map order;
   the correspondence compares the records of such a checkpoint sorted by ref. *)
Definition inmem_checkpoint (ser : list mser) (del : list (ref * Z)) (dlab : list (ref * lab)) (last zv : Z)
  : list record :=
  match ser with
  | [] => []
  | _ => [RSeries (map (fun s => (s_ref s, s_lab s)) ser); RSamples 0 (map (fun s => (s_ref s, s_last s, zv)) ser)]
  end ++
  nonempty RSeries (map (fun e => (fst e, match lookup (fst e) dlab with Some b => b | None => 0 end))
                        (filter (fun e => last <? snd e) del)).

(* DB.truncate(mint).  Default: wlog.Checkpoint over the old checkpoint and the segments up to `last`
   (Checkpoint.agent_truncate).  zv is only used by the in-memory checkpoint. *)
Definition truncate (o : opts) (d : db) (mint zv : Z) : db :=
  let gone := gc_gone mint (d_series d) in
  let ser := filter (fun s => negb (memz (s_ref s) gone)) (d_series d) in
  let lastex := filter (fun e => negb (memz (fst e) gone)) (d_lastex d) in
  if o_inmem o then
    let w := d_wal d in
    let del := set_all gone (w_cur w) (d_deleted d) in
    let dlab := fold_left (fun m s => if memz (s_ref s) gone then upsert (s_ref s) (s_lab s) m else m) (d_series d) (d_dlab d) in
    let w1 := wal_next_segment w in
    match plan_last (w_first w) (w_cur w) with
    | None => mkDB (d_next d) ser del lastex w1 dlab
    | Some last =>
        let keepd := filter (fun e => last <? snd e) del in
        mkDB (d_next d) ser keepd lastex
             (wal_checkpointed w1 last (inmem_checkpoint ser del dlab last zv))
             (filter (fun e => match lookup (fst e) keepd with Some _ => true | None => false end) dlab)
    end
  else
    let a := agent_truncate (mkAgent (map s_ref (d_series d)) (d_deleted d) (d_wal d)) mint gone in
    mkDB (d_next d) ser (a_deleted a) lastex (a_wal a) (d_dlab d).

(* ------------------------------------------------------------------ restart: Close + Open (replayWAL) *)
Record rstate := mkR {
  r_series : list mser;
  r_dup : list (ref * ref);        (* duplicateRefToValidRef *)
  r_deleted : list (ref * Z);
  r_lastref : Z;
  r_dlab : list (ref * lab)
}.

Definition mark_deleted (seg : Z) (need_present : bool) (r : ref) (del : list (ref * Z)) : list (ref * Z) :=
  match lookup r del with
  | Some m => if m <=? seg then upsert r seg del else del
  | None => if need_present then del else if 0 <=? seg then upsert r seg del else del
  end.

(* did mark_deleted (need_present = false) store a new entry? then the labels are stored with it *)
Definition marks (seg : Z) (r : ref) (del : list (ref * Z)) : bool :=
  match lookup r del with Some m => m <=? seg | None => 0 <=? seg end.

Definition replay_series (inmem : bool) (seg : Z) (st : rstate) (e : ref * lab) : rstate :=
  let lr := Z.max (r_lastref st) (fst e) in
  match find_lab (snd e) (r_series st) with
  | Some s => mkR (r_series st) (upsert (fst e) (s_ref s) (r_dup st)) (mark_deleted seg false (fst e) (r_deleted st)) lr
                  (if inmem && marks seg (fst e) (r_deleted st) then upsert (fst e) (snd e) (r_dlab st) else r_dlab st)
  | None => mkR (r_series st ++ [mkS (fst e) (snd e) 0]) (r_dup st) (r_deleted st) lr (r_dlab st)
  end.

Definition replay_sample (seg : Z) (st : rstate) (x : sample) : rstate :=
  let r := fst (fst x) in
  let '(r', del) := match lookup r (r_dup st) with
                    | Some v => (v, mark_deleted seg true r (r_deleted st))
                    | None => (r, r_deleted st)
                    end in
  mkR (set_last r' (fun l => if l <? snd (fst x) then snd (fst x) else l) (r_series st)) (r_dup st) del (r_lastref st) (r_dlab st).

Definition replay_rec (inmem : bool) (st : rstate) (sr : Z * record) : rstate :=
  match snd sr with
  | RSeries l => fold_left (replay_series inmem (fst sr)) l st
  | RSamples _ l => fold_left (replay_sample (fst sr)) l st
  | _ => st
  end.

(* records in replay order with the segment (or checkpoint index) they are read from *)
Definition wal_tagged (w : wal) : list (Z * record) :=
  map (fun r => (w_cpidx w, r)) (w_cp w) ++ filter (fun sr => w_cpidx w <? fst sr) (w_segs w).

Definition replay (inmem : bool) (w : wal) : rstate := fold_left (replay_rec inmem) (wal_tagged w) (mkR [] [] [] 0 []).

Definition restart (o : opts) (d : db) : db :=
  let r := replay (o_inmem o) (d_wal d) in
  mkDB (r_lastref r) (r_series r) (r_deleted r) [] (wal_next_segment (d_wal d)) (r_dlab r).

(* DB.Querier / ChunkQuerier / ExemplarQuerier *)
Definition query (d : db) (which mint maxt : Z) : Z := E_UNSUPPORTED.

(* ------------------------------------------------------------------ histories *)
Inductive event :=
| EAppend (a ver : Z) (r : ref) (b : lab) (st t v zv kind : Z) (hbad stale : bool) (exs : list exemplar)
| EExemplar (a : Z) (r : ref) (e : exemplar)
| ECommit (a : Z) (rolls : list Z)
| ERollback (a : Z) (rolls : list Z)
| ETruncate (mint zv : Z)
| ERoll
| ERestart
| ESnap                                        (* re-read the WAL directory (no effect) *)
| EQuery (which mint maxt : Z).

Inductive obs :=
| OAppend (r : Z) (err : Z) (perr : list Z)
| OLog (l : list (Z * record))                 (* what a commit / rollback wrote, with segments *)
| OTrunc (cpidx : Z) (cp : list record) (first cur : Z) (segs : list (Z * record))
         (series : list mser) (deleted : list (ref * Z))
| ORestart (next : Z) (series : list mser) (deleted : list (ref * Z)) (first cur : Z)
| OSnap (cpidx : Z) (cp : list record) (first cur : Z) (segs : list (Z * record))
| OQuery (err : Z)
| ONone.

Definition set_app (st : state) (d : db) (a : Z) (p : app) : state :=
  mkSt d (upsert a p (st_apps st)).

Definition step (o : opts) (st : state) (e : event) : state * obs :=
  let d := st_db st in
  match e with
  | EAppend a ver r b stt t v zv kind hbad stale exs =>
      let '(d', p', (rr, err, perr)) :=
        if ver =? 1 then append_v1 o d (get_app st a) r b t v kind hbad
        else append_v2 o d (get_app st a) r b stt t v zv kind hbad stale exs in
      (set_app st d' a p', OAppend rr err perr)
  | EExemplar a r ex =>
      let '(d', p', (rr, err, perr)) := exemplar_v1 d (get_app st a) r ex in
      (set_app st d' a p', OAppend rr err perr)
  | ECommit a rolls =>
      let p := get_app st a in
      (mkSt (commit d p rolls) (remove_key a (st_apps st)),
       OLog (attach (w_cur (d_wal d)) rolls (log_records p)))
  | ERollback a rolls =>
      let p := get_app st a in
      (mkSt (rollback d p rolls) (remove_key a (st_apps st)),
       OLog (attach (w_cur (d_wal d)) rolls (nonempty RSeries (p_series p))))
  | ETruncate mint zv =>
      let d' := truncate o d mint zv in
      let w := d_wal d' in
      (mkSt d' (st_apps st),
       OTrunc (w_cpidx w) (w_cp w) (w_first w) (w_cur w) (w_segs w) (d_series d') (d_deleted d'))
  | ERoll => (mkSt (mkDB (d_next d) (d_series d) (d_deleted d) (d_lastex d) (wal_next_segment (d_wal d)) (d_dlab d)) (st_apps st), ONone)
  | ERestart =>
      let d' := restart o d in
      (mkSt d' [], ORestart (d_next d') (d_series d') (d_deleted d') (w_first (d_wal d')) (w_cur (d_wal d')))
  | ESnap => let w := d_wal d in (st, OSnap (w_cpidx w) (w_cp w) (w_first w) (w_cur w) (w_segs w))
  | EQuery which mint maxt => (st, OQuery (query d which mint maxt))
  end.

Fixpoint run_from (o : opts) (st : state) (es : list event) : state * list obs :=
  match es with
  | [] => (st, [])
  | e :: t =>
      let '(st1, ob) := step o st e in
      let '(st2, obs) := run_from o st1 t in
      (st2, ob :: obs)
  end.

Definition run (o : opts) (es : list event) : state := fst (run_from o st_empty es).

(* ------------------------------------------------------------------ specification predicates *)
(* refs with a series record in a list of records *)
Definition series_refs (recs : list record) : list ref :=
  flat_map (fun r => map fst (series_of_rec r)) recs.

(* data item x of kind k (k = -1: exemplar) is in `recs` after a series record of its ref *)
Fixpoint logged_from (seen : list ref) (k : Z) (x : sample) (recs : list record) : bool :=
  match recs with
  | [] => false
  | r :: t =>
      (match r with
       | RSamples k' l => (k' =? k) && memz (fst (fst x)) seen &&
                          existsb (fun y => (fst (fst y) =? fst (fst x)) && (snd (fst y) =? snd (fst x)) && (snd y =? snd x)) l
       | RExemplars l => (k =? -1) && memz (fst (fst x)) seen &&
                          existsb (fun y => (fst (fst y) =? fst (fst x)) && (snd (fst y) =? snd (fst x)) && (snd y =? snd x)) l
       | _ => false
       end) || logged_from (map fst (series_of_rec r) ++ seen) k x t
  end.

Definition logged (k : Z) (x : sample) (recs : list record) : bool := logged_from [] k x recs.

(* the pending data items of an appender with their record kind *)
Definition pending_items (p : app) : list (Z * sample) :=
  map (fun x : sample => (0, x)) (p_samples p) ++
  map (fun x : bool * sample => (if fst x then 3 else 1, snd x)) (p_hist p) ++
  map (fun x : bool * sample => (if fst x then 4 else 2, snd x)) (p_fhist p) ++
  map (fun x : sample => (-1, x)) (p_ex p).

(* at most one appender is open at a time; truncation and restart happen between appenders *)
Fixpoint wf_from (open : option Z) (es : list event) : bool :=
  match es with
  | [] => true
  | e :: t =>
      match e with
      | EAppend a _ _ _ _ _ _ _ _ _ _ _ | EExemplar a _ _ =>
          match open with None => wf_from (Some a) t | Some b => (a =? b) && wf_from open t end
      | ECommit a _ | ERollback a _ =>
          match open with None => wf_from None t | Some b => (a =? b) && wf_from None t end
      | ETruncate _ _ | ERestart => match open with None => wf_from None t | Some _ => false end
      | ERoll | ESnap | EQuery _ _ _ => wf_from open t
      end
  end.

Definition wellformed (es : list event) : bool := wf_from None es.

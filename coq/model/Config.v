(* model/Config.v — executable model of the print / load algebra of Prometheus configuration
   (config/config.go: Load, Config.String, the UnmarshalYAML hooks, ScrapeConfig.Validate;
   model/relabel/relabel.go: Config.UnmarshalYAML/Validate, Regexp.MarshalYAML/IsZero) together
   with the part of go.yaml.in/yaml/v2 that decides WHICH fields are written and HOW a mapping
   is overlaid on a pre-populated struct (encode.go: structv + isZero; decode.go: mappingStruct,
   prepare).  Definitions only; proofs are in proof/ConfigProofs.v.

   A configuration value and a YAML document are both a [node] tree.
     * a struct value is an [NMap] holding ALL fields of its schema, in declaration order;
     * a document mapping is an [NMap] holding the keys that are present.
   YAML lexing, scalar formatting/parsing (durations, byte sizes, URLs, regexps) and key order
   of documents are the trusted library part: a scalar is the typed value itself.

   Part 1 is generic (any schema, any hooks); part 2 is the Prometheus schema: tags, defaults
   and hooks transcribed from the Go sources. *)
From Coq Require Import List ZArith Bool String.
Import ListNotations.
Open Scope Z_scope.

(* ------------------------------------------------------------------ trees *)
Inductive node :=
| NInt (z : Z)            (* ints, uints, model.Duration (ns), units.Base2Bytes *)
| NStr (s : string)
| NBool (b : bool)
| NNull                   (* nil pointer / YAML null / "the default *regexp.Regexp" for TRegex *)
| NSeq (l : list node)
| NMap (m : list (string * node)).

Definition amap := list (string * node).

Inductive err :=
| EType        (* YAML node of the wrong kind for the target *)
| EUnknownKey  (* yaml.UnmarshalStrict: field not found in type *)
| EInternal    (* ill-formed struct value: cannot happen for well-typed trees *)
| EPanic       (* the Go code panics (nil pointer dereference) *)
| EInvalid (code : Z).   (* an error returned by a hook; codes are listed at the hooks *)

Inductive res (A : Type) := Ok (a : A) | Err (e : err).
Arguments Ok {A} _.
Arguments Err {A} _.

Definition bind {A B} (r : res A) (f : A -> res B) : res B :=
  match r with Ok a => f a | Err e => Err e end.
Notation "'do' x <- r ; k" := (bind r (fun x => k)) (at level 200, x name, r at level 100, k at level 200).

Fixpoint lookup (k : string) (m : amap) : option node :=
  match m with
  | [] => None
  | (k', v) :: r => if String.eqb k k' then Some v else lookup k r
  end.

Fixpoint setf (k : string) (v : node) (m : amap) : amap :=
  match m with
  | [] => []
  | (k', v') :: r => if String.eqb k k' then (k', v) :: r else (k', v') :: setf k v r
  end.

(* ------------------------------------------------------------------ schemas *)
(* one constructor per Go type that has an UnmarshalYAML method (or, for HTop, a whole-tree
   post-pass); HPlain = struct type without one *)
Inductive hook :=
| HPlain | HTop | HGlobal | HScrape | HRelabel | HAlerting | HAM | HRW | HRR | HTsdb | HRetention | HOtlp.

Inductive ty :=
| TInt | TStr | TBool
| TRegex                      (* relabel.Regexp: yaml.IsZeroer, zero iff it IS the default pointer *)
| TPtr (t : ty)
| TSeq (t : ty)
| TRec (h : hook) (fs : flds)
with flds :=
| FNil
| FCons (k : string) (omit : bool) (t : ty) (r : flds).   (* yaml:"k[,omitempty]" *)

Fixpoint keys (fs : flds) : list string :=
  match fs with FNil => [] | FCons k _ _ r => k :: keys r end.

(* Go zero value *)
Fixpoint zero (t : ty) : node :=
  match t with
  | TInt => NInt 0
  | TStr => NStr ""
  | TBool => NBool false
  | TRegex => NNull
  | TPtr _ => NNull
  | TSeq _ => NSeq []          (* nil and empty slices are identified, see notes *)
  | TRec _ fs => NMap (zeros fs)
  end
with zeros (fs : flds) : amap :=
  match fs with FNil => [] | FCons k _ t r => (k, zero t) :: zeros r end.

(* yaml/v2 encode.go isZero: decides omission of an omitempty field.  A struct is zero iff all
   its fields are (whatever their own tags). *)
Fixpoint isz (t : ty) (v : node) : bool :=
  match t, v with
  | TInt, NInt z => Z.eqb z 0
  | TStr, NStr s => String.eqb s ""
  | TBool, NBool b => negb b
  | TRegex, NNull => true
  | TPtr _, NNull => true
  | TSeq _, NSeq [] => true
  | TRec _ fs, NMap m => iszs fs m
  | _, _ => false
  end
with iszs (fs : flds) (m : amap) : bool :=
  match fs, m with
  | FNil, [] => true
  | FCons _ _ t r, (_, v) :: m' => isz t v && iszs r m'
  | _, _ => false
  end.

(* well-typed struct values *)
Fixpoint wtb (t : ty) (v : node) : bool :=
  match t, v with
  | TInt, NInt _ => true
  | TStr, NStr _ => true
  | TBool, NBool _ => true
  | TRegex, NNull => true
  | TRegex, NStr _ => true
  | TPtr _, NNull => true
  | TPtr t', _ => wtb t' v
  | TSeq t', NSeq l => forallb (wtb t') l
  | TRec _ fs, NMap m => wtsb fs m
  | _, _ => false
  end
with wtsb (fs : flds) (m : amap) : bool :=
  match fs, m with
  | FNil, [] => true
  | FCons k _ t r, (k', v) :: m' => String.eqb k k' && wtb t v && wtsb r m'
  | _, _ => false
  end.

(* ------------------------------------------------------------------ print *)
(* yaml.Marshal of a struct: fields in order; an omitempty field is skipped iff isZero.
   Regexp.MarshalYAML writes the pattern (TRegex value NStr) — the default pointer is zero and
   its field is omitempty, so it is never written. *)
Fixpoint pr (t : ty) (v : node) : node :=
  match t, v with
  | TPtr t', NNull => NNull
  | TPtr t', _ => pr t' v
  | TSeq t', NSeq l => NSeq (map (pr t') l)
  | TRec _ fs, NMap m => NMap (prs fs m)
  | _, _ => v
  end
with prs (fs : flds) (m : amap) : amap :=
  match fs, m with
  | FCons k omit t r, (_, v) :: m' =>
      if omit && isz t v then prs r m' else (k, pr t v) :: prs r m'
  | _, _ => []
  end.

Definition is_null (v : node) : bool := match v with NNull => true | _ => false end.
Definition mem (s : string) (l : list string) : bool := existsb (String.eqb s) l.
Fixpoint nodupb (l : list string) : bool :=
  match l with [] => true | a :: r => negb (mem a r) && nodupb r end.

(* no struct type of the schema has two fields with the same key *)
Fixpoint nodup_keys (t : ty) : bool :=
  match t with
  | TPtr t' => nodup_keys t'
  | TSeq t' => nodup_keys t'
  | TRec _ fs => nodupb (keys fs) && nodup_keyss fs
  | _ => true
  end
with nodup_keyss (fs : flds) : bool :=
  match fs with FNil => true | FCons _ _ t r => nodup_keys t && nodup_keyss r end.

(* ------------------------------------------------------------------ equality, decidable *)
Fixpoint node_eqb (a b : node) {struct a} : bool :=
  match a, b with
  | NInt x, NInt y => Z.eqb x y
  | NStr x, NStr y => String.eqb x y
  | NBool x, NBool y => Bool.eqb x y
  | NNull, NNull => true
  | NSeq x, NSeq y =>
      (fix go (x y : list node) : bool :=
         match x, y with
         | [], [] => true
         | a :: x', b :: y' => node_eqb a b && go x' y'
         | _, _ => false end) x y
  | NMap x, NMap y =>
      (fix go (x y : amap) : bool :=
         match x, y with
         | [], [] => true
         | (k, a) :: x', (k', b) :: y' => String.eqb k k' && node_eqb a b && go x' y'
         | _, _ => false end) x y
  | _, _ => false
  end.

(* ------------------------------------------------------------------ load (generic part) *)
Section Decode.
  (* reset h = Some d: the type's UnmarshalYAML starts with `*c = d` (the destination's previous
     content is discarded); None: no UnmarshalYAML, the mapping is overlaid on what is there.
     post h: the rest of UnmarshalYAML (and for HTop the validation pass). *)
  Variable reset : hook -> option node.
  Variable post : hook -> amap -> res amap.

  Fixpoint decode (t : ty) (cur y : node) {struct t} : res node :=
    match t with
    | TInt => match y with NInt _ => Ok y | NNull => Ok cur | _ => Err EType end
    | TStr => match y with NStr _ => Ok y | NNull => Ok cur | _ => Err EType end
    | TBool => match y with NBool _ => Ok y | NNull => Ok cur | _ => Err EType end
    | TRegex => match y with NStr _ => Ok y | NNull => Ok cur | _ => Err EType end
    | TPtr t' =>
        match y with
        | NNull => Ok NNull
        | _ => decode t' (match cur with NNull => zero t' | _ => cur end) y
        end
    | TSeq t' =>
        match y with
        | NSeq l =>
            do l' <- (fix go (l : list node) : res (list node) :=
                        match l with
                        | [] => Ok []
                        | e :: r => do e' <- decode t' (zero t') e; do r' <- go r; Ok (e' :: r')
                        end) l;
            Ok (NSeq l')
        | NNull => Ok (NSeq [])
        | _ => Err EType
        end
    | TRec h fs =>
        match y with
        | NMap m =>
            match (match reset h with Some d => d | None => cur end) with
            | NMap bm =>
                if forallb (fun kv => existsb (String.eqb (fst kv)) (keys fs)) m then
                  do m' <- overlay fs bm m; do m'' <- post h m'; Ok (NMap m'')
                else Err EUnknownKey
            | _ => Err EInternal
            end
        | NNull => Ok cur
        | _ => Err EType
        end
    end
  (* mappingStruct: every key of the document is decoded into its field (starting from the
     field's current content); fields without a key keep their content *)
  with overlay (fs : flds) (bm m : amap) {struct fs} : res amap :=
    match fs, bm with
    | FNil, [] => Ok []
    | FCons k _ t r, (_, b) :: bm' =>
        do v <- (match lookup k m with None => Ok b | Some y => decode t b y end);
        do rest <- overlay r bm' m;
        Ok ((k, v) :: rest)
    | _, _ => Err EInternal
    end.
  Definition res_is (r : res amap) (m : amap) : bool :=
    match r with Ok m' => node_eqb (NMap m') (NMap m) | Err _ => false end.

  (* every struct inside v is a fixed point of its hook ("valid": what UnmarshalYAML / Validate
     would do to it has been done, and it passes) *)
  Fixpoint fixedb (t : ty) (v : node) : bool :=
    match t, v with
    | TPtr t', NNull => true
    | TPtr t', _ => fixedb t' v
    | TSeq t', NSeq l => forallb (fixedb t') l
    | TRec h fs, NMap m => res_is (post h m) m && fixedsb fs m
    | _, _ => true
    end
  with fixedsb (fs : flds) (m : amap) : bool :=
    match fs, m with
    | FCons _ _ t r, (_, v) :: m' => fixedb t v && fixedsb r m'
    | _, _ => true
    end.

  (* lossless: every field that print omits holds exactly what load puts there when the key is
     absent (the content of the reset value / of the enclosing default) *)
  Definition base_of (h : hook) (cur : node) : node := match reset h with Some d => d | None => cur end.

  Fixpoint losslessb (t : ty) (cur v : node) : bool :=
    match t, v with
    | TRegex, NNull => is_null cur       (* never printed: its field is omitempty; see pr *)
    | TPtr t', NNull => true
    | TPtr t', _ => losslessb t' (match cur with NNull => zero t' | _ => cur end) v
    | TSeq t', NSeq l => forallb (losslessb t' (zero t')) l
    | TRec h fs, NMap m =>
        match base_of h cur with
        | NMap bm => wtsb fs bm && losslesssb fs bm m
        | _ => false
        end
    | _, _ => true
    end
  with losslesssb (fs : flds) (bm m : amap) : bool :=
    match fs, bm, m with
    | FCons _ omit t r, (_, b) :: bm', (_, v) :: m' =>
        (if omit && isz t v then node_eqb b v else losslessb t b v) && losslesssb r bm' m'
    | _, _, _ => true
    end.

  (* the (path, written-back value) list of the lossy fields of a value: what the harness's shape
     keys name.  A field is lossy when it is omitted but the base differs. *)
  Fixpoint lossy (t : ty) (cur v : node) (path : string) : list string :=
    match t, v with
    | TPtr t', NNull => []
    | TPtr t', _ => lossy t' (match cur with NNull => zero t' | _ => cur end) v path
    | TSeq t', NSeq l => flat_map (fun e => lossy t' (zero t') e path) l
    | TRec h fs, NMap m =>
        match base_of h cur with
        | NMap bm => lossys fs bm m path
        | _ => []
        end
    | _, _ => []
    end
  with lossys (fs : flds) (bm m : amap) (path : string) : list string :=
    match fs, bm, m with
    | FCons k omit t r, (_, b) :: bm', (_, v) :: m' =>
        (if omit && isz t v then (if node_eqb b v then [] else [(path ++ "." ++ k)%string])
         else lossy t b v (path ++ "." ++ k)%string) ++ lossys r bm' m' path
    | _, _, _ => []
    end.


End Decode.

(* ================================================================== part 2: Prometheus *)
Open Scope string_scope.

Definition F (k : string) (t : ty) (r : flds) := FCons k false t r.   (* yaml:"k" *)
Definition O (k : string) (t : ty) (r : flds) := FCons k true t r.    (* yaml:"k,omitempty" *)

(* --- model/relabel.Config *)
Definition relabel_fs : flds :=
  O "source_labels" (TSeq TStr) (F "separator" TStr (O "regex" TRegex (O "modulus" TInt
  (O "target_label" TStr (F "replacement" TStr (O "action" TStr FNil)))))).
Definition relabel_ty := TRec HRelabel relabel_fs.
Definition relabel_seq := TSeq (TPtr relabel_ty).
(* DefaultRelabelConfig *)
Definition d_relabel : amap :=
  [("source_labels", NSeq []); ("separator", NStr ";"); ("regex", NNull); ("modulus", NInt 0);
   ("target_label", NStr ""); ("replacement", NStr "$1"); ("action", NStr "replace")].

(* --- config.GlobalConfig (external_labels: correspondence only) *)
Definition global_fs : flds :=
  O "scrape_interval" TInt (O "scrape_timeout" TInt (O "scrape_protocols" (TSeq TStr)
  (O "evaluation_interval" TInt (O "rule_query_offset" TInt (O "query_log_file" TStr
  (O "scrape_failure_log_file" TStr (O "body_size_limit" TInt (O "sample_limit" TInt
  (O "target_limit" TInt (O "label_limit" TInt (O "label_name_length_limit" TInt
  (O "label_value_length_limit" TInt (O "keep_dropped_targets" TInt
  (O "metric_name_validation_scheme" TStr (O "metric_name_escaping_scheme" TStr
  (O "scrape_native_histograms" (TPtr TBool) (O "convert_classic_histograms_to_nhcb" TBool
  (O "always_scrape_classic_histograms" TBool (O "extra_scrape_metrics" (TPtr TBool)
  FNil))))))))))))))))))).
Definition global_ty := TRec HGlobal global_fs.
Definition minute := 60000000000.
Definition second := 1000000000.
(* DefaultGlobalConfig *)
Definition d_global : amap :=
  [("scrape_interval", NInt minute); ("scrape_timeout", NInt (10 * second)); ("scrape_protocols", NSeq []);
   ("evaluation_interval", NInt minute); ("rule_query_offset", NInt 0); ("query_log_file", NStr "");
   ("scrape_failure_log_file", NStr ""); ("body_size_limit", NInt 0); ("sample_limit", NInt 0);
   ("target_limit", NInt 0); ("label_limit", NInt 0); ("label_name_length_limit", NInt 0);
   ("label_value_length_limit", NInt 0); ("keep_dropped_targets", NInt 0);
   ("metric_name_validation_scheme", NStr "utf8"); ("metric_name_escaping_scheme", NStr "allow-utf-8");
   ("scrape_native_histograms", NBool false); ("convert_classic_histograms_to_nhcb", NBool false);
   ("always_scrape_classic_histograms", NBool false); ("extra_scrape_metrics", NBool false)].

(* --- config.ScrapeConfig (params, service discovery, the rest of HTTPClientConfig and the
   float field native_histogram_min_bucket_factor: correspondence only) *)
Definition scrape_fs : flds :=
  F "job_name" TStr (O "honor_labels" TBool (F "honor_timestamps" TBool
  (F "track_timestamps_staleness" TBool (O "scrape_interval" TInt (O "scrape_timeout" TInt
  (O "scrape_protocols" (TSeq TStr) (O "fallback_scrape_protocol" TStr
  (O "scrape_native_histograms" (TPtr TBool) (O "always_scrape_classic_histograms" (TPtr TBool)
  (O "convert_classic_histograms_to_nhcb" (TPtr TBool) (O "scrape_failure_log_file" TStr
  (O "metrics_path" TStr (O "scheme" TStr (F "enable_compression" TBool
  (O "body_size_limit" TInt (O "sample_limit" TInt (O "target_limit" TInt (O "label_limit" TInt
  (O "label_name_length_limit" TInt (O "label_value_length_limit" TInt
  (O "native_histogram_bucket_limit" TInt (O "keep_dropped_targets" TInt
  (O "metric_name_validation_scheme" TStr (O "metric_name_escaping_scheme" TStr
  (O "extra_scrape_metrics" (TPtr TBool) (F "follow_redirects" TBool (F "enable_http2" TBool
  (O "relabel_configs" relabel_seq (O "metric_relabel_configs" relabel_seq
  FNil))))))))))))))))))))))))))))).
Definition scrape_ty := TRec HScrape scrape_fs.
(* DefaultScrapeConfig (HTTPClientConfig: config.DefaultHTTPClientConfig) *)
Definition d_scrape : amap :=
  [("job_name", NStr ""); ("honor_labels", NBool false); ("honor_timestamps", NBool true);
   ("track_timestamps_staleness", NBool false); ("scrape_interval", NInt 0); ("scrape_timeout", NInt 0);
   ("scrape_protocols", NSeq []); ("fallback_scrape_protocol", NStr "");
   ("scrape_native_histograms", NNull); ("always_scrape_classic_histograms", NNull);
   ("convert_classic_histograms_to_nhcb", NNull); ("scrape_failure_log_file", NStr "");
   ("metrics_path", NStr "/metrics"); ("scheme", NStr "http"); ("enable_compression", NBool true);
   ("body_size_limit", NInt 0); ("sample_limit", NInt 0); ("target_limit", NInt 0); ("label_limit", NInt 0);
   ("label_name_length_limit", NInt 0); ("label_value_length_limit", NInt 0);
   ("native_histogram_bucket_limit", NInt 0); ("keep_dropped_targets", NInt 0);
   ("metric_name_validation_scheme", NStr ""); ("metric_name_escaping_scheme", NStr "");
   ("extra_scrape_metrics", NNull); ("follow_redirects", NBool true); ("enable_http2", NBool true);
   ("relabel_configs", NSeq []); ("metric_relabel_configs", NSeq [])].

(* --- alerting *)
Definition am_fs : flds :=
  F "follow_redirects" TBool (F "enable_http2" TBool (O "scheme" TStr (O "path_prefix" TStr
  (O "timeout" TInt (F "api_version" TStr (O "relabel_configs" relabel_seq
  (O "alert_relabel_configs" relabel_seq FNil))))))).
Definition am_ty := TRec HAM am_fs.
(* DefaultAlertmanagerConfig *)
Definition d_am : amap :=
  [("follow_redirects", NBool true); ("enable_http2", NBool true); ("scheme", NStr "http");
   ("path_prefix", NStr ""); ("timeout", NInt (10 * second)); ("api_version", NStr "v2");
   ("relabel_configs", NSeq []); ("alert_relabel_configs", NSeq [])].
Definition alerting_fs : flds :=
  O "alert_relabel_configs" relabel_seq (O "alertmanagers" (TSeq (TPtr am_ty)) FNil).
Definition alerting_ty := TRec HAlerting alerting_fs.

(* --- remote write *)
Definition queue_fs : flds :=
  O "capacity" TInt (O "max_shards" TInt (O "min_shards" TInt (O "max_samples_per_send" TInt
  (O "batch_send_deadline" TInt (O "min_backoff" TInt (O "max_backoff" TInt
  (O "retry_on_http_429" TBool (O "sample_age_limit" TInt FNil)))))))).
Definition d_queue : amap :=
  [("capacity", NInt 10000); ("max_shards", NInt 50); ("min_shards", NInt 1);
   ("max_samples_per_send", NInt 2000); ("batch_send_deadline", NInt (5 * second));
   ("min_backoff", NInt 30000000); ("max_backoff", NInt (5 * second));
   ("retry_on_http_429", NBool false); ("sample_age_limit", NInt 0)].
Definition metadata_fs : flds :=
  F "send" TBool (F "send_interval" TInt (O "max_samples_per_send" TInt FNil)).
Definition d_metadata : amap :=
  [("send", NBool true); ("send_interval", NInt minute); ("max_samples_per_send", NInt 2000)].
Definition rw_fs : flds :=
  F "url" (TPtr TStr) (O "remote_timeout" TInt (O "write_relabel_configs" relabel_seq
  (O "name" TStr (O "send_exemplars" TBool (O "send_native_histograms" TBool
  (O "round_robin_dns" TBool (O "protobuf_message" TStr (O "failed_request_logging" TBool
  (F "follow_redirects" TBool (F "enable_http2" TBool (O "queue_config" (TRec HPlain queue_fs)
  (O "metadata_config" (TRec HPlain metadata_fs) FNil)))))))))))).
Definition rw_ty := TRec HRW rw_fs.
(* DefaultRemoteWriteConfig *)
Definition d_rw : amap :=
  [("url", NNull); ("remote_timeout", NInt (30 * second)); ("write_relabel_configs", NSeq []);
   ("name", NStr ""); ("send_exemplars", NBool false); ("send_native_histograms", NBool false);
   ("round_robin_dns", NBool false); ("protobuf_message", NStr "prometheus.WriteRequest");
   ("failed_request_logging", NBool false); ("follow_redirects", NBool true); ("enable_http2", NBool false);
   ("queue_config", NMap d_queue); ("metadata_config", NMap d_metadata)].

(* --- remote read (headers, required_matchers: correspondence only) *)
Definition rr_fs : flds :=
  F "url" (TPtr TStr) (O "remote_timeout" TInt (O "chunked_read_limit" TInt (O "read_recent" TBool
  (O "name" TStr (F "follow_redirects" TBool (F "enable_http2" TBool
  (O "filter_external_labels" TBool FNil))))))).
Definition rr_ty := TRec HRR rr_fs.
(* DefaultRemoteReadConfig *)
Definition d_rr : amap :=
  [("url", NNull); ("remote_timeout", NInt minute); ("chunked_read_limit", NInt 50000000);
   ("read_recent", NBool false); ("name", NStr ""); ("follow_redirects", NBool true);
   ("enable_http2", NBool true); ("filter_external_labels", NBool true)].

(* --- storage (float fields stale_series_compaction_threshold, retention.percentage:
   correspondence only).  TSDBConfig.OutOfOrderTimeWindow has no yaml tag: key = lower-cased name *)
Definition retention_fs : flds := O "time" TInt (O "size" TInt FNil).
Definition retention_ty := TRec HRetention retention_fs.
Definition tsdb_fs : flds :=
  F "outofordertimewindow" TInt (O "out_of_order_time_window" TInt
  (O "chunk_encoding" (TRec HPlain (O "floats" TStr FNil)) (O "retention" (TPtr retention_ty) FNil))).
Definition tsdb_ty := TRec HTsdb tsdb_fs.
Definition storage_fs : flds :=
  O "tsdb" (TPtr tsdb_ty) (O "exemplars" (TPtr (TRec HPlain (O "max_exemplars" TInt FNil))) FNil).

(* --- otlp *)
Definition otlp_fs : flds :=
  O "promote_all_resource_attributes" TBool (O "promote_resource_attributes" (TSeq TStr)
  (O "ignore_resource_attributes" (TSeq TStr) (O "translation_strategy" TStr
  (O "keep_identifying_resource_attributes" TBool (O "convert_histograms_to_nhcb" TBool
  (O "promote_scope_metadata" TBool (O "label_name_underscore_sanitization" TBool
  (O "label_name_preserve_multiple_underscores" TBool FNil)))))))).
Definition otlp_ty := TRec HOtlp otlp_fs.
(* DefaultOTLPConfig *)
Definition d_otlp : amap :=
  [("promote_all_resource_attributes", NBool false); ("promote_resource_attributes", NSeq []);
   ("ignore_resource_attributes", NSeq []); ("translation_strategy", NStr "UnderscoreEscapingWithSuffixes");
   ("keep_identifying_resource_attributes", NBool false); ("convert_histograms_to_nhcb", NBool false);
   ("promote_scope_metadata", NBool false); ("label_name_underscore_sanitization", NBool true);
   ("label_name_preserve_multiple_underscores", NBool true)].

(* --- config.Config (tracing: correspondence only) *)
Definition runtime_fs : flds := O "gogc" TInt FNil.
Definition top_fs : flds :=
  F "global" global_ty (O "runtime" (TRec HPlain runtime_fs) (O "alerting" alerting_ty
  (O "rule_files" (TSeq TStr) (O "scrape_config_files" (TSeq TStr)
  (O "scrape_configs" (TSeq (TPtr scrape_ty)) (O "storage" (TRec HPlain storage_fs)
  (O "remote_write" (TSeq (TPtr rw_ty)) (O "remote_read" (TSeq (TPtr rr_ty))
  (O "otlp" otlp_ty FNil))))))))).
Definition top_ty := TRec HTop top_fs.
Definition d_runtime : amap := [("gogc", NInt 75)].    (* DefaultRuntimeConfig with GOGC unset *)
(* DefaultConfig *)
Definition d_top : amap :=
  [("global", NMap d_global); ("runtime", NMap d_runtime); ("alerting", NMap (zeros alerting_fs));
   ("rule_files", NSeq []); ("scrape_config_files", NSeq []); ("scrape_configs", NSeq []);
   ("storage", NMap (zeros storage_fs)); ("remote_write", NSeq []); ("remote_read", NSeq []);
   ("otlp", NMap d_otlp)].

Definition reset (h : hook) : option node :=
  match h with
  | HPlain => None
  | HTop => Some (NMap d_top)
  | HGlobal => Some (NMap (zeros global_fs))        (* gc := &GlobalConfig{} *)
  | HScrape => Some (NMap d_scrape)
  | HRelabel => Some (NMap d_relabel)
  | HAlerting => Some (NMap (zeros alerting_fs))
  | HAM => Some (NMap d_am)
  | HRW => Some (NMap d_rw)
  | HRR => Some (NMap d_rr)
  | HTsdb => Some (NMap (zeros tsdb_fs))
  | HRetention => Some (NMap (zeros retention_fs))
  | HOtlp => Some (NMap d_otlp)
  end.

(* ------------------------------------------------------------------ hooks *)
Definition geti (k : string) (m : amap) : Z := match lookup k m with Some (NInt z) => z | _ => 0 end.
Definition gets (k : string) (m : amap) : string := match lookup k m with Some (NStr s) => s | _ => "" end.
Definition getb (k : string) (m : amap) : bool := match lookup k m with Some (NBool b) => b | _ => false end.
Definition getn (k : string) (m : amap) : node := match lookup k m with Some v => v | None => NNull end.
Definition getl (k : string) (m : amap) : list node := match lookup k m with Some (NSeq l) => l | _ => [] end.
Definition ck (b : bool) (code : Z) : res unit := if b then Ok tt else Err (EInvalid code).

(* `if c.k == 0 { c.k = src }` *)
Definition fill_int (k : string) (src : Z) (m : amap) : amap :=
  if Z.eqb (geti k m) 0 then setf k (NInt src) m else m.
Definition fill_str (k : string) (src : string) (m : amap) : amap :=
  if String.eqb (gets k m) "" then setf k (NStr src) m else m.
Definition fill_null (k : string) (src : node) (m : amap) : amap :=
  if is_null (getn k m) then setf k src m else m.

Fixpoint mapM {A B} (f : A -> res B) (l : list A) : res (list B) :=
  match l with [] => Ok [] | a :: r => do b <- f a; do r' <- mapM f r; Ok (b :: r') end.

Definition str_of (v : node) : string := match v with NStr s => s | _ => "" end.

(* validateAcceptScrapeProtocols; names are compared case-insensitively for duplicates, the
   five supported names differ in more than case, so on supported names it is plain equality *)
Definition protocols : list string :=
  ["PrometheusProto"; "PrometheusText0.0.4"; "PrometheusText1.0.0"; "OpenMetricsText0.0.1"; "OpenMetricsText1.0.0"].
Definition d_protocols : list node :=
  [NStr "OpenMetricsText1.0.0"; NStr "OpenMetricsText0.0.1"; NStr "PrometheusText1.0.0"; NStr "PrometheusText0.0.4"].
Definition valid_protocols (l : list node) : bool :=
  negb (match l with [] => true | _ => false end)
  && forallb (fun v => mem (str_of v) protocols) l && nodupb (map str_of l).

(* GlobalConfig.UnmarshalYAML.  In Go an absent scrape_protocols is a nil slice and is left
   alone; an explicit empty list is rejected — explicit empty lists are outside the modelled
   domain (nil = empty here), so an empty list is "unset".
   codes: 10 timeout > interval, 11 bad scrape_protocols *)
Definition post_global (m : amap) : res amap :=
  let m := if mem (gets "metric_name_validation_scheme" m) ["utf8"; "legacy"] then m
           else setf "metric_name_validation_scheme" (NStr "utf8") m in
  let m := fill_int "scrape_interval" minute m in
  do _ <- ck (Z.leb (geti "scrape_timeout" m) (geti "scrape_interval" m)) 10;
  let m := fill_int "scrape_timeout" (Z.min (10 * second) (geti "scrape_interval" m)) m in
  let m := fill_int "evaluation_interval" minute m in
  let m := fill_null "scrape_native_histograms" (NBool false) m in
  let m := fill_null "extra_scrape_metrics" (NBool false) m in
  do _ <- ck (match getl "scrape_protocols" m with [] => true | l => valid_protocols l end) 11;
  Ok m.

(* relabel.Config.UnmarshalYAML: nothing beyond the reset (a null regex is outside the domain).
   relabel.Config.Validate (called from the HTop pass).  Label-name validity of target_label /
   replacement (regexps over the name) is NOT modelled: generated names are valid.
   codes: 20 empty action, 21 hashmod modulus, 22 target_label required, 23 replacement set,
   24 equal-actions extra fields, 25 labeldrop/keep extra fields *)
Definition relabel_validate (m : amap) : res unit :=
  let a := gets "action" m in
  do _ <- ck (negb (String.eqb a "")) 20;
  do _ <- ck (negb (Z.eqb (geti "modulus" m) 0 && String.eqb a "hashmod")) 21;
  do _ <- ck (negb (mem a ["replace"; "hashmod"; "lowercase"; "uppercase"; "keepequal"; "dropequal"]
                    && String.eqb (gets "target_label" m) "")) 22;
  do _ <- ck (negb (mem a ["lowercase"; "uppercase"; "keepequal"; "dropequal"]
                    && negb (String.eqb (gets "replacement" m) "$1"))) 23;
  do _ <- ck (negb (mem a ["keepequal"; "dropequal"]
                    && negb (is_null (getn "regex" m) && Z.eqb (geti "modulus" m) 0
                             && String.eqb (gets "separator" m) ";"
                             && String.eqb (gets "replacement" m) "$1"))) 24;
  do _ <- ck (negb (mem a ["labeldrop"; "labelkeep"]
                    && negb (match getl "source_labels" m with [] => true | _ => false end
                             && String.eqb (gets "target_label" m) ""
                             && Z.eqb (geti "modulus" m) 0 && String.eqb (gets "separator" m) ";"
                             && String.eqb (gets "replacement" m) "$1"))) 25;
  Ok tt.
Definition relabels_validate (l : list node) : res unit :=
  do _ <- mapM (fun v => match v with NMap m => relabel_validate m | _ => Err (EInvalid 26) end) l; Ok tt.
(* code 26: "empty or null ... relabeling rule" *)
Definition no_nulls (l : list node) (code : Z) : res unit := ck (forallb (fun v => negb (is_null v)) l) code.

(* ScrapeConfig.UnmarshalYAML after the reset.  codes: 30 empty job_name, 26 null rule *)
Definition post_scrape (m : amap) : res amap :=
  do _ <- ck (negb (String.eqb (gets "job_name" m) "")) 30;
  do _ <- no_nulls (getl "relabel_configs" m) 26;
  do _ <- no_nulls (getl "metric_relabel_configs" m) 26;
  Ok m.

Definition escapings : list string := ["allow-utf-8"; "underscores"; "dots"; "values"].

(* ScrapeConfig.Validate(globalConfig); g = the global struct.
   codes: 31 timeout > interval, 32 scrape_protocols, 33 fallback protocol, 34 global validation
   scheme unset, 35 unknown local validation scheme, 36 unknown global escaping, 37 utf8 names
   without utf8 validation, 38 unknown local escaping *)
Definition scrape_validate (g m : amap) : res amap :=
  let m := fill_int "scrape_interval" (geti "scrape_interval" g) m in
  do _ <- ck (Z.leb (geti "scrape_timeout" m) (geti "scrape_interval" m)) 31;
  let m := fill_int "scrape_timeout" (Z.min (geti "scrape_timeout" g) (geti "scrape_interval" m)) m in
  let m := fill_int "body_size_limit" (geti "body_size_limit" g) m in
  let m := fill_int "sample_limit" (geti "sample_limit" g) m in
  let m := fill_int "target_limit" (geti "target_limit" g) m in
  let m := fill_int "label_limit" (geti "label_limit" g) m in
  let m := fill_int "label_name_length_limit" (geti "label_name_length_limit" g) m in
  let m := fill_int "label_value_length_limit" (geti "label_value_length_limit" g) m in
  let m := fill_int "keep_dropped_targets" (geti "keep_dropped_targets" g) m in
  let m := fill_str "scrape_failure_log_file" (gets "scrape_failure_log_file" g) m in
  let m := fill_null "scrape_native_histograms" (getn "scrape_native_histograms" g) m in
  let m := fill_null "extra_scrape_metrics" (getn "extra_scrape_metrics" g) m in
  let m := match getl "scrape_protocols" m with
           | [] => match getl "scrape_protocols" g with
                   | [] => if getb "scrape_native_histograms" m
                           then setf "scrape_protocols" (NSeq (NStr "PrometheusProto" :: d_protocols)) m
                           else setf "scrape_protocols" (NSeq d_protocols) m
                   | l => setf "scrape_protocols" (NSeq l) m
                   end
           | _ => m
           end in
  do _ <- ck (valid_protocols (getl "scrape_protocols" m)) 32;
  let fb := gets "fallback_scrape_protocol" m in
  do _ <- ck (String.eqb fb "" || mem fb protocols) 33;
  let gv := gets "metric_name_validation_scheme" g in
  do _ <- ck (mem gv ["legacy"; "utf8"]) 34;
  let lv := gets "metric_name_validation_scheme" m in
  let unset := String.eqb lv "" in
  do _ <- ck (unset || mem lv ["legacy"; "utf8"]) 35;
  let m := if unset then setf "metric_name_validation_scheme" (NStr gv) m else m in
  let ge := gets "metric_name_escaping_scheme" g in
  do _ <- ck (String.eqb ge "" || mem ge escapings) 36;
  let ge := if String.eqb ge "" then (if String.eqb gv "legacy" then "underscores" else "allow-utf-8") else ge in
  let m := if String.eqb (gets "metric_name_escaping_scheme" m) "" then
             setf "metric_name_escaping_scheme"
               (NStr (if unset then ge
                      else if String.eqb (gets "metric_name_validation_scheme" m) "legacy" then "underscores"
                      else "allow-utf-8")) m
           else m in
  let le := gets "metric_name_escaping_scheme" m in
  do _ <- ck (mem le escapings) 38;
  do _ <- ck (negb (String.eqb le "allow-utf-8") || String.eqb (gets "metric_name_validation_scheme" m) "utf8") 37;
  let m := fill_null "convert_classic_histograms_to_nhcb" (getn "convert_classic_histograms_to_nhcb" g) m in
  let m := fill_null "always_scrape_classic_histograms" (getn "always_scrape_classic_histograms" g) m in
  do _ <- relabels_validate (getl "relabel_configs" m);
  do _ <- relabels_validate (getl "metric_relabel_configs" m);
  Ok m.

(* AlertingConfig.UnmarshalYAML after the reset *)
Definition post_alerting (m : amap) : res amap :=
  do _ <- no_nulls (getl "alert_relabel_configs" m) 26; Ok m.
(* AlertmanagerConfig.UnmarshalYAML after the reset; AlertmanagerAPIVersion.UnmarshalYAML
   (code 40: unsupported api_version) *)
Definition post_am (m : amap) : res amap :=
  do _ <- ck (String.eqb (gets "api_version" m) "v2") 40;
  do _ <- no_nulls (getl "relabel_configs" m) 26;
  do _ <- no_nulls (getl "alert_relabel_configs" m) 26;
  Ok m.
Definition am_validate (v : node) : res unit :=
  match v with
  | NMap m => do _ <- relabels_validate (getl "alert_relabel_configs" m); relabels_validate (getl "relabel_configs" m)
  | _ => Err EPanic   (* AlertingConfig.Validate calls rc.Validate on a nil *AlertmanagerConfig
                         (`alertmanagers: [null]`): c.AlertRelabelConfigs dereferences nil.  Every
                         other list of sections is checked for null entries; this one is not. *)
  end.

(* QueueConfig.Validate.  codes 50.. *)
Definition queue_validate (q : amap) : res unit :=
  do _ <- ck (Z.ltb 0 (geti "max_shards" q)) 50;
  do _ <- ck (Z.ltb 0 (geti "min_shards" q)) 51;
  do _ <- ck (Z.leb (geti "min_shards" q) (geti "max_shards" q)) 52;
  do _ <- ck (Z.ltb 0 (geti "max_samples_per_send" q)) 53;
  do _ <- ck (Z.ltb 0 (geti "capacity" q)) 54;
  do _ <- ck (Z.leb (geti "min_backoff" q) (geti "max_backoff" q)) 55;
  Ok tt.
(* RemoteWriteConfig.UnmarshalYAML after the reset.  codes: 56 url empty, 57 protobuf_message *)
Definition post_rw (m : amap) : res amap :=
  do _ <- ck (negb (is_null (getn "url" m))) 56;
  do _ <- no_nulls (getl "write_relabel_configs" m) 26;
  do _ <- ck (mem (gets "protobuf_message" m) ["prometheus.WriteRequest"; "io.prometheus.write.v2.Request"]) 57;
  do _ <- (match getn "queue_config" m with NMap q => queue_validate q | _ => Err EInternal end);
  Ok m.
(* RemoteReadConfig.UnmarshalYAML after the reset.  code 58 url empty *)
Definition post_rr (m : amap) : res amap :=
  do _ <- ck (negb (is_null (getn "url" m))) 58; Ok m.

(* TSDBRetentionConfig.UnmarshalYAML.  code 60 negative size *)
Definition post_retention (m : amap) : res amap :=
  do _ <- ck (Z.leb 0 (geti "size" m)) 60; Ok m.
(* TSDBConfig.UnmarshalYAML.  time.Duration.Milliseconds = ns / 1e6 truncated.  code 61 *)
Definition post_tsdb (m : amap) : res amap :=
  let m := setf "outofordertimewindow" (NInt (Z.quot (geti "out_of_order_time_window" m) 1000000)) m in
  let fl := match getn "chunk_encoding" m with NMap c => gets "floats" c | _ => "" end in
  do _ <- ck (mem fl [""; "xor"; "xor2"]) 61;
  Ok (fill_null "retention" (NMap (zeros retention_fs)) m).

(* OTLPConfig.UnmarshalYAML after the reset (sanitizeAttributes trims; generated attributes are
   trimmed already).  codes: 70 both promote settings, 71 ignore without promote_all,
   72 empty/duplicate attribute *)
Definition attrs_ok (l : list node) : bool :=
  forallb (fun v => negb (String.eqb (str_of v) "")) l && nodupb (map str_of l).
Definition post_otlp (m : amap) : res amap :=
  if getb "promote_all_resource_attributes" m then
    do _ <- ck (match getl "promote_resource_attributes" m with [] => true | _ => false end) 70;
    do _ <- ck (attrs_ok (getl "ignore_resource_attributes" m)) 72; Ok m
  else
    do _ <- ck (match getl "ignore_resource_attributes" m with [] => true | _ => false end) 71;
    do _ <- ck (attrs_ok (getl "promote_resource_attributes" m)) 72; Ok m.

(* Config.UnmarshalYAML after the reset, followed by the tail of Load (OTLP strategy check).
   The rule-file path pattern is not modelled (generated paths are valid).
   codes: 80 duplicate job name, 81 null remote write, 82 duplicate remote write name,
   83 null remote read, 84 duplicate remote read name, 85/86 OTLP translation strategy,
   87 null scrape config *)
Definition names_ok (l : list node) : bool :=
  nodupb (filter (fun s => negb (String.eqb s ""))
                 (map (fun v => match v with NMap m => gets "name" m | _ => "" end) l)).
Definition post_top (m : amap) : res amap :=
  let m := match getn "global" m with
           | NMap g => if iszs global_fs g then setf "global" (NMap d_global) m else m
           | _ => m end in
  let m := match getn "runtime" m with
           | NMap r => if iszs runtime_fs r then setf "runtime" (NMap d_runtime) m else m
           | _ => m end in
  let m := match getn "storage" m with
           | NMap s => if is_null (getn "tsdb" s)
                       then setf "storage" (NMap (setf "tsdb" (NMap (setf "retention" (NMap (zeros retention_fs)) (zeros tsdb_fs))) s)) m
                       else m
           | _ => m end in
  match getn "global" m with
  | NMap g =>
      do scs <- mapM (fun v => match v with
                               | NMap s => do s' <- scrape_validate g s; Ok (NMap s')
                               | _ => Err (EInvalid 87) end) (getl "scrape_configs" m);
      do _ <- ck (nodupb (map (fun v => match v with NMap s => gets "job_name" s | _ => "" end) scs)) 80;
      let m := setf "scrape_configs" (NSeq scs) m in
      do _ <- (match getn "alerting" m with
               | NMap a => do _ <- relabels_validate (getl "alert_relabel_configs" a);
                           do _ <- mapM am_validate (getl "alertmanagers" a); Ok tt
               | _ => Err EInternal end);
      let rws := getl "remote_write" m in
      do _ <- no_nulls rws 81;
      do _ <- ck (names_ok rws) 82;
      do _ <- mapM (fun v => match v with NMap w => relabels_validate (getl "write_relabel_configs" w) | _ => Ok tt end) rws;
      let rrs := getl "remote_read" m in
      do _ <- no_nulls rrs 83;
      do _ <- ck (names_ok rrs) 84;
      let st := match getn "otlp" m with NMap o => gets "translation_strategy" o | _ => "" end in
      do _ <- ck (mem st [""; "UnderscoreEscapingWithSuffixes"; "UnderscoreEscapingWithoutSuffixes";
                          "NoTranslation"; "NoUTF8EscapingWithSuffixes"]) 86;
      do _ <- ck (negb (mem st ["NoTranslation"; "NoUTF8EscapingWithSuffixes"]
                        && String.eqb (gets "metric_name_validation_scheme" g) "legacy")) 85;
      Ok m
  | _ => Err EInternal
  end.

Definition post (h : hook) (m : amap) : res amap :=
  match h with
  | HPlain => Ok m
  | HTop => post_top m
  | HGlobal => post_global m
  | HScrape => post_scrape m
  | HRelabel => Ok m
  | HAlerting => post_alerting m
  | HAM => post_am m
  | HRW => post_rw m
  | HRR => post_rr m
  | HTsdb => post_tsdb m
  | HRetention => post_retention m
  | HOtlp => post_otlp m
  end.

(* config.Load on a document tree / Config.String as a document tree *)
Definition load (y : node) : res node := decode reset post top_ty (NMap d_top) y.
Definition print (c : node) : node := pr top_ty c.

(* ------------------------------------------------------------------ the instance *)
Definition valid (c : node) : bool := nodup_keys top_ty && wtb top_ty c && fixedb post top_ty c.
Definition lossless (c : node) : bool := losslessb reset top_ty (NMap d_top) c.
Definition lossy_fields (c : node) : list string := lossy reset top_ty (NMap d_top) c "".

(* model/Sharding.v — executable model of query sharding (C18).

   Transcribed from
     /repo/model/labels/sharding.go               (StableHash, build tag slicelabels)
     /repo/model/labels/sharding_stringlabels.go  (StableHash, default build)
     /repo/model/labels/sharding_dedupelabels.go  (StableHash, build tag dedupelabels)
     /repo/tsdb/head.go        getOrCreateWithOptionalID (memSeries.shardHash)
     /repo/tsdb/head_read.go   headIndexReader.ShardedPostings / Series
     /repo/tsdb/index/index.go Reader.ShardedPostings
     /repo/tsdb/querier.go     selectSeriesSet (hints.ShardCount / ShardIndex), blockBaseSeriesSet.Next

   Definitions only (no proofs).  xxhash is an oracle: [xxh_sum] is xxhash.Sum64 and
   [xxh_stream] is xxhash.New() followed by the given sequence of Write/WriteString calls and
   Sum64(); they are Section variables, tabulated by the harness per case. *)
From Coq Require Import List NArith ZArith Bool.
From Verif Require Import lib.Bytes.
Import ListNotations.
Open Scope Z_scope.

Definition bytes := list N.

Record label := mkL { l_name : bytes; l_value : bytes }.
Definition labels := list label.

Definition label_eqb (a b : label) : bool :=
  bytes_eqb (l_name a) (l_name b) && bytes_eqb (l_value a) (l_value b).
Fixpoint labels_eqb (a b : labels) : bool :=
  match a, b with
  | [], [] => true
  | x :: a', y :: b' => label_eqb x y && labels_eqb a' b'
  | _, _ => false
  end.

(* ------------------------------------------------------------------ stable serialisation *)
(* labels.go: sep = '\xff', seps = []byte{'\xff'} *)
Definition sep : N := 255%N.

(* b = append(b, v.Name...); append(b, sep); append(b, v.Value...); append(b, sep) *)
Definition entry (v : label) : bytes := l_name v ++ [sep] ++ l_value v ++ [sep].

(* the reference serialisation: what every variant is meant to hash *)
Definition stable_bytes (ls : labels) : bytes := flat_map entry ls.

(* What a StableHash implementation feeds to xxhash: either one xxhash.Sum64(b) call, or a
   Digest that received the listed Write / WriteString calls in order. *)
Inductive feed := FSum (b : bytes) | FStream (ws : list bytes).

Definition feed_bytes (f : feed) : bytes :=
  match f with FSum b => b | FStream ws => concat ws end.

(* b := make([]byte, 0, 1024) — appends only happen when they fit, so cap(b) stays 1024 *)
Definition cap_b : Z := 1024.

Definition len (b : bytes) : Z := Z.of_nat (length b).

(* len(b)+len(v.Name)+len(v.Value)+2 >= cap(b) *)
Definition overflows (b : bytes) (v : label) : bool :=
  cap_b <=? len b + len (l_name v) + len (l_value v) + 2.

(* h.WriteString(v.Name); h.Write(seps); h.WriteString(v.Value); h.Write(seps) *)
Definition writes_of (v : label) : list bytes := [l_name v; [sep]; l_value v; [sep]].

(* --- slicelabels (sharding.go): for i, v := range ls { if overflow { New; Write(b);
       for _, v := range ls[i:] {...}; return h.Sum64() }; append... }; return Sum64(b) *)
Fixpoint feed_slice (b : bytes) (ls : labels) : feed :=
  match ls with
  | [] => FSum b
  | v :: rest =>
      if overflows b v
      then FStream (b :: flat_map writes_of ls)
      else feed_slice (b ++ entry v) rest
  end.

(* --- stringlabels (sharding_stringlabels.go): one loop with `var h *xxhash.Digest`;
       [h] is None for nil, Some ws for a digest that received the writes ws *)
Fixpoint feed_string (b : bytes) (h : option (list bytes)) (ls : labels) : feed :=
  match ls with
  | [] => match h with Some ws => FStream ws | None => FSum b end
  | v :: rest =>
      let h1 := match h with
                | None => if overflows b v then Some [b] else None
                | Some _ => h
                end in
      match h1 with
      | Some ws => feed_string b (Some (ws ++ writes_of v)) rest     (* continue *)
      | None => feed_string (b ++ entry v) None rest
      end
  end.

(* --- dedupelabels (sharding_dedupelabels.go): outer loop decodes (name,value) at pos; on
       overflow an inner loop re-decodes from the *same* pos to the end *)
Fixpoint dedupe_inner (ws : list bytes) (ls : labels) : list bytes :=
  match ls with
  | [] => ws
  | v :: rest => dedupe_inner (ws ++ writes_of v) rest
  end.

Fixpoint feed_dedupe (b : bytes) (ls : labels) : feed :=
  match ls with
  | [] => FSum b
  | v :: rest =>
      if overflows b v
      then FStream (dedupe_inner [b] ls)
      else feed_dedupe (b ++ entry v) rest
  end.

Inductive variant := VString | VSlice | VDedupe.

Definition feed_of (v : variant) (ls : labels) : feed :=
  match v with
  | VString => feed_string [] None ls
  | VSlice => feed_slice [] ls
  | VDedupe => feed_dedupe [] ls
  end.

(* ------------------------------------------------------------------ stringlabels encoding *)
(* labels_stringlabels.go: Labels.data = for each label: varint(len name) name varint(len value) value,
   with the length encoded by encodeSize: one byte if < 255, else 0xFF followed by 3 bytes
   little endian (sizes < 2^24 assumed by the encoder). decodeSize/decodeString read it back. *)
Definition encode_size (n : Z) : bytes :=
  if n <? 255 then [Z.to_N n]
  else [255%N; Z.to_N (n mod 256); Z.to_N ((n / 256) mod 256); Z.to_N ((n / 65536) mod 256)].

Definition encode_string (s : bytes) : bytes := encode_size (len s) ++ s.

Definition sl_encode (ls : labels) : bytes :=
  flat_map (fun v => encode_string (l_name v) ++ encode_string (l_value v)) ls.

(* decodeSize: returns (size, rest) ; None = Go index-out-of-range panic *)
Definition decode_size (d : bytes) : option (Z * bytes) :=
  match d with
  | [] => None
  | b :: r =>
      if (b <? 255)%N then Some (Z.of_N b, r)
      else match r with
           | b0 :: b1 :: b2 :: r' => Some (Z.of_N b0 + Z.of_N b1 * 256 + Z.of_N b2 * 65536, r')
           | _ => None
           end
  end.

Definition decode_string (d : bytes) : option (bytes * bytes) :=
  match decode_size d with
  | None => None
  | Some (n, r) =>
      if Z.of_nat (length r) <? n then None   (* slice bounds out of range *)
      else Some (firstn (Z.to_nat n) r, skipn (Z.to_nat n) r)
  end.

(* `for i := 0; i < len(ls.data); { name, i = decodeString; value, i = decodeString }` —
   fuel = len data (every iteration consumes at least 2 bytes) *)
Fixpoint sl_decode (fuel : nat) (d : bytes) : option labels :=
  match d with
  | [] => Some []
  | _ =>
      match fuel with
      | O => None
      | S k =>
          match decode_string d with
          | None => None
          | Some (nm, r) =>
              match decode_string r with
              | None => None
              | Some (vl, r') =>
                  match sl_decode k r' with
                  | None => None
                  | Some ls => Some (mkL nm vl :: ls)
                  end
              end
          end
      end
  end.

(* StableHash of the stringlabels variant as a function of the encoded data *)
Definition feed_string_data (d : bytes) : option feed :=
  match sl_decode (length d) d with
  | None => None
  | Some ls => Some (feed_string [] None ls)
  end.

(* ------------------------------------------------------------------ hashing and shards *)
Section WithHash.
  Variable xxh_sum : bytes -> Z.           (* xxhash.Sum64 *)
  Variable xxh_stream : list bytes -> Z.   (* New(); Write(w) for w in ws; Sum64() *)

  Definition hash_feed (f : feed) : Z :=
    match f with FSum b => xxh_sum b | FStream ws => xxh_stream ws end.

  Definition stable_hash_v (v : variant) (ls : labels) : Z := hash_feed (feed_of v ls).

  (* the reference: hash of the reference serialisation *)
  Definition stable_hash (ls : labels) : Z := xxh_sum (stable_bytes ls).

  (* uint64 % uint64 ; both operands are non-negative, cnt = 0 is a Go run-time panic and is
     handled by the callers below *)
  Definition shard_of_hash (h cnt : Z) : Z := h mod cnt.
  Definition shard (ls : labels) (cnt : Z) : Z := shard_of_hash (stable_hash ls) cnt.

  (* ---------------------------------------------------------------- head *)
  Record memSeries := mkMS { ms_ref : Z; ms_lset : labels; ms_shardHash : Z }.

  Record head := mkHead { h_sharding : bool;            (* opts.EnableSharding *)
                          h_last : Z;                   (* lastSeriesID *)
                          h_series : list memSeries }.  (* stripeSeries *)

  Definition empty_head (en : bool) : head := mkHead en 0 [].

  Definition get_by_id (h : head) (ref : Z) : option memSeries :=
    find (fun s => ms_ref s =? ref) (h_series h).
  Definition get_by_labels (h : head) (ls : labels) : option memSeries :=
    find (fun s => labels_eqb (ms_lset s) ls) (h_series h).

  (* getOrCreateWithOptionalID (head.go): id == 0 -> allocate lastSeriesID+1; shardHash is
     labels.StableHash(lset) only when sharding is enabled, else 0; setUnlessAlreadySet keeps
     an existing series with the same labels. (WAL replay calls it with the recorded ref and
     bumps lastSeriesID itself.) *)
  Definition get_or_create (h : head) (id : Z) (ls : labels) : head * memSeries :=
    match get_by_labels h ls with
    | Some s => (if id =? 0 then mkHead (h_sharding h) (h_last h + 1) (h_series h) else h, s)
    | None =>
        let id' := if id =? 0 then h_last h + 1 else id in
        let sh := if h_sharding h then stable_hash ls else 0 in
        let s := mkMS id' ls sh in
        (mkHead (h_sharding h) (Z.max (h_last h) id') (h_series h ++ [s]), s)
    end.

  Inductive head_op :=
  | OpCreate (ls : labels)               (* appender: getOrCreate *)
  | OpReplay (ref : Z) (ls : labels)     (* WAL / snapshot replay: getOrCreateWithOptionalID(ref, ...) *)
  | OpGC (ref : Z).                      (* series garbage collection removes the memSeries *)

  Definition head_step (h : head) (o : head_op) : head :=
    match o with
    | OpCreate ls => fst (get_or_create h 0 ls)
    | OpReplay ref ls => fst (get_or_create h ref ls)
    | OpGC ref => mkHead (h_sharding h) (h_last h)
                         (filter (fun s => negb (ms_ref s =? ref)) (h_series h))
    end.

  Definition run_head (en : bool) (ops : list head_op) : head :=
    fold_left head_step ops (empty_head en).

  Inductive sres (A : Type) :=
  | SOk (a : A)
  | SErrDisabled        (* "sharding is disabled" *)
  | SErrNotFound (r : Z)  (* "series %d not found" *)
  | SPanic.             (* integer divide by zero *)
  Arguments SOk {A} a.
  Arguments SErrDisabled {A}.
  Arguments SErrNotFound {A} r.
  Arguments SPanic {A}.

  (* headIndexReader.ShardedPostings: not-found series are skipped (counted for a debug log),
     the cached memSeries.shardHash is used *)
  Fixpoint head_sharded_loop (h : head) (p : list Z) (idx cnt : Z) : sres (list Z) :=
    match p with
    | [] => SOk []
    | r :: p' =>
        match get_by_id h r with
        | None => head_sharded_loop h p' idx cnt
        | Some s =>
            if cnt =? 0 then SPanic
            else match head_sharded_loop h p' idx cnt with
                 | SOk out => if shard_of_hash (ms_shardHash s) cnt =? idx
                              then SOk (ms_ref s :: out) else SOk out
                 | e => e
                 end
        end
    end.

  Definition head_sharded_postings (h : head) (p : list Z) (idx cnt : Z) : sres (list Z) :=
    if negb (h_sharding h) then SErrDisabled else head_sharded_loop h p idx cnt.

  (* ---------------------------------------------------------------- block *)
  (* a block index: series table ref -> labels *)
  Definition block := list (Z * labels).

  Definition block_series (b : block) (ref : Z) : option labels :=
    match find (fun e => fst e =? ref) b with Some e => Some (snd e) | None => None end.

  (* index.Reader.ShardedPostings: a failing Series() aborts with an error; the hash is
     recomputed from the decoded labels *)
  Fixpoint block_sharded_postings (b : block) (p : list Z) (idx cnt : Z) : sres (list Z) :=
    match p with
    | [] => SOk []
    | r :: p' =>
        match block_series b r with
        | None => SErrNotFound r
        | Some ls =>
            if cnt =? 0 then SPanic
            else match block_sharded_postings b p' idx cnt with
                 | SOk out => if shard ls cnt =? idx then SOk (r :: out) else SOk out
                 | e => e
                 end
        end
    end.

  (* ---------------------------------------------------------------- Select *)
  (* storage.SelectHints: only the two sharding fields; hints == nil is ShardCount = 0 *)
  Record hints := mkHints { sh_index : Z; sh_count : Z }.
  Definition no_shard : hints := mkHints 0 0.

  (* an index reader as seen by selectSeriesSet *)
  Inductive source := SrcHead (h : head) | SrcBlock (b : block).

  Definition src_sharded (s : source) (p : list Z) (idx cnt : Z) : sres (list Z) :=
    match s with
    | SrcHead h => head_sharded_postings h p idx cnt
    | SrcBlock b => block_sharded_postings b p idx cnt
    end.

  Definition src_series (s : source) (ref : Z) : option labels :=
    match s with
    | SrcHead h => option_map ms_lset (get_by_id h ref)
    | SrcBlock b => block_series b ref
    end.

  (* blockBaseSeriesSet.Next: Series(ref) == ErrNotFound -> skip (stale postings); series
     without a chunk in range are skipped — [vis ref] abstracts "has a chunk left" *)
  Definition series_set (s : source) (vis : Z -> bool) (p : list Z) : list (Z * labels) :=
    flat_map (fun r => match src_series s r with
                       | Some ls => if vis r then [(r, ls)] else []
                       | None => []
                       end) p.

  (* selectSeriesSet: p = PostingsForMatchers(...); if hints.ShardCount > 0 then
     p = index.ShardedPostings(p, ShardIndex, ShardCount); then the series set over p *)
  Definition select (s : source) (vis : Z -> bool) (p : list Z) (hs : hints) : sres (list (Z * labels)) :=
    if 0 <? sh_count hs then
      match src_sharded s p (sh_index hs) (sh_count hs) with
      | SOk p' => SOk (series_set s vis p')
      | SErrDisabled => SErrDisabled
      | SErrNotFound r => SErrNotFound r
      | SPanic => SPanic
      end
    else SOk (series_set s vis p).

End WithHash.

Arguments SOk {A} a.
Arguments SErrDisabled {A}.
Arguments SErrNotFound {A} r.
Arguments SPanic {A}.

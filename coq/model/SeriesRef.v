(* model/SeriesRef.v — series reference allocation of the TSDB head across garbage collection,
   eviction, WAL checkpoints and restarts (property C22).  Executable definitions only.

   Transcribed from /repo/tsdb:
     head.go        getOrCreate / getOrCreateWithOptionalID (refs come from lastSeriesID.Inc()),
                    gc / gcSeries (walExpiries), truncateSeries (full-range tombstone records),
                    keepSeriesInWALCheckpointFn, truncateWAL (segment arithmetic, pruning of walExpiries),
                    Init (fast startup: readSeriesStateFile / findLastSeriesID, then checkpoint + segment replay,
                    then WBL replay), Close (writeSeriesState)
     head_wal.go    loadWAL (series records: getOrCreateWithOptionalID, lastSeriesID raised, multiRef,
                    resetSeriesWithMMappedChunks; samples: minValidTime, multiRef, unknown refs dropped;
                    tombstone records: lastSeriesID raised, full-range stones delete the series),
                    findLastSeriesID
     head_append.go headAppender.Append (getByID(ref) first — WITHOUT comparing labels — then labels)
     wlog/checkpoint.go  Checkpoint (series/tombstones by keep(ref), samples by T >= mint)

   What is NOT computed by the model but taken as input of the operation (decided by time/size
   dependent code that is not under test here): which series a gc pass removes and the keepUntil it
   records for them, whether an append is accepted, the content of the head-chunk files and of the
   WBL at a restart, series_state.json at a restart (a 1 s ticker writes it), Head.minValidTime at
   Init, Head.walExpiries after replay and which series the gc pass at the end of Init keeps.  The theorems quantify over all values of these inputs.

   A label set is an id (Z).  A sample carries the id of the label set it was appended with
   ("ghost"); a series remembers the ghosts of the samples it holds. *)
From Coq Require Import List ZArith Bool.
Import ListNotations.
Open Scope Z_scope.

Inductive rec :=
| RSeries (r l : Z)          (* series record: ref, label set *)
| RSample (r g t : Z)        (* sample: ref, ghost (label set it was appended with), timestamp *)
| RTomb (r : Z)              (* tombstone record, one interval [MinInt64, MaxInt64]: series deleted *)
| RTombIv (r : Z).           (* any other tombstone record (Head.Delete); never produced by the histories *)

Record series := mkS { s_ref : Z; s_l : Z; s_orig : list Z }.

(* one chunk of a head-chunk file *)
Record chunk := mkChunk { ck_ref : Z; ck_ooo : bool; ck_maxt : Z; ck_ghosts : list Z }.

(* one Appender.Append(cref, labels a_l, a_t, v): a_ok = accepted; a_stale = v is a staleness
   marker (carries no ghost; the sample is not tracked) *)
Record app := mkApp { a_cref : Z; a_l : Z; a_t : Z; a_ok : bool; a_stale : bool }.

Record st := mkSt {
  last : Z;                      (* Head.lastSeriesID *)
  head : list series;            (* stripeSeries, newest first *)
  expiry : list (Z * Z);         (* Head.walExpiries *)
  cache : list (Z * Z);          (* what the client cached this lifetime: (ref, label set) *)
  lastTrunc : Z;                 (* Head.lastWALTruncationTime *)
  ckpt : list rec;               (* last checkpoint *)
  segs : list (list rec);        (* WAL segments first..last, the last one is written to *)
  first : Z;                     (* index of the first segment *)
  rets : list Z                  (* refs returned by the appends of the last transaction *)
}.

Definition min_int64 : Z := -9223372036854775808.

Definition init : st := mkSt 0 [] [] [] min_int64 [] [[]] 0 [].

Definition by_ref (h : list series) (r : Z) : option series := find (fun s => s_ref s =? r) h.
Definition by_lset (h : list series) (l : Z) : option series := find (fun s => s_l s =? l) h.

Fixpoint assoc (e : list (Z * Z)) (r : Z) : option Z :=
  match e with
  | [] => None
  | (k, v) :: e' => if k =? r then Some v else assoc e' r
  end.

Definition memZ (x : Z) (l : list Z) : bool := existsb (Z.eqb x) l.

Definition add_ghost (g : Z) (s : series) : series :=
  if memZ g (s_orig s) then s else mkS (s_ref s) (s_l s) (g :: s_orig s).

(* the series the id map returns for r gets the ghost *)
Fixpoint upd_first (r g : Z) (h : list series) : list series :=
  match h with
  | [] => []
  | s :: h' => if s_ref s =? r then add_ghost g s :: h' else s :: upd_first r g h'
  end.

Fixpoint app_last (segs : list (list rec)) (rs : list rec) : list (list rec) :=
  match segs with
  | [] => [rs]
  | [s] => [s ++ rs]
  | s :: t => s :: app_last t rs
  end.

(* ---------------------------------------------------------------- one transaction *)

(* headAppender.Append: returns the new head/last, the returned ref, the series record (if a
   series was created) and the sample record (if accepted and not a staleness marker) *)
Definition append1 (lst : Z) (h : list series) (a : app) : Z * list series * Z * list rec * list rec :=
  let '(lst1, h1, tgt, crt) :=
    match by_ref h (a_cref a) with
    | Some s => (lst, h, s_ref s, [])
    | None =>
        match by_lset h (a_l a) with
        | Some s => (lst, h, s_ref s, [])
        | None => let r := lst + 1 in (r, mkS r (a_l a) [] :: h, r, [RSeries r (a_l a)])
        end
    end in
  if a_ok a then
    if a_stale a then (lst1, h1, tgt, crt, [])
    else (lst1, upd_first tgt (a_l a) h1, tgt, crt, [RSample tgt (a_l a) (a_t a)])
  else (lst1, h1, 0, crt, []).

(* state threaded through the appends of one appender: last, head, cache, returned refs,
   series records, sample records *)
Definition tx_step (acc : Z * list series * list (Z * Z) * list Z * list rec * list rec) (a : app) :=
  let '(lst, h, c, rs, sr, sm) := acc in
  let '(lst1, h1, ret, crt, smp) := append1 lst h a in
  (lst1, h1, (if a_ok a then (ret, a_l a) :: c else c), rs ++ [ret], sr ++ crt, sm ++ smp).

Definition do_tx (m : st) (apps : list app) : st :=
  let '(lst, h, c, rs, sr, sm) := fold_left tx_step apps (last m, head m, cache m, [], [], []) in
  (* Commit: one series record, then one samples record *)
  mkSt lst h (expiry m) c (lastTrunc m) (ckpt m) (app_last (segs m) (sr ++ sm)) (first m) rs.

(* ---------------------------------------------------------------- gc / eviction *)

Definition set_exp (r k : Z) (e : list (Z * Z)) : list (Z * Z) :=
  (r, k) :: filter (fun p => negb (fst p =? r)) e.

Definition do_gc (m : st) (dead : list (Z * Z)) : st :=
  let deadrefs := map fst dead in
  mkSt (last m) (filter (fun s => negb (memZ (s_ref s) deadrefs)) (head m))
       (fold_left (fun e p => set_exp (fst p) (snd p) e) dead (expiry m))
       (cache m) (lastTrunc m) (ckpt m) (segs m) (first m) (rets m).

(* truncateSeries: gcSeries, then one tombstone record with a full-range stone per series that
   was actually deleted (a ref that is not in the head cannot be in `deleted`) *)
Definition do_evict (m : st) (dead : list (Z * Z)) : st :=
  let m1 := do_gc m dead in
  let stones := map (fun p => RTomb (fst p))
                    (filter (fun p => match by_ref (head m) (fst p) with Some _ => true | None => false end) dead) in
  mkSt (last m1) (head m1) (expiry m1) (cache m1) (lastTrunc m1) (ckpt m1)
       (app_last (segs m1) stones) (first m1) (rets m1).

(* ---------------------------------------------------------------- WAL truncation *)

Definition keepf (h : list series) (e : list (Z * Z)) (mint r : Z) : bool :=
  match by_ref h r with
  | Some _ => true
  | None => match assoc e r with Some k => mint <=? k | None => false end
  end.

Definition ck_keep (keep : Z -> bool) (mint : Z) (x : rec) : bool :=
  match x with
  | RSeries r _ => keep r
  | RSample _ _ t => mint <=? t
  | RTomb r => keep r            (* interval Maxt = MaxInt64 >= mint *)
  | RTombIv r => keep r
  end.

Definition truncate_wal (m : st) (mint : Z) : st :=
  if mint <=? lastTrunc m then m else
  let fst_ := first m in
  let lst_ := first m + Z.of_nat (length (segs m)) - 1 in   (* wlog.Segments *)
  let segs1 := segs m ++ [[]] in                             (* NextSegment *)
  let m1 := mkSt (last m) (head m) (expiry m) (cache m) mint (ckpt m) segs1 (first m) (rets m) in
  let l1 := lst_ - 1 in
  if l1 <? 0 then m1 else
  let l2 := fst_ + Z.quot ((l1 - fst_) * 2) 3 in
  if l2 <=? fst_ then m1 else
  let n := Z.to_nat (l2 - fst_ + 1) in
  let keep := keepf (head m) (expiry m) mint in
  let ck := filter (ck_keep keep mint) (ckpt m ++ concat (firstn n segs1)) in
  mkSt (last m) (head m) (filter (fun p => mint <=? snd p) (expiry m)) (cache m) mint
       ck (skipn n segs1) (l2 + 1) (rets m).

(* ---------------------------------------------------------------- restart *)

Definition seg_max_series (s : list rec) : option Z :=
  fold_left (fun acc x => match x with
                          | RSeries r _ => Some (match acc with Some a => Z.max a r | None => Z.max 0 r end)
                          | _ => acc
                          end) s None.

(* findLastSeriesID: segments endAt down to max 0 seg; a missing segment is skipped *)
Fixpoint find_last_rev (rsegs : list (list rec)) (dflt : Z) : Z :=
  match rsegs with
  | [] => dflt
  | s :: t => match seg_max_series s with Some r => r | None => find_last_rev t dflt end
  end.

Definition find_last (fst_ : Z) (sg : list (list rec)) (id seg : Z) : Z :=
  let start := Z.max 0 seg in
  find_last_rev (rev (skipn (Z.to_nat (start - fst_)) sg)) id.

Definition chunk_ghosts (minValid : Z) (cs : list chunk) (r : Z) : list Z :=
  flat_map ck_ghosts (filter (fun c => (ck_ref c =? r) && (ck_ooo c || (minValid <=? ck_maxt c))) cs).

Definition dedup_ghosts (l : list Z) : list Z :=
  fold_right (fun g acc => if memZ g acc then acc else g :: acc) [] l.

Definition resolve (multi : list (Z * Z)) (r : Z) : Z :=
  match assoc multi r with Some r' => r' | None => r end.

Fixpoint set_orig (r : Z) (o : list Z) (h : list series) : list series :=
  match h with
  | [] => []
  | s :: h' => if s_ref s =? r then mkS (s_ref s) (s_l s) o :: h' else s :: set_orig r o h'
  end.

Fixpoint remove_first (r : Z) (h : list series) : list series :=
  match h with
  | [] => []
  | s :: h' => if s_ref s =? r then h' else s :: remove_first r h'
  end.

(* replay state: last, head, multiRef *)
Definition replay_rec (minValid : Z) (cs : list chunk) (acc : Z * list series * list (Z * Z)) (x : rec) :=
  let '(lst, h, multi) := acc in
  match x with
  | RSeries r l =>
      let o := dedup_ghosts (chunk_ghosts minValid cs r) in
      match by_lset h l with
      | Some s => (* not created: multiRef; the existing series gets the chunks of THIS record's ref *)
          (Z.max lst r, set_orig (s_ref s) o h, (r, s_ref s) :: multi)
      | None => (Z.max lst r, mkS r l o :: h, multi)
      end
  | RSample r g t =>
      if t <? minValid then acc else
      let r' := resolve multi r in
      match by_ref h r' with
      | Some _ => (lst, upd_first r' g h, multi)
      | None => acc
      end
  | RTomb r =>
      let r' := resolve multi r in
      (Z.max lst r, remove_first r' h, multi)
  | RTombIv r => (Z.max lst r, h, multi)
  end.

Definition replay_wbl (acc : Z * list series * list (Z * Z)) (x : rec) :=
  let '(lst, h, multi) := acc in
  match x with
  | RSample r g _ =>
      let r' := resolve multi r in
      match by_ref h r' with
      | Some _ => (lst, upd_first r' g h, multi)
      | None => acc
      end
  | _ => acc
  end.

(* loadMmappedChunks (fix 422818037d): every series ref seen in a head-chunk file raises
   lastSeriesID — before the minValidTime filter, so filtered chunks count too *)
Definition chunks_max_ref (cs : list chunk) : Z := fold_left (fun a c => Z.max a (ck_ref c)) cs 0.

(* the fast-startup block of Head.Init; `cur` is lastSeriesID when it runs.
   fix 38fca1216f: the state file's id / the WAL-scan id is stored only when larger *)
Definition fast_start (fixed : bool) (cur : Z) (m_first : Z) (segs1 : list (list rec)) (fastNew : bool)
           (sf : option (Z * Z * bool)) : Z :=
  if fastNew then
    match sf with
    | Some (id, seg, cl) =>
        let v := if cl then id else find_last m_first segs1 id seg in
        if fixed then Z.max cur v else v
    | None => cur
    end
  else cur.

Definition do_restart_gen (fixed : bool) (m : st) (fastNew : bool) (sf : option (Z * Z * bool)) (minValid : Z)
           (cs : list chunk) (wbl : list rec) (expAfter : list (Z * Z)) (alive : list Z) : st :=
  let segs1 := segs m ++ [[]] in                      (* wlog.NewSize creates a new segment *)
  let cur := if fixed then chunks_max_ref cs else 0 in
  let last0 := fast_start fixed cur (first m) segs1 fastNew sf in
  let '(lst, h, multi) := fold_left (replay_rec minValid cs) (ckpt m ++ concat segs1) (last0, [], []) in
  let '(lst2, h2, _) := fold_left replay_wbl wbl (lst, h, multi) in
  (* `defer h.gc()` of Init: series left without data are removed (observed: alive) *)
  mkSt lst2 (filter (fun s => memZ (s_ref s) alive) h2) expAfter [] min_int64 (ckpt m) segs1 (first m) [].

(* the code as it is (both fixes) *)
Definition do_restart := do_restart_gen true.
(* the code before the two fixes: refs in chunk files ignored, state-file id stored unconditionally *)
Definition do_restart_old := do_restart_gen false.

(* ---------------------------------------------------------------- operations *)

Inductive op :=
| OTx (apps : list app)
| OTruncate (mint : Z) (dead : list (Z * Z))   (* CompactHead: truncateMemory (gc) then truncateWAL mint *)
| OGc (dead : list (Z * Z))                    (* truncateOOO: gc only *)
| OEvict (dead : list (Z * Z))                 (* truncateStaleSeries / truncateSelectedSeries *)
| ORestart (clean fastOld fastNew : bool) (sf : option (Z * Z * bool)) (minValid : Z)
           (cs : list chunk) (wbl : list rec) (expAfter : list (Z * Z)) (alive : list Z).

Definition step (m : st) (o : op) : st :=
  match o with
  | OTx apps => do_tx m apps
  | OTruncate mint dead => truncate_wal (do_gc m dead) mint
  | OGc dead => do_gc m dead
  | OEvict dead => do_evict m dead
  | ORestart _ _ fastNew sf minValid cs wbl expAfter alive => do_restart m fastNew sf minValid cs wbl expAfter alive
  end.

Definition run (ops : list op) : st := fold_left step ops init.

Definition step_old (m : st) (o : op) : st :=
  match o with
  | ORestart _ _ fastNew sf minValid cs wbl expAfter alive => do_restart_old m fastNew sf minValid cs wbl expAfter alive
  | _ => step m o
  end.

Definition run_old (ops : list op) : st := fold_left step_old ops init.

(* the state file a clean Close writes when fast startup is enabled *)
Definition clean_state_file (m : st) : Z * Z * bool :=
  (last m, first m + Z.of_nat (length (segs m)) - 1, true).

(* ---------------------------------------------------------------- what the theorems talk about *)

Definition wal (m : st) : list rec := ckpt m ++ concat (segs m).

(* refs of the records from which a restart restores lastSeriesID *)
Definition rec_alloc_ref (x : rec) : option Z :=
  match x with RSeries r _ => Some r | RTomb r => Some r | RTombIv r => Some r | RSample _ _ _ => None end.

(* a series holds only samples appended with its own labels *)
Definition series_pure (s : series) : bool := forallb (Z.eqb (s_l s)) (s_orig s).
Definition head_pure (m : st) : bool := forallb series_pure (head m).

(* the answer of a query over the head: label set and ghosts of the samples returned under it *)
Definition query_head (m : st) : list (Z * list Z) := map (fun s => (s_l s, s_orig s)) (head m).

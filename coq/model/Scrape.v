(* model/Scrape.v — executable model of one target's scrape loop (definitions only).

   Transcribed from /repo/scrape/scrape.go (scrapeLoop.scrapeAndReport, scrapeLoopAppender.append,
   scrapeCache.{get,getDropped,addRef,addDropped,updateRef,moveStaleness,trackStaleness,
   forEachStale,iterDone}, updateStaleMarkers, report/reportStale/addReportSample,
   endOfRunStaleness), /repo/scrape/target.go (limitAppender, timeLimitAppender) and the
   AppenderV2 twin in scrape_append_v2.go (same control flow for float samples).

   Abstractions:
   * metric texts ("met", the raw series text of an exposition line), label sets and sample
     values are opaque integers (interned by the harness); the report series
     up, scrape_duration_seconds, ... have the met ids -1 .. -8 (their "\xff"-suffixed names);
   * parsing + target labels + metric relabeling + name/label-limit validation is ONE oracle
     [mut : met -> mres] (keep with a label set | drop | reject the scrape);
   * cache entries are heap objects ([c_heap], keyed by an allocation id) because the Go maps
     series / seriesCur / seriesPrev share *cacheEntry pointers and updateRef/moveStaleness
     compare pointers;
   * the storage behind the loop is the harness' recording storage, modelled in [st_append]
     (TSDB-like: a live reference wins, otherwise the series is looked up / created by label
     set; a garbage collected series gets a fresh reference; samples below [min_valid] are
     rejected with ErrOutOfBounds).  It is test environment, not anchored code.
   Go map iteration order (forEachStale) is not modelled: the order of a run of staleness
   markers is canonicalised in corr/CorrC37.v. *)
From Coq Require Import List ZArith Bool.
Import ListNotations.
Open Scope Z_scope.

(* ------------------------------------------------------------------ association lists *)
Section Assoc.
  Context {V : Type}.
  Fixpoint aget (k : Z) (m : list (Z * V)) : option V :=
    match m with
    | [] => None
    | (k', v) :: r => if k' =? k then Some v else aget k r
    end.
  Fixpoint aset (k : Z) (v : V) (m : list (Z * V)) : list (Z * V) :=
    match m with
    | [] => [(k, v)]
    | (k', v') :: r => if k' =? k then (k, v) :: r else (k', v') :: aset k v r
    end.
  Fixpoint adel (k : Z) (m : list (Z * V)) : list (Z * V) :=
    match m with
    | [] => []
    | (k', v') :: r => if k' =? k then adel k r else (k', v') :: adel k r
    end.
  Definition amem (k : Z) (m : list (Z * V)) : bool :=
    match aget k m with Some _ => true | None => false end.
End Assoc.

(* ------------------------------------------------------------------ data *)
Inductive val := VI (z : Z) | VStale | VDur | VOther.
Inductive mres := MKeep (l : Z) | MDrop | MErr.

Record cfg := mkCfg {
  honor_ts : bool;        (* honor_timestamps *)
  track_ts : bool;        (* track_timestamps_staleness *)
  sample_limit : Z;       (* sample_limit, 0 = none *)
  extra : bool;           (* extra scrape metrics (scrape_timeout_seconds, ...) *)
  timeout_s : Z;          (* scrape timeout in seconds *)
  min_valid : Z;          (* recording storage: t < min_valid -> ErrOutOfBounds *)
  max_valid : Z           (* timeLimitAppender: t > max_valid -> ErrOutOfBounds (now + 10 min) *)
}.

Record entry := mkEntry { e_ref : Z; e_lset : Z; e_last : Z }.

Record cache := mkCache {
  c_iter : Z;
  c_succ : Z;                       (* successfulCount *)
  c_series : list (Z * Z);          (* met -> entry id *)
  c_heap : list (Z * entry);        (* entry id -> entry *)
  c_dropped : list (Z * Z);         (* met -> iteration *)
  c_cur : list (Z * Z);             (* seriesCur: ref -> entry id *)
  c_prev : list (Z * Z);            (* seriesPrev *)
  c_next : Z                        (* next entry id *)
}.

Record store := mkStore { s_live : list (Z * Z); s_gen : list (Z * Z) }.

Record app := mkApp { a_rin : Z; a_lset : Z; a_t : Z; a_val : val; a_rout : Z }.
Record batch := mkBatch { b_commit : bool; b_apps : list app }.

Record body_entry := mkE { en_met : Z; en_ts : option Z; en_val : Z }.
Inductive outcome :=
| OBody (es : list body_entry) (bad_tail : bool) (len : Z)   (* body; bad_tail: an unparsable last line *)
| OFail (body_size : bool)                                   (* scrape error (body_size: errBodySizeLimit) *)
| OGone.                                                     (* loop stopped: endOfRunStaleness *)
Record step := mkStep { st_time : Z; st_gc : list Z; st_out : outcome }.

Definition init_cache : cache := mkCache 0 0 [] [] [] [] [] 1.
Definition init_store : store := mkStore [] [].

(* ------------------------------------------------------------------ recording storage *)
Definition ref_base : Z := 1000.

Definition st_append (c : cfg) (s : store) (r l t : Z) : store * Z :=
  if t <? min_valid c then (s, 0) else
  if negb (r =? 0) && (match aget (r / ref_base) (s_live s) with Some r' => r' =? r | None => false end)
  then (s, r) else
  match aget l (s_live s) with
  | Some r' => (s, r')
  | None =>
      let g := match aget l (s_gen s) with Some g => g + 1 | None => 1 end in
      let r' := l * ref_base + g in
      (mkStore (aset l r' (s_live s)) (aset l g (s_gen s)), r')
  end.

Definition st_gc_apply (s : store) (ls : list Z) : store :=
  mkStore (fold_left (fun m l => adel l m) ls (s_live s)) (s_gen s).

(* ------------------------------------------------------------------ scrapeCache *)
Definition dummy_entry : entry := mkEntry 0 0 0.
Definition heap_get (c : cache) (eid : Z) : entry :=
  match aget eid (c_heap c) with Some e => e | None => dummy_entry end.  (* ids are never dangling *)

Definition set_heap (c : cache) (h : list (Z * entry)) : cache :=
  mkCache (c_iter c) (c_succ c) (c_series c) h (c_dropped c) (c_cur c) (c_prev c) (c_next c).
Definition set_dropped (c : cache) (d : list (Z * Z)) : cache :=
  mkCache (c_iter c) (c_succ c) (c_series c) (c_heap c) d (c_cur c) (c_prev c) (c_next c).
Definition set_cur (c : cache) (m : list (Z * Z)) : cache :=
  mkCache (c_iter c) (c_succ c) (c_series c) (c_heap c) (c_dropped c) m (c_prev c) (c_next c).
Definition set_prev (c : cache) (m : list (Z * Z)) : cache :=
  mkCache (c_iter c) (c_succ c) (c_series c) (c_heap c) (c_dropped c) (c_cur c) m (c_next c).

(* scrapeCache.get *)
Definition cache_get (c : cache) (met : Z) : cache * option (Z * bool) :=
  match aget met (c_series c) with
  | None => (c, None)
  | Some eid =>
      let e := heap_get c eid in
      (set_heap c (aset eid (mkEntry (e_ref e) (e_lset e) (c_iter c)) (c_heap c)),
       Some (eid, e_last e =? c_iter c))
  end.

(* scrapeCache.addRef; returns the new entry id *)
Definition add_ref (c : cache) (met ref lset : Z) : cache * Z :=
  let eid := c_next c in
  (mkCache (c_iter c) (c_succ c) (aset met eid (c_series c))
           (aset eid (mkEntry ref lset (c_iter c)) (c_heap c))
           (c_dropped c) (c_cur c) (c_prev c) (eid + 1), eid).

(* moveStaleness *)
Definition move_staleness (tracked : list (Z * Z)) (eid oldref ref : Z) : list (Z * Z) :=
  match aget oldref tracked with
  | Some eid' => if eid' =? eid then aset ref eid (adel oldref tracked) else tracked
  | None => tracked
  end.

(* scrapeCache.updateRef *)
Definition update_ref (c : cache) (eid ref : Z) : cache :=
  let e := heap_get c eid in
  if e_ref e =? ref then c else
  let c1 := if e_ref e =? 0 then c
            else set_cur (set_prev c (move_staleness (c_prev c) eid (e_ref e) ref))
                         (move_staleness (c_cur c) eid (e_ref e) ref) in
  set_heap c1 (aset eid (mkEntry ref (e_lset e) (e_last e)) (c_heap c1)).

(* scrapeCache.trackStaleness *)
Definition track (c : cache) (ref eid : Z) : cache := set_cur c (aset ref eid (c_cur c)).

(* scrapeCache.forEachStale: (ce.ref, ce.lset) of every seriesPrev key missing in seriesCur *)
Definition stale_list (c : cache) : list (Z * Z) :=
  flat_map (fun p : Z * Z =>
              if amem (fst p) (c_cur c) then []
              else let e := heap_get c (snd p) in [(e_ref e, e_lset e)]) (c_prev c).

(* scrapeCache.iterDone (no metadata entries: the generated bodies carry no TYPE/HELP/UNIT) *)
Definition iter_done (c : cache) (flush : bool) : cache :=
  let count := Z.of_nat (length (c_series c)) + Z.of_nat (length (c_dropped c)) in
  let succ := if flush then count else c_succ c in
  let flush' := flush || (c_succ c * 2 + 1000 <? count) in
  let series := if flush'
                then filter (fun p : Z * Z => e_last (heap_get c (snd p)) =? c_iter c) (c_series c)
                else c_series c in
  let dropped := if flush' then filter (fun p : Z * Z => snd p =? c_iter c) (c_dropped c)
                 else c_dropped c in
  mkCache (c_iter c + 1) succ series (c_heap c) dropped [] (c_cur c) (c_next c).

(* ------------------------------------------------------------------ appender chain *)
Record lstate := mkL {
  l_cache : cache;
  l_store : store;
  l_apps : list app;     (* appends that reached the storage appender, newest first *)
  l_i : Z;               (* limitAppender.i *)
  l_total : Z; l_added : Z; l_sadded : Z;
  l_limit_err : bool     (* sampleLimitErr != nil *)
}.

Definition with_cache (s : lstate) (c : cache) : lstate :=
  mkL c (l_store s) (l_apps s) (l_i s) (l_total s) (l_added s) (l_sadded s) (l_limit_err s).
Definition inc_added (s : lstate) : lstate :=
  mkL (l_cache s) (l_store s) (l_apps s) (l_i s) (l_total s) (l_added s + 1) (l_sadded s) (l_limit_err s).
Definition inc_total (s : lstate) : lstate :=
  mkL (l_cache s) (l_store s) (l_apps s) (l_i s) (l_total s + 1) (l_added s) (l_sadded s) (l_limit_err s).
Definition inc_sadded (s : lstate) : lstate :=
  mkL (l_cache s) (l_store s) (l_apps s) (l_i s) (l_total s) (l_added s) (l_sadded s + 1) (l_limit_err s).
Definition set_limit_err (s : lstate) : lstate :=
  mkL (l_cache s) (l_store s) (l_apps s) (l_i s) (l_total s) (l_added s) (l_sadded s) true.

Inductive aerr := ENone | ELimit | EOOB.

Definition is_stale (v : val) : bool := match v with VStale => true | _ => false end.

(* the storage appender itself (sl.Appender): records the call *)
Definition base_append (c : cfg) (s : lstate) (r l t : Z) (v : val) : lstate * Z :=
  let '(st', rout) := st_append c (l_store s) r l t in
  (mkL (l_cache s) st' (mkApp r l t v rout :: l_apps s) (l_i s)
       (l_total s) (l_added s) (l_sadded s) (l_limit_err s), rout).

(* appenderWithLimits: limitAppender (outermost) -> timeLimitAppender -> storage appender *)
Definition limited_append (c : cfg) (s : lstate) (r l t : Z) (v : val) : lstate * Z * aerr :=
  let count := (0 <? sample_limit c) && ((r =? 0) || negb (is_stale v)) in
  let i' := if count then l_i s + 1 else l_i s in
  let s1 := mkL (l_cache s) (l_store s) (l_apps s) i' (l_total s) (l_added s) (l_sadded s) (l_limit_err s) in
  if count && (sample_limit c <? i') then (s1, 0, ELimit) else
  if max_valid c <? t then (s1, 0, EOOB) else
  let '(s2, rout) := base_append c s1 r l t v in
  (s2, rout, if rout =? 0 then EOOB else ENone).

(* ------------------------------------------------------------------ scrapeLoopAppender.append, one sample line *)
Inductive lres := LCont (s : lstate) | LAbort (s : lstate).

Section Loop.
  Variable c : cfg.
  Variable mut : Z -> mres.
  Variable rep : Z -> Z.     (* label set of the i-th report series after reportSampleMutator *)

  Definition do_entry (defT : Z) (s0 : lstate) (en : body_entry) : lres :=
    let s := inc_total s0 in
    let met := en_met en in
    let pts := if honor_ts c then en_ts en else None in
    let t := match pts with Some x => x | None => defT end in
    let trackable := match pts with None => true | Some _ => track_ts c end in
    let ca := l_cache s in
    match aget met (c_dropped ca) with
    | Some _ => LCont (with_cache s (set_dropped ca (aset met (c_iter ca) (c_dropped ca))))   (* getDropped *)
    | None =>
        let '(ca1, g) := cache_get ca met in
        match g with
        | Some (eid, already) =>
            let e := heap_get ca1 eid in
            let s1 := with_cache s ca1 in
            if already && (match pts with None => true | Some _ => false end)
            then LCont (inc_added s1)                         (* ErrDuplicateSampleForTimestamp *)
            else
              let '(s2, rout, err) := limited_append c s1 (e_ref e) (e_lset e) t (VI (en_val en)) in
              match err with
              | ENone =>
                  let ca2 := if rout =? 0 then l_cache s2 else update_ref (l_cache s2) eid rout in
                  let r2 := e_ref (heap_get ca2 eid) in
                  let ca3 := if trackable && negb (r2 =? 0) then track ca2 r2 eid else ca2 in
                  LCont (inc_added (with_cache s2 ca3))
              | ELimit => LCont (inc_added (set_limit_err s2))
              | EOOB => LCont (inc_added s2)
              end
        | None =>
            match mut met with
            | MDrop => LCont (with_cache s (set_dropped ca1 (aset met (c_iter ca1) (c_dropped ca1))))  (* addDropped *)
            | MErr => LAbort s
            | MKeep l =>
                let '(s2, rout, err) := limited_append c s 0 l t (VI (en_val en)) in
                match err with
                | ENone =>
                    let '(ca2, eid) := add_ref (l_cache s2) met rout l in
                    let ca3 := if negb (rout =? 0) && trackable then track ca2 rout eid else ca2 in
                    let s3 := with_cache s2 ca3 in
                    LCont (inc_added (if l_limit_err s3 then s3 else inc_sadded s3))
                | ELimit => LCont (inc_added (set_limit_err s2))
                | EOOB => LCont (inc_added s2)
                end
            end
        end
    end.

  Fixpoint run_entries (defT : Z) (s : lstate) (es : list body_entry) : lres :=
    match es with
    | [] => LCont s
    | en :: r =>
        match do_entry defT s en with
        | LCont s' => run_entries defT s' r
        | LAbort s' => LAbort s'
        end
    end.

  (* updateStaleMarkers: [limited] = through the limit chain (end of a non-empty body) or the
     storage appender directly (empty scrape); stops at the first error *)
  Fixpoint stale_appends (limited : bool) (defT : Z) (s : lstate) (l : list (Z * Z)) : lstate * bool :=
    match l with
    | [] => (s, true)
    | (r, ls) :: rest =>
        let '(s', ok) :=
          if limited then
            let '(s', _, err) := limited_append c s r ls defT VStale in
            (s', match err with ENone => true | _ => false end)
          else
            let '(s', rout) := base_append c s r ls defT VStale in (s', negb (rout =? 0)) in
        if ok then stale_appends limited defT s' rest else (s', false)
    end.

  Definition fresh (ca : cache) (st : store) : lstate := mkL ca st [] 0 0 0 0 false.

  (* append with a non-empty body: (state, ok) *)
  Definition append_body (defT : Z) (ca : cache) (st : store) (es : list body_entry) (bad_tail : bool)
    : lstate * bool :=
    match run_entries defT (fresh ca st) es with
    | LAbort s => (s, false)
    | LCont s =>
        if bad_tail then (s, false) else
        if l_limit_err s then (s, false) else
        let '(s', ok) := stale_appends true defT s (stale_list (l_cache s)) in
        if ok then (with_cache s' (iter_done (l_cache s') true), true) else (s', false)
    end.

  (* append with an empty body *)
  Definition append_empty (defT : Z) (ca : cache) (st : store) : lstate * bool :=
    let s := fresh ca st in
    let '(s', ok) := stale_appends false defT s (stale_list (l_cache s)) in
    (with_cache s' (iter_done (l_cache s') false), ok).

  (* addReportSample *)
  Definition add_report (s : lstate) (idx t : Z) (v : val) : lstate * bool :=
    let met := - (idx + 1) in
    let '(ca1, g) := cache_get (l_cache s) met in
    let '(r, ls) := match g with
                    | Some (eid, _) => let e := heap_get ca1 eid in (e_ref e, e_lset e)
                    | None => (0, rep idx)
                    end in
    let '(s1, rout) := base_append c (with_cache s ca1) r ls t v in
    if rout =? 0 then (s1, false) else
    match g with
    | Some _ => (s1, true)
    | None => (with_cache s1 (fst (add_ref (l_cache s1) met rout ls)), true)
    end.

  Fixpoint add_reports (s : lstate) (t : Z) (l : list (Z * val)) : lstate * bool :=
    match l with
    | [] => (s, true)
    | (idx, v) :: rest =>
        let '(s', ok) := add_report s idx t v in
        if ok then add_reports s' t rest else (s', false)
    end.

  Definition report_vals (up total added sadded bytes : Z) : list (Z * val) :=
    [(0, VI up); (1, VDur); (2, VI total); (3, VI added); (4, VI sadded)] ++
    (if extra c then [(5, VI (timeout_s c)); (6, VI (sample_limit c)); (7, VI bytes)] else []).

  Definition stale_report_vals : list (Z * val) :=
    [(0, VStale); (1, VStale); (2, VStale); (3, VStale); (4, VStale)] ++
    (if extra c then [(5, VStale); (6, VStale); (7, VStale)] else []).

  Definition batch_of (commit : bool) (s : lstate) : batch := mkBatch commit (rev (l_apps s)).

  (* the tail shared by every path: an "empty" append for the stale markers (a failing one is
     rolled back and replaced by a new appender), then the report, then Commit (or Rollback when
     the report failed) *)
  Definition finish (t : Z) (ca : cache) (st : store) (vals : list (Z * val)) : cache * store * list batch :=
    let '(s1, ok1) := append_empty t ca st in
    let '(pre, s2) := if ok1 then ([], s1)
                      else ([batch_of false s1], fresh (l_cache s1) (l_store s1)) in
    let '(s3, ok3) := add_reports s2 t vals in
    (l_cache s3, l_store s3, pre ++ [batch_of ok3 s3]).

  (* scrapeAndReport / endOfRunStaleness *)
  Definition do_step (S : cache * store) (sp : step) : (cache * store) * list batch :=
    let '(ca, st0) := S in
    let st := st_gc_apply st0 (st_gc sp) in
    let t := st_time sp in
    match st_out sp with
    | OFail bs =>
        let '(ca', st', bs') := finish t ca st (report_vals 0 0 0 0 (if bs then -1 else 0)) in
        ((ca', st'), bs')
    | OGone =>
        let '(ca', st', bs') := finish t ca st stale_report_vals in
        ((ca', st'), bs')
    | OBody es bad len =>
        if len =? 0 then
          let '(ca', st', bs') := finish t ca st (report_vals 1 0 0 0 0) in
          ((ca', st'), bs')
        else
          let '(s1, ok) := append_body t ca st es bad in
          if ok then
            let '(s2, ok2) := add_reports s1 t (report_vals 1 (l_total s1) (l_added s1) (l_sadded s1) len) in
            ((l_cache s2, l_store s2), [batch_of ok2 s2])
          else
            let '(ca', st', bs') :=
              finish t (l_cache s1) (l_store s1)
                     (report_vals 0 (l_total s1) (l_added s1) (l_sadded s1) len) in
            ((ca', st'), batch_of false s1 :: bs')
    end.

  Fixpoint run_from (S : cache * store) (h : list step) : list (list batch) :=
    match h with
    | [] => []
    | sp :: r => let '(S', bs) := do_step S sp in bs :: run_from S' r
    end.

  Definition run (h : list step) : list (list batch) := run_from (init_cache, init_store) h.

  (* the state after a history *)
  Definition state_after (h : list step) : cache * store :=
    fold_left (fun S sp => fst (do_step S sp)) h (init_cache, init_store).
End Loop.

(* model/Plan.v — executable model of tsdb/compact.go compaction planning:
   LeveledCompactor.plan / planClass / selectOverlappingDirs / selectDirs / splitByRange and
   CompactBlockMetas, plus the metadata-level effect of one DB.compactBlocks iteration.
   Definitions only; proofs are in proof/PlanProofs.v.

   Go int64 arithmetic is explicit (add64/sub64/mul64 wrap, `/` is Z.quot); integer division
   by zero and index-out-of-range are the explicit result [Panic]. *)
From Coq Require Import List ZArith Bool.
From Verif Require Import lib.Int64.
Import ListNotations.
Open Scope Z_scope.

(* tsdb.BlockMeta, projected on what planning and CompactBlockMetas read.
   m_id stands for the block directory / ULID (the harness uses ULIDs whose byte order is the
   order of m_id).  Hints (a string slice in Go) are the three membership tests the code uses. *)
Record meta := mkMeta {
  m_id : Z;
  m_min : Z; m_max : Z;           (* MinTime, MaxTime : int64 *)
  m_failed : bool;                (* Compaction.Failed *)
  m_tomb : Z; m_series : Z;       (* Stats.NumTombstones, Stats.NumSeries : uint64 *)
  m_stale : bool; m_sel : bool; m_ooo : bool;  (* FromStaleSeries / FromSelectedSeries / FromOutOfOrder *)
  m_level : Z;                    (* Compaction.Level : int *)
  m_sources : list Z              (* Compaction.Sources *)
}.

(* LeveledCompactor fields read by plan *)
Record cfg := mkCfg { c_ranges : list Z; c_overlap : bool }.

Inductive res (A : Type) := Ok (a : A) | Panic.
Arguments Ok {A} a.
Arguments Panic {A}.

Inductive cls := Stale | Selected | Regular.

(* the switch in plan: stale first, then selected, else regular *)
Definition class_of (m : meta) : cls :=
  if m_stale m then Stale else if m_sel m then Selected else Regular.

Definition cls_eqb (a b : cls) : bool :=
  match a, b with Stale, Stale | Selected, Selected | Regular, Regular => true | _, _ => false end.

Definition ids (l : list meta) : list Z := map m_id l.

(* ---- slices.SortFunc by MinTime.  For at most 12 elements Go's pdqsort is a plain insertion
   sort (stable): an element moves left while it is strictly smaller than its predecessor. *)
Fixpoint ins (x : meta) (l : list meta) : list meta :=
  match l with
  | [] => [x]
  | y :: tl => if m_min x <? m_min y then x :: y :: tl else y :: ins x tl
  end.

Definition sort_min (l : list meta) : list meta := fold_left (fun acc x => ins x acc) l [].

(* ---- selectOverlappingDirs.  [prev] is ds[i], [gmax] is globalMaxt, [acc] is overlappingDirs. *)
Fixpoint overlap_loop (prev : meta) (gmax : Z) (acc : list meta) (ds : list meta) : list meta :=
  match ds with
  | [] => acc
  | d :: tl =>
      let gmax' := if m_max d >? gmax then m_max d else gmax in
      if m_min d <? gmax then
        let acc1 := match acc with [] => [prev] | _ => acc end in
        overlap_loop d gmax' (acc1 ++ [d]) tl
      else
        match acc with
        | _ :: _ => acc                          (* break *)
        | [] => overlap_loop d gmax' acc tl
        end
  end.

Definition select_overlapping (c : cfg) (ds : list meta) : list meta :=
  if negb (c_overlap c) then []
  else match ds with
       | [] | [_] => []
       | d0 :: tl => overlap_loop d0 (m_max d0) [] tl
       end.

(* ---- splitByRange.  div64 is Go's int64 `/` for a non-zero divisor. *)
Definition div64 (a b : Z) : Z := wrap64 (godiv a b).

Definition t0_of (tr mint : Z) : Z :=
  if 0 <=? mint then mul64 tr (div64 mint tr)
  else mul64 tr (div64 (add64 (sub64 mint tr) 1) tr).

(* t0 + tr for the block that opens a group *)
Definition lim_of (tr : Z) (d : meta) : Z := add64 (t0_of tr (m_min d)) tr.

(* [cur] = the group being filled together with its limit t0+tr, if any *)
Fixpoint split_go (tr : Z) (cur : option (Z * list meta)) (ds : list meta) : list (list meta) :=
  match ds with
  | [] => match cur with Some (_, g) => [g] | None => [] end
  | d :: tl =>
      let fresh := if m_max d >? lim_of tr d then None else Some (lim_of tr d, [d]) in
      match cur with
      | Some (lim, g) =>
          if m_max d >? lim then g :: split_go tr fresh tl
          else split_go tr (Some (lim, g ++ [d])) tl
      | None => split_go tr fresh tl
      end
  end.

(* tr <> 0; with tr = 0 and a non-empty input Go panics (integer divide by zero) *)
Definition split_by_range (ds : list meta) (tr : Z) : list (list meta) := split_go tr None ds.

(* ---- selectDirs *)
Definition last_max (p : list meta) : Z := match rev p with [] => 0 | l :: _ => m_max l end.

Definition group_ok (iv high : Z) (p : list meta) : bool :=
  negb (existsb m_failed p) &&
  match p with
  | [] => false
  | f :: _ =>
      let mint := m_min f in
      let maxt := last_max p in
      ((sub64 maxt mint =? iv) || (maxt <=? high)) && (1 <? Z.of_nat (length p))
  end.

Fixpoint select_ranges (ds : list meta) (high : Z) (rs : list Z) : res (list meta) :=
  match rs with
  | [] => Ok []
  | iv :: rs' =>
      if iv =? 0 then Panic
      else match find (group_ok iv high) (split_by_range ds iv) with
           | Some p => Ok p
           | None => select_ranges ds high rs'
           end
  end.

Definition last_min (ds : list meta) : Z := match rev ds with [] => 0 | l :: _ => m_min l end.

Definition select_dirs (c : cfg) (ds : list meta) : res (list meta) :=
  match c_ranges c with
  | [] | [_] => Ok []
  | _ :: rs => match ds with
               | [] => Ok []
               | _ => select_ranges ds (last_min ds) rs
               end
  end.

(* ---- tombstone rule.  float64(tomb)/float64(series+1) > 0.05 as the exact comparison
   20*tomb > series+1 (series+1 in uint64; 0 divisor gives +Inf or NaN, same verdict). *)
Definition tomb_ratio_big (m : meta) : bool := 20 * m_tomb m >? u64 (m_series m + 1).
Definition tomb_all_deleted (m : meta) : bool := (0 <? m_tomb m) && (m_series m <=? m_tomb m).

Fixpoint tomb_scan (mid : Z) (l : list meta) : list meta :=
  match l with
  | [] => []
  | v :: tl =>
      if sub64 (m_max v) (m_min v) <? mid then
        (if tomb_all_deleted v then [v] else [])          (* return / break *)
      else if tomb_ratio_big v then [v] else tomb_scan mid tl
  end.

Definition mid_range (c : cfg) : option Z :=
  nth_error (c_ranges c) (Nat.div (length (c_ranges c)) 2).

(* ---- planClass *)
Definition plan_class (c : cfg) (dms : list meta) : res (list meta) :=
  match dms with
  | [] => Ok []
  | _ =>
      let s := sort_min dms in
      match select_overlapping c s with
      | (_ :: _) as r => Ok r
      | [] =>
          let s' := removelast s in
          match select_dirs c s' with
          | Panic => Panic
          | Ok ((_ :: _) as r) => Ok r
          | Ok [] =>
              match s' with
              | [] => Ok []
              | _ => match mid_range c with
                     | None => Panic
                     | Some mid => Ok (tomb_scan mid (rev s'))
                     end
              end
          end
      end
  end.

(* ---- plan *)
Definition of_class (k : cls) (dms : list meta) : list meta :=
  filter (fun m => cls_eqb (class_of m) k) dms.

Definition nonempty {A} (l : list A) : bool := match l with [] => false | _ => true end.

Definition plan_metas (c : cfg) (dms : list meta) : res (list meta) :=
  match dms with
  | [] => Ok []
  | _ =>
      let stale := of_class Stale dms in
      let selected := of_class Selected dms in
      let nonhint := of_class Regular dms in
      let classes := (if nonempty stale then 1 else 0) + (if nonempty selected then 1 else 0)
                     + (if nonempty nonhint then 1 else 0) in
      if 1 <? classes then
        match plan_class c nonhint with
        | Panic => Panic
        | Ok ((_ :: _) as r) => Ok r
        | Ok [] =>
            match plan_class c stale with
            | Panic => Panic
            | Ok ((_ :: _) as r) => Ok r
            | Ok [] => plan_class c selected
            end
        end
      else plan_class c dms
  end.

(* what LeveledCompactor.plan returns: the directory names *)
Definition plan (c : cfg) (dms : list meta) : res (list Z) :=
  match plan_metas c dms with Ok r => Ok (ids r) | Panic => Panic end.

(* ---- CompactBlockMetas *)
Fixpoint ins_uniq (x : Z) (l : list Z) : list Z :=
  match l with
  | [] => [x]
  | y :: tl => if x <? y then x :: y :: tl else if x =? y then y :: tl else y :: ins_uniq x tl
  end.
Definition sort_uniq (l : list Z) : list Z := fold_right ins_uniq [] l.

Definition min_list (x : Z) (l : list Z) : Z := fold_left (fun a b => if b <? a then b else a) l x.
Definition max_list (x : Z) (l : list Z) : Z := fold_left (fun a b => if b >? a then b else a) l x.

(* parents: (ULID, MinTime, MaxTime) of every input, in order *)
Definition parents_of (bs : list meta) : list (Z * Z * Z) := map (fun b => (m_id b, m_min b, m_max b)) bs.

(* blocks[0] of an empty argument list panics *)
Definition compact_block_metas (uid : Z) (bs : list meta) : res meta :=
  match bs with
  | [] => Panic
  | b0 :: _ =>
      Ok (mkMeta uid
            (min_list (m_min b0) (map m_min bs)) (max_list (m_max b0) (map m_max bs))
            false 0 0
            (existsb m_stale bs) (existsb m_sel bs) (forallb m_ooo bs)
            (max_list 0 (map m_level bs) + 1)
            (sort_uniq (flat_map m_sources bs)))
  end.

(* ---- one iteration of DB.compactBlocks at the level of metadata: the planned blocks are
   replaced by the merged block (appended: its fresh ULID sorts last).  What the rewrite
   produces is not decided by planning, so it is a parameter of the step:
   [written] = false when the merged block came out empty (nothing is written, the inputs are
   deleted); [series] = NumSeries of the new block.  A rewritten block has no tombstones. *)
Definition lookup (dms : list meta) (i : Z) : list meta := filter (fun m => m_id m =? i) dms.
Definition remove_ids (p : list Z) (dms : list meta) : list meta :=
  filter (fun m => negb (existsb (Z.eqb (m_id m)) p)) dms.

Definition with_series (m : meta) (s : Z) : meta :=
  mkMeta (m_id m) (m_min m) (m_max m) (m_failed m) (m_tomb m) s (m_stale m) (m_sel m) (m_ooo m)
         (m_level m) (m_sources m).

Definition compact_step (c : cfg) (uid : Z) (written : bool) (series : Z) (dms : list meta)
  : res (option (list meta)) :=      (* Ok None: the plan is empty, the loop stops *)
  match plan_metas c dms with
  | Panic => Panic
  | Ok [] => Ok None
  | Ok p =>
      match compact_block_metas uid p with
      | Panic => Panic
      | Ok nm => Ok (Some (remove_ids (ids p) dms ++ (if written then [with_series nm series] else [])))
      end
  end.

(* the loop with the harness' choices: every merged block is written, with uid = next and
   NumSeries = 0; returns the number of compactions done, None when fuel ran out *)
Fixpoint compact_loop (fuel : nat) (c : cfg) (next : Z) (dms : list meta) : res (option Z) :=
  match fuel with
  | O => Ok None
  | S f =>
      match compact_step c next true 0 dms with
      | Panic => Panic
      | Ok None => Ok (Some 0)
      | Ok (Some dms') =>
          match compact_loop f c (next + 1) dms' with
          | Ok (Some n) => Ok (Some (n + 1))
          | r => r
          end
      end
  end.

(* ======================================================================================
   Specification predicates (decidable, evaluated by corr/CorrC08.v on the implementation's
   output and proved of the model in proof/PlanProofs.v).  They do not mention the model's
   planning functions. *)

Definition two61 : Z := 2305843009213693952.
Definition two64' : Z := 18446744073709551616.

(* inputs the property talks about: at least one range, ranges positive, times well inside
   int64 so that no planning arithmetic wraps, MinTime <= MaxTime, distinct block ids *)
Definition sane_cfg (c : cfg) : bool :=
  nonempty (c_ranges c) && forallb (fun r => (0 <? r) && (r <=? two61)) (c_ranges c).
Definition sane_meta (m : meta) : bool :=
  (- two61 <=? m_min m) && (m_min m <=? m_max m) && (m_max m <=? two61)
  && (0 <=? m_tomb m) && (m_tomb m <? two64') && (0 <=? m_series m) && (m_series m <? two64').
Fixpoint nodupb (l : list Z) : bool :=
  match l with [] => true | x :: tl => negb (existsb (Z.eqb x) tl) && nodupb tl end.
Definition wf_input (c : cfg) (ms : list meta) : bool :=
  sane_cfg c && forallb sane_meta ms && nodupb (ids ms).

Definition memb (x : Z) (l : list Z) : bool := existsb (Z.eqb x) l.

(* blocks in list order are ordered by MinTime *)
Fixpoint sorted_min (l : list meta) : bool :=
  match l with
  | [] => true
  | x :: tl => forallb (fun y => m_min x <=? m_min y) tl && sorted_min tl
  end.

(* each block ends before every later one starts *)
Fixpoint disjoint_ordered (l : list meta) : bool :=
  match l with
  | [] => true
  | x :: tl => forallb (fun y => m_max x <=? m_min y) tl && disjoint_ordered tl
  end.

(* overlap group: every block after the first starts before the end of the union of the
   blocks before it (gmax = the largest MaxTime so far) *)
Fixpoint chained (gmax : Z) (l : list meta) : bool :=
  match l with
  | [] => true
  | d :: tl => (m_min d <? gmax) && chained (Z.max gmax (m_max d)) tl
  end.
Definition overlap_group (ps : list meta) : bool :=
  match ps with
  | d0 :: ((_ :: _) as tl) => sorted_min ps && chained (m_max d0) tl
  | _ => false
  end.

(* all blocks lie in the aligned window [iv*k, iv*k+iv] of one of them (k = floor (MinTime/iv)) *)
Definition in_window (t0 iv : Z) (x : meta) : bool := (t0 <=? m_min x) && (m_max x <=? t0 + iv).
Definition within_range (iv : Z) (ps : list meta) : bool :=
  existsb (fun f => forallb (in_window (iv * (m_min f / iv)) iv) ps) ps.

(* some block of the class input [kl] is not planned and starts no earlier than every planned one *)
Definition excludes_newest (kl ps : list meta) : bool :=
  existsb (fun n => negb (memb (m_id n) (ids ps)) && forallb (fun x => m_min x <=? m_min n) ps) kl.

Definition range_group (c : cfg) (kl ps : list meta) : bool :=
  (2 <=? Z.of_nat (length ps)) && negb (existsb m_failed ps)
  && existsb (fun iv => within_range iv ps) (tl (c_ranges c))
  && (if c_overlap c then disjoint_ordered ps else true)
  && sorted_min ps && excludes_newest kl ps.

Definition tomb_rule (c : cfg) (b : meta) : bool :=
  match mid_range c with
  | None => false
  | Some mid => if m_max b - m_min b <? mid then tomb_all_deleted b else tomb_ratio_big b
  end.
Definition tomb_single (c : cfg) (kl ps : list meta) : bool :=
  match ps with
  | [b] => tomb_rule c b && (0 <? m_tomb b) && excludes_newest kl ps
  | _ => false
  end.

Definition same_class (k : cls) (ps : list meta) : bool := forallb (fun m => cls_eqb (class_of m) k) ps.

(* the statement about one plan [ps] (blocks of [ms]) *)
Definition plan_shape (c : cfg) (ms ps : list meta) : bool :=
  match ps with
  | [] => true
  | b :: _ =>
      let k := class_of b in
      let kl := of_class k ms in
      same_class k ps && nodupb (ids ps) && forallb (fun x => memb (m_id x) (ids ms)) ps
      && ((c_overlap c && overlap_group ps) || range_group c kl ps || tomb_single c kl ps)
  end.

(* hints of a merged block *)
Definition hints_ok (bs : list meta) (r : meta) : bool :=
  Bool.eqb (m_ooo r) (forallb m_ooo bs)
  && Bool.eqb (m_stale r) (existsb m_stale bs) && Bool.eqb (m_sel r) (existsb m_sel bs)
  && match bs with
     | [] => true
     | b :: _ => if same_class (class_of b) bs then cls_eqb (class_of r) (class_of b) else true
     end.

(* termination measure of the plan/compact loop *)
Definition mu (ms : list meta) : Z :=
  Z.of_nat (length ms) + Z.of_nat (length (filter (fun m => 0 <? m_tomb m) ms)).

(* model/HistBatch.v — the append batches of one head appender transaction
   (tsdb/head_append.go: headAppenderBase.getCurrentBatch / newBatch / typesInBatch, and the
   commit order of Commit: for every batch, commitFloats, then commitHistograms, then
   commitFloatHistograms) together with the in-order acceptance of memSeries at commit time
   (a sample is stored only if its timestamp is beyond the series' newest one; out-of-order
   ingestion disabled).  Definitions only.

   Abstracted: everything about a sample except (series, sample type, timestamp, identity);
   WAL logging, exemplars, metadata, the append-time checks against the already committed head
   (the series of a case are fresh). *)
From Coq Require Import List ZArith Bool.
Import ListNotations.
Open Scope Z_scope.

(* sampleType *)
Inductive stype := StNone | StFloat | StHist | StCBHist | StFHist | StCBFHist.

Definition stype_eqb (a b : stype) : bool :=
  match a, b with
  | StNone, StNone | StFloat, StFloat | StHist, StHist | StCBHist, StCBHist
  | StFHist, StFHist | StCBFHist, StCBFHist => true
  | _, _ => false
  end.

Definition is_hist_type (a : stype) : bool :=
  match a with StHist | StCBHist | StFHist | StCBFHist => true | _ => false end.

(* one appended sample: series, type, timestamp, position in the transaction *)
Record txs := mkTx { x_ser : Z; x_ty : stype; x_t : Z; x_id : Z }.

(* appendBatch: only the three sample buffers *)
Record batch := mkB { b_floats : list txs; b_hists : list txs; b_fhists : list txs }.
Definition empty_batch : batch := mkB [] [] [].

(* appender state: a.batches (oldest first) and a.typesInBatch *)
Record astate := mkA { a_done : list batch; a_last : option batch; a_types : Z -> option stype }.
Definition init_state : astate := mkA [] None (fun _ => None).

(* the newBatch closure *)
Definition new_batch (a : astate) (st : stype) (s : Z) : astate :=
  let done := match a_last a with Some b => a_done a ++ [b] | None => a_done a end in
  mkA done (Some empty_batch)
      (if is_hist_type st then (fun s' => if s' =? s then Some st else None) else (fun _ => None)).

(* getCurrentBatch(st, s): the state in which the returned batch is [a_last] *)
Definition get_current_batch (a : astate) (st : stype) (s : Z) : astate :=
  match a_last a with
  | None => new_batch a st s                       (* first batch ever *)
  | Some _ =>
      match st with
      | StNone => a
      | _ =>
        match a_types a s with
        | Some prev =>
            if stype_eqb prev st then a            (* same histogram type: continue the batch *)
            else new_batch a st s                  (* float after histogram, or another histogram type *)
        | None =>
            match st with
            | StFloat => a                         (* floats are not tracked *)
            | _ => mkA (a_done a) (a_last a) (fun s' => if s' =? s then Some st else a_types a s')
            end
        end
      end
  end.

Definition add_to_batch (b : batch) (x : txs) : batch :=
  match x_ty x with
  | StFloat => mkB (b_floats b ++ [x]) (b_hists b) (b_fhists b)
  | StHist | StCBHist => mkB (b_floats b) (b_hists b ++ [x]) (b_fhists b)
  | StFHist | StCBFHist => mkB (b_floats b) (b_hists b) (b_fhists b ++ [x])
  | StNone => b
  end.

(* Append / AppendHistogram: pick the batch, put the sample into its buffer *)
Definition tx_append (a : astate) (x : txs) : astate :=
  let a' := get_current_batch a (x_ty x) (x_ser x) in
  mkA (a_done a') (match a_last a' with Some b => Some (add_to_batch b x) | None => None end) (a_types a').

Definition batch_order (b : batch) : list txs := b_floats b ++ b_hists b ++ b_fhists b.

(* the order in which Commit hands the samples to the series *)
Definition commit_order (a : astate) : list txs :=
  flat_map batch_order (a_done a ++ match a_last a with Some b => [b] | None => [] end).

(* memSeries.append / appendHistogram / appendFloatHistogram at commit: only a sample newer than
   everything the series holds is stored *)
Fixpoint store (maxt : Z -> option Z) (l : list txs) : list txs :=
  match l with
  | [] => []
  | x :: r =>
      let ok := match maxt (x_ser x) with None => true | Some m => m <? x_t x end in
      if ok then x :: store (fun s => if s =? x_ser x then Some (x_t x) else maxt s) r
      else store maxt r
  end.

(* a whole transaction on fresh series: what ends up in the head, in storage order *)
Definition tx_run (l : list txs) : list txs :=
  store (fun _ => None) (commit_order (fold_left tx_append l init_state)).

Definition of_series (s : Z) (l : list txs) : list txs := filter (fun x => x_ser x =? s) l.

(* model/SendLoop.v — executable model of one notifier send loop (definitions only).
   Transcribed from /repo/notifier/sendloop.go (sendLoop.add, nextBatch, sendOneBatch, sendAll,
   loop, stop, drainQueue).  An alert is an integer id.

   The concurrent code is modelled as atomic steps; each step is one critical section of the
   real code (under sendLoop.mtx) or one externally visible event of an HTTP request:

     Add al        sendLoop.add(al...)                  (any goroutine calling Manager.Send;
                                                         excluded against stop() by alertmanagerSet.mtx)
     Take a        nextBatch() inside sendOneBatch()     a = Loop   : the goroutine running loop()
                                                         a = Drainer: the goroutine running stop() -> drainQueue()
     Arrive a ok   the request of a's batch reaches the Alertmanager, which will answer 2xx (ok)
                   or non-2xx (not ok)
     Respond a     opts.Do returns to a: sendAll updates sent / errors, sendOneBatch updates dropped.
                   Respond without a previous Arrive = transport error (the request never arrived)
     Stop          sendLoop.stop(): close(stopped); no drain: dropped += queueLen()
     DrainCheck    the test `s.queueLen() > 0` of drainQueue's for loop

   Two actors can have a request in flight at the same time: the loop goroutine (which only
   looks at `stopped` at the top of its for loop) and the goroutine draining in stop().
   A step that is not enabled in the current state leaves the state unchanged, so that
   theorems quantify over ALL step sequences. *)
From Coq Require Import List ZArith Bool.
Import ListNotations.
Open Scope Z_scope.

Definition alert := Z.

Inductive actor := Loop | Drainer.
Definition actor_eqb (a b : actor) : bool :=
  match a, b with Loop, Loop | Drainer, Drainer => true | _, _ => false end.

Inductive op :=
| Add (al : list alert)
| Take (a : actor)
| Arrive (a : actor) (ok : bool)
| Respond (a : actor)
| Stop
| DrainCheck.

(* where the goroutine inside stop() is *)
Inductive dpc :=
| DIdle    (* stop() not called yet *)
| DCheck   (* in drainQueue, about to evaluate queueLen() > 0 *)
| DGo      (* queueLen() > 0 was true, about to call nextBatch *)
| DWait    (* request in flight *)
| DDone.   (* stop() has returned *)

(* status of a request in flight *)
Inductive fstat := Transit | Arrived (ok : bool).

Record flight := mkF { f_actor : actor; f_batch : list alert; f_stat : fstat }.

Record cfg := mkCfg { cap : nat; maxb : nat; drain : bool }.   (* Options.QueueCapacity, MaxBatchSize, DrainOnShutdown *)

Record st := mkSt {
  queue : list alert;                 (* s.queue *)
  stopped : bool;                     (* s.stopped is closed *)
  grace : bool;                       (* the loop goroutine was blocked in its inner select when
                                         `stopped` was closed: it may still win one `<-hasWork` *)
  flights : list flight;              (* requests in flight, oldest (taken first) first *)
  dp : dpc;
  log : list (list alert * bool);     (* requests as they reached the Alertmanager, in order; true = answered 2xx *)
  sent : Z; dropped : Z; errors : Z;  (* the three per-Alertmanager counters *)
  (* ghost state, used by the theorems only *)
  accepted : Z;                       (* alerts handed to add() while not stopped *)
  ovf : Z;                            (* alerts dropped by add() (batch head truncation + oldest-first queue drop) *)
  stopdrop : Z;                       (* alerts counted as dropped by stop() without drain *)
  reordered : bool                    (* some request reached the Alertmanager before an older one still in transit *)
}.

Definition init : st := mkSt [] false false [] DIdle [] 0 0 0 0 0 0 false.

Definition len {A} (l : list A) : Z := Z.of_nat (length l).

Definition has_flight (a : actor) (fs : list flight) : bool :=
  existsb (fun f => actor_eqb (f_actor f) a) fs.

Fixpoint find_flight (a : actor) (fs : list flight) : option flight :=
  match fs with
  | [] => None
  | f :: r => if actor_eqb (f_actor f) a then Some f else find_flight a r
  end.

Fixpoint remove_flight (a : actor) (fs : list flight) : list flight :=
  match fs with
  | [] => []
  | f :: r => if actor_eqb (f_actor f) a then r else f :: remove_flight a r
  end.

(* mark a's flight as arrived; returns whether an older flight was still in transit *)
Fixpoint arrive_flight (a : actor) (ok : bool) (fs : list flight) : list flight * bool :=
  match fs with
  | [] => ([], false)
  | f :: r =>
      if actor_eqb (f_actor f) a then (mkF (f_actor f) (f_batch f) (Arrived ok) :: r, false)
      else let '(r', ov) := arrive_flight a ok r in
           (f :: r', match f_stat f with Transit => true | Arrived _ => ov end)
  end.

(* sendLoop.sendOne: `if resp.StatusCode/100 != 2 { return fmt.Errorf("bad response status ...") }`
   (Go integer division truncates): the delivery succeeded iff the final response status is 2xx.
   The harness writes `Arrive a (status_ok st)` and log entries `(batch, status_ok st)` with the
   status its fake Alertmanager answered, so this function is what the real counters are compared with. *)
Definition status_ok (st : Z) : bool := Z.quot st 100 =? 2.

(* func (s *sendLoop) add(alerts ...*Alert) *)
Definition do_add (c : cfg) (s : st) (al : list alert) : st :=
  if stopped s then s else                                   (* select { case <-s.stopped: return } *)
  let d1 := (length al - cap c)%nat in                       (* if d := len(alerts) - cap; d > 0 { alerts = alerts[d:] } *)
  let al' := skipn d1 al in
  let d2 := (length (queue s) + length al' - cap c)%nat in   (* if d := len(queue)+len(alerts) - cap; d > 0 { queue = queue[d:] } *)
  let q' := skipn d2 (queue s) in
  let d := Z.of_nat d1 + Z.of_nat d2 in
  mkSt (q' ++ al') (stopped s) (grace s) (flights s) (dp s) (log s)
       (sent s) (dropped s + d) (errors s)
       (accepted s + len al) (ovf s + d) (stopdrop s) (reordered s).

(* func (s *sendLoop) nextBatch() []*Alert *)
Definition next_batch (c : cfg) (q : list alert) : list alert * list alert :=
  if Nat.ltb (maxb c) (length q) then (firstn (maxb c) q, skipn (maxb c) q) else (q, []).

Definition take_enabled (s : st) (a : actor) : bool :=
  match a with
  | Loop => negb (has_flight Loop (flights s)) && (negb (stopped s) || grace s)
  | Drainer => match dp s with DGo => true | _ => false end
  end.

Definition do_take (c : cfg) (s : st) (a : actor) : st :=
  if negb (take_enabled s a) then s else
  let '(b, q') := next_batch c (queue s) in
  let g' := match a with Loop => if stopped s then false else grace s | Drainer => grace s end in
  match b with
  | [] =>   (* sendAll returns true at once: no request, no counter *)
      mkSt q' (stopped s) g' (flights s)
           (match a with Drainer => DCheck | Loop => dp s end) (log s)
           (sent s) (dropped s) (errors s) (accepted s) (ovf s) (stopdrop s) (reordered s)
  | _ =>
      mkSt q' (stopped s) g' (flights s ++ [mkF a b Transit])
           (match a with Drainer => DWait | Loop => dp s end) (log s)
           (sent s) (dropped s) (errors s) (accepted s) (ovf s) (stopdrop s) (reordered s)
  end.

Definition do_arrive (s : st) (a : actor) (ok : bool) : st :=
  match find_flight a (flights s) with
  | Some (mkF _ b Transit) =>
      let '(fs', ov) := arrive_flight a ok (flights s) in
      mkSt (queue s) (stopped s) (grace s) fs' (dp s) (log s ++ [(b, ok)])
           (sent s) (dropped s) (errors s) (accepted s) (ovf s) (stopdrop s) (reordered s || ov)
  | _ => s
  end.

Definition do_respond (s : st) (a : actor) : st :=
  match find_flight a (flights s) with
  | Some (mkF _ b stt) =>
      let n := len b in
      let okb := match stt with Arrived true => true | _ => false end in
      mkSt (queue s) (stopped s) (grace s) (remove_flight a (flights s))
           (match a with Drainer => DCheck | Loop => dp s end) (log s)
           (if okb then sent s + n else sent s)
           (if okb then dropped s else dropped s + n)       (* sendOneBatch: if !sendAll { dropped += len } *)
           (if okb then errors s else errors s + n)         (* sendAll: errors += len *)
           (accepted s) (ovf s) (stopdrop s) (reordered s)
  | None => s
  end.

(* func (s *sendLoop) stop(), up to the point where drainQueue starts (stopOnce: only the first call acts) *)
Definition do_stop (c : cfg) (s : st) : st :=
  if stopped s then s else
  let g := negb (has_flight Loop (flights s)) in
  if drain c then
    mkSt (queue s) true g (flights s) DCheck (log s) (sent s) (dropped s) (errors s)
         (accepted s) (ovf s) (stopdrop s) (reordered s)
  else
    let ql := len (queue s) in
    mkSt (queue s) true g (flights s) DDone (log s) (sent s) (dropped s + ql) (errors s)
         (accepted s) (ovf s) (stopdrop s + ql) (reordered s).

(* for s.queueLen() > 0 { ... } *)
Definition do_draincheck (s : st) : st :=
  match dp s with
  | DCheck =>
      mkSt (queue s) (stopped s) (grace s) (flights s)
           (match queue s with [] => DDone | _ => DGo end) (log s)
           (sent s) (dropped s) (errors s) (accepted s) (ovf s) (stopdrop s) (reordered s)
  | _ => s
  end.

Definition step (c : cfg) (s : st) (o : op) : st :=
  match o with
  | Add al => do_add c s al
  | Take a => do_take c s a
  | Arrive a ok => do_arrive s a ok
  | Respond a => do_respond s a
  | Stop => do_stop c s
  | DrainCheck => do_draincheck s
  end.

Definition run (c : cfg) (ops : list op) : st := fold_left (step c) ops init.

(* all states along a run, one per op *)
Fixpoint scan (c : cfg) (s : st) (ops : list op) : list st :=
  match ops with
  | [] => []
  | o :: r => let s' := step c s o in s' :: scan c s' r
  end.

(* ---- the vocabulary of the property ---- *)

(* every alert ever handed to add(), in order *)
Definition added (ops : list op) : list alert :=
  flat_map (fun o => match o with Add al => al | _ => [] end) ops.

(* alerts in the order in which they reached the Alertmanager *)
Definition log_alerts (l : list (list alert * bool)) : list alert := flat_map fst l.

Definition transit_alerts (fs : list flight) : list alert :=
  flat_map (fun f => match f_stat f with Transit => f_batch f | Arrived _ => [] end) fs.

Definition flight_count (fs : list flight) : Z :=
  fold_right (fun f acc => len (f_batch f) + acc) 0 fs.

Definition loop_flight_count (fs : list flight) : Z :=
  fold_right (fun f acc => match f_actor f with Loop => len (f_batch f) + acc | Drainer => acc end) 0 fs.

Definition log_count (want : bool) (l : list (list alert * bool)) : Z :=
  fold_right (fun e acc => if Bool.eqb (snd e) want then len (fst e) + acc else acc) 0 l.

(* l1 is a subsequence of l2 (same relative order), decided greedily *)
Fixpoint subseqb (l1 l2 : list Z) : bool :=
  match l1, l2 with
  | [], _ => true
  | _ :: _, [] => false
  | x :: r1, y :: r2 => if x =? y then subseqb r1 r2 else subseqb l1 r2
  end.

Definition batches_ok (c : cfg) (l : list (list alert * bool)) : bool :=
  forallb (fun e => (Nat.ltb 0 (length (fst e))) && Nat.leb (length (fst e)) (maxb c)) l.

(* stop() has returned and no request is in flight any more *)
Definition finished (s : st) : bool :=
  stopped s && match dp s with DDone => true | _ => false end
  && match flights s with [] => true | _ => false end.

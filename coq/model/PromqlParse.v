(* model/PromqlParse.v — executable token-level parser for the PromQL expression grammar
   (generated_parser.y with its %left/%right table and yacc's default conflict resolution,
   plus newBinaryExpression / newAggregateExpr / addOffset / setTimestamp / setAnchored /
   setSmoothed / matrix_selector / subquery_expr actions of parse.go and the VectorMatching
   rewriting of checkAST). Precedence climbing:  LOR < LAND,LUNLESS < comparisons < ADD,SUB
   < MUL,DIV,MOD,ATAN2 < POW (right) ; unary +/- has the precedence of MUL; the postfix
   modifiers ([..], @, offset, anchored, smoothed) bind tightest (yacc shifts them).
   Definitions only. Unsupported (distinct error EUnsup, never produced for printed text):
   NUMBER where a duration is expected, DURATION after @ / in fill(), duration expressions. *)
From Coq Require Import List ZArith Bool NArith.
From Verif Require Import model.PromqlPrint.
Import ListNotations.
Open Scope Z_scope.

Inductive perr := ESyntax | EType | EUnsup | EFuel.
Inductive res (A : Type) := Ok (a : A) | Err (e : perr).
Arguments Ok {A} a.
Arguments Err {A} e.

Record opts := mkO { o_expfn : bool; o_ext : bool; o_fill : bool }.
(* parser.Functions: name -> (return type, experimental) *)
Definition ftab := list (str * (vtype * bool)).
Fixpoint flookup (f : str) (t : ftab) : option (vtype * bool) :=
  match t with [] => None | (n, x) :: t' => if seqb f n then Some x else flookup f t' end.

Definition prec (o : binop) : Z :=
  match o with
  | BOr => 1 | BAnd | BUnless => 2
  | BEqlc | BNeq | BLte | BLss | BGte | BGtr | BTrimU | BTrimL => 3
  | BAdd | BSub => 4 | BMul | BDiv | BMod | BAtan2 => 5 | BPow => 6
  end.
Definition right_assoc (o : binop) : bool := match o with BPow => true | _ => false end.
Definition is_set_op (o : binop) : bool := match o with BAnd | BOr | BUnless => true | _ => false end.

(* grammar rule maybe_label: keywords that may be a label name in grouping options *)
Definition maybe_label (k : kind) : bool :=
  match k with
  | KID | KMID | KAGG _ | KBOOL | KBY | KGROUPL | KGROUPR | KFILL | KFILLL | KFILLR | KIGNORING
  | KOP BAnd | KOP BOr | KOP BUnless | KOP BAtan2 | KOFFSET | KON | KSTART | KEND | KSTEP | KRANGE
  | KANCHORED | KSMOOTHED | KMAXOF | KMINOF => true
  | _ => false
  end.
(* grammar rule metric_identifier *)
Definition metric_ident (k : kind) : bool :=
  match k with
  | KID | KMID | KAGG _ | KBY | KFILL | KFILLL | KFILLR | KOP BAnd | KOP BOr | KOP BUnless | KOFFSET
  | KWITHOUT | KSTART | KEND | KSTEP | KRANGE | KANCHORED | KSMOOTHED | KMAXOF | KMINOF => true
  | _ => false
  end.

(* grouping_labels : "(" [ label { "," label } [","] ] ")" ; label : maybe_label | STRING, non-empty *)
Definition glabel (t : tok) : option str :=
  if (match tk t with KSTR => true | k => maybe_label k end)
  then (match tx t with [] => None | s => Some s end) else None.

Fixpoint glabels_loop (toks : list tok) (acc : list str) : res (list str * list tok) :=
  match toks with
  | t :: rest =>
      match glabel t with
      | Some s =>
          match rest with
          | c :: rest' =>
              match tk c with
              | KRP => Ok (acc ++ [s], rest')
              | KCOMMA =>
                  match rest' with
                  | c2 :: rest'' => match tk c2 with KRP => Ok (acc ++ [s], rest'') | _ => glabels_loop rest' (acc ++ [s]) end
                  | [] => Err ESyntax
                  end
              | _ => Err ESyntax
              end
          | [] => Err ESyntax
          end
      | None => Err ESyntax
      end
  | [] => Err ESyntax
  end.

Definition glabels (toks : list tok) : res (list str * list tok) :=
  match toks with
  | l :: rest =>
      match tk l with
      | KLP => match rest with
               | r :: rest' => match tk r with KRP => Ok ([], rest') | _ => glabels_loop rest [] end
               | [] => Err ESyntax
               end
      | _ => Err ESyntax
      end
  | [] => Err ESyntax
  end.

Definition hd_kind (toks : list tok) : kind := match toks with t :: _ => tk t | [] => KOTHER end.

(* label_matcher: (IDENTIFIER | STRING) match_op STRING | STRING *)
Definition match_op (k : kind) : option mtype :=
  match k with KEQL => Some MEq | KOP BNeq => Some MNeq | KEQLRE => Some MRe | KNEQRE => Some MNre | _ => None end.

(* one label_matcher *)
Definition matcher_head (toks : list tok) : res (matcher * list tok) :=
  match toks with
  | n :: rest =>
      match tk n with
      | KID | KSTR =>
          match rest with
          | o :: v :: rest' =>
              match match_op (tk o), tk v with
              | Some mt, KSTR => Ok (mkM (tx n) mt (tx v), rest')
              | Some _, _ => Err ESyntax
              | None, _ => match tk n with KSTR => Ok (mkM name_label MEq (tx n), rest) | _ => Err ESyntax end
              end
          | _ => match tk n with KSTR => Ok (mkM name_label MEq (tx n), rest) | _ => Err ESyntax end
          end
      | _ => Err ESyntax
      end
  | [] => Err ESyntax
  end.

Fixpoint matchers_loop (n : nat) (toks : list tok) (acc : list matcher) : res (list matcher * list tok) :=
  match n with
  | O => Err EFuel
  | S n' =>
      match matcher_head toks with
      | Ok (m, c :: rest) =>
          match tk c with
          | KRK => Ok (acc ++ [m], rest)
          | KCOMMA => match hd_kind rest with KRK => Ok (acc ++ [m], tl rest) | _ => matchers_loop n' rest (acc ++ [m]) end
          | _ => Err ESyntax
          end
      | Ok (_, []) => Err ESyntax
      | Err x => Err x
      end
  end.

(* label_matchers, after the "{" *)
Definition matchers (toks : list tok) : res (list matcher * list tok) :=
  match hd_kind toks with
  | KRK => Ok ([], tl toks)
  | _ => matchers_loop (length toks) toks []
  end.

(* [unary_op] NUMBER  (fill_value, signed_or_unsigned_number) *)
Definition signed_num (toks : list tok) : res (Z * list tok) :=
  match toks with
  | a :: rest =>
      match tk a with
      | KNUM => Ok (tz a, rest)
      | KDUR => Err EUnsup
      | KOP BSub => match rest with
                    | n :: rest' => match tk n with KNUM => Ok (fneg (tz n), rest') | KDUR => Err EUnsup | _ => Err ESyntax end
                    | [] => Err ESyntax end
      | KOP BAdd => match rest with
                    | n :: rest' => match tk n with KNUM => Ok (tz n, rest') | KDUR => Err EUnsup | _ => Err ESyntax end
                    | [] => Err ESyntax end
      | _ => Err ESyntax
      end
  | [] => Err ESyntax
  end.

Definition fill_value (toks : list tok) : res (Z * list tok) :=
  match toks with
  | l :: rest =>
      match tk l with
      | KLP => match signed_num rest with
               | Ok (v, c :: rest') => match tk c with KRP => Ok (v, rest') | _ => Err ESyntax end
               | Ok (_, []) => Err ESyntax
               | Err x => Err x
               end
      | _ => Err ESyntax
      end
  | [] => Err ESyntax
  end.


(* bin_modifier = fill_modifiers: [bool] [on|ignoring (..) [group_left|group_right [(..)]]] [fill..] *)
Definition bin_modifiers (toks : list tok) : res ((bool * vmatch) * list tok) :=
  let '(rb, t1) := match hd_kind toks with KBOOL => (true, tl toks) | _ => (false, toks) end in
  let r2 : res (vmatch * list tok) :=
    match hd_kind t1 with
    | KON | KIGNORING =>
        let on := match hd_kind t1 with KON => true | _ => false end in
        match glabels (tl t1) with
        | Ok (ls, t2) =>
            match hd_kind t2 with
            | KGROUPL | KGROUPR =>
                let c := match hd_kind t2 with KGROUPL => CManyToOne | _ => COneToMany end in
                match hd_kind (tl t2) with
                | KLP => match glabels (tl t2) with
                         | Ok (inc, t3) => Ok (mkVM c on ls inc None None, t3)
                         | Err x => Err x
                         end
                | _ => Ok (mkVM c on ls [] None None, tl t2)
                end
            | _ => Ok (mkVM COneToOne on ls [] None None, t2)
            end
        | Err x => Err x
        end
    | _ => Ok (mkVM COneToOne false [] [] None None, t1)
    end in
  match r2 with
  | Err x => Err x
  | Ok (m, t3) =>
      let setf (m : vmatch) (l r : option Z) := mkVM (vm_card m) (vm_on m) (vm_labels m) (vm_include m) l r in
      match hd_kind t3 with
      | KFILL => match fill_value (tl t3) with
                 | Ok (v, t4) => Ok ((rb, setf m (Some v) (Some v)), t4)
                 | Err x => Err x end
      | KFILLL => match fill_value (tl t3) with
                  | Ok (v, t4) =>
                      match hd_kind t4 with
                      | KFILLR => match fill_value (tl t4) with
                                  | Ok (w, t5) => Ok ((rb, setf m (Some v) (Some w)), t5)
                                  | Err x => Err x end
                      | _ => Ok ((rb, setf m (Some v) None), t4)
                      end
                  | Err x => Err x end
      | KFILLR => match fill_value (tl t3) with
                  | Ok (v, t4) =>
                      match hd_kind t4 with
                      | KFILLL => match fill_value (tl t4) with
                                  | Ok (w, t5) => Ok ((rb, setf m (Some w) (Some v)), t5)
                                  | Err x => Err x end
                      | _ => Ok ((rb, setf m None (Some v)), t4)
                      end
                  | Err x => Err x end
      | _ => Ok ((rb, m), t3)
      end
  end.

(* ------------------------------------------------------------------ postfix modifiers *)
Definition set_vs (v : vsel) (a : atmod) (x : ext) (off : Z) : vsel := mkVS (vs_name v) (vs_ms v) a x off.

(* addOffset *)
Definition apply_offset (e : expr) (d : Z) : res expr :=
  match e with
  | EVS v => if vs_off v =? 0 then Ok (EVS (set_vs v (vs_at v) (vs_ext v) d)) else Err EType
  | EMat v rng => if vs_off v =? 0 then Ok (EMat (set_vs v (vs_at v) (vs_ext v) d) rng) else Err EType
  | ESub e1 rng step a off => if off =? 0 then Ok (ESub e1 rng step a d) else Err EType
  | _ => Err EType
  end.

(* setTimestamp / setAtModifierPreprocessor *)
Definition apply_at (e : expr) (a : atmod) : res expr :=
  match e with
  | EVS v => match vs_at v with AtNone => Ok (EVS (set_vs v a (vs_ext v) (vs_off v))) | _ => Err EType end
  | EMat v rng => match vs_at v with AtNone => Ok (EMat (set_vs v a (vs_ext v) (vs_off v)) rng) | _ => Err EType end
  | ESub e1 rng step a0 off => match a0 with AtNone => Ok (ESub e1 rng step a off) | _ => Err EType end
  | _ => Err EType
  end.

(* setAnchored / setSmoothed *)
Definition apply_ext (o : opts) (e : expr) (x : ext) : res expr :=
  if negb (o_ext o) then Err EType else
  let ok (old : ext) := match old, x with XAnchored, XSmoothed | XSmoothed, XAnchored => false | _, _ => true end in
  match e with
  | EVS v => if ok (vs_ext v) then Ok (EVS (set_vs v (vs_at v) x (vs_off v))) else Err EType
  | EMat v rng => if ok (vs_ext v) then Ok (EMat (set_vs v (vs_at v) x (vs_off v)) rng) else Err EType
  | _ => Err EType
  end.

(* one postfix modifier applied to [e]; None = the next token is not a postfix modifier *)
Definition postfix_step (oc : orc) (o : opts) (e : expr) (toks : list tok) : option (res (expr * list tok)) :=
  match toks with
  | t :: rest =>
      match tk t with
      | KOFFSET =>
          Some (match rest with
                | d :: rest' =>
                    match tk d with
                    | KDUR => match apply_offset e (olook (o_drt oc) (tz d)) with Ok e' => Ok (e', rest') | Err x => Err x end
                    | KNUM => Err EUnsup
                    | KOP BSub | KOP BAdd =>
                        match rest' with
                        | d2 :: rest'' =>
                            match tk d2 with
                            | KDUR => match apply_offset e (match tk d with KOP BSub => - olook (o_drt oc) (tz d2) | _ => olook (o_drt oc) (tz d2) end) with
                                      | Ok e' => Ok (e', rest'') | Err x => Err x end
                            | KNUM => Err EUnsup
                            | _ => Err ESyntax
                            end
                        | [] => Err ESyntax
                        end
                    | _ => Err ESyntax
                    end
                | [] => Err ESyntax
                end)
      | KAT =>
          Some (match rest with
                | a :: rest' =>
                    match tk a with
                    | KSTART | KEND =>
                        match rest' with
                        | l :: r :: rest'' =>
                            match tk l, tk r with
                            | KLP, KRP => match apply_at e (match tk a with KSTART => AtStart | _ => AtEnd end) with
                                          | Ok e' => Ok (e', rest'') | Err x => Err x end
                            | _, _ => Err ESyntax
                            end
                        | _ => Err ESyntax
                        end
                    | KNUM => match apply_at e (AtTs (tz a)) with Ok e' => Ok (e', rest') | Err x => Err x end
                    | KDUR => Err EUnsup
                    | KOP BSub | KOP BAdd =>
                        match rest' with
                        | n :: rest'' =>
                            match tk n with
                            | KNUM => match apply_at e (AtTs (match tk a with KOP BSub => - tz n | _ => tz n end)) with
                                      | Ok e' => Ok (e', rest'') | Err x => Err x end
                            | KDUR => Err EUnsup
                            | _ => Err ESyntax
                            end
                        | [] => Err ESyntax
                        end
                    | _ => Err ESyntax
                    end
                | [] => Err ESyntax
                end)
      | KANCHORED => Some (match apply_ext o e XAnchored with Ok e' => Ok (e', rest) | Err x => Err x end)
      | KSMOOTHED => Some (match apply_ext o e XSmoothed with Ok e' => Ok (e', rest) | Err x => Err x end)
      | KLB =>
          Some (match rest with
                | d :: c :: rest' =>
                    match tk d with
                    | KDUR =>
                        if tz d <=? 0 then Err EType else
                        let rng := olook (o_drt oc) (tz d) in
                        match tk c with
                        | KRB =>
                            (* matrix_selector *)
                            match e with
                            | EVS v => match vs_at v with
                                       | AtNone => if vs_off v =? 0 then Ok (EMat v rng, rest') else Err EType
                                       | _ => Err EType end
                            | _ => Err EType
                            end
                        | KCOLON =>
                            match rest' with
                            | s :: rest'' =>
                                match tk s with
                                | KRB => Ok (ESub e rng 0 AtNone 0, rest'')
                                | KDUR =>
                                    if tz s <=? 0 then Err EType else
                                    match rest'' with
                                    | b :: rest3 => match tk b with KRB => Ok (ESub e rng (olook (o_drt oc) (tz s)) AtNone 0, rest3) | _ => Err ESyntax end
                                    | [] => Err ESyntax
                                    end
                                | KNUM => Err EUnsup
                                | _ => Err ESyntax
                                end
                            | [] => Err ESyntax
                            end
                        | _ => Err ESyntax
                        end
                    | KNUM => Err EUnsup
                    | _ => Err ESyntax
                    end
                | _ => Err ESyntax
                end)
      | _ => None
      end
  | [] => None
  end.

Fixpoint postfix_loop (n : nat) (oc : orc) (o : opts) (e : expr) (toks : list tok) : res (expr * list tok) :=
  match postfix_step oc o e toks with
  | None => Ok (e, toks)
  | Some (Err x) => Err x
  | Some (Ok (e', rest)) => match n with O => Err EFuel | S n' => postfix_loop n' oc o e' rest end
  end.

(* unary_expr action: a number literal operand is negated in place *)
Definition fold_unary (neg : bool) (e : expr) : expr :=
  match e with
  | ENum b => ENum (if neg then fneg b else b)
  | EDurLit n ns => EDurLit (if neg then negb n else n) ns
  | _ => EUn neg e
  end.

Section Core.
  Variable oc : orc.
  Variable o : opts.
  Variable ft : ftab.
  (* the recursive call with less fuel *)
  Variable pe : Z -> list tok -> res (expr * list tok).

  (* function_call_args after "(" (non-empty) *)
  Fixpoint args_loop (n : nat) (toks : list tok) (acc : list expr) : res (list expr * list tok) :=
    match n with
    | O => Err EFuel
    | S n' =>
        match pe 0 toks with
        | Ok (a, c :: rest) =>
            match tk c with
            | KRP => Ok (acc ++ [a], rest)
            | KCOMMA => args_loop n' rest (acc ++ [a])
            | _ => Err ESyntax
            end
        | Ok (_, []) => Err ESyntax
        | Err x => Err x
        end
    end.

  (* function_call_body *)
  Definition call_body (n : nat) (toks : list tok) : res (list expr * list tok) :=
    match toks with
    | l :: rest =>
        match tk l with
        | KLP => match hd_kind rest with KRP => Ok ([], tl rest) | _ => args_loop n rest [] end
        | _ => Err ESyntax
        end
    | [] => Err ESyntax
    end.

  (* newAggregateExpr *)
  Definition mk_agg (a : aggop) (wo : bool) (grp : list str) (args : list expr) : res expr :=
    if agg_has_param a then
      if (match a with ALimitk | ALimitRatio => negb (o_expfn o) | _ => false end) then Err EType else
      match args with [p; e] => Ok (EAgg a wo grp (Some p) e) | _ => Err EType end
    else match args with [e] => Ok (EAgg a wo grp None e) | _ => Err EType end.

  Definition vs_tail (name : str) (rest : list tok) : res (expr * list tok) :=
    match hd_kind rest with
    | KLK => match matchers (tl rest) with
             | Ok (ms, rest') => Ok (EVS (mkVS name ms AtNone XNone 0), rest')
             | Err x => Err x end
    | _ => Ok (EVS (mkVS name [] AtNone XNone 0), rest)
    end.

  (* everything that can start an expression, without postfix modifiers *)
  Definition primary (n : nat) (toks : list tok) : res (expr * list tok) :=
    match toks with
    | t :: rest =>
        match tk t with
        | KNUM => Ok (ENum (tz t), rest)
        | KDUR => Ok (EDurLit false (tz t), rest)
        | KSTR => Ok (EStr (tx t), rest)
        | KLP => match pe 0 rest with
                 | Ok (e, c :: rest') => match tk c with KRP => Ok (EParen e, rest') | _ => Err ESyntax end
                 | Ok (_, []) => Err ESyntax
                 | Err x => Err x
                 end
        | KLK => match matchers rest with
                 | Ok (ms, rest') => Ok (EVS (mkVS [] ms AtNone XNone 0), rest')
                 | Err x => Err x end
        | KAGG a =>
            match hd_kind rest with
            | KBY | KWITHOUT =>
                let wo := match hd_kind rest with KWITHOUT => true | _ => false end in
                match glabels (tl rest) with
                | Ok (grp, r1) => match call_body n r1 with
                                  | Ok (args, r2) => match mk_agg a wo grp args with Ok e => Ok (e, r2) | Err x => Err x end
                                  | Err x => Err x end
                | Err x => Err x
                end
            | KLP =>
                match call_body n rest with
                | Ok (args, r1) =>
                    match hd_kind r1 with
                    | KBY | KWITHOUT =>
                        let wo := match hd_kind r1 with KWITHOUT => true | _ => false end in
                        match glabels (tl r1) with
                        | Ok (grp, r2) => match mk_agg a wo grp args with Ok e => Ok (e, r2) | Err x => Err x end
                        | Err x => Err x
                        end
                    | _ => match mk_agg a false [] args with Ok e => Ok (e, r1) | Err x => Err x end
                    end
                | Err x => Err x
                end
            | _ => vs_tail (tx t) rest
            end
        | k =>
            (* function_call: IDENTIFIER | START | END | STEP | RANGE | MAX_OF | MIN_OF, then "(" *)
            if (match k with KID | KSTART | KEND | KSTEP | KRANGE | KMAXOF | KMINOF => true | _ => false end)
               && (match hd_kind rest with KLP => true | _ => false end) then
              match flookup (tx t) ft with
              | Some (_, experimental) =>
                  if experimental && negb (o_expfn o) then Err EType else
                  match call_body n rest with
                  | Ok (args, r1) => Ok (ECall (tx t) args, r1)
                  | Err x => Err x end
              | None => Err EType
              end
            else if metric_ident k then vs_tail (tx t) rest
            else Err ESyntax
        end
    | [] => Err ESyntax
    end.

  (* unary_expr (%prec MUL: the operand extends over POW only) | primary postfix* *)
  Definition prefix (n : nat) (toks : list tok) : res (expr * list tok) :=
    match toks with
    | t :: rest =>
        match tk t with
        | KOP BSub | KOP BAdd =>
            match pe 6 rest with
            | Ok (e, rest') => Ok (fold_unary (match tk t with KOP BSub => true | _ => false end) e, rest')
            | Err x => Err x
            end
        | _ => match primary n toks with
               | Ok (e, rest') => postfix_loop n oc o e rest'
               | Err x => Err x
               end
        end
    | [] => Err ESyntax
    end.

  (* binary_expr: consume operators of precedence >= minp *)
  Fixpoint climb (n : nat) (minp : Z) (lhs : expr) (toks : list tok) : res (expr * list tok) :=
    match toks with
    | t :: rest =>
        match tk t with
        | KOP op =>
            if prec op <? minp then Ok (lhs, toks) else
            match n with
            | O => Err EFuel
            | S n' =>
                match bin_modifiers rest with
                | Ok ((rb, vm), r1) =>
                    if negb (o_fill o) && (match vm_fl vm, vm_fr vm with None, None => false | _, _ => true end) then Err EType else
                    match pe (if right_assoc op then prec op else prec op + 1) r1 with
                    | Ok (rhs, r2) => climb n' minp (EBin op rb (Some vm) lhs rhs) r2
                    | Err x => Err x
                    end
                | Err x => Err x
                end
            end
        | _ => Ok (lhs, toks)
        end
    | [] => Ok (lhs, toks)
    end.
End Core.

Fixpoint parse_e (oc : orc) (o : opts) (ft : ftab) (fuel : nat) (minp : Z) (toks : list tok) : res (expr * list tok) :=
  match fuel with
  | O => Err EFuel
  | S f =>
      match prefix oc o ft (parse_e oc o ft f) f toks with
      | Ok (lhs, rest) => climb o (parse_e oc o ft f) f minp lhs rest
      | Err x => Err x
      end
  end.

(* ------------------------------------------------------------------ checkAST's rewriting *)
Section Norm.
  Variable ft : ftab.
  Fixpoint vtype_of (e : expr) : vtype :=
    match e with
    | ENum _ | EDurLit _ _ => VScalar
    | EStr _ => VString
    | EVS _ => VVector
    | EMat _ _ | ESub _ _ _ _ _ => VMatrix
    | ECall f _ => match flookup f ft with Some (t, _) => t | None => VNone end
    | EAgg _ _ _ _ _ => VVector
    | EBin _ _ _ l r => match vtype_of l, vtype_of r with VScalar, VScalar => VScalar | _, _ => VVector end
    | EUn _ e => vtype_of e
    | EParen e => vtype_of e
    end.

  Definition norm_vm (op : binop) (l r : expr) (vm : option vmatch) : option vmatch :=
    match vm with
    | None => None
    | Some m =>
        match vtype_of l, vtype_of r with
        | VVector, VVector =>
            Some (if is_set_op op then
                    match vm_card m with
                    | COneToOne => mkVM CManyToMany (vm_on m) (vm_labels m) (vm_include m) (vm_fl m) (vm_fr m)
                    | _ => m end
                  else m)
        | _, _ => None
        end
    end.

  Fixpoint normalize (e : expr) : expr :=
    match e with
    | ESub e1 rng step a off => ESub (normalize e1) rng step a off
    | ECall f args => ECall f (map normalize args)
    | EAgg op wo grp param e1 => EAgg op wo grp (option_map normalize param) (normalize e1)
    | EBin op rb vm l r => let l' := normalize l in let r' := normalize r in EBin op rb (norm_vm op l' r' vm) l' r'
    | EUn neg e1 => EUn neg (normalize e1)
    | EParen e1 => EParen (normalize e1)
    | _ => e
    end.
End Norm.

(* ParseExpr at token level: the whole input must be consumed *)
Definition parse (oc : orc) (o : opts) (ft : ftab) (toks : list tok) : res expr :=
  match parse_e oc o ft (S (length toks)) 0 toks with
  | Ok (e, []) => Ok (normalize ft e)
  | Ok (_, _ :: _) => Err ESyntax
  | Err x => Err x
  end.

(* ------------------------------------------------------------------ structural equality *)
Definition binop_eqb (a b : binop) : bool := (prec a =? prec b) && match a, b with
  | BOr, BOr | BAnd, BAnd | BUnless, BUnless | BEqlc, BEqlc | BNeq, BNeq | BLte, BLte | BLss, BLss | BGte, BGte
  | BGtr, BGtr | BTrimU, BTrimU | BTrimL, BTrimL | BAdd, BAdd | BSub, BSub | BMul, BMul | BDiv, BDiv | BMod, BMod
  | BAtan2, BAtan2 | BPow, BPow => true | _, _ => false end.
Definition aggop_tag (a : aggop) : Z :=
  match a with ASum => 0 | AAvg => 1 | ACount => 2 | AMin => 3 | AMax => 4 | AGroup => 5 | AStddev => 6 | AStdvar => 7
  | ATopk => 8 | ABottomk => 9 | ACountValues => 10 | AQuantile => 11 | ALimitk => 12 | ALimitRatio => 13 end.
Definition aggop_eqb (a b : aggop) : bool := aggop_tag a =? aggop_tag b.
Definition mtype_eqb (a b : mtype) : bool :=
  match a, b with MEq, MEq | MNeq, MNeq | MRe, MRe | MNre, MNre => true | _, _ => false end.
Definition atmod_eqb (a b : atmod) : bool :=
  match a, b with AtNone, AtNone | AtStart, AtStart | AtEnd, AtEnd => true | AtTs x, AtTs y => x =? y | _, _ => false end.
Definition ext_eqb (a b : ext) : bool :=
  match a, b with XNone, XNone | XAnchored, XAnchored | XSmoothed, XSmoothed => true | _, _ => false end.
Definition card_eqb (a b : card) : bool :=
  match a, b with COneToOne, COneToOne | CManyToOne, CManyToOne | COneToMany, COneToMany | CManyToMany, CManyToMany => true | _, _ => false end.
Fixpoint list_eqb {A} (f : A -> A -> bool) (a b : list A) : bool :=
  match a, b with [] , [] => true | x :: a', y :: b' => f x y && list_eqb f a' b' | _, _ => false end.
Definition opt_eqb {A} (f : A -> A -> bool) (a b : option A) : bool :=
  match a, b with None, None => true | Some x, Some y => f x y | _, _ => false end.
Definition matcher_eqb (a b : matcher) : bool :=
  seqb (m_name a) (m_name b) && mtype_eqb (m_type a) (m_type b) && seqb (m_val a) (m_val b).
Definition vsel_eqb (a b : vsel) : bool :=
  seqb (vs_name a) (vs_name b) && list_eqb matcher_eqb (vs_ms a) (vs_ms b) && atmod_eqb (vs_at a) (vs_at b)
  && ext_eqb (vs_ext a) (vs_ext b) && (vs_off a =? vs_off b).
Definition vmatch_eqb (a b : vmatch) : bool :=
  card_eqb (vm_card a) (vm_card b) && Bool.eqb (vm_on a) (vm_on b) && list_eqb seqb (vm_labels a) (vm_labels b)
  && list_eqb seqb (vm_include a) (vm_include b) && opt_eqb Z.eqb (vm_fl a) (vm_fl b) && opt_eqb Z.eqb (vm_fr a) (vm_fr b).

Fixpoint expr_eqb (a b : expr) : bool :=
  match a, b with
  | ENum x, ENum y => x =? y
  | EDurLit n x, EDurLit m y => Bool.eqb n m && (x =? y)
  | EStr x, EStr y => seqb x y
  | EVS v, EVS w => vsel_eqb v w
  | EMat v r, EMat w s => vsel_eqb v w && (r =? s)
  | ESub e r s a o, ESub e' r' s' a' o' => expr_eqb e e' && (r =? r') && (s =? s') && atmod_eqb a a' && (o =? o')
  | ECall f xs, ECall g ys =>
      seqb f g && (fix go (xs ys : list expr) : bool :=
                     match xs, ys with [], [] => true | x :: xs', y :: ys' => expr_eqb x y && go xs' ys' | _, _ => false end) xs ys
  | EAgg op wo grp p e, EAgg op' wo' grp' p' e' =>
      aggop_eqb op op' && Bool.eqb wo wo' && list_eqb seqb grp grp'
      && (match p, p' with None, None => true | Some x, Some y => expr_eqb x y | _, _ => false end) && expr_eqb e e'
  | EBin op rb vm l r, EBin op' rb' vm' l' r' =>
      binop_eqb op op' && Bool.eqb rb rb' && opt_eqb vmatch_eqb vm vm' && expr_eqb l l' && expr_eqb r r'
  | EUn n e, EUn m e' => Bool.eqb n m && expr_eqb e e'
  | EParen e, EParen e' => expr_eqb e e'
  | _, _ => false
  end.

Definition tok_eqb (a b : tok) : bool :=
  (match tk a, tk b with
   | KOP x, KOP y => binop_eqb x y
   | KAGG x, KAGG y => aggop_eqb x y
   | KNUM, KNUM | KDUR, KDUR | KSTR, KSTR | KID, KID | KMID, KMID | KLP, KLP | KRP, KRP | KLB, KLB | KRB, KRB
   | KLK, KLK | KRK, KRK | KCOMMA, KCOMMA | KCOLON, KCOLON | KAT, KAT | KEQL, KEQL | KEQLRE, KEQLRE | KNEQRE, KNEQRE
   | KBOOL, KBOOL | KBY, KBY | KWITHOUT, KWITHOUT | KON, KON | KIGNORING, KIGNORING | KGROUPL, KGROUPL
   | KGROUPR, KGROUPR | KFILL, KFILL | KFILLL, KFILLL | KFILLR, KFILLR | KOFFSET, KOFFSET | KANCHORED, KANCHORED
   | KSMOOTHED, KSMOOTHED | KSTART, KSTART | KEND, KEND | KSTEP, KSTEP | KRANGE, KRANGE | KMAXOF, KMAXOF
   | KMINOF, KMINOF | KOTHER, KOTHER => true
   | _, _ => false end)
  && seqb (tx a) (tx b) && (tz a =? tz b).

(* ------------------------------------------------------------------ well-formed (printable) ASTs *)
Definition two63 : Z := 9223372036854775808.
Definition num_ok (b : Z) : bool :=
  (0 <=? b) && (b <? 2 * two63) && ((b mod two63 <=? inf_bits) || (b =? nan_bits)).
(* fixed points of print-then-parse for the float oracles *)
Definition dur_ok (oc : orc) (d : Z) : bool := (0 <? d) && (0 <? trunc_ms d) && (olook (o_drt oc) (trunc_ms d) =? d).
Definition off_ok (oc : orc) (d : Z) : bool :=
  (d =? 0) || (if 0 <? d then olook (o_drt oc) (trunc_ms d) =? d else - olook (o_drt oc) (trunc_ms (- d)) =? d).
Definition at_ok (oc : orc) (a : atmod) : bool :=
  match a with AtTs ms => olook (o_tsp oc) (Z.abs ms) =? Z.abs ms | _ => true end.
Definition label_ok (s : str) : bool :=
  match s with [] => false | _ => negb (legacy_label s) || maybe_label (tk (lex_word s)) end.
Definition name_ok (n : str) : bool :=
  match n with [] => true | _ => match tk (lex_word n) with KID | KMID => true | _ => false end end.
Definition vs_ok (oc : orc) (o : opts) (v : vsel) : bool :=
  name_ok (vs_name v)
  && (match vs_name v with
      | [] => match vs_ms v with [] => false | _ => true end
      | _ => forallb (fun m => negb (seqb (m_name m) name_label)) (vs_ms v) end)
  && off_ok oc (vs_off v) && at_ok oc (vs_at v)
  && (match vs_ext v with XNone => true | _ => o_ext o end).
Definition vm_ok (o : opts) (m : vmatch) : bool :=
  forallb label_ok (vm_labels m) && forallb label_ok (vm_include m)
  && (match vm_card m with
      | CManyToOne | COneToMany => true
      | _ => match vm_include m with [] => true | _ => false end end)
  && (match vm_fl m, vm_fr m with
      | None, None => true
      | a, b => o_fill o && (match a with Some x => num_ok x | None => true end) && (match b with Some x => num_ok x | None => true end)
      end)
  (* +0 and -0 compare equal in the printer and are printed as one fill() *)
  && (match vm_fl m, vm_fr m with
      | Some a, Some b => negb ((fabs a =? 0) && (fabs b =? 0)) || (a =? b)
      | _, _ => true end).

(* what may follow / precede: see proof/PromqlPrintProofs.v *)
Definition rprec (e : expr) : Z :=
  match e with
  | EBin op _ _ _ _ => prec op
  | EUn _ _ => 5
  | ENum b => if is_negf b || (b =? inf_bits) then 5 else 7
  | EDurLit neg _ => if neg then 5 else 7
  | _ => 7
  end.
Definition lprec (e : expr) : Z := match e with EBin op _ _ _ _ => prec op | _ => 7 end.
(* follow bound: a binary operator directly after the printed e belongs to an enclosing
   expression only if its precedence is below fb e *)
Definition fb (e : expr) : Z :=
  match e with
  | EBin op _ _ _ _ => if right_assoc op then prec op else prec op + 1
  | _ => rprec e + 1
  end.
Definition atomb (e : expr) : bool := 7 <=? rprec e.
Definition is_lit (e : expr) : bool := match e with ENum _ | EDurLit _ _ => true | _ => false end.

(* the VectorMatching the grammar builds before checkAST rewrites it *)
Definition vm_default : vmatch := mkVM COneToOne false [] [] None None.
Definition unnorm_vm (op : binop) (vm : option vmatch) : vmatch :=
  match vm with
  | None => vm_default
  | Some m => if is_set_op op then
                match vm_card m with
                | CManyToMany => mkVM COneToOne (vm_on m) (vm_labels m) (vm_include m) (vm_fl m) (vm_fr m)
                | _ => m end
              else m
  end.
Fixpoint unnorm (e : expr) : expr :=
  match e with
  | ESub e1 rng step a off => ESub (unnorm e1) rng step a off
  | ECall f args => ECall f (map unnorm args)
  | EAgg op wo grp param e1 => EAgg op wo grp (option_map unnorm param) (unnorm e1)
  | EBin op rb vm l r => EBin op rb (Some (unnorm_vm op vm)) (unnorm l) (unnorm r)
  | EUn neg e1 => EUn neg (unnorm e1)
  | EParen e1 => EParen (unnorm e1)
  | _ => e
  end.

Section WF.
  Variable oc : orc.
  Variable o : opts.
  Variable ft : ftab.
  Fixpoint wfb (e : expr) : bool :=
    match e with
    | ENum b => num_ok b
    | EDurLit _ ns => (0 <=? ns) && (olook (o_dlp oc) ns =? ns)
    | EStr _ => true
    | EVS v => vs_ok oc o v
    | EMat v rng => vs_ok oc o v && dur_ok oc rng
    | ESub e1 rng step a off => wfb e1 && atomb e1 && dur_ok oc rng && ((step =? 0) || dur_ok oc step) && off_ok oc off && at_ok oc a
    | ECall f args =>
        (match tk (lex_word f) with KID | KSTART | KEND | KSTEP | KRANGE | KMAXOF | KMINOF => true | _ => false end)
        && (match flookup f ft with Some (_, ex) => implb ex (o_expfn o) | None => false end)
        && forallb wfb args
    | EAgg op wo grp param e1 =>
        forallb label_ok grp
        && (match param with
            | Some p => agg_has_param op && wfb p
            | None => negb (agg_has_param op) end)
        && (match op with ALimitk | ALimitRatio => o_expfn o | _ => true end)
        && wfb e1
    | EBin op rb vm l r =>
        wfb l && wfb r
        && (prec op <? fb l)
        && ((if right_assoc op then prec op else prec op + 1) <=? lprec r)
        && (let tl_ := vtype_of ft l in let tr := vtype_of ft r in
            match vm with
            | None => negb (match tl_, tr with VVector, VVector => true | _, _ => false end)
            | Some m =>
                vm_ok o m && (match tl_, tr with VVector, VVector => true | _, _ => false end)
                && (if is_set_op op then negb (card_eqb (vm_card m) COneToOne)
                    else negb (card_eqb (vm_card m) CManyToMany))
            end)
    | EUn _ e1 => wfb e1 && negb (is_lit e1) && (6 <=? lprec e1)
    | EParen e1 => wfb e1
    end.
End WF.

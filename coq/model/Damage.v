(* model/Damage.v — executable model of how tsdb.Open treats damaged on-disk data (C04).

   Level 1 (wlog/reader.go Reader.next over segmentBufReader, chunks/head_chunks.go
   IterateAllChunks): reading ONE damaged segment / head-chunk file.  A file is described by
   the layout of its fragments (offsets, length and CRC fields of the 7-byte headers) and the
   decoded content of every record; payload bytes are abstract.  Damage = truncation at an
   offset or one changed byte.  What the CRC of changed payload bytes is, and whether changed
   compression flags still decode, are oracles tabulated by the harness from hash/crc32 and
   util/compression.

   Level 2 (tsdb/db.go open, tsdb/head.go Head.Init / loadMmappedChunks /
   removeCorruptedMmappedChunks, tsdb/head_wal.go loadWAL / loadWBL / processWALSamples /
   processWBLSamples, tsdb/wlog/wlog.go Repair, tsdb/head_append.go commit): the open sequence
   over checkpoint, WAL segments, WBL segments and head chunk files at record granularity, the
   repair of the log that failed, appends after the open, and a second open.

   Definitions only; proofs are in proof/DamageProofs.v. *)
From Coq Require Import List ZArith Bool.
Import ListNotations.
Open Scope Z_scope.

(* ------------------------------------------------------------------ records *)
Inductive wrec :=
| RSeries (l : list (Z * Z))          (* (series ref, series identity = label set) *)
| RSamples (l : list (Z * Z * Z))     (* (series ref, t, v) *)
| RMarkers (l : list (Z * Z))         (* (series ref, m-map chunk ref) *)
| ROther.                             (* anything replay ignores; also an empty record *)

(* ------------------------------------------------------------------ level 1: one segment *)
Definition page : Z := 32768.

Record frag := mkF { f_off : Z; f_len : Z; f_crc : Z }.
Definition f_end (f : frag) : Z := f_off f + 7 + f_len f.

(* one record: its fragments in file order (1 = recFull; otherwise recFirst, recMiddle..,
   recLast), the header flag bits shared by its fragments (compression and the three unused
   bits; 0 in an uncompressed log) and its decoded content *)
Record rent := mkR { r_frags : list frag; r_flags : Z; r_rec : wrec }.

Inductive dmg := DNone | DTrunc (off : Z) | DByte (off : Z) (v : Z).

(* oracle for the one damaged fragment: CRC-32C of the bytes the reader takes as its data
   (-1: fewer bytes are left than the length field asks for), whether its record
   decompresses when the damage switched a compression flag on, and whether the bytes the
   reader takes as data are the original ones although the damage lies in the data range (a
   truncation that only removed trailing zero bytes: the reader pads the last page with zeros) *)
Record oracle := mkO { o_crc : Z; o_dec : bool; o_same : bool }.

Record seg := mkSeg { sg_size : Z; sg_recs : list rent; sg_dmg : dmg; sg_or : oracle }.

Inductive rstatus :=
| RClean        (* Next() = false, Err() = nil *)
| RCorrupt      (* any *CorruptionErr: bad zero, size, CRC, sequence, torn, short read, decode *)
| ROracle       (* the damage went undetected by the CRC / decoded: excluded by the hypotheses *)
| RUnmodelled.  (* a layout / damage combination this model does not describe *)

(* the byte at absolute offset o, originally b *)
Definition dam (d : dmg) (o b : Z) : Z :=
  match d with
  | DNone => b
  | DTrunc off => if off <=? o then 0 else b
  | DByte off v => if o =? off then v else b
  end.

(* does the damage change a byte in [a, b)?  (a truncation changes everything from off on) *)
Definition hits (d : dmg) (a b : Z) : bool :=
  match d with
  | DNone => false
  | DTrunc off => off <? b
  | DByte off _ => (a <=? off) && (off <? b)
  end.

Definition roundup (n : Z) : Z := ((n + page - 1) / page) * page.

(* recType of the k-th of n fragments *)
Definition typ_of (k n : nat) : Z :=
  if Nat.eqb n 1 then 1 else if Nat.eqb k 0 then 2 else if Nat.eqb (S k) n then 4 else 3.

(* validateRecord *)
Definition validate (t i : Z) : bool :=
  if t =? 1 then i =? 0 else if t =? 2 then i =? 0
  else if t =? 3 then negb (i =? 0) else if t =? 4 then negb (i =? 0) else false.

Definition compr_bits (h : Z) : Z := Z.land h 24.

Inductive hres :=
| HStop (phantom : bool) (st : rstatus)   (* reading ends here; an empty record may have been delivered first *)
| HKeep (phantom : bool).                 (* the record is delivered unchanged (after an optional empty one) *)

(* zero padding [a, b) in front of a record (or at the end of the file, then b is the end of
   the zero-extended last page), with the reader positioned at a and a changed byte inside.
   The reader reads the byte at a as a header byte. *)
Definition gap_byte (a b off v : Z) : hres :=
  if negb (a / page =? (b - 1) / page) then HStop false RUnmodelled
  else if off =? a then
    let t := Z.land v 7 in
    if t =? 0 then HKeep false                       (* still a page terminator; flags are ignored *)
    else if b <? a + 7 then HStop false RUnmodelled  (* the header would run into the next page *)
    else (* length 0, CRC 0: the checksum of no bytes is 0, an empty fragment is accepted *)
      if t =? 1 then HKeep true                      (* recFull with i = 0: an empty record *)
      else if t =? 2 then HStop false RUnmodelled    (* an empty recFirst: changes the sequencing of what follows *)
      else HStop false RCorrupt                      (* recMiddle/recLast with i = 0, or an unknown type *)
  else HStop false RCorrupt.                         (* "unexpected non-zero byte in padded page" *)

(* a record with exactly one fragment whose bytes (header or data) are touched by the damage;
   vend = end of the zero-extended file *)
Definition full_damaged (d : dmg) (o : oracle) (flags : Z) (f : frag) (vend : Z) : hres :=
  let h0 := dam d (f_off f) (Z.lor 1 flags) in
  let len' := dam d (f_off f + 1) (f_len f / 256) * 256 + dam d (f_off f + 2) (f_len f mod 256) in
  let crc' := dam d (f_off f + 3) (f_crc f / 16777216) * 16777216
            + dam d (f_off f + 4) ((f_crc f / 65536) mod 256) * 65536
            + dam d (f_off f + 5) ((f_crc f / 256) mod 256) * 256
            + dam d (f_off f + 6) (f_crc f mod 256) in
  let same := (len' =? f_len f) && (negb (hits d (f_off f + 7) (f_end f)) || o_same o) in
  let t := Z.land h0 7 in
  if t =? 0 then
    (* page terminator: the rest of the page has to be zero, but this header follows *)
    if (f_len f =? 0) && (f_crc f =? 0) then HStop false RUnmodelled else HStop false RCorrupt
  else if len' >? page - 7 then HStop false RCorrupt              (* "invalid record size" *)
  else if negb same && negb (len' =? 0) && (o_crc o =? -1) then HStop false RCorrupt  (* short read *)
  else
    let crc_read := if same then f_crc f else if len' =? 0 then 0 else o_crc o in
    if negb (crc_read =? crc') then HStop false RCorrupt          (* "unexpected checksum" *)
    else if negb same && negb (len' =? 0) then HStop false ROracle
    else if negb (validate t 0) then HStop false RCorrupt
    else if t =? 2 then HStop false RUnmodelled                   (* became a recFirst *)
    else if same then
      if (compr_bits h0 =? compr_bits flags) || (f_len f =? 0) then HKeep false
      else if o_dec o then HStop false ROracle else HStop false RCorrupt   (* decompression *)
    else
      (* len' = 0 with a zero CRC field: an empty record is delivered; what follows is only
         described when everything after it is zero, i.e. for a truncation *)
      match d with
      | DTrunc _ => if vend <? f_off f + 7 then HStop false RUnmodelled else HStop true RClean
      | _ => HStop false RUnmodelled
      end.

(* a record with several fragments: only damage that the checksum has to catch is described *)
Fixpoint multi_damaged (d : dmg) (o : oracle) (fs : list frag) : hres :=
  match fs with
  | [] => HStop false RUnmodelled
  | f :: rest =>
    if hits d (f_off f) (f_end f) then
      if hits d (f_off f) (f_off f + 3) then HStop false RUnmodelled   (* type or length byte *)
      else match d with
           | DByte _ _ => if o_crc o =? f_crc f then HStop false ROracle else HStop false RCorrupt
           | _ => HStop false RUnmodelled
           end
    else multi_damaged d o rest
  end.

Definition r_start (r : rent) : Z := match r_frags r with f :: _ => f_off f | [] => 0 end.
Definition r_end (r : rent) : Z := fold_left (fun _ f => f_end f) (r_frags r) 0.

(* the record r, with the reader positioned at pos (the end of the previous record), when the
   damage touches [pos, r_end r) *)
Definition damaged_rec (d : dmg) (o : oracle) (pos vend : Z) (r : rent) : hres :=
  match d with
  | DNone => HKeep false
  | DTrunc off =>
    if off <=? r_start r then HStop false RClean    (* cut in the padding / at the boundary: zeros, EOF *)
    else match r_frags r with
         | [f] => full_damaged d o (r_flags r) f vend
         | _ => HStop false RUnmodelled
         end
  | DByte off v =>
    if off <? r_start r then gap_byte pos (r_start r) off v
    else match r_frags r with
         | [f] => full_damaged d o (r_flags r) f vend
         | fs => multi_damaged d o fs
         end
  end.

Definition phantoms (b : bool) : list wrec := if b then [ROther] else [].

(* for r.Next() { ... }: the records delivered and how reading ended *)
Fixpoint rd (d : dmg) (o : oracle) (vend pos : Z) (recs : list rent) : list wrec * rstatus :=
  match recs with
  | [] =>
    match d with
    | DByte off v =>
      if (pos <=? off) && (off <? vend) then
        match gap_byte pos vend off v with
        | HStop ph st => (phantoms ph, st)
        | HKeep ph => (phantoms ph, RClean)
        end
      else ([], RClean)
    | _ => ([], RClean)
    end
  | r :: rest =>
    if hits d pos (r_end r) then
      match damaged_rec d o pos vend r with
      | HStop ph st => (phantoms ph, st)
      | HKeep ph => let '(out, st) := rd d o vend (r_end r) rest in (phantoms ph ++ r_rec r :: out, st)
      end
    else let '(out, st) := rd d o vend (r_end r) rest in (r_rec r :: out, st)
  end.

Definition seg_vend (s : seg) : Z :=
  match sg_dmg s with DTrunc off => roundup (Z.min off (sg_size s)) | _ => roundup (sg_size s) end.

Definition read_seg (s : seg) : list wrec * rstatus :=
  rd (sg_dmg s) (sg_or s) (seg_vend s) 0 (sg_recs s).

Definition seg_contents (s : seg) : list wrec := map r_rec (sg_recs s).

(* ------------------------------------------------------------------ head chunk files *)
(* c_mref: the chunk's ChunkDiskMapperRef (file index * 2^32 + offset) *)
Record chunk := mkC { c_start : Z; c_end : Z; c_mref : Z; c_ref : Z; c_ooo : bool; c_maxt : Z;
                      c_samples : list (Z * Z) }.
(* cf_end: end of the last chunk; the rest of the (preallocated) file is zero *)
Record cfile := mkCF { cf_idx : Z; cf_size : Z; cf_chunks : list chunk; cf_dmg : dmg; cf_crc_ok : bool }.

Inductive cstatus :=
| CClean                 (* all chunks (possibly fewer, after a truncation at a boundary) iterate *)
| CCorrupt               (* *chunks.CorruptionErr from IterateAllChunks: this file and later ones are deleted *)
| CHeader                (* bad magic / version / too short: NewChunkDiskMapper fails, Open fails *)
| CRemoved               (* the last file is too short or starts with zeros: repairLastChunkFile removes it *)
| COracle | CUnmodelled.

(* number of leading zero bytes of the 8-byte big-endian series ref that starts a chunk *)
Definition lead0 (ref : Z) : Z :=
  if ref <? 256 then 7 else if ref <? 65536 then 6 else if ref <? 16777216 then 5 else if ref <? 4294967296 then 4 else 0.

Definition cf_end (f : cfile) : Z := fold_left (fun _ c => c_end c) (cf_chunks f) 8.

(* chunks that iterate before the damage is met, and how iteration ends; cf_crc_ok is the
   oracle "the checksum over the changed chunk bytes still matches" *)
Fixpoint citer (d : dmg) (crc_ok : bool) (pos : Z) (cs : list chunk) : list chunk * cstatus :=
  match cs with
  | [] => ([], CClean)
  | c :: rest =>
    if hits d pos (c_end c) then
      match d with
      | DTrunc off => if off <=? c_start c + lead0 (c_ref c)
                      then ([], CClean)    (* idx = fileEnd, or a few zero bytes left: taken for the end of the data *)
                      else ([], CCorrupt)  (* not enough bytes / CRC *)
      | _ => if crc_ok then ([], COracle) else ([], CCorrupt)
      end
    else let '(out, st) := citer d crc_ok (c_end c) rest in (c :: out, st)
  end.

Definition read_cfile (last : bool) (f : cfile) : list chunk * cstatus :=
  match cf_dmg f with
  | DTrunc off =>
    if off <? 4 then (if last && (0 <? cf_idx f) then ([], CRemoved) else ([], CHeader))
    else if off <? 8 then ([], CHeader)
    else citer (cf_dmg f) (cf_crc_ok f) 8 (cf_chunks f)
  | DByte off v =>
    if off <? 5 then ([], CHeader)       (* magic or version (a zeroed magic cannot come from one byte) *)
    else if off <? 8 then (cf_chunks f, CClean)                    (* header padding is not read *)
    else if off <? cf_end f then citer (cf_dmg f) (cf_crc_ok f) 8 (cf_chunks f)
    else if off <? cf_end f + 24 then                              (* read as seriesRef/mint/maxt of a next chunk *)
      (if cf_crc_ok f then (cf_chunks f, COracle) else (cf_chunks f, CCorrupt))
    else (cf_chunks f, CClean)                                     (* never read *)
  | DNone => (cf_chunks f, CClean)
  end.

(* ------------------------------------------------------------------ level 2: the database *)
Record disk := mkD {
  d_blocks : list (Z * Z * Z);           (* samples of the persisted blocks (identity, t, v) *)
  d_minvalid : Z;                        (* max time of the in-order blocks (MinInt64 if none) *)
  d_ckpt : option (Z * list (Z * seg));  (* newest checkpoint: its index and its segments *)
  d_wal : list (Z * seg);                (* segments after the checkpoint, ascending index *)
  d_wbl : list (Z * seg);
  d_chunks : list cfile;                 (* ascending index *)
  d_cap : Z }.                           (* OutOfOrderCapMax *)

Record mseries := mkS {
  s_id : Z;
  s_mm : list (Z * Z);        (* samples of the attached in-order m-mapped chunks *)
  s_mmmax : Z;                (* mmMaxTime *)
  s_in : list (Z * Z);        (* in-order head chunks, newest LAST *)
  s_has_ooo : bool;           (* ms.ooo != nil *)
  s_oomm : list (Z * Z);      (* samples of the out-of-order m-mapped chunks *)
  s_ooh : list (Z * Z) }.     (* out-of-order head chunk *)

Record head := mkH {
  h_series : list (Z * mseries);   (* by ref *)
  h_last : Z;                      (* lastSeriesID *)
  h_unmod : bool }.                (* something happened that this model does not describe *)

Definition min_int64 : Z := -9223372036854775808.

Fixpoint lookup {A} (k : Z) (l : list (Z * A)) : option A :=
  match l with [] => None | (k', v) :: t => if k' =? k then Some v else lookup k t end.
Fixpoint update {A} (k : Z) (v : A) (l : list (Z * A)) : list (Z * A) :=
  match l with [] => [(k, v)] | (k', v') :: t => if k' =? k then (k, v) :: t else (k', v') :: update k v t end.
Definition has_id (id : Z) (l : list (Z * mseries)) : bool := existsb (fun p => s_id (snd p) =? id) l.

(* loadMmappedChunks: the chunks that iterated, grouped by series ref at attach time *)
Definition chunks_of (ref : Z) (ooo : bool) (minvalid : Z) (cs : list chunk) : list chunk :=
  filter (fun c => (c_ref c =? ref) && Bool.eqb (c_ooo c) ooo && (ooo || (minvalid <=? c_maxt c))) cs.
Definition last_maxt (cs : list chunk) : Z := fold_left (fun _ c => c_maxt c) cs min_int64.

(* one Series record entry: getOrCreateWithOptionalID + resetSeriesWithMMappedChunks *)
Definition create_series (cs : list chunk) (minvalid : Z) (h : head) (ref id : Z) : head :=
  match lookup ref (h_series h) with
  | Some _ => mkH (h_series h) (h_last h) true         (* the same ref twice *)
  | None =>
    if has_id id (h_series h) then mkH (h_series h) (h_last h) true   (* duplicate labels: multiRef *)
    else
      let mm := chunks_of ref false minvalid cs in
      let oo := chunks_of ref true minvalid cs in
      let s := mkS id (flat_map c_samples mm) (last_maxt mm) [] (negb (match oo with [] => true | _ => false end))
                   (flat_map c_samples oo) [] in
      mkH (h_series h ++ [(ref, s)]) (Z.max (h_last h) ref) (h_unmod h)
  end.

Definition last_t (l : list (Z * Z)) : option Z :=
  match rev l with [] => None | (t, _) :: _ => Some t end.

(* processWALSamples for one float sample *)
Definition wal_sample (minvalid : Z) (h : head) (x : Z * Z * Z) : head :=
  let '(ref, t, v) := x in
  if t <? minvalid then h else
  match lookup ref (h_series h) with
  | None => h                                          (* unknown series ref: counted, dropped *)
  | Some s =>
    if t <=? s_mmmax s then h
    else match last_t (s_in s) with
         | Some t0 => if t <=? t0 then h               (* memSeries.append: not after the head chunk's maxTime *)
                      else mkH (update ref (mkS (s_id s) (s_mm s) (s_mmmax s) (s_in s ++ [(t, v)]) (s_has_ooo s) (s_oomm s) (s_ooh s)) (h_series h)) (h_last h) (h_unmod h)
         | None => mkH (update ref (mkS (s_id s) (s_mm s) (s_mmmax s) [(t, v)] (s_has_ooo s) (s_oomm s) (s_ooh s)) (h_series h)) (h_last h) (h_unmod h)
         end
  end.

Definition wal_rec (cs : list chunk) (minvalid : Z) (h : head) (r : wrec) : head :=
  match r with
  | RSeries l => fold_left (fun h p => create_series cs minvalid h (fst p) (snd p)) l h
  | RSamples l => fold_left (wal_sample minvalid) l h
  | _ => h
  end.

(* memSeries.insert during replay and at commit: OOOChunk.Insert drops an equal timestamp; a full
   head chunk is m-mapped first *)
Definition ooo_insert (cap : Z) (s : mseries) (t v : Z) : mseries :=
  if existsb (fun p => fst p =? t) (s_ooh s) then mkS (s_id s) (s_mm s) (s_mmmax s) (s_in s) true (s_oomm s) (s_ooh s)
  else if Z.of_nat (length (s_ooh s)) >=? cap
  then mkS (s_id s) (s_mm s) (s_mmmax s) (s_in s) true (s_oomm s ++ s_ooh s) [(t, v)]
  else mkS (s_id s) (s_mm s) (s_mmmax s) (s_in s) true (s_oomm s) (s_ooh s ++ [(t, v)]).

Definition wbl_sample (cap : Z) (h : head) (x : Z * Z * Z) : head :=
  let '(ref, t, v) := x in
  match lookup ref (h_series h) with
  | None => h
  | Some s => mkH (update ref (ooo_insert cap s t v) (h_series h)) (h_last h) (h_unmod h)
  end.

(* an m-map marker: if the chunk it names was on disk when the chunks were loaded, everything
   inserted so far is in m-mapped chunks: drop the out-of-order head chunk *)
Definition wbl_marker (lastmm : Z) (h : head) (x : Z * Z) : head :=
  let '(ref, mref) := x in
  if lastmm <? mref then h else
  match lookup ref (h_series h) with
  | None => h
  | Some s => if s_has_ooo s
              then mkH (update ref (mkS (s_id s) (s_mm s) (s_mmmax s) (s_in s) true (s_oomm s) []) (h_series h)) (h_last h) (h_unmod h)
              else h
  end.

Definition wbl_rec (cap lastmm : Z) (h : head) (r : wrec) : head :=
  match r with
  | RSamples l => fold_left (wbl_sample cap) l h
  | RMarkers l => fold_left (wbl_marker lastmm) l h
  | _ => h
  end.

(* Head.gc at the end of Init: series without any chunk are dropped *)
Definition empty_series (s : mseries) : bool :=
  match s_mm s, s_in s, s_oomm s, s_ooh s with [], [], [], [] => true | _, _, _, _ => false end.
Definition gc (h : head) : head :=
  mkH (filter (fun p => negb (empty_series (snd p))) (h_series h)) (h_last h) (h_unmod h).

(* reading a run of segments, each with its own Reader (Head.Init loop): stops at the first
   segment that does not end cleanly *)
Inductive logres := LClean | LCorrupt (idx : Z) (kept : list wrec) | LOracle | LUnmod.
Fixpoint read_log (segs : list (Z * seg)) : list wrec * logres :=
  match segs with
  | [] => ([], LClean)
  | (i, s) :: rest =>
    match read_seg s with
    | (out, RClean) => let '(o2, st) := read_log rest in (out ++ o2, st)
    | (out, RCorrupt) => (out, LCorrupt i out)
    | (out, ROracle) => (out, LOracle)
    | (out, RUnmodelled) => (out, LUnmod)
    end
  end.

(* a segment as WL.Log writes it: reads back as its records (C13_roundtrip) *)
Definition clean_rent (r : wrec) : rent := mkR [] 0 r.
Definition clean_seg (recs : list wrec) : seg := mkSeg 0 (map clean_rent recs) DNone (mkO 0 false false).

(* wlog.Repair on a log: segments after idx are deleted, segment idx is rewritten with the
   records read before the error, segment idx+1 is created.  None: the segment to rewrite
   does not exist (rename fails) — AFTER the later segments have been deleted. *)
Definition repair (segs : list (Z * seg)) (idx : Z) (kept : list wrec) : option (list (Z * seg)) * list (Z * seg) :=
  let before := filter (fun p => fst p <? idx) segs in
  let upto := filter (fun p => fst p <=? idx) segs in
  if existsb (fun p => fst p =? idx) segs
  then (Some (before ++ [(idx, clean_seg kept); (idx + 1, clean_seg [])]), upto)
  else (None, upto).

Definition last_idx (segs : list (Z * seg)) : Z := fold_left (fun a p => Z.max a (fst p)) segs (-1).

(* NewSize at every open: a new segment after the last one (index 0 in an empty directory) *)
Definition new_segment (segs : list (Z * seg)) : list (Z * seg) :=
  segs ++ [(last_idx segs + 1, clean_seg [])].

(* loadMmappedChunks / removeCorruptedMmappedChunks over all files *)
Inductive chres := ChOk (cs : list chunk) (files : list cfile) (repaired : bool) | ChFail | ChOracle | ChUnmod.
Fixpoint load_chunks (files : list cfile) : chres :=
  match files with
  | [] => ChOk [] [] false
  | f :: rest =>
    let last := match rest with [] => true | _ => false end in
    match read_cfile last f with
    | (cs, CClean) =>
      match load_chunks rest with
      | ChOk cs2 fs2 rp => ChOk (cs ++ cs2) (f :: fs2) rp
      | e => e
      end
    | (_, CCorrupt) =>
      (* the open must still get past the header checks of the later files *)
      if existsb (fun g => match read_cfile false g with (_, CHeader) => true | _ => false end) rest then ChFail
      else ChOk [] [] true
    | (_, CRemoved) => ChOk [] [] false
    | (_, CHeader) => ChFail
    | (_, COracle) => ChOracle
    | (_, CUnmodelled) => ChUnmod
    end
  end.

(* lastRef of loadMmappedChunks: the ref of the last chunk that iterated (0 if none) *)
Definition last_mmref (cs : list chunk) : Z := fold_left (fun _ c => c_mref c) cs 0.

Inductive repair_kind := KNone | KWal | KWbl.

Inductive ores :=
| OOk (h : head) (d : disk) (k : repair_kind) (chunks_repaired : bool)
      (chunks_lost : bool)   (* some chunk of the directory did not iterate (file deleted, or cut short) *)
| OErr (d : disk)            (* Open returned an error; d = the directory afterwards *)
| OOracle | OUnmod.

Definition ckpt_recs (d : disk) : list (Z * seg) := match d_ckpt d with Some (_, l) => l | None => [] end.

(* the open sequence *)
Definition open (d : disk) : ores :=
  (* wlog.NewSize for the WAL, and for the WBL when out-of-order ingestion is on or a WBL exists:
     cap > 0 stands for "the WBL is in use" *)
  let wal1 := new_segment (d_wal d) in
  let wbl1 := if 0 <? d_cap d then new_segment (d_wbl d) else d_wbl d in
  match load_chunks (d_chunks d) with
  | ChFail => OErr (mkD (d_blocks d) (d_minvalid d) (d_ckpt d) wal1 wbl1 (d_chunks d) (d_cap d))
  | ChOracle => OOracle
  | ChUnmod => OUnmod
  | ChOk cs files crep =>
    let lastmm := last_mmref cs in
    let clost := negb (Nat.eqb (length cs) (length (flat_map cf_chunks (d_chunks d)))) in
    let mv := d_minvalid d in
    (* loadMmappedChunks raises lastSeriesID to the highest series ref of the chunks that iterate
       (so that a ref that survives only in a head chunk file is not handed out again) *)
    let h0 := mkH [] (fold_left (fun a c => Z.max a (c_ref c)) cs 0) false in
    let mk w b := mkD (d_blocks d) mv (d_ckpt d) w b files (d_cap d) in
    match read_log (ckpt_recs d) with
    | (_, LOracle) => OOracle
    | (_, LUnmod) => OUnmod
    | (_, LCorrupt cidx _) =>
      (* "backfill checkpoint" error; db.open hands it to wal.Repair: the segment index is one of
         the checkpoint directory, the repair runs on the WAL directory *)
      match repair wal1 cidx [] with
      | (Some w, _) => OUnmod
      | (None, w) => OErr (mk w wbl1)
      end
    | (crecs, LClean) =>
      let h1 := fold_left (wal_rec cs mv) crecs h0 in
      match read_log (d_wal d) with
      | (_, LOracle) => OOracle
      | (_, LUnmod) => OUnmod
      | (wrecs, LCorrupt idx kept) =>
        (* Init returns the error before the WBL is replayed; db.open repairs the WAL *)
        let h2 := gc (fold_left (wal_rec cs mv) wrecs h1) in
        match repair wal1 idx kept with
        | (Some w, _) => OOk h2 (mk w wbl1) KWal crep clost
        | (None, w) => OErr (mk w wbl1)
        end
      | (wrecs, LClean) =>
        let h2 := fold_left (wal_rec cs mv) wrecs h1 in
        match read_log (d_wbl d) with
        | (_, LOracle) => OOracle
        | (_, LUnmod) => OUnmod
        | (brecs, LCorrupt idx kept) =>
          let h3 := gc (fold_left (wbl_rec (d_cap d) lastmm) brecs h2) in
          match repair wbl1 idx kept with
          | (Some b, _) => OOk h3 (mk wal1 b) KWbl crep clost
          | (None, b) => OErr (mk wal1 b)
          end
        | (brecs, LClean) =>
          OOk (gc (fold_left (wbl_rec (d_cap d) lastmm) brecs h2)) (mk wal1 wbl1) KNone crep clost
        end
      end
    end
  end.

(* ------------------------------------------------------------------ contents *)
Definition series_samples (s : mseries) : list (Z * Z * Z) :=
  map (fun p => (s_id s, fst p, snd p)) (s_mm s ++ s_in s ++ s_oomm s ++ s_ooh s).
Definition head_samples (h : head) : list (Z * Z * Z) :=
  flat_map (fun p => series_samples (snd p)) (h_series h).
Definition contents (d : disk) (h : head) : list (Z * Z * Z) := d_blocks d ++ head_samples h.

(* ------------------------------------------------------------------ appends after the open *)
Definition append_last (segs : list (Z * seg)) (recs : list wrec) : list (Z * seg) :=
  match rev segs with
  | [] => segs
  | (i, s) :: before => rev before ++ [(i, mkSeg (sg_size s) (sg_recs s ++ map clean_rent recs) (sg_dmg s) (sg_or s))]
  end.

(* memSeries.appendable for an acknowledged sample: in order if the series has no head chunk
   (headChunks == nil) or the sample is newer than the head chunk's newest sample *)
Definition in_order (s : mseries) (t : Z) : bool :=
  match last_t (s_in s) with Some t0 => t0 <? t | None => true end.

(* one acknowledged float sample (identity, t, v), committed on its own: the series is created
   with the next ref if the head does not know the labels; a sample newer than the series'
   newest in-order sample goes to the WAL, an older one to the out-of-order head chunk and the
   WBL, preceded by the initial marker (chunk ref 0) when the series has no out-of-order head
   chunk. *)
Definition append1 (st : head * disk) (x : Z * Z * Z) : head * disk :=
  let '(h, d) := st in
  let '(id, t, v) := x in
  let known := find (fun p => s_id (snd p) =? id) (h_series h) in
  let '(ref, s, h1, recs0) :=
    match known with
    | Some (ref, s) => (ref, s, h, [])
    | None => let ref := h_last h + 1 in
              let s := mkS id [] min_int64 [] false [] [] in
              (ref, s, mkH (h_series h ++ [(ref, s)]) ref (h_unmod h), [RSeries [(ref, id)]])
    end in
  if in_order s t then
    (* memSeries.append without a head chunk: a sample not newer than the newest m-mapped chunk is
       ignored ("already in the mmapped chunks") - after the WAL record has been logged and
       although Append and Commit report success *)
    let stored := negb (match s_in s with [] => t <=? s_mmmax s | _ => false end) in
    let s' := mkS (s_id s) (s_mm s) (s_mmmax s) (if stored then s_in s ++ [(t, v)] else s_in s)
                  (s_has_ooo s) (s_oomm s) (s_ooh s) in
    (mkH (update ref s' (h_series h1)) (h_last h1) (h_unmod h1),
     mkD (d_blocks d) (d_minvalid d) (d_ckpt d) (append_last (d_wal d) (recs0 ++ [RSamples [(ref, t, v)]])) (d_wbl d) (d_chunks d) (d_cap d))
  else
    (* a full out-of-order head chunk is m-mapped first: it is written to a head chunk file of
       this session (here: a file of its own after the existing ones) and a marker naming it is
       logged in front of the sample *)
    let full := Z.of_nat (length (s_ooh s)) >=? d_cap d in
    let nidx := fold_left (fun a f => Z.max a (cf_idx f)) (d_chunks d) 0 + 1 in
    let mref := nidx * 4294967296 + 8 in
    let mark := if full then [RMarkers [(ref, mref)]]
                else match s_ooh s with [] => [RMarkers [(ref, 0)]] | _ => [] end in
    let chunks' := if full
                   then d_chunks d ++ [mkCF nidx 0 [mkC 8 9 mref ref true (fold_left (fun a p => Z.max a (fst p)) (s_ooh s) min_int64) (s_ooh s)] DNone false]
                   else d_chunks d in
    (mkH (update ref (ooo_insert (d_cap d) s t v) (h_series h1)) (h_last h1) (h_unmod h1),
     mkD (d_blocks d) (d_minvalid d) (d_ckpt d) (append_last (d_wal d) recs0)
         (append_last (d_wbl d) (mark ++ [RSamples [(ref, t, v)]])) chunks' (d_cap d)).

Definition append_all (h : head) (d : disk) (xs : list (Z * Z * Z)) : head * disk :=
  fold_left append1 xs (h, d).

(* open, append, close, open again *)
Inductive r2res := R2Ok (c2 : list (Z * Z * Z)) (k2 : repair_kind) | R2Fail | R2Unmod.
Inductive sres :=
| SOk (c1 : list (Z * Z * Z)) (k1 : repair_kind) (cr1 : bool) (c1b : list (Z * Z * Z)) (r2 : r2res)
| SErr (d : disk)
| SOracle | SUnmod.

Definition scenario (d : disk) (added : list (Z * Z * Z)) : sres :=
  match open d with
  | OErr d' => SErr d'
  | OOracle => SOracle
  | OUnmod => SUnmod
  | OOk h d1 k cr cl =>
    if h_unmod h then SUnmod else
    let '(h', d2) := append_all h d1 added in
    if h_unmod h' then SUnmod else
    (* when head chunks were lost at the first open (file deleted, or cut short), what the m-map
       markers of the old WBL name at the second open depends on the chunks that the replay
       itself wrote (file numbers are reused, offsets depend on encoded chunk sizes): not described *)
    if cl then SOk (contents d h) k cr (contents d h') R2Unmod else
    match open d2 with
    | OOk h2 d3 k2 _ _ => SOk (contents d h) k cr (contents d h') (if h_unmod h2 then R2Unmod else R2Ok (contents d h2) k2)
    | OErr _ => SOk (contents d h) k cr (contents d h') R2Fail
    | OOracle => SOracle
    | OUnmod => SOk (contents d h) k cr (contents d h') R2Unmod
    end
  end.

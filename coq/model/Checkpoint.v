(* model/Checkpoint.v — executable model for C15 (WAL truncation keeps everything replay needs).

   Anchors:
     tsdb/wlog/checkpoint.go   Checkpoint                      -> cp_rec / cp_metas / checkpoint
     tsdb/head.go              truncateWAL                     -> plan_last / truncate_wal
                               keepSeriesInWALCheckpointFn     -> keep_head
                               gc / gcSeries (walExpiries)     -> ev_truncate / ev_evict (deleted set = oracle)
     tsdb/head_wal.go          loadWAL (multiRef, unknown refs,
                               updateWALExpiry, full-range
                               tombstones, deleteSeriesByID)   -> book_rec (bookkeeping) / data_rec (contents)
     tsdb/agent/db.go          truncate / keepSeriesInWAL...   -> agent_keep / agent_truncate / agent replay

   Definitions only; proofs are in proof/CheckpointProofs.v. *)
From Coq Require Import List ZArith Bool.
From Verif Require Import lib.Int64.
Import ListNotations.
Open Scope Z_scope.

Definition ref := Z.
Definition lab := Z.   (* an interned label set *)

(* ------------------------------------------------------------------ records *)
(* sample: ((ref, t), v) ; k = 0 float, 1 histogram, 2 float histogram (all filtered alike) *)
Inductive record :=
| RSeries (l : list (ref * lab))
| RSamples (k : Z) (l : list (ref * Z * Z))
| RExemplars (l : list (ref * Z * Z))
| RTombstones (l : list (ref * list (Z * Z)))
| RMetadata (l : list (ref * Z))
| RUnknown.

Definition is_full (ivs : list (Z * Z)) : bool :=
  match ivs with
  | [(a, b)] => (a =? minInt64) && (b =? maxInt64)
  | _ => false
  end.

(* ------------------------------------------------------------------ small maps (assoc lists, Z keys) *)
Fixpoint lookup {A} (k : Z) (m : list (Z * A)) : option A :=
  match m with
  | [] => None
  | (k', v) :: t => if k =? k' then Some v else lookup k t
  end.

Fixpoint upsert {A} (k : Z) (v : A) (m : list (Z * A)) : list (Z * A) :=
  match m with
  | [] => [(k, v)]
  | (k', v') :: t => if k =? k' then (k, v) :: t else (k', v') :: upsert k v t
  end.

Definition remove_key {A} (k : Z) (m : list (Z * A)) : list (Z * A) :=
  filter (fun e => negb (fst e =? k)) m.

Definition memz (k : Z) (l : list Z) : bool := existsb (Z.eqb k) l.

(* ------------------------------------------------------------------ wlog.Checkpoint *)
(* THE time filter of Checkpoint, shared by every record kind that carries timestamps: float samples
   (`s.T >= mint`), histogram / float histogram / custom-bucket histogram / custom-bucket float histogram
   samples (`h.T >= mint`, `fh.T >= mint`), exemplars (`e.T >= mint`), tombstone intervals (`iv.Maxt >= mint`) *)
Definition keep_t (t mint : Z) : bool := mint <=? t.

Section CP.
  Variable keep : ref -> bool.
  Variable mint : Z.

  Definition cp_series (l : list (ref * lab)) := filter (fun s => keep (fst s)) l.
  (* samples of any kind k (0 float, 1 histogram, 2 float histogram, 3 NHCB, 4 float NHCB) and exemplars *)
  Definition cp_samples (l : list (ref * Z * Z)) := filter (fun s => keep_t (snd (fst s)) mint) l.
  (* a tombstone is dropped together with its series record, or once all its intervals are below mint *)
  Definition cp_stones (l : list (ref * list (Z * Z))) :=
    filter (fun s => keep (fst s) && existsb (fun iv => keep_t (snd iv) mint) (snd s)) l.

  (* one record of the input; None = "all contents discarded" (len(buf[start:]) == 0) *)
  Definition cp_rec (r : record) : option record :=
    match r with
    | RSeries l => match cp_series l with [] => None | l' => Some (RSeries l') end
    | RSamples k l => match cp_samples l with [] => None | l' => Some (RSamples k l') end
    | RExemplars l => match cp_samples l with [] => None | l' => Some (RExemplars l') end
    | RTombstones l => match cp_stones l with [] => None | l' => Some (RTombstones l') end
    | RMetadata _ => None          (* collected in latestMetadataMap instead *)
    | RUnknown => None             (* default: continue *)
    end.

  Definition cp_body (recs : list record) : list record :=
    flat_map (fun r => match cp_rec r with Some x => [x] | None => [] end) recs.

  (* latestMetadataMap: only kept refs; later entries overwrite *)
  Definition cp_meta_rec (mp : list (ref * Z)) (l : list (ref * Z)) : list (ref * Z) :=
    fold_left (fun mp e => if keep (fst e) then upsert (fst e) (snd e) mp else mp) l mp.

  Definition cp_metas (recs : list record) : list (ref * Z) :=
    fold_left (fun mp r => match r with RMetadata l => cp_meta_rec mp l | _ => mp end) recs [].

  (* records of the new checkpoint, in file order: filtered records, then one metadata record
     (Go iterates a map there: the order inside that record is unspecified; the correspondence
     compares it sorted by ref) *)
  Definition checkpoint (recs : list record) : list record :=
    cp_body recs ++ match cp_metas recs with [] => [] | mp => [RMetadata mp] end.
End CP.

(* ------------------------------------------------------------------ the WAL directory *)
Record wal := mkWal {
  w_cpidx : Z;                    (* index of the last checkpoint, -1 if none *)
  w_cp : list record;             (* its records *)
  w_segs : list (Z * record);     (* records of the segment files, with segment number, in order *)
  w_first : Z;                    (* wlog.Segments: lowest ... *)
  w_cur : Z                       (* ... and highest existing segment file *)
}.

Definition wal_empty : wal := mkWal (-1) [] [] 0 0.

(* records in replay order: last checkpoint, then segments above it *)
Definition wal_records (w : wal) : list record :=
  w_cp w ++ map snd (filter (fun sr => w_cpidx w <? fst sr) (w_segs w)).

(* truncateWAL / agent truncate: `last--; if last < 0 return; last = first + (last-first)*2/3;
   if last <= first return` (Go integer division truncates) *)
Definition plan_last (first last0 : Z) : option Z :=
  let last := last0 - 1 in
  if last <? 0 then None else
  let last := first + Z.quot ((last - first) * 2) 3 in
  if last <=? first then None else Some last.

(* input of Checkpoint(from=first, to=last): last checkpoint (whole) + segments (cpidx, last] *)
Definition cp_input (w : wal) (last : Z) : list record :=
  w_cp w ++ map snd (filter (fun sr => (w_cpidx w <? fst sr) && (fst sr <=? last)) (w_segs w)).

Definition wal_checkpointed (w : wal) (last : Z) (cp : list record) : wal :=
  mkWal last cp (filter (fun sr => last <? fst sr) (w_segs w)) (last + 1) (w_cur w).

Definition wal_log (w : wal) (l : list (Z * record)) : wal :=
  mkWal (w_cpidx w) (w_cp w) (w_segs w ++ l) (w_first w)
        (fold_left (fun c sr => Z.max c (fst sr)) l (w_cur w)).

Definition wal_next_segment (w : wal) : wal :=
  mkWal (w_cpidx w) (w_cp w) (w_segs w) (w_first w) (w_cur w + 1).

(* ------------------------------------------------------------------ the head (what truncation looks at) *)
Record head := mkHead {
  h_series : list (ref * lab);    (* series in the head, by ref *)
  h_exp : list (ref * Z);         (* walExpiries *)
  h_last_trunc : Z;               (* lastWALTruncationTime *)
  h_wal : wal
}.

Definition head_empty : head := mkHead [] [] minInt64 wal_empty.

(* keepSeriesInWALCheckpointFn *)
Definition keep_head (series : list (ref * lab)) (exp : list (ref * Z)) (mint : Z) (r : ref) : bool :=
  match lookup r series with
  | Some _ => true
  | None => match lookup r exp with Some e => mint <=? e | None => false end
  end.

(* Head.truncateWAL(mint) *)
Definition truncate_wal (h : head) (mint : Z) : head :=
  if mint <=? h_last_trunc h then h else
  let w := h_wal h in
  let w1 := wal_next_segment w in
  match plan_last (w_first w) (w_cur w) with
  | None => mkHead (h_series h) (h_exp h) mint w1
  | Some last =>
      let cp := checkpoint (keep_head (h_series h) (h_exp h) mint) mint (cp_input w1 last) in
      mkHead (h_series h)
             (filter (fun e => mint <=? snd e) (h_exp h))   (* delete if keepUntil < mint *)
             mint
             (wal_checkpointed w1 last cp)
  end.

Definition set_all (refs : list ref) (v : Z) (m : list (ref * Z)) : list (ref * Z) :=
  fold_left (fun m r => upsert r v m) refs m.

Definition drop_series (refs : list ref) (s : list (ref * lab)) : list (ref * lab) :=
  filter (fun e => negb (memz (fst e) refs)) s.

Definition series_of_rec (r : record) : list (ref * lab) :=
  match r with RSeries l => l | _ => [] end.

(* ------------------------------------------------------------------ replay: contents (Head.loadWAL) *)
(* An item of head content, keyed by label set:
   kind 0 = sample (a = t, b = sample kind, v), 1 = exemplar (a = t, v), 2 = tombstone interval (a = mint, b = maxt) *)
Record item := mkItem { i_lab : lab; i_kind : Z; i_a : Z; i_b : Z; i_v : Z }.

Definition item_eqb (x y : item) : bool :=
  (i_lab x =? i_lab y) && (i_kind x =? i_kind y) && (i_a x =? i_a y) && (i_b x =? i_b y) && (i_v x =? i_v y).

(* time that decides whether an item is "at or after" a truncation time *)
Definition item_time (x : item) : Z := if i_kind x =? 2 then i_b x else i_a x.

Record dstate := mkD {
  d_lbl : list (ref * lab);       (* refs that currently resolve to a series of the head (through multiRef) *)
  d_items : list item;            (* newest first *)
  d_meta : list (lab * Z)         (* memSeries.meta *)
}.

Definition d_empty : dstate := mkD [] [] [].

Section REPLAY.
  Variable mv : Z.   (* minValidTime *)

  Definition d_push (st : dstate) (r : ref) (time : Z) (mk : lab -> item) : dstate :=
    if time <? mv then st else
    match lookup r (d_lbl st) with
    | None => st                                      (* unknown series reference: dropped *)
    | Some L => mkD (d_lbl st) (mk L :: d_items st) (d_meta st)
    end.

  (* full-range tombstone: the series the ref resolves to is deleted (deleteSeriesByID);
     exemplars stay in the exemplar storage *)
  Definition d_delete (st : dstate) (r : ref) : dstate :=
    match lookup r (d_lbl st) with
    | None => st
    | Some L =>
        mkD (filter (fun e => negb (snd e =? L)) (d_lbl st))
            (filter (fun x => negb ((i_lab x =? L) && negb (i_kind x =? 1))) (d_items st))
            (remove_key L (d_meta st))
    end.

  Definition d_stone (st : dstate) (s : ref * list (Z * Z)) : dstate :=
    if is_full (snd s) then d_delete st (fst s)
    else fold_left (fun st iv => d_push st (fst s) (snd iv) (fun L => mkItem L 2 (fst iv) (snd iv) 0)) (snd s) st.

  (* a series record whose label set already has a series: multiRef entry, and
     resetSeriesWithMMappedChunks drops what was replayed into that series so far ("any samples
     replayed till now would already be compacted"; there are no m-mapped chunks in this model) *)
  Definition d_series (st : dstate) (s : ref * lab) : dstate :=
    let live := existsb (fun e => snd e =? snd s) (d_lbl st) in
    mkD (match lookup (fst s) (d_lbl st) with Some _ => d_lbl st | None => (fst s, snd s) :: d_lbl st end)
        (if live then filter (fun x => negb ((i_lab x =? snd s) && (i_kind x =? 0))) (d_items st) else d_items st)
        (d_meta st).

  Definition d_metadata (st : dstate) (m : ref * Z) : dstate :=
    match lookup (fst m) (d_lbl st) with
    | None => st
    | Some L => mkD (d_lbl st) (d_items st) (upsert L (snd m) (d_meta st))
    end.

  Definition data_rec (st : dstate) (r : record) : dstate :=
    match r with
    | RSeries l => fold_left d_series l st
    | RSamples k l => fold_left (fun st s => d_push st (fst (fst s)) (snd (fst s)) (fun L => mkItem L 0 (snd (fst s)) k (snd s))) l st
    | RExemplars l => fold_left (fun st s => d_push st (fst (fst s)) (snd (fst s)) (fun L => mkItem L 1 (snd (fst s)) 0 (snd s))) l st
    | RTombstones l => fold_left d_stone l st
    | RMetadata l => fold_left d_metadata l st
    | RUnknown => st
    end.

  Definition replay_data (recs : list record) : dstate := fold_left data_rec recs d_empty.
End REPLAY.

(* what is visible at or after time g *)
Definition view_items (g : Z) (its : list item) : list item := filter (fun x => g <=? item_time x) its.

(* ------------------------------------------------------------------ replay: bookkeeping (refs, multiRef, walExpiries) *)
Record bstate := mkB {
  b_series : list (ref * lab);    (* h.series by ref *)
  b_hash : list (lab * ref);      (* h.series.hashes: label set -> series *)
  b_multi : list (ref * ref);     (* multiRef *)
  b_exp : list (ref * Z);         (* walExpiries *)
  b_maxt : list (ref * Z)         (* memSeries.maxTime() of series that have a sample *)
}.

Definition b_empty : bstate := mkB [] [] [] [] [].

(* updateWALExpiry: h.walExpiries[id] = max(keepUntil, h.walExpiries[id]) — a missing key reads 0 *)
Definition update_expiry (r : ref) (t : Z) (m : list (ref * Z)) : list (ref * Z) :=
  upsert r (Z.max t (match lookup r m with Some e => e | None => 0 end)) m.

Section BOOK.
  Variable mv : Z.

  Definition b_series_rec (st : bstate) (s : ref * lab) : bstate :=
    match lookup (snd s) (b_hash st) with
    | Some c => mkB (b_series st) (b_hash st) (upsert (fst s) c (b_multi st)) (b_exp st)
                    (remove_key c (b_maxt st))   (* !created: multiRef; resetSeriesWithMMappedChunks resets the head chunk *)
    | None => mkB (b_series st ++ [s]) (upsert (snd s) (fst s) (b_hash st)) (b_multi st) (b_exp st) (b_maxt st)
    end.

  (* multiRef resolution with its side effect on walExpiries *)
  Definition b_resolve (st : bstate) (r : ref) (time : Z) : bstate * ref :=
    match lookup r (b_multi st) with
    | Some c => (mkB (b_series st) (b_hash st) (b_multi st) (update_expiry r time (b_exp st)) (b_maxt st), c)
    | None => (st, r)
    end.

  Definition b_sample (st : bstate) (s : ref * Z * Z) : bstate :=
    let t := snd (fst s) in
    if t <? mv then st else
    let '(st, c) := b_resolve st (fst (fst s)) t in
    match lookup c (b_series st) with
    | None => st
    | Some _ =>
        match lookup c (b_maxt st) with
        | Some m => if t <=? m then st   (* not in order: dropped by the chunk appender *)
                    else mkB (b_series st) (b_hash st) (b_multi st) (b_exp st) (upsert c t (b_maxt st))
        | None => mkB (b_series st) (b_hash st) (b_multi st) (b_exp st) (upsert c t (b_maxt st))
        end
    end.

  Definition b_exemplar (st : bstate) (s : ref * Z * Z) : bstate :=
    let t := snd (fst s) in
    if t <? mv then st else fst (b_resolve st (fst (fst s)) t).

  Definition b_stone (st : bstate) (s : ref * list (Z * Z)) : bstate :=
    if is_full (snd s) then
      let c := match lookup (fst s) (b_multi st) with Some c => c | None => fst s end in
      match lookup c (b_series st) with
      | None => st
      | Some L =>
          mkB (remove_key c (b_series st))
              (filter (fun e => negb ((fst e =? L) && (snd e =? c))) (b_hash st))   (* unlinkHash *)
              (b_multi st)
              (match lookup c (b_maxt st) with Some m => update_expiry c m (b_exp st) | None => b_exp st end)
              (remove_key c (b_maxt st))
      end
    else
      fold_left (fun st iv => if snd iv <? mv then st else fst (b_resolve st (fst s) (snd iv))) (snd s) st.

  Definition book_rec (st : bstate) (r : record) : bstate :=
    match r with
    | RSeries l => fold_left b_series_rec l st
    | RSamples _ l => fold_left b_sample l st
    | RExemplars l => fold_left b_exemplar l st
    | RTombstones l => fold_left b_stone l st
    | RMetadata _ => st
    | RUnknown => st
    end.

  Definition replay_book (recs : list record) : bstate := fold_left book_rec recs b_empty.
End BOOK.

(* Head.Init ends with gc(): series without any chunk are deleted and get walExpiries = actualInOrderMint *)
Definition init_gc_deleted (b : bstate) : list ref :=
  map fst (filter (fun s => match lookup (fst s) (b_maxt b) with Some _ => false | None => true end) (b_series b)).

(* ------------------------------------------------------------------ histories *)
Inductive event :=
| ELog (l : list (Z * record))                            (* records written by commits / Delete / eviction, with their segment *)
| ETruncate (init : bool) (mint : Z) (deleted : list ref) (actual : Z)
     (* Head.Truncate(mint): gc deleted these series (oracle), actualInOrderMint (oracle); init = head initialised *)
| EEvict (maxt : Z) (deleted : list ref)                  (* truncateStaleSeries / truncateSelectedSeries: gcSeries deleted these *)
| ERestart (mv : Z) (actual : Z)                          (* Close; NewHead; Init(mv); actual = actualInOrderMint of Init's gc *)
| ERoll                                                   (* the WAL starts a new segment (what a full segment does) *)
| ECreate (l : list (ref * lab)).
     (* an appender that is still open created these series in the head (getOrCreate at Append time, with
        pendingCommit set); their series record is only logged by Commit.  Whether an existing series with an
        uncommitted append survives Head.gc (memSeries.pendingCommit) is part of the gc oracle `deleted`. *)

Definition add_series (cur : list (ref * lab)) (new : list (ref * lab)) : list (ref * lab) :=
  fold_left (fun acc s => match lookup (fst s) acc with Some _ => acc | None => acc ++ [s] end) new cur.

Definition ev_log (h : head) (l : list (Z * record)) : head :=
  mkHead (add_series (h_series h) (flat_map (fun sr => series_of_rec (snd sr)) l)) (h_exp h) (h_last_trunc h)
         (wal_log (h_wal h) l).

Definition ev_truncate (h : head) (init : bool) (mint : Z) (deleted : list ref) (actual : Z) : head :=
  let h1 := mkHead (drop_series deleted (h_series h)) (set_all deleted actual (h_exp h)) (h_last_trunc h) (h_wal h) in
  if init then truncate_wal h1 mint else h1.

Definition ev_evict (h : head) (maxt : Z) (deleted : list ref) : head :=
  mkHead (drop_series deleted (h_series h)) (set_all deleted maxt (h_exp h)) (h_last_trunc h) (h_wal h).

Definition ev_restart (h : head) (mv actual : Z) : head :=
  let b := replay_book mv (wal_records (h_wal h)) in
  let del := init_gc_deleted b in
  mkHead (drop_series del (b_series b)) (set_all del actual (b_exp b)) minInt64
         (wal_next_segment (h_wal h)).   (* wlog.New always starts a new segment *)

Definition step (h : head) (e : event) : head :=
  match e with
  | ELog l => ev_log h l
  | ETruncate init mint del actual => ev_truncate h init mint del actual
  | EEvict maxt del => ev_evict h maxt del
  | ERestart mv actual => ev_restart h mv actual
  | ERoll => mkHead (h_series h) (h_exp h) (h_last_trunc h) (wal_next_segment (h_wal h))
  | ECreate l => mkHead (add_series (h_series h) l) (h_exp h) (h_last_trunc h) (h_wal h)
  end.

Definition run (es : list event) : head := fold_left step es head_empty.

(* ------------------------------------------------------------------ specification predicates (used by holds and the theorems) *)
(* refs of data items that must be resolvable: (ref, time) *)
Definition rec_refs_at (g : Z) (r : record) : list ref :=
  match r with
  | RSeries _ => []
  | RSamples _ l => map (fun s => fst (fst s)) (filter (fun s => g <=? snd (fst s)) l)
  | RExemplars l => map (fun s => fst (fst s)) (filter (fun s => g <=? snd (fst s)) l)
  | RTombstones l => map fst (filter (fun s => negb (is_full (snd s)) && existsb (fun iv => g <=? snd iv) (snd s)) l)
  | RMetadata _ => []
  | RUnknown => []
  end.

(* every sample / exemplar / deletion tombstone at or after g is preceded by a series record of its ref
   (full-range tombstones are series-eviction markers: replay ignores them when the ref is unknown) *)
Fixpoint preceded_from (g : Z) (seen : list ref) (recs : list record) : bool :=
  match recs with
  | [] => true
  | r :: t =>
      forallb (fun x => memz x seen) (rec_refs_at g r) &&
      preceded_from g (map fst (series_of_rec r) ++ seen) t
  end.

Definition preceded (g : Z) (recs : list record) : bool := preceded_from g [] recs.

(* metadata records: every entry is preceded by a series record of its ref *)
Fixpoint meta_preceded_from (seen : list ref) (recs : list record) : bool :=
  match recs with
  | [] => true
  | r :: t =>
      match r with RMetadata l => forallb (fun m => memz (fst m) seen) l | _ => true end &&
      meta_preceded_from (map fst (series_of_rec r) ++ seen) t
  end.

(* ------------------------------------------------------------------ agent (tsdb/agent/db.go) *)
(* db.deleted : ref -> lastSegment; series = refs in db.series *)
Definition agent_keep (series : list ref) (deleted : list (ref * Z)) (last : Z) (r : ref) : bool :=
  memz r series || match lookup r deleted with Some seg => last <? seg | None => false end.

Record agent := mkAgent {
  a_series : list ref;
  a_deleted : list (ref * Z);
  a_wal : wal
}.

(* DB.truncate(mint): gc(mint) marked `gone` (oracle) as deleted at the current last segment *)
Definition agent_truncate (a : agent) (mint : Z) (gone : list ref) : agent :=
  let w := a_wal a in
  let del := set_all gone (w_cur w) (a_deleted a) in
  let ser := filter (fun r => negb (memz r gone)) (a_series a) in
  let w1 := wal_next_segment w in
  match plan_last (w_first w) (w_cur w) with
  | None => mkAgent ser del w1
  | Some last =>
      let cp := checkpoint (agent_keep ser del last) mint (cp_input w1 last) in
      mkAgent ser (filter (fun e => last <? snd e) del) (wal_checkpointed w1 last cp)
  end.

(* a history of the agent DB: appended records, truncations (series that DB.gc marked deleted = oracle),
   segment rollover, and reopening (with db.series / db.deleted as observed after the replay) *)
Inductive aevent :=
| ALog (l : list (Z * record))
| ATruncate (mint : Z) (gone : list ref)
| ARoll
| ARestart (series : list ref) (deleted : list (ref * Z)).

(* agent DB.replayWAL / loadWAL: the checkpoint is loaded with currentSegmentOrCheckpoint = its index, then
   every segment above it with its own number.  First series record of a label set wins; a later one is a
   duplicate ref: db.deleted[ref] = current segment (if not already higher), and every float / histogram /
   float histogram sample of a duplicate ref moves that entry up to its segment.  Exemplars, tombstones are
   skipped.  db.deleted starts empty. *)
Record areplay := mkAR {
  ar_labs : list (lab * ref);      (* db.series by label set: the canonical ref *)
  ar_series : list ref;            (* db.series refs, in creation order *)
  ar_dup : list ref;               (* duplicateRefToValidRef keys *)
  ar_deleted : list (ref * Z)
}.

Definition ar_series_rec (cur : Z) (st : areplay) (s : ref * lab) : areplay :=
  match lookup (snd s) (ar_labs st) with
  | None => mkAR (upsert (snd s) (fst s) (ar_labs st)) (ar_series st ++ [fst s]) (ar_dup st) (ar_deleted st)
  | Some _ =>
      mkAR (ar_labs st) (ar_series st) (fst s :: ar_dup st)
           (match lookup (fst s) (ar_deleted st) with
            | Some seg => if seg <=? cur then upsert (fst s) cur (ar_deleted st) else ar_deleted st
            | None => if 0 <=? cur then upsert (fst s) cur (ar_deleted st) else ar_deleted st   (* zero value *)
            end)
  end.

Definition ar_sample (cur : Z) (st : areplay) (s : ref * Z * Z) : areplay :=
  let r := fst (fst s) in
  if memz r (ar_dup st) then
    match lookup r (ar_deleted st) with
    | Some seg => if seg <=? cur then mkAR (ar_labs st) (ar_series st) (ar_dup st) (upsert r cur (ar_deleted st)) else st
    | None => st
    end
  else st.

Definition ar_rec (st : areplay) (sr : Z * record) : areplay :=
  match snd sr with
  | RSeries l => fold_left (ar_series_rec (fst sr)) l st
  | RSamples _ l => fold_left (ar_sample (fst sr)) l st     (* float, histogram and float histogram alike *)
  | _ => st
  end.

Definition agent_replay (w : wal) : areplay :=
  fold_left ar_rec
    (map (fun r => (w_cpidx w, r)) (w_cp w) ++ filter (fun sr => w_cpidx w <? fst sr) (w_segs w))
    (mkAR [] [] [] []).

Definition astep (a : agent) (e : aevent) : agent :=
  match e with
  | ALog l => mkAgent (a_series a ++ flat_map (fun sr => map fst (series_of_rec (snd sr))) l) (a_deleted a)
                      (wal_log (a_wal a) l)
  | ATruncate mint gone => agent_truncate a mint gone
  | ARoll => mkAgent (a_series a) (a_deleted a) (wal_next_segment (a_wal a))
  | ARestart _ _ =>   (* the event carries what the implementation had after the reopen; agree compares *)
      let ar := agent_replay (a_wal a) in
      mkAgent (ar_series ar) (ar_deleted ar) (wal_next_segment (a_wal a))
  end.

Definition agent_empty : agent := mkAgent [] [] wal_empty.


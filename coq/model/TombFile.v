(* model/TombFile.v — executable model of the tombstone file codec (property C20, third
   sentence: "tombstone files read back exactly what was written").  Definitions only; proofs
   are in proof/TombFileProofs.v.  Transcribed from tsdb/tombstones/tombstones.go:

     WriteFile       BE32(MagicTombstone) | Encode(tr) | BE32(crc32c(Encode(tr)[1:]))
     Encode          byte(tombstoneFormatV1) | per Iter group, per interval:
                     PutUvarint64(ref) PutVarint64(mint) PutVarint64(maxt)
     ReadTombstones  len < 5 -> "tombstones header"; magic; checksum over d.Get()[1:] against the
                     last four bytes; Decode
     Decode          flag byte != 1 -> "invalid tombstone format"; loop while d.Len() > 0:
                     Uvarint64, Varint64, Varint64 (sticky ErrInvalidSize); AddInterval
     MemTombstones.AddInterval   intvlGroups[ref] = intvlGroups[ref].Add(itv)   (model/Intervals.v)

   The Go map ref -> Intervals is a list sorted by ref (the observation the harness compares is
   sorted the same way).  CRC-32C is a Section variable (oracle; the correspondence file
   instantiates it with the executable bitwise CRC-32C of model/BlockFmt.v).  A Go panic is RPanic:
   Intervals.Add on a non-canonical list, and `d.Get()[1:]` on an 8-byte file (magic + checksum,
   nothing in between).  The decode loop consumes at least three bytes per round; its fuel is the
   buffer length and RFuel is never returned for fuel >= length (proved). *)
From Coq Require Import List NArith ZArith Bool.
From Verif Require Import lib.Int64 lib.Bytes lib.Varint model.Intervals.
Import ListNotations.
Open Scope N_scope.

Inductive rerr := RHeader     (* "tombstones header: invalid size" (file shorter than 5 bytes) *)
                | RMagic      (* "invalid magic number" *)
                | RChecksum   (* "checksum did not match" *)
                | RFormat     (* "invalid tombstone format" *)
                | RSize       (* encoding.ErrInvalidSize inside Decode *)
                | RPanic      (* a Go run-time panic *)
                | RFuel.      (* model artefact *)
Inductive rres (A : Type) := ROk (a : A) | RErr (e : rerr).
Arguments ROk {A} a.
Arguments RErr {A} e.

Definition rerr_eqb (a b : rerr) : bool :=
  match a, b with
  | RHeader, RHeader | RMagic, RMagic | RChecksum, RChecksum | RFormat, RFormat
  | RSize, RSize | RPanic, RPanic | RFuel, RFuel => true
  | _, _ => false
  end.

(* one group of a tombstones.Reader: series ref (uint64) and its intervals *)
Definition stone := (N * list interval)%type.
(* MemTombstones.intvlGroups, sorted by ref *)
Definition smap := list stone.
(* one encoded entry *)
Definition triple := (N * Z * Z)%type.

Definition magic : N := 19970608.   (* 0x0130BA30 *)
Definition format_v1 : N := 1.

(* ---------------- Encode / WriteFile ---------------- *)
Definition enc_triple (t : triple) : list N :=
  let '(r, mi, ma) := t in put_uvarint r ++ put_varint mi ++ put_varint ma.

Definition flatten (stones : list stone) : list triple :=
  flat_map (fun s => map (fun iv => (fst s, imin iv, imax iv)) (snd s)) stones.

Definition encode_triples (ts : list triple) : list N := format_v1 :: flat_map enc_triple ts.
(* tombstones.Encode over a Reader iterating the groups in the order of [stones] *)
Definition encode (stones : list stone) : list N := encode_triples (flatten stones).

Section WithCRC.
Variable crc : list N -> N.    (* crc32.Checksum(_, castagnoliTable) *)
Definition sum32 (l : list N) : N := crc l mod 4294967296.   (* hash.Sum32 is a uint32 *)

Definition write_triples (ts : list triple) : list N :=
  let body := encode_triples ts in
  put_be32 magic ++ body ++ put_be32 (sum32 (tl body)).
Definition write_file (stones : list stone) : list N := write_triples (flatten stones).

(* ---------------- AddInterval ---------------- *)
Fixpoint add_interval (m : smap) (ref : N) (iv : interval) : rres smap :=
  match m with
  | [] => match Intervals.add [] iv with Intervals.Ok r => ROk [(ref, r)] | Intervals.Panic => RErr RPanic end
  | (r, ivs) :: t =>
      if ref <? r then
        match Intervals.add [] iv with Intervals.Ok g => ROk ((ref, g) :: m) | Intervals.Panic => RErr RPanic end
      else if ref =? r then
        match Intervals.add ivs iv with Intervals.Ok g => ROk ((r, g) :: t) | Intervals.Panic => RErr RPanic end
      else match add_interval t ref iv with ROk t' => ROk ((r, ivs) :: t') | RErr e => RErr e end
  end.

Fixpoint add_all (m : smap) (ts : list triple) : rres smap :=
  match ts with
  | [] => ROk m
  | (r, mi, ma) :: ts' =>
      match add_interval m r (mkI mi ma) with ROk m' => add_all m' ts' | RErr e => RErr e end
  end.

(* what reading back yields for the groups written in this order: every interval re-added
   through AddInterval -> Intervals.Add, i.e. the merged canonical form per ref *)
Definition canon (stones : list stone) : rres smap := add_all [] (flatten stones).

(* ---------------- Decode / ReadTombstones ---------------- *)
Fixpoint decode_loop (fuel : nat) (bs : list N) (m : smap) : rres smap :=
  match bs with
  | [] => ROk m
  | _ =>
      match fuel with
      | O => RErr RFuel
      | S f =>
          match d_uvarint64 bs with
          | Bytes.Err _ => RErr RSize
          | Bytes.Ok (k, r1) =>
              match d_varint64 r1 with
              | Bytes.Err _ => RErr RSize
              | Bytes.Ok (mint, r2) =>
                  match d_varint64 r2 with
                  | Bytes.Err _ => RErr RSize
                  | Bytes.Ok (maxt, r3) =>
                      match add_interval m k (mkI mint maxt) with
                      | ROk m' => decode_loop f r3 m'
                      | RErr e => RErr e
                      end
                  end
              end
          end
      end
  end.

(* tombstones.Decode *)
Definition decode (b : list N) : rres smap :=
  match b with
  | [] => RErr RFormat                       (* d.Byte() on an empty buffer returns 0 != 1 *)
  | flag :: body => if flag =? format_v1 then decode_loop (length body) body [] else RErr RFormat
  end.

(* the entries of a body in file order, WITHOUT the merging (used by the tie to recover the
   iteration order of a MemTombstones) *)
Fixpoint raw_loop (fuel : nat) (bs : list N) : option (list triple) :=
  match bs with
  | [] => Some []
  | _ =>
      match fuel with
      | O => None
      | S f =>
          match d_uvarint64 bs with
          | Bytes.Err _ => None
          | Bytes.Ok (k, r1) =>
              match d_varint64 r1 with
              | Bytes.Err _ => None
              | Bytes.Ok (mint, r2) =>
                  match d_varint64 r2 with
                  | Bytes.Err _ => None
                  | Bytes.Ok (maxt, r3) =>
                      match raw_loop f r3 with Some l => Some ((k, mint, maxt) :: l) | None => None end
                  end
              end
          end
      end
  end.

(* tombstones.ReadTombstones on the content of an existing file *)
Definition read_file (b : list N) : rres smap :=
  let n := length b in
  if Nat.ltb n 5 then RErr RHeader else
  let payload := firstn (n - 4) b in
  let sum := skipn (n - 4) b in
  match d_be32 payload with
  | Bytes.Err _ => RErr RMagic                (* Be32 failed: mg = 0 *)
  | Bytes.Ok (mg, rest) =>
      if negb (mg =? magic) then RErr RMagic else
      match rest with
      | [] => RErr RPanic                     (* d.Get()[tombstoneFormatVersionSize:] on an empty slice *)
      | _ :: body =>
          match be_take 4 0 sum with
          | Some (c, _) => if negb (c =? sum32 body) then RErr RChecksum else decode rest
          | None => RErr RPanic               (* unreachable: sum has four bytes *)
          end
      end
  end.

(* raw entries of a whole file (no checks but the framing) *)
Definition raw_of_file (b : list N) : option (list triple) :=
  let n := length b in
  let payload := firstn (n - 4) b in
  match payload with
  | _ :: _ :: _ :: _ :: _ :: body => raw_loop (length body) body
  | _ => None
  end.
End WithCRC.

(* ---------------- specification vocabulary ---------------- *)
Definition wf_stone (s : stone) : Prop := u64_ok (fst s) /\ Forall wf_iv (snd s).
Definition wf_stones (l : list stone) : Prop := Forall wf_stone l.

(* MemTombstones.Get *)
Fixpoint get (m : smap) (ref : N) : list interval :=
  match m with
  | [] => []
  | (r, ivs) :: t => if ref =? r then ivs else get t ref
  end.

(* the intervals written for ref, in file order *)
Definition ivs_of (ref : N) (ts : list triple) : list interval :=
  map (fun t => mkI (snd (fst t)) (snd t)) (filter (fun t => fst (fst t) =? ref) ts).

Fixpoint refs_incr (m : smap) : Prop :=
  match m with
  | [] => True
  | (r, _) :: t => match t with [] => True | (r', _) :: _ => r < r' end /\ refs_incr t
  end.

(* boolean helpers for the correspondence check *)
Definition stone_eqb (a b : stone) : bool := (fst a =? fst b) && ivs_eqb (snd a) (snd b).
Fixpoint smap_eqb (a b : smap) : bool :=
  match a, b with
  | [], [] => true
  | x :: a', y :: b' => stone_eqb x y && smap_eqb a' b'
  | _, _ => false
  end.

(* model/BlockFmt.v — the persistent block format (C24): executable model of
     tsdb/index/index.go      Writer.AddSymbol/finishSymbols, AddSeries, writePosting,
                              writePostingsOffsetTable, writeTOC;  newReader, NewTOCFromByteSlice,
                              NewSymbols/Lookup, ReadPostingsOffsetTable, Reader.Series,
                              Decoder.Series, DecodePostingsRaw, Reader.Postings/LabelValues/LabelNames
     tsdb/chunks/chunks.go    Writer.writeChunks (record layout), newReader (segment header),
                              Reader.ChunkOrIterable, BlockChunkRef.Unpack
     tsdb/encoding/encoding.go NewDecbufAt, NewDecbufUvarintAt (lib/Bytes.v, lib/Varint.v for the rest)
   Definitions only; proofs are in proof/BlockFmtProofs.v.

   Byte strings are [list N]; file offsets and lengths read from a file are [N] and are
   compared against the file length BEFORE they are converted to [nat] (a corrupted length
   may be 2^35).  CRC-32C is a Section variable (oracle).  Errors are a small enum; a Go
   run-time panic is [RPanic], an exhausted model fuel is [RFuel] (both excluded by the
   theorems, never used as a default value).

   Abstractions (stated, and covered by the tie only):
   * Symbols.Lookup re-decodes from every 32nd offset; the model indexes the list parsed at
     open time ([nth_error] guarded by the same bounds check `o >= seen`).
   * Reader.Postings / LabelValues walk the sampled in-memory offset table and re-parse the
     on-disk table from there; the model searches the fully parsed table.
   * only index format V2 (the one the Writer produces). *)
From Coq Require Import List NArith ZArith Bool Lia.
From Verif Require Import lib.Int64 lib.Bytes lib.Varint.
Import ListNotations.
Open Scope N_scope.

(* ---------------------------------------------------------------- results *)
Inductive rerr :=
| RSize      (* encoding.ErrInvalidSize / "segment doesn't include enough bytes" *)
| RCrc       (* encoding.ErrInvalidChecksum / "checksum mismatch" *)
| RVarint    (* "invalid uvarint" / "reading chunk length failed" *)
| RSym       (* "unknown symbol offset" / reverse symbol lookup failed *)
| REnc       (* "invalid chunk encoding" *)
| RRange     (* "segment index out of range" *)
| RMagic     (* bad magic number / version *)
| ROther     (* any other returned error *)
| RPanic     (* a Go run-time panic *)
| RFuel.     (* model artefact *)

Inductive rres (A : Type) := ROk (a : A) | RErr (e : rerr).
Arguments ROk {A} a.
Arguments RErr {A} e.

Definition rbind {A B} (r : rres A) (k : A -> rres B) : rres B :=
  match r with ROk a => k a | RErr e => RErr e end.

Declare Scope rres_scope.
Delimit Scope rres_scope with rres.
Notation "x <-- r ;; k" := (rbind r (fun x => k)) (at level 61, r at next level, right associativity) : rres_scope.
Notation "' p <-- r ;; k" := (rbind r (fun p => k)) (at level 61, p pattern, r at next level, right associativity) : rres_scope.

(* Decbuf errors are always ErrInvalidSize (or a slice panic for lengths >= 2^63) *)
Definition lift {A} (r : res A) : rres A :=
  match r with
  | Ok a => ROk a
  | Err ESize => RErr RSize
  | Err EPanic => RErr RPanic
  | Err EFuel => RErr RFuel
  | Err _ => RErr ROther
  end.

Definition rerr_eqb (a b : rerr) : bool :=
  match a, b with
  | RSize, RSize | RCrc, RCrc | RVarint, RVarint | RSym, RSym | REnc, REnc | RRange, RRange
  | RMagic, RMagic | ROther, ROther | RPanic, RPanic | RFuel, RFuel => true
  | _, _ => false
  end.

(* ---------------------------------------------------------------- byte strings *)
Notation bstr := (list N) (only parsing).
Definition blen {A} (bs : list A) : N := N.of_nat (length bs).
(* bs[start : start+len] — callers have checked start+len <= len(bs) *)
Definition sub (bs : list N) (start len : N) : list N :=
  firstn (N.to_nat len) (skipn (N.to_nat start) bs).

(* the fault of the property: byte [pos] replaced by [b] *)
Fixpoint alter (pos : nat) (b : N) (bs : list N) : list N :=
  match bs with
  | [] => []
  | x :: r => match pos with O => b :: r | S p => x :: alter p b r end
  end.

(* Go string comparison: bytewise lexicographic *)
Fixpoint bs_ltb (a b : bstr) : bool :=
  match a, b with
  | [], [] => false
  | [], _ :: _ => true
  | _ :: _, [] => false
  | x :: a', y :: b' => if x <? y then true else if y <? x then false else bs_ltb a' b'
  end.
Definition bs_leb (a b : bstr) : bool := negb (bs_ltb b a).

Definition be32_at (bs : list N) (off : N) : option N :=
  match be_take 4 0 (skipn (N.to_nat off) bs) with Some (x, _) => Some x | None => None end.

(* varint.Uvarint / binary.Uvarint on the 5 byte window bs[off:off+5]: (value, n), None when n <= 0 *)
Definition uvarint5 (bs : list N) (off : N) : option (N * N) :=
  match get_uvarint (sub bs off 5) with
  | Some (x, rest) => Some (x, 5 - blen rest)
  | None => None
  end.

(* ---------------------------------------------------------------- data *)
Notation lbl := (list N * list N)%type (only parsing).
Record cmeta := mkCM { cm_ref : N; cm_min : Z; cm_max : Z }.   (* chunks.Meta without the chunk *)
Record toc := mkTOC { t_symbols : N; t_series : N; t_lidx : N; t_lidxtab : N; t_postings : N; t_potab : N }.

Definition magicIndex : N := 3131758336.  (* 0xBAAAD700 *)
Definition magicChunks : N := 2243772637. (* 0x85BD40DD *)
Definition tocLen : N := 52.
Definition valid_enc (e : N) : bool := (1 <=? e) && (e <=? 6).   (* chunkenc pool.Get *)

Section WithCRC.
Variable crc : list N -> N.    (* crc32.Checksum(_, castagnoliTable) *)

(* ================================================================ encoding.NewDecbuf*At *)
(* NewDecbufUvarintAt(bs, off, castagnoliTable) then d.Get() *)
Definition decbuf_uvarint_at (bs : list N) (off : N) : rres (list N) :=
  let len := blen bs in
  if len <? off + 5 then RErr RSize else
  match uvarint5 bs off with
  | None => RErr RVarint
  | Some (l, n) =>
      if len <? off + n + l + 4 then RErr RSize else
      let b := sub bs (off + n) l in
      match be32_at bs (off + n + l) with
      | Some c => if crc b =? c then ROk b else RErr RCrc
      | None => RErr RPanic
      end
  end.

(* NewDecbufAt(bs, off, castagnoliTable) then d.Get() *)
Definition decbuf_at (bs : list N) (off : N) : rres (list N) :=
  let len := blen bs in
  if len <? off + 4 then RErr RSize else
  match be32_at bs off with
  | None => RErr RPanic
  | Some l =>
      if len <? off + 4 + l + 4 then RErr RSize else
      let b := sub bs (off + 4) l in
      match be32_at bs (off + 4 + l) with
      | Some c => if crc b =? c then ROk b else RErr RCrc
      | None => RErr RPanic
      end
  end.

(* ================================================================ series entries *)
(* ---- Writer.AddSeries, the part that produces bytes (buf2 before PutHash) *)
Definition enc_label_refs (l : list (N * N)) : list N :=
  flat_map (fun '(n, v) => put_uvarint n ++ put_uvarint v) l.

(* for _, c := range chunks[1:] { PutUvarint64(uint64(c.MinTime-t0)); PutUvarint64(uint64(c.MaxTime-c.MinTime));
                                  t0 = c.MaxTime; PutVarint64(int64(c.Ref)-ref0); ref0 = int64(c.Ref) } *)
Fixpoint enc_chunks_rest (t0 ref0 : Z) (l : list cmeta) : list N :=
  match l with
  | [] => []
  | c :: r =>
      put_uvarint (to_u64 (sub64 (cm_min c) t0)) ++
      put_uvarint (to_u64 (sub64 (cm_max c) (cm_min c))) ++
      put_varint (sub64 (to_i64 (cm_ref c)) ref0) ++
      enc_chunks_rest (cm_max c) (to_i64 (cm_ref c)) r
  end.

Definition enc_chunks (l : list cmeta) : list N :=
  put_uvarint (blen l) ++
  match l with
  | [] => []
  | c :: r =>
      put_varint (cm_min c) ++
      put_uvarint (to_u64 (sub64 (cm_max c) (cm_min c))) ++
      put_uvarint (cm_ref c) ++
      enc_chunks_rest (cm_max c) (to_i64 (cm_ref c)) r
  end.

Definition enc_series_content (lrefs : list (N * N)) (chks : list cmeta) : list N :=
  put_uvarint (blen lrefs) ++ enc_label_refs lrefs ++ enc_chunks chks.

(* buf1 = uvarint(len(buf2)); buf2.PutHash(crc32); write(buf1, buf2) *)
Definition frame_uvarint (content : list N) : list N :=
  put_uvarint (blen content) ++ content ++ put_be32 (crc content).

(* w.symbolCache[s] : position of s in the symbol table *)
Fixpoint sym_index (syms : list bstr) (s : bstr) : option N :=
  match syms with
  | [] => None
  | x :: r => if bytes_eqb x s then Some 0
              else match sym_index r s with Some i => Some (i + 1) | None => None end
  end.

Fixpoint label_refs (syms : list bstr) (ls : list lbl) : option (list (N * N)) :=
  match ls with
  | [] => Some []
  | (n, v) :: r =>
      match sym_index syms n, sym_index syms v, label_refs syms r with
      | Some i, Some j, Some t => Some ((i, j) :: t)
      | _, _, _ => None        (* "symbol entry for %q does not exist" *)
      end
  end.

(* the order checks of AddSeries on the chunk metas; lastRef = w.lastChunkRef *)
Fixpoint check_chunks (first : bool) (lastRef : N) (lastMaxT : Z) (l : list cmeta) : bool :=
  match l with
  | [] => true
  | c :: r =>
      negb (cm_ref c <? lastRef) &&
      (first || negb (cm_min c <=? lastMaxT)%Z) &&
      negb (cm_max c <? cm_min c)%Z &&
      check_chunks false (cm_ref c) (cm_max c) r
  end.

(* one whole entry as written to the index file (without padding) *)
Definition enc_series_entry (syms : list bstr) (ls : list lbl) (chks : list cmeta) : option (list N) :=
  match label_refs syms ls with
  | Some lr => Some (frame_uvarint (enc_series_content lr chks))
  | None => None
  end.

(* ---- Decoder.Series *)
Definition lookup_sym (syms : list bstr) (o : N) : rres bstr :=
  if blen syms <=? o then RErr RSym            (* int(o) >= s.seen *)
  else match nth_error syms (N.to_nat o) with Some s => ROk s | None => RErr RPanic end.

Section Dec.
Variable lookup : N -> rres bstr.

(* for i := 0; i < k; i++ { lno := uint32(d.Uvarint()); lvo := uint32(d.Uvarint()); if d.Err() ...;
                            ln := lookup(lno); lv := lookup(lvo); builder.Add(ln, lv) } *)
Fixpoint dec_labels (fuel : nat) (k : Z) (bs : list N) : rres (list lbl * list N) :=
  if (k <=? 0)%Z then ROk ([], bs) else
  match fuel with
  | O => RErr RFuel
  | S f =>
      match (lno <- d_uvarint32 ;; lvo <- d_uvarint32 ;; dret (lno, lvo))%dec bs with
      | Err e => lift (Err e)
      | Ok ((lno, lvo), r) =>
          (ln <-- lookup lno ;;
           lv <-- lookup lvo ;;
           '(t, r') <-- dec_labels f (k - 1) r ;;
           ROk ((ln, lv) :: t, r'))%rres
      end
  end.

(* for i := 1; i < k; i++ { mint := int64(d.Uvarint64()) + t0; maxt := int64(d.Uvarint64()) + mint;
                            ref0 += d.Varint64(); t0 = maxt; if d.Err() ...; append } *)
Fixpoint dec_chunks_rest (fuel : nat) (k : Z) (t0 ref0 : Z) (bs : list N) : rres (list cmeta) :=
  if (k <=? 0)%Z then ROk [] else
  match fuel with
  | O => RErr RFuel
  | S f =>
      match (a <- d_uvarint64 ;; b <- d_uvarint64 ;; c <- d_varint64 ;; dret (a, b, c))%dec bs with
      | Err e => lift (Err e)
      | Ok ((a, b, c), r) =>
          let mint := add64 (to_i64 a) t0 in
          let maxt := add64 (to_i64 b) mint in
          let ref := add64 ref0 c in
          (t <-- dec_chunks_rest f (k - 1) maxt ref r ;;
           ROk (mkCM (to_u64 ref) mint maxt :: t))%rres
      end
  end.

Definition dec_chunks (bs : list N) : rres (list cmeta) :=
  match d_uvarint_int bs with
  | Err e => lift (Err e)
  | Ok (k, r) =>
      if (k =? 0)%Z then ROk [] else
      match (t0 <- d_varint64 ;; d <- d_uvarint64 ;; ref <- d_uvarint64 ;; dret (t0, d, ref))%dec r with
      | Err e => lift (Err e)
      | Ok ((t0, d, ref), r') =>
          let maxt := add64 (to_i64 d) t0 in
          let ref0 := to_i64 ref in
          (t <-- dec_chunks_rest (S (length r')) (k - 1) maxt ref0 r' ;;
           ROk (mkCM (to_u64 ref0) t0 maxt :: t))%rres
      end
  end.

Definition dec_series (b : list N) : rres (list lbl * list cmeta) :=
  match d_uvarint_int b with
  | Err e => lift (Err e)
  | Ok (k, r) =>
      ('(ls, r') <-- dec_labels (S (length r)) k r ;;
       cs <-- dec_chunks r' ;;
       ROk (ls, cs))%rres
  end.
End Dec.

(* Reader.Series(id): offset = id*16 *)
Definition series_at (syms : list bstr) (bs : list N) (id : N) : rres (list lbl * list cmeta) :=
  (b <-- decbuf_uvarint_at bs (id * 16) ;; dec_series (lookup_sym syms) b)%rres.

(* ================================================================ symbols *)
(* Writer.AddSymbol x n, finishSymbols: "alenblen" patched to BE32(len) BE32(count), entries, crc *)
Fixpoint symbols_sortedb (last : option bstr) (l : list bstr) : bool :=
  match l with
  | [] => true
  | s :: r => (match last with None => true | Some p => bs_ltb p s end) && symbols_sortedb (Some s) r
  end.

Definition frame_be32 (content : list N) : list N :=
  put_be32 (blen content) ++ content ++ put_be32 (crc content).

Definition enc_symbols_content (l : list bstr) : list N :=
  put_be32 (blen l) ++ flat_map put_uvarint_bytes l.

(* None: AddSymbol returned "symbol out-of-order" *)
Definition enc_symbols (l : list bstr) : option (list N) :=
  if symbols_sortedb None l then Some (frame_be32 (enc_symbols_content l)) else None.

(* NewSymbols: for d.Err() == nil && s.seen < cnt { d.UvarintBytes(); seen++ } *)
Fixpoint dec_symbols_loop (fuel : nat) (cnt : N) (bs : list N) : rres (list bstr) :=
  if cnt =? 0 then ROk [] else
  match fuel with
  | O => RErr RFuel
  | S f =>
      match d_uvarint_bytes bs with
      | Err e => lift (Err e)
      | Ok (s, r) => (t <-- dec_symbols_loop f (cnt - 1) r ;; ROk (s :: t))%rres
      end
  end.

Definition dec_symbols (b : list N) : rres (list bstr) :=
  match d_be32 b with
  | Err e => lift (Err e)
  | Ok (cnt, r) => dec_symbols_loop (S (length r)) cnt r
  end.

Definition read_symbols (bs : list N) (off : N) : rres (list bstr) :=
  (b <-- decbuf_at bs off ;; dec_symbols b)%rres.

(* ================================================================ postings *)
(* EncodePostingsRaw + writePosting: BE32(len) | BE32(n) | n x BE32 | crc *)
Definition enc_postings_content (refs : list N) : list N :=
  put_be32 (blen refs) ++ flat_map put_be32 refs.
Definition enc_postings (refs : list N) : list N := frame_be32 (enc_postings_content refs).

(* DecodePostingsRaw: n := d.Be32int(); l := d.Get(); if len(l) != 4*n -> error; then the
   bigEndianPostings iterator yields the BE32 values *)
Definition dec_postings (b : list N) : rres (list N) :=
  match d_be32 b with
  | Err e => lift (Err e)
  | Ok (n, r) =>
      if negb (blen r =? 4 * n) then RErr ROther else
      match drepeat (N.to_nat n) d_be32 r with
      | Ok (l, _) => ROk l
      | Err e => lift (Err e)
      end
  end.

Definition postings_at (bs : list N) (off : N) : rres (list N) :=
  (b <-- decbuf_at bs off ;; dec_postings b)%rres.

(* ---- postings offset table: BE32(len) | BE32(cnt) | cnt x (uvarint 2, name, value, uvarint64 off) | crc *)
Definition enc_po_entry (e : bstr * bstr * N) : list N :=
  let '(n, v, off) := e in put_uvarint 2 ++ put_uvarint_bytes n ++ put_uvarint_bytes v ++ put_uvarint off.
Definition enc_po_table (l : list (bstr * bstr * N)) : list N :=
  frame_be32 (put_be32 (blen l) ++ flat_map enc_po_entry l).

(* ReadPostingsOffsetTable: for d.Err() == nil && d.Len() > 0 && cnt > 0 *)
Fixpoint dec_po_loop (fuel : nat) (cnt : N) (bs : list N) : rres (list (bstr * bstr * N)) :=
  if (cnt =? 0) || (blen bs =? 0) then ROk [] else
  match fuel with
  | O => RErr RFuel
  | S f =>
      match d_uvarint_int bs with
      | Err e => lift (Err e)
      | Ok (kc, r) =>
          if negb (kc =? 2)%Z then RErr ROther else
          match (n <- d_uvarint_bytes ;; v <- d_uvarint_bytes ;; o <- d_uvarint64 ;; dret (n, v, o))%dec r with
          | Err e => lift (Err e)
          | Ok (e, r') => (t <-- dec_po_loop f (cnt - 1) r' ;; ROk (e :: t))%rres
          end
      end
  end.

Definition read_po_table (bs : list N) (off : N) : rres (list (bstr * bstr * N)) :=
  (b <-- decbuf_at bs off ;;
   match d_be32 b with
   | Err e => lift (Err e)
   | Ok (cnt, r) => dec_po_loop (S (length r)) cnt r
   end)%rres.

(* ================================================================ TOC and open *)
Definition enc_toc (t : toc) : list N :=
  let c := put_be64 (t_symbols t) ++ put_be64 (t_series t) ++ put_be64 (t_lidx t) ++
           put_be64 (t_lidxtab t) ++ put_be64 (t_postings t) ++ put_be64 (t_potab t) in
  c ++ put_be32 (crc c).

(* NewTOCFromByteSlice *)
Definition read_toc (bs : list N) : rres toc :=
  let len := blen bs in
  if len <? tocLen then RErr RSize else
  let b := sub bs (len - tocLen) 48 in
  match be32_at bs (len - 4) with
  | None => RErr RPanic
  | Some c =>
      if negb (crc b =? c) then RErr RCrc else
      match (a <- d_be64 ;; b1 <- d_be64 ;; c1 <- d_be64 ;; d1 <- d_be64 ;; e1 <- d_be64 ;; f1 <- d_be64 ;;
             dret (mkTOC a b1 c1 d1 e1 f1))%dec b with
      | Ok (t, _) => ROk t
      | Err e => lift (Err e)
      end
  end.

Fixpoint bs_mem (s : bstr) (l : list bstr) : bool :=
  match l with [] => false | x :: r => bytes_eqb x s || bs_mem s r end.

(* distinct names in order of first appearance *)
Fixpoint po_names (seen : list bstr) (l : list (bstr * bstr * N)) : list bstr :=
  match l with
  | [] => []
  | (n, _, _) :: r => if bs_mem n seen then po_names seen r else n :: po_names (n :: seen) r
  end.

Record ireader := mkIR { ir_bytes : list N; ir_toc : toc; ir_syms : list bstr; ir_po : list (bstr * bstr * N) }.

(* index.newReader (format V2) *)
Definition open_index (bs : list N) : rres ireader :=
  if blen bs <? 5 then RErr RSize else
  match be32_at bs 0 with
  | None => RErr RPanic
  | Some m =>
      if negb (m =? magicIndex) then RErr RMagic else
      if negb (nth 4 bs 0 =? 2) then RErr RMagic else
      (t <-- read_toc bs ;;
       syms <-- read_symbols bs (t_symbols t) ;;
       po <-- read_po_table bs (t_potab t) ;;
       (* nameSymbols: ReverseLookup of every label name except "" *)
       if forallb (fun n => match n with [] => true | _ => bs_mem n syms end) (po_names [] po)
       then ROk (mkIR bs t syms po) else RErr RSym)%rres
  end.

Definition ir_series (r : ireader) (id : N) := series_at (ir_syms r) (ir_bytes r) id.

Fixpoint po_find (l : list (bstr * bstr * N)) (n v : bstr) : option N :=
  match l with
  | [] => None
  | (n', v', o) :: r => if bytes_eqb n' n && bytes_eqb v' v then Some o else po_find r n v
  end.

(* Reader.Postings(name, value) for one value: unknown pair = empty postings *)
Definition ir_postings (r : ireader) (n v : bstr) : rres (list N) :=
  match po_find (ir_po r) n v with
  | None => ROk []
  | Some o => postings_at (ir_bytes r) o
  end.

(* Reader.LabelValues(name) *)
Definition ir_label_values (r : ireader) (n : bstr) : list bstr :=
  map (fun '(_, v, _) => v) (filter (fun '(n', _, _) => bytes_eqb n' n) (ir_po r)).

(* Reader.LabelNames(): sorted names of the table, without "" *)
Fixpoint insert_sorted (s : bstr) (l : list bstr) : list bstr :=
  match l with
  | [] => [s]
  | x :: r => if bs_ltb s x then s :: l else x :: insert_sorted s r
  end.
Definition ir_label_names (r : ireader) : list bstr :=
  fold_right insert_sorted [] (filter (fun n => match n with [] => false | _ => true end) (po_names [] (ir_po r))).

(* Decoder.LabelNamesOffsetsFor: k := d.Uvarint(); for i := range k { offsets[i] = uint32(d.Uvarint());
   _ = d.Uvarint(); if d.Err() != nil { return err } } *)
Fixpoint dec_name_refs (fuel : nat) (k : Z) (bs : list N) : rres (list N) :=
  if (k <=? 0)%Z then ROk [] else
  match fuel with
  | O => RErr RFuel
  | S f =>
      match (lno <- d_uvarint32 ;; _ <- d_uvarint64 ;; dret lno)%dec bs with
      | Err e => lift (Err e)
      | Ok (lno, r) => (t <-- dec_name_refs f (k - 1) r ;; ROk (lno :: t))%rres
      end
  end.

Fixpoint names_of_refs (syms : list bstr) (refs : list N) (acc : list bstr) : rres (list bstr) :=
  match refs with
  | [] => ROk acc
  | o :: r => (s <-- lookup_sym syms o ;;
               names_of_refs syms r (if bs_mem s acc then acc else insert_sorted s acc))%rres
  end.

(* Reader.LabelNamesFor(postings): `for postings.Next() { ... }` over the series ids, then the
   distinct names, sorted.  The iterator's error is NEVER consulted (there is no postings.Err()
   call in the function): a postings iterator that fails — e.g. the lazily reported checksum
   error of PostingsForLabelMatching — is indistinguishable from one that is exhausted.  The
   argument is therefore (ids delivered before the failure, error or not). *)
Definition label_names_for (r : ireader) (delivered : list N) (failed : option rerr) : rres (list bstr) :=
  (refs <-- (fix go (ids : list N) : rres (list N) :=
               match ids with
               | [] => ROk []
               | id :: rest =>
                   (b <-- decbuf_uvarint_at (ir_bytes r) (id * 16) ;;
                    match d_uvarint_int b with
                    | Err e => lift (Err e)
                    | Ok (k, b') =>
                        (l <-- dec_name_refs (S (length b')) k b' ;;
                         t <-- go rest ;; ROk (l ++ t))%rres
                    end)%rres
               end) delivered ;;
   names_of_refs (ir_syms r) refs [])%rres.

(* ================================================================ chunk segments *)
(* Writer.writeChunks: uvarint(len(data)) | enc | data | crc32(enc|data) *)
Definition enc_chunk_record (enc : N) (data : list N) : list N :=
  put_uvarint (blen data) ++ enc :: data ++ put_be32 (crc (enc :: data)).

Definition seg_header : list N := put_be32 magicChunks ++ [1; 0; 0; 0].

(* chunks.newReader: header check of every segment *)
Definition check_seg (b : list N) : rres unit :=
  if blen b <? 8 then RErr RSize else
  match be32_at b 0 with
  | None => RErr RPanic
  | Some m => if negb (m =? magicChunks) then RErr RMagic
              else if negb (nth 4 b 0 =? 1) then RErr RMagic else ROk tt
  end.

Fixpoint open_segs (segs : list (list N)) : rres unit :=
  match segs with
  | [] => ROk tt
  | b :: r => (_ <-- check_seg b ;; open_segs r)%rres
  end.

(* Reader.ChunkOrIterable on one segment *)
Definition chunk_at (seg : list N) (start : N) : rres (N * list N) :=
  let len := blen seg in
  if len <? start + 5 then RErr RSize else
  match uvarint5 seg start with
  | None => RErr RVarint
  | Some (l, n) =>
      let encStart := start + n in
      let chkEnd := encStart + 1 + l + 4 in
      if len <? chkEnd then RErr RSize else
      let body := sub seg encStart (1 + l) in
      match be32_at seg (encStart + 1 + l) with
      | None => RErr RPanic
      | Some c =>
          if negb (crc body =? c) then RErr RCrc else
          match body with
          | [] => RErr RPanic
          | enc :: data => if valid_enc enc then ROk (enc, data) else RErr REnc
          end
      end
  end.

(* BlockChunkRef.Unpack and segment selection *)
Definition chunk_of (segs : list (list N)) (ref : N) : rres (N * list N) :=
  let sgm := ref / 4294967296 in
  let start := ref mod 4294967296 in
  if blen segs <=? sgm then RErr RRange else
  match nth_error segs (N.to_nat sgm) with
  | Some seg => chunk_at seg start
  | None => RErr RPanic
  end.

End WithCRC.

(* ================================================================ CRC-32C, executable *)
(* reflected Castagnoli polynomial 0x82F63B78; used by corr/CorrC24.v to instantiate the
   oracle on concrete bytes.  The theorems never unfold it. *)
Definition crc_poly : N := 2197175160.
Fixpoint crc_bit (n : nat) (c : N) : N :=
  match n with
  | O => c
  | S k => crc_bit k (if N.odd c then N.lxor (N.shiftr c 1) crc_poly else N.shiftr c 1)
  end.
Definition crc_step (c b : N) : N := crc_bit 8 (N.lxor c b).
Definition crc32c (l : list N) : N := N.lxor (fold_left crc_step l 4294967295) 4294967295.

(* model/Retention.v — executable model of block retention in tsdb/db.go:
   deletableBlocks, BeyondTimeRetention, BeyondSizeRetention, reloadBlocks (block selection
   and directory effects), deleteBlocks (which directories disappear).
   Definitions only; proofs are in proof/RetentionProofs.v.

   Go's slices.SortFunc is unstable, so the model never sorts on behalf of the code: every
   function takes the slice *as the code ordered it* (`order`), and the theorems quantify over
   every descending-MaxTime permutation of the input.  `sort_desc` (a stable insertion sort) and
   `all_orders` exist for non-vacuity and for the runs where the order cannot be observed. *)
From Coq Require Import List ZArith Bool.
From Verif Require Import lib.Int64.
Import ListNotations.
Open Scope Z_scope.

(* a persisted block as retention sees it: BlockMeta.{ULID,MinTime,MaxTime,Compaction.Deletable,
   Compaction.Parents} and Block.Size().  ULIDs are abstract integers. *)
Record block := mkB {
  b_id : Z; b_mint : Z; b_maxt : Z; b_size : Z; b_del : bool; b_parents : list Z }.

(* Options.RetentionDuration, Options.MaxBytes, Options.MaxPercentage = c_pnum * 2^c_pexp
   (the float64 value, significand and binary exponent), fsSizeFunc(dir),
   Head().Size() (WAL + WBL + head chunk files). *)
Record cfg := mkCfg {
  c_dur : Z; c_maxb : Z; c_pnum : Z; c_pexp : Z; c_disk : Z; c_head : Z }.

Definition memZ (x : Z) (l : list Z) : bool := existsb (Z.eqb x) l.

(* first suffix whose head satisfies p  (the `for i ... { if cond { blocks[i:] ...; break } }` shape) *)
Fixpoint drop_until {A} (p : A -> bool) (l : list A) : list A :=
  match l with
  | [] => []
  | x :: r => if p x then l else drop_until p r
  end.

(* BeyondTimeRetention: blocks is the sorted slice.  `i > 0 &&` skips blocks[0]; the
   subtraction is int64. *)
Definition beyond_time (c : cfg) (bs : list block) : list Z :=
  match bs with
  | [] => []
  | b0 :: rest =>
      if c_dur c =? 0 then []
      else map b_id (drop_until (fun b => c_dur c <=? sub64 (b_maxt b0) (b_maxt b)) rest)
  end.

(* float64 arithmetic of `int64(float64(diskSize) * maxPercentage / 100)`, step by step:
   rn53 n d = the positive rational n/d rounded to nearest-even on a 53-bit significand, as
   (m, e) with value m * 2^e (normal range only; the values here are far from under/overflow) *)
Definition scale_q (n d e : Z) : Z * Z := if 0 <=? e then (n, d * 2 ^ e) else (n * 2 ^ (- e), d).
Definition rn53 (n d : Z) : Z * Z :=
  if (n <=? 0) || (d <=? 0) then (0, 0) else
  let L := Z.log2 n - Z.log2 d in
  let e1 := L - 52 in
  let '(N1, D1) := scale_q n d e1 in
  let e := if 2 ^ 52 <=? N1 / D1 then e1 else e1 - 1 in
  let '(N, D) := scale_q n d e in
  let fl := N / D in let r := N mod D in
  let m := if (D <? 2 * r) || ((D =? 2 * r) && Z.odd fl) then fl + 1 else fl in
  (m, e).

(* disk > 0, percentage = pm * 2^pe > 0 (pm the 53-bit significand of the float64 option) *)
Definition pct_to_bytes (disk pm pe : Z) : Z :=
  let '(m1, e1) := rn53 disk 1 in                       (* float64(diskSize) *)
  let '(m2, e2) := let e := e1 + pe in                  (* ... * maxPercentage *)
                   if 0 <=? e then rn53 (m1 * pm * 2 ^ e) 1 else rn53 (m1 * pm) (2 ^ (- e)) in
  let '(m3, e3) := if 0 <=? e2 then rn53 (m2 * 2 ^ e2) 100
                   else rn53 m2 (100 * 2 ^ (- e2)) in   (* ... / 100 *)
  if 0 <=? e3 then m3 * 2 ^ e3 else m3 / 2 ^ (- e3).    (* int64(...) truncates; value < 2^63 *)

Definition eff_max_bytes (c : cfg) : Z :=
  if 0 <? c_pnum c then
    if c_disk c <=? 0 then c_maxb c else pct_to_bytes (c_disk c) (c_pnum c) (c_pexp c)
  else c_maxb c.

Fixpoint size_scan (maxb acc : Z) (bs : list block) : list block :=
  match bs with
  | [] => []
  | b :: r => let acc' := add64 acc (b_size b) in
              if maxb <? acc' then bs else size_scan maxb acc' r
  end.

(* BeyondSizeRetention *)
Definition beyond_size (c : cfg) (bs : list block) : list Z :=
  match bs with
  | [] => []
  | _ => let m := eff_max_bytes c in
         if m <=? 0 then [] else map b_id (size_scan m (c_head c) bs)
  end.

(* deletableBlocks after its sort: a set of ULIDs, represented as a list (duplicates possible) *)
Definition deletable_ids (c : cfg) (order : list block) : list Z :=
  map b_id (filter b_del order) ++ beyond_time c order ++ beyond_size c order.

(* helpers shared by the specification side *)
Definition newest (bs : list block) : Z := fold_right (fun b m => Z.max (b_maxt b) m) minInt64 bs.
Definition oldest (bs : list block) : Z := fold_right (fun b m => Z.min (b_maxt b) m) maxInt64 bs.
Definition sum_sizes (bs : list block) : Z := fold_right (fun b s => b_size b + s) 0 bs.

(* ---- what the sort must have produced ---- *)
Fixpoint sorted_desc (bs : list block) : bool :=
  match bs with
  | [] => true
  | b :: r => match r with
              | [] => true
              | b' :: _ => (b_maxt b' <=? b_maxt b) && sorted_desc r
              end
  end.

Fixpoint list_Z_eqb (a b : list Z) : bool :=
  match a, b with
  | [], [] => true
  | x :: a', y :: b' => (x =? y) && list_Z_eqb a' b'
  | _, _ => false
  end.

Definition block_eqb (a b : block) : bool :=
  (b_id a =? b_id b) && (b_mint a =? b_mint b) && (b_maxt a =? b_maxt b) &&
  (b_size a =? b_size b) && Bool.eqb (b_del a) (b_del b) && list_Z_eqb (b_parents a) (b_parents b).

Fixpoint nodupZ (l : list Z) : bool :=
  match l with [] => true | x :: r => negb (memZ x r) && nodupZ r end.

(* o is a rearrangement of bs (ids distinct) *)
Definition permb (o bs : list block) : bool :=
  (Z.of_nat (length o) =? Z.of_nat (length bs)) && nodupZ (map b_id o) &&
  forallb (fun b => existsb (block_eqb b) bs) o.

Definition valid_order (o bs : list block) : bool := permb o bs && sorted_desc o.

(* one valid order: stable insertion sort, newest first *)
Fixpoint insert_desc (b : block) (l : list block) : list block :=
  match l with
  | [] => [b]
  | x :: r => if b_maxt x <? b_maxt b then b :: l else x :: insert_desc b r
  end.
Definition sort_desc (bs : list block) : list block := fold_right insert_desc [] bs.

(* all valid orders: every arrangement of every group of equal MaxTime *)
Fixpoint inserts {A} (x : A) (l : list A) : list (list A) :=
  match l with
  | [] => [[x]]
  | y :: r => (x :: l) :: map (cons y) (inserts x r)
  end.
Fixpoint perms {A} (l : list A) : list (list A) :=
  match l with [] => [[]] | x :: r => flat_map (inserts x) (perms r) end.
Fixpoint group_by_maxt (bs : list block) : list (list block) :=
  match bs with
  | [] => []
  | b :: r => match group_by_maxt r with
              | (x :: g) :: gs => if b_maxt x =? b_maxt b then (b :: x :: g) :: gs
                                  else [b] :: (x :: g) :: gs
              | _ => [[b]]
              end
  end.
Fixpoint product (gs : list (list (list block))) : list (list block) :=
  match gs with
  | [] => [[]]
  | g :: r => flat_map (fun p => map (app p) (product r)) g
  end.
Definition all_orders (bs : list block) : list (list block) :=
  product (map perms (group_by_maxt (sort_desc bs))).

(* ---- reloadBlocks ---- *)
(* one directory entry of db.dir whose name is a ULID: d_metaok = readMetaFile succeeded
   (otherwise openBlocks skips it silently; then only b_id of d_blk is meaningful),
   d_openok = the block is already loaded or OpenBlock succeeded (otherwise "corrupted") *)
Record dentry := mkD { d_blk : block; d_metaok : bool; d_openok : bool }.

Definition d_id (d : dentry) : Z := b_id (d_blk d).

Definition loadable (disk : list dentry) : list block :=
  map d_blk (filter d_openok (filter d_metaok disk)).
Definition corrupted (disk : list dentry) : list Z :=
  map d_id (filter (fun d => negb (d_openok d)) (filter d_metaok disk)).
Definition parents_of (bs : list block) : list Z := flat_map b_parents bs.

Inductive rres :=
| RErr (bad : list Z)                       (* corrupted blocks with no loaded child: nothing changes *)
| ROk (loaded : list block) (dirs : list Z) (* db.blocks (sorted by MinTime), remaining directories *).

Fixpoint insert_mint (b : block) (l : list block) : list block :=
  match l with
  | [] => [b]
  | x :: r => if b_mint b <? b_mint x then b :: l else x :: insert_mint b r
  end.
Definition sort_mint (bs : list block) : list block := fold_right insert_mint [] bs.

(* every ULID in the `deletable` map of reloadBlocks *)
Definition reload_deletable (c : cfg) (disk : list dentry) (order : list block) : list Z :=
  let ld := loadable disk in
  let del := deletable_ids c order in
  filter (fun i => memZ i del) (map b_id ld) ++ parents_of ld.

(* `order` = loadable as sorted by deletableBlocks (db.blocksToDelete sorts its argument in place) *)
Definition reload (c : cfg) (disk : list dentry) (order : list block) : rres :=
  let ld := loadable disk in
  let deletable := reload_deletable c disk order in
  match filter (fun i => negb (memZ i (parents_of ld))) (corrupted disk) with
  | x :: r => RErr (x :: r)
  | [] =>
      ROk (sort_mint (filter (fun b => negb (memZ (b_id b) deletable)) ld))
          (filter (fun i => negb (memZ i deletable)) (map d_id disk))
  end.

(* ---- state of the database as far as retention is concerned; the head is opaque ---- *)
Record dbstate (H : Type) := mkS { s_head : H; s_blocks : list block; s_disk : list dentry }.
Arguments mkS {H}. Arguments s_head {H}. Arguments s_blocks {H}. Arguments s_disk {H}.

Definition reload_state {H} (c : cfg) (order : list block) (s : dbstate H) : dbstate H :=
  match reload c (s_disk s) order with
  | RErr _ => s
  | ROk l dirs => mkS (s_head s) l (filter (fun d => memZ (d_id d) dirs) (s_disk s))
  end.

(* model/PromqlRange.v — executable model of the range-query layer of the PromQL engine (C27).

   Transcribed from /repo:
     storage/buffer.go            BufferedSeriesIterator (Reset, Seek, Next, ReduceDelta) and the
                                  sampleRing add / reduceDelta trimming           -> bit, b_*
     storage/memoized_iterator.go MemoizedSeriesIterator (Reset, Seek, Next, PeekPrev) -> mit, m_*
     promql/engine.go             matrixIterSlice (float path)                    -> mis
                                  eval / *parser.Call with a matrix argument: the per-series
                                  step loop with window reuse and ReduceDelta     -> range_loop
                                  vectorSelectorSingle                            -> vss
                                  evalSeries (the per-series step loop)           -> sel_loop
                                  subqueryTimeRange                               -> sub_start, num_steps
                                  PreprocessExpr / preprocessExprHelper (tree as of
                                  "fix: promql: aggregation parameters are not
                                  preprocessed": an aggregation with a parameter is a
                                  two-argument node)                               -> preprocess
                                  eval (expression layer, dense per-step form)    -> eval_range
   and the direct ("fresh at every step") semantics  window_spec / select_spec / eval_instant.

   Definitions only; the proofs are in proof/PromqlRangeProofs.v.

   Conventions.  A series is a list of samples ordered by timestamp; the underlying
   chunkenc.Iterator is the remaining list whose head is the current element ([] = ValNone);
   its Seek(t) is "drop while T < t" (listSeriesIterator: no-op when the current element is
   already >= t, binary search otherwise — the same on a sorted list).  lastTime = MinInt64 is
   None.  Values are opaque 64-bit payloads (float64 bit patterns); the only value the engine
   looks at in this layer is the staleness marker.  Histogram samples are not modelled. *)
From Coq Require Import List ZArith Bool.
Import ListNotations.
Open Scope Z_scope.

Record sample := mkS { sT : Z; sV : Z }.

(* value.StaleNaN = 0x7ff0000000000002 *)
Definition STALE : Z := 9218868437227405314.
Definition is_stale (p : sample) : bool := sV p =? STALE.

Fixpoint drop_while (f : sample -> bool) (l : list sample) : list sample :=
  match l with
  | [] => []
  | x :: r => if f x then drop_while f r else l
  end.

Fixpoint take_while (f : sample -> bool) (l : list sample) : list sample :=
  match l with
  | [] => []
  | x :: r => if f x then x :: take_while f r else []
  end.

Fixpoint last_opt (l : list sample) : option sample :=
  match l with
  | [] => None
  | [x] => Some x
  | _ :: r => last_opt r
  end.

(* ---------------------------------------------------------------------------------------- *)
(* The direct semantics: what a fresh evaluation at one time selects.                        *)

(* range-vector window (mint, maxt], staleness markers removed *)
Definition in_window (mint maxt : Z) (p : sample) : bool :=
  (mint <? sT p) && (sT p <=? maxt) && negb (is_stale p).
Definition window_spec (s : list sample) (mint maxt : Z) : list sample :=
  filter (in_window mint maxt) s.

(* instant-vector selection: the latest sample at or before ref, if it is newer than
   ref - lookback and not a staleness marker *)
Definition select_spec (lookback : Z) (s : list sample) (ref : Z) : option sample :=
  match last_opt (filter (fun p => sT p <=? ref) s) with
  | Some p => if (ref - lookback <? sT p) && negb (is_stale p) then Some p else None
  | None => None
  end.

(* ---------------------------------------------------------------------------------------- *)
(* storage.BufferedSeriesIterator                                                            *)

Record bit := mkB {
  b_rest : list sample;      (* underlying iterator: head = current element, [] = ValNone *)
  b_buf : list sample;       (* logical content of the sampleRing, oldest first *)
  b_delta : Z;               (* buf.delta (may have been lowered by ReduceDelta) *)
  b_last : option Z          (* lastTime; None = math.MinInt64 *)
}.

(* NewBuffer(delta) followed by Reset(series iterator): buf.reset, buf.delta = delta,
   lastTime = MinInt64, valueType = it.Next() *)
Definition b_reset (s : list sample) (delta : Z) : bit := mkB s [] delta None.

(* sampleRing.addF: append, then free the head of the buffer of samples that fell out of
   [s.T - delta, ...] *)
Definition ring_add (delta : Z) (buf : list sample) (x : sample) : list sample :=
  drop_while (fun p => sT p <? sT x - delta) (buf ++ [x]).

(* sampleRing.reduceDelta *)
Definition b_reduce (delta : Z) (st : bit) : bit :=
  if delta >? b_delta st then st
  else match last_opt (b_buf st) with
       | None => mkB (b_rest st) (b_buf st) delta (b_last st)
       | Some l => mkB (b_rest st) (drop_while (fun p => sT p <? sT l - delta) (b_buf st)) delta (b_last st)
       end.

(* the loop of Seek: "for { if valueType = Next(); valueType == ValNone || lastTime >= t
   { return } }" with Next inlined *)
Fixpoint b_adv (t : Z) (rest buf : list sample) (delta : Z) (last : option Z) : bit :=
  match rest with
  | [] => mkB [] buf delta last
  | x :: r =>
      let buf' := ring_add delta buf x in
      match r with
      | [] => mkB [] buf' delta last
      | y :: _ => if sT y >=? t then mkB r buf' delta (Some (sT y))
                  else b_adv t r buf' delta (Some (sT y))
      end
  end.

Definition opt_ge (last : option Z) (t : Z) : bool :=
  match last with Some l => l >=? t | None => false end.
Definition opt_lt (last : option Z) (t0 : Z) : bool :=
  match last with Some l => t0 >? l | None => true end.

Definition b_seek (t : Z) (st : bit) : bit :=
  let t0 := t - b_delta st in
  let jump := match b_rest st with [] => false | _ :: _ => opt_lt (b_last st) t0 end in
  if jump then
    match drop_while (fun p => sT p <? t0) (b_rest st) with
    | [] => mkB [] [] (b_delta st) (b_last st)            (* it.Seek(t0) == ValNone: return *)
    | (y :: _) as r' =>
        if sT y >=? t then mkB r' [] (b_delta st) (Some (sT y))
        else b_adv t r' [] (b_delta st) (Some (sT y))
    end
  else if opt_ge (b_last st) t then st
  else b_adv t (b_rest st) (b_buf st) (b_delta st) (b_last st).

(* ---------------------------------------------------------------------------------------- *)
(* evaluator.matrixIterSlice, float samples                                                  *)

Definition mis (st : bit) (mint maxt : Z) (floats : list sample) : bit * list sample :=
  let '(fl, mintF) :=
    match last_opt floats with
    | Some l => if sT l >? mint
                then (drop_while (fun p => sT p <=? mint) floats, sT l)   (* retain the overlap *)
                else ([], mint)
    | None => ([], mint)
    end in
  if mint =? maxt then (st, fl)
  else
    let st' := b_seek maxt st in
    let from_buf := filter (fun p => negb (is_stale p) && (sT p >? mintF)) (b_buf st') in
    let sought := match b_rest st' with
                  | x :: _ => if (sT x =? maxt) && negb (is_stale x) then [x] else []
                  | [] => []
                  end in
    (st', fl ++ from_buf ++ sought).

(* The step loop of eval/*parser.Call for one series: n steps from ts, the window (floats)
   and the buffered iterator carried from step to step; an empty window skips ReduceDelta
   ("continue").  With an @ modifier (refetch = false after the first step) the first window
   is reused. *)
Fixpoint range_loop (range offset interval step_range : Z) (refetch : bool) (first : bool)
    (n : nat) (ts : Z) (st : bit) (floats : list sample) : list (list sample) :=
  match n with
  | O => []
  | S n' =>
      let maxt := ts - offset in
      let mint := maxt - range in
      let '(st', fl) := if first || refetch then mis st mint maxt floats else (st, floats) in
      let st'' := match fl with [] => st' | _ :: _ => b_reduce step_range st' end in
      fl :: range_loop range offset interval step_range refetch false n' (ts + interval) st'' fl
  end.

Definition range_windows (s : list sample) (range offset interval : Z) (refetch : bool)
    (n : nat) (start : Z) : list (list sample) :=
  range_loop range offset interval (Z.min range interval) refetch true n start (b_reset s range) [].

(* ---------------------------------------------------------------------------------------- *)
(* storage.MemoizedSeriesIterator and evaluator.vectorSelectorSingle                         *)

Record mit := mkM {
  m_rest : list sample;
  m_last : option Z;
  m_prev : option sample      (* prevTime == MinInt64 is None *)
}.

Definition m_reset (s : list sample) : mit := mkM s None None.

Fixpoint m_adv (t : Z) (rest : list sample) (last : option Z) (prev : option sample) : mit :=
  match rest with
  | [] => mkM [] last prev
  | x :: r =>
      match r with
      | [] => mkM [] last (Some x)
      | y :: _ => if sT y >=? t then mkM r (Some (sT y)) (Some x)
                  else m_adv t r (Some (sT y)) (Some x)
      end
  end.

Definition m_seek (delta t : Z) (st : mit) : mit :=
  let t0 := t - delta in
  let jump := match m_rest st with [] => false | _ :: _ => opt_lt (m_last st) t0 end in
  if jump then
    match drop_while (fun p => sT p <? t0) (m_rest st) with
    | [] => mkM [] (m_last st) None
    | (y :: _) as r' =>
        if sT y >=? t then mkM r' (Some (sT y)) None
        else m_adv t r' (Some (sT y)) None
    end
  else if opt_ge (m_last st) t then st
  else m_adv t (m_rest st) (m_last st) (m_prev st).

(* vectorSelectorSingle(it, offset, ts) with refTime = ts - offset; delta is the iterator's
   delta (lookbackDelta in evalSeries, lookbackDelta-1 in the timestamp() path) *)
Definition vss (lookback delta : Z) (ref : Z) (st : mit) : mit * option sample :=
  let st' := m_seek delta ref st in
  let cand :=
    match m_rest st' with
    | x :: _ => if sT x >? ref then None else Some x        (* the sought sample is at refTime *)
    | [] => None
    end in
  let res :=
    match cand with
    | Some x => Some x
    | None => match m_prev st' with
              | Some p => if sT p <=? ref - lookback then None else Some p
              | None => None
              end
    end in
  (st', match res with
        | Some p => if is_stale p then None else Some p
        | None => None
        end).

(* the step loop of evalSeries for one series *)
Fixpoint sel_loop (lookback delta offset interval : Z) (n : nat) (ts : Z) (st : mit)
    : list (option sample) :=
  match n with
  | O => []
  | S n' => let '(st', r) := vss lookback delta (ts - offset) st in
            r :: sel_loop lookback delta offset interval n' (ts + interval) st'
  end.

Definition sel_steps (lookback delta : Z) (s : list sample) (offset interval : Z) (n : nat)
    (start : Z) : list (option sample) :=
  sel_loop lookback delta offset interval n start (m_reset s).

(* ---------------------------------------------------------------------------------------- *)
(* subqueryTimeRange: the child evaluator's grid.  Go's integer division truncates.          *)

Definition sub_start (pstart offset range sstep : Z) : Z :=
  let x := pstart - offset - range in
  let s := sstep * Z.quot x sstep in
  if s <=? x then s + sstep else s.

(* number of child steps: int((end-start)/interval)+1, none when end < start *)
Definition num_steps (start end_ interval : Z) : nat :=
  if end_ <? start then O else Z.to_nat (Z.quot (end_ - start) interval + 1).

(* ---------------------------------------------------------------------------------------- *)
(* Expression layer.  Window functions (rate, *_over_time, ...) and pointwise functions
   (aggregations, binary operators, instant functions, literals, time()) are abstract.
   A matrix is kept dense: one vector per step. *)

Section Expr.
Variables (Sel F G L : Type).
Variable matches : Sel -> L -> bool.
Variable l_eqb : L -> L -> bool.
Variable universe : list L.
(* wf f mint maxt ts window: the value of a range function at step ts over a non-empty window *)
Variable wf : F -> Z -> Z -> Z -> list sample -> option Z.
(* pf g ts args *)
Variable pf : G -> Z -> list (list (L * Z)) -> list (L * Z).
(* functions not in AtModifierUnsafeFunctions (range functions: all but predict_linear) *)
Variable safe : G -> bool.
Variable safeF : F -> bool.
Variable lookback : Z.

Definition vector := list (L * Z).
Definition data := list (L * list sample).

Inductive expr :=
| EVec (m : Sel) (off : Z) (at_ : option Z)                    (* m offset off [@ at] *)
| ECall (f : F) (m : Sel) (range off : Z) (at_ : option Z)     (* f(m[range] offset off [@ at]) *)
| ESub (f : F) (e : expr) (range sstep off : Z)                (* f(e[range:sstep] offset off) *)
| EP0 (g : G)                                                  (* literal, time(), ... *)
| EP1 (g : G) (e : expr)                                       (* aggregation, function, unary *)
| EP2 (g : G) (e1 e2 : expr)                                   (* binary operator *)
| EStepInv (e : expr).                                         (* parser.StepInvariantExpr *)

Definition at_or (at_ : option Z) (t : Z) : Z := match at_ with Some a => a | None => t end.

Fixpoint filter_map {A B} (f : A -> option B) (l : list A) : list B :=
  match l with
  | [] => []
  | x :: r => match f x with Some y => y :: filter_map f r | None => filter_map f r end
  end.

Definition apply_wf (f : F) (mint maxt ts : Z) (w : list sample) : option Z :=
  match w with [] => None | _ :: _ => wf f mint maxt ts w end.

(* subquery result -> one series per label set of the (finite, canonically ordered) universe of
   output label sets; the points are (inner step time, value) in step order.  (The engine
   collects the series in a hash map and sorts the final result; a label set that never
   appears yields an empty series and therefore no output.) *)
Fixpoint lookup (l : L) (v : vector) : option Z :=
  match v with
  | [] => None
  | (l', x) :: r => if l_eqb l l' then Some x else lookup l r
  end.
Definition points_of (l : L) (us : list Z) (vs : list vector) : list sample :=
  filter_map (fun '(u, v) => option_map (mkS u) (lookup l v)) (combine us vs).

Definition grid (start interval : Z) (n : nat) : list Z :=
  map (fun k => start + Z.of_nat k * interval) (seq 0 n).

(* ---- the direct semantics of an expression at one evaluation time ------------------------ *)
Fixpoint eval_instant (d : data) (e : expr) (t : Z) : vector :=
  match e with
  | EVec m off at_ =>
      let ref := at_or at_ t - off in
      filter_map (fun '(l, s) =>
        if matches m l then option_map (fun p => (l, sV p)) (select_spec lookback s ref) else None) d
  | ECall f m range off at_ =>
      let maxt := at_or at_ t - off in
      let mint := maxt - range in
      filter_map (fun '(l, s) =>
        if matches m l then option_map (pair l) (apply_wf f mint maxt t (window_spec s mint maxt))
        else None) d
  | ESub f e range sstep off =>
      let maxt := t - off in
      let mint := maxt - range in
      let cstart := sub_start t off range sstep in
      let us := grid cstart sstep (num_steps cstart maxt sstep) in
      let vs := map (eval_instant d e) us in
      filter_map (fun l =>
        option_map (pair l) (apply_wf f mint maxt t (window_spec (points_of l us vs) mint maxt)))
        universe
  | EP0 g => pf g t []
  | EP1 g e1 => pf g t [eval_instant d e1 t]
  | EP2 g e1 e2 => pf g t [eval_instant d e1 t; eval_instant d e2 t]
  | EStepInv e1 => eval_instant d e1 t
  end.

(* ---- the engine's range evaluation: all steps in one pass --------------------------------- *)

(* dense matrix of one selector: per series the per-step results -> per step a vector *)
Definition assemble {A} (val : A -> Z) (runs : list (L * list (option A))) (k : nat) : vector :=
  filter_map (fun '(l, run) =>
    match nth k run None with Some x => Some (l, val x) | None => None end) runs.

Definition zip_wf (f : F) (range offset_ : Z) (start interval : Z)
    (ws : list (list sample)) : list (option Z) :=
  map (fun '(k, w) =>
         let ts := start + Z.of_nat k * interval in
         let maxt := ts - offset_ in
         apply_wf f (maxt - range) maxt ts w)
      (combine (seq 0 (length ws)) ws).

Fixpoint eval_range (d : data) (e : expr) (start interval : Z) (n : nat) : list vector :=
  match e with
  | EVec m off at_ =>
      (* setOffsetForAtModifier(start): Offset = OriginalOffset + (start - at) *)
      let off' := match at_ with Some a => off + (start - a) | None => off end in
      let runs := filter_map (fun '(l, s) =>
        if matches m l then Some (l, sel_steps lookback lookback s off' interval n start) else None) d in
      map (assemble sV runs) (seq 0 n)
  | ECall f m range off at_ =>
      let off' := match at_ with Some a => off + (start - a) | None => off end in
      let refetch := match at_ with Some _ => false | None => true end in
      let runs := filter_map (fun '(l, s) =>
        if matches m l
        then Some (l, zip_wf f range off' start interval
                        (range_windows s range off' interval refetch n start))
        else None) d in
      map (assemble (fun x => x) runs) (seq 0 n)
  | ESub f e1 range sstep off =>
      (* parentEnd is the last step of the parent; the child runs on its own aligned grid *)
      let pend := start + Z.of_nat (pred n) * interval in
      let cstart := sub_start start off range sstep in
      let cn := num_steps cstart (pend - off) sstep in
      let us := grid cstart sstep cn in
      let vs := eval_range d e1 cstart sstep cn in
      let runs := map (fun l =>
        (l, zip_wf f range off start interval
              (range_windows (points_of l us vs) range off interval true n start)))
        universe in
      map (assemble (fun x => x) runs) (seq 0 n)
  | EP0 g => map (fun t => pf g t []) (grid start interval n)
  | EP1 g e1 =>
      let m1 := eval_range d e1 start interval n in
      map (fun '(t, v1) => pf g t [v1]) (combine (grid start interval n) m1)
  | EP2 g e1 e2 =>
      let m1 := eval_range d e1 start interval n in
      let m2 := eval_range d e2 start interval n in
      map (fun '(t, (v1, v2)) => pf g t [v1; v2]) (combine (grid start interval n) (combine m1 m2))
  | EStepInv e1 =>
      (* a single evaluation at the start time, duplicated for every step *)
      match eval_range d e1 start interval 1 with
      | v :: _ => repeat v n
      | [] => repeat [] n
      end
  end.

(* ---- PreprocessExpr ------------------------------------------------------------------------ *)
(* returns (rewritten expression, isStepInvariant, shouldWrap) *)
Fixpoint prep (e : expr) : expr * bool * bool :=
  match e with
  | EVec m off at_ =>
      let i := match at_ with Some _ => true | None => false end in (e, i, i)
  | ECall f m range off at_ =>
      (* Call over a MatrixSelector: step invariant iff the function is at-modifier safe and
         the vector selector has a timestamp; the matrix argument itself is never wrapped *)
      let i := match at_ with Some _ => safeF f | None => false end in (e, i, i)
  | ESub f e1 range sstep off =>
      (* the subquery (no @ here) is never invariant; its inner expression is wrapped when
         it is invariant *)
      let '(e1', i1, _) := prep e1 in
      (ESub f (if i1 then EStepInv e1' else e1') range sstep off, false, false)
  | EP0 g => (e, safe g, safe g)
  | EP1 g e1 =>
      let '(e1', i1, w1) := prep e1 in
      if safe g && i1 then (EP1 g e1', true, true)
      else (EP1 g (if w1 then EStepInv e1' else e1'), false, false)
  | EP2 g e1 e2 =>
      let '(e1', i1, w1) := prep e1 in
      let '(e2', i2, w2) := prep e2 in
      if safe g && i1 && i2 then (EP2 g e1' e2', true, true)
      else (EP2 g (if w1 then EStepInv e1' else e1') (if w2 then EStepInv e2' else e2'), false, false)
  | EStepInv e1 => (e, true, false)
  end.

Definition preprocess (e : expr) : expr :=
  let '(e', _, w) := prep e in if w then EStepInv e' else e'.

End Expr.

(* model/Durable.v — executable model of the DURABLE state of a tsdb.DB directory behind
   property C03 (definitions only; proofs are in proof/DurableProofs.v).

   The durable state [fs] is what a process kill leaves behind (completed syscalls are durable;
   power-loss reordering is out of scope):
     f_wal    the WAL segments (index, records in log order)            tsdb/wlog/wlog.go
     f_cp     the finished checkpoint.N directories                      tsdb/wlog/checkpoint.go
     f_cptmp  checkpoint.N.tmp being written
     f_wbl    the segments of the out-of-order log (wbl)                 tsdb/head_append.go Commit
     f_blk    the block directories <ULID>                               tsdb/compact.go write
     f_tmp    <ULID>.tmp-for-creation directories
     f_del    <ULID>.tmp-for-deletion directories                        tsdb/db.go deleteBlocks
   It changes by [fsop]s — one per persistence step at which the verifhook sites of the
   implementation fire (a WAL page flush, a segment creation, a rename, a remove, ...).
   [durable tr] folds a trace of steps; a crash is a prefix of the trace ([firstn k]).

   [recover]/[visible] model tsdb.Open on such a directory: the tmp directories are removed
   (db.go open: RemoveTmpDirs, DeleteTempCheckpoints), block directories that are the parent of
   a loadable block are deleted (reloadBlocks), minValidTime is the largest MaxTime of the
   remaining blocks without the out-of-order hint (inOrderBlocksMaxTime), the newest checkpoint
   and the WAL segments after it are replayed (Head.Init / loadWAL: samples below minValidTime
   are dropped, tombstone records are applied), the WBL is replayed (loadWBL).  [visible] is the
   set of samples a querier over everything returns afterwards.

   [op]s are the storage operations of a history; [op_trace] gives the persistence steps each of
   them performs, in the order the implementation performs them:
     Commit    headAppenderBase.Commit: log() writes ONE samples record (one page flush), then
               the out-of-order samples go to the WBL in one Log call
     Delete    DB.Delete: tombstones.WriteFile (tmp + rename) in every overlapping block,
               a tombstone record in the WAL for the head (errgroup: any order, given by [order])
     CutHead   one round of DB.Compact's head loop: LeveledCompactor.write (tmp dir, rename)
     TruncWAL  Head.truncateWAL: NextSegment, Checkpoint (tmp dir, rename), WL.Truncate,
               DeleteCheckpoints
     CutOOO    DB.compactOOOHead: NextSegmentSync of the WBL, one block per aligned range,
               truncateOOO -> WL.Truncate of the WBL
     Merge     DB.compactBlocks: LeveledCompactor.Compact (write) + reloadBlocks -> deleteBlocks
               (rename to tmp-for-deletion, RemoveAll) of the parents (map order: [order])

   Deliberate abstractions (documented in notes/C03.md):
   - series records / refs are not modelled: a series is its id; samples are (series, t, value);
   - the head in memory is taken to be the replay of the durable log (every commit logs before
     it applies; the harness is single threaded);
   - head chunk files (chunks_head) are a cache of WAL content and do not change [visible];
   - a WAL sample carries the flag "stored out-of-order" as the implementation classified it:
     replay drops flagged samples (memSeries.append refuses them), they come back from the WBL;
   - Block.Delete / Head.Delete tombstones are kept unmerged; Head.Delete's interval is clamped
     to the oldest / newest in-order head sample of the series (the code clamps to the series'
     chunk bounds, which can reach below minValidTime: no visible difference);
   - a compaction whose result is empty deletes its parents (the Deletable marking in their
     meta.json is not a step of its own: the parents hold no visible sample by then). *)
From Coq Require Import List ZArith Bool.
From Verif Require Import lib.Int64.
Import ListNotations.
Open Scope Z_scope.

Definition sample := (Z * Z * Z)%type.          (* series id, timestamp, value code *)
Definition s_sid (x : sample) : Z := fst (fst x).
Definition s_t (x : sample) : Z := snd (fst x).
Definition s_v (x : sample) : Z := snd x.
Definition tomb := (Z * Z * Z)%type.            (* series id, mint, maxt (closed) *)

Definition memZ (x : Z) (l : list Z) : bool := existsb (Z.eqb x) l.

Definition covers (tb : tomb) (x : sample) : bool :=
  let '(s, a, b) := tb in (s =? s_sid x) && (a <=? s_t x) && (s_t x <=? b).
Definition covered (tbs : list tomb) (x : sample) : bool := existsb (fun tb => covers tb x) tbs.

Inductive rec :=
| RSamples (l : list (sample * bool))    (* record.Samples; true = stored out-of-order *)
| RTomb (l : list tomb).                  (* record.Tombstones *)

Definition rec_samples (r : rec) : list (sample * bool) := match r with RSamples l => l | RTomb _ => [] end.
Definition rec_tombs (r : rec) : list tomb := match r with RTomb l => l | RSamples _ => [] end.

Record blk := mkBlk { b_id : Z; b_mint : Z; b_maxt : Z; b_ooo : bool; b_parents : list Z;
                      b_data : list sample; b_tomb : list tomb }.

Record fs := mkFs {
  f_wal : list (Z * list rec);
  f_cp : list (Z * list rec);
  f_cptmp : option (list rec);
  f_wbl : list (Z * list (list sample));
  f_blk : list blk;
  f_tmp : list blk;
  f_del : list blk }.

Inductive fsop :=
| WalWrite (r : rec)             (* page flush at the end of WL.Log on the WAL *)
| WalNewSeg                      (* CreateSegment in WL.nextSegment *)
| WalRemove (i : Z)              (* os.Remove of segment i in WL.Truncate *)
| CpTmpWrite (rs : list rec)     (* the records of checkpoint.N.tmp flushed *)
| CpRename (n : Z)               (* fileutil.Replace(checkpoint.N.tmp, checkpoint.N) *)
| CpRemove (n : Z)               (* os.RemoveAll(checkpoint.n) in DeleteCheckpoints *)
| WblWrite (l : list sample)
| WblNewSeg
| WblRemove (i : Z)
| TmpFill (b : blk)              (* <id>.tmp-for-creation holds chunks, index, meta.json *)
| BlkRename (id : Z)             (* fileutil.Replace(tmp, dir) in LeveledCompactor.write *)
| BlkToDel (id : Z)              (* fileutil.Replace(dir, dir.tmp-for-deletion) *)
| DelRemove (id : Z)             (* os.RemoveAll(dir.tmp-for-deletion) *)
| BlkTomb (id : Z) (tb : list tomb).   (* rename of tombstones.tmp over tombstones in block id *)

(* the kind code the harness assigns to the hook hit of each step *)
Definition kind (o : fsop) : Z :=
  match o with
  | WalWrite _ => 1 | WalNewSeg => 2 | WalRemove _ => 3 | CpTmpWrite _ => 4 | CpRename _ => 5
  | CpRemove _ => 6 | WblWrite _ => 7 | WblNewSeg => 8 | WblRemove _ => 9 | TmpFill _ => 10
  | BlkRename _ => 11 | BlkToDel _ => 12 | DelRemove _ => 13 | BlkTomb _ _ => 14
  end.

(* ---------- applying one step ---------- *)
Definition last_idx {A} (l : list (Z * A)) : Z := fold_right (fun p a => Z.max (fst p) a) (-1) l.

Fixpoint app_last {A} (l : list (Z * list A)) (x : A) : list (Z * list A) :=
  match l with
  | [] => [(0, [x])]
  | [(i, rs)] => [(i, rs ++ [x])]
  | p :: r => p :: app_last r x
  end.

Definition new_seg {A} (l : list (Z * list A)) : list (Z * list A) := l ++ [(last_idx l + 1, [])].
Definition drop_idx {A} (i : Z) (l : list (Z * A)) : list (Z * A) := filter (fun p => negb (fst p =? i)) l.

Definition has_id (id : Z) (b : blk) : bool := b_id b =? id.
Definition without (id : Z) (l : list blk) : list blk := filter (fun b => negb (has_id id b)) l.
Definition with_id (id : Z) (l : list blk) : list blk := filter (has_id id) l.

Definition set_tomb (tb : list tomb) (b : blk) : blk :=
  mkBlk (b_id b) (b_mint b) (b_maxt b) (b_ooo b) (b_parents b) (b_data b) tb.

Definition apply (s : fs) (o : fsop) : fs :=
  match o with
  | WalWrite r => mkFs (app_last (f_wal s) r) (f_cp s) (f_cptmp s) (f_wbl s) (f_blk s) (f_tmp s) (f_del s)
  | WalNewSeg => mkFs (new_seg (f_wal s)) (f_cp s) (f_cptmp s) (f_wbl s) (f_blk s) (f_tmp s) (f_del s)
  | WalRemove i => mkFs (drop_idx i (f_wal s)) (f_cp s) (f_cptmp s) (f_wbl s) (f_blk s) (f_tmp s) (f_del s)
  | CpTmpWrite rs => mkFs (f_wal s) (f_cp s) (Some rs) (f_wbl s) (f_blk s) (f_tmp s) (f_del s)
  | CpRename n =>
      match f_cptmp s with
      | Some rs => mkFs (f_wal s) (drop_idx n (f_cp s) ++ [(n, rs)]) None (f_wbl s) (f_blk s) (f_tmp s) (f_del s)
      | None => s
      end
  | CpRemove n => mkFs (f_wal s) (drop_idx n (f_cp s)) (f_cptmp s) (f_wbl s) (f_blk s) (f_tmp s) (f_del s)
  | WblWrite l => mkFs (f_wal s) (f_cp s) (f_cptmp s) (app_last (f_wbl s) l) (f_blk s) (f_tmp s) (f_del s)
  | WblNewSeg => mkFs (f_wal s) (f_cp s) (f_cptmp s) (new_seg (f_wbl s)) (f_blk s) (f_tmp s) (f_del s)
  | WblRemove i => mkFs (f_wal s) (f_cp s) (f_cptmp s) (drop_idx i (f_wbl s)) (f_blk s) (f_tmp s) (f_del s)
  | TmpFill b => mkFs (f_wal s) (f_cp s) (f_cptmp s) (f_wbl s) (f_blk s) (b :: without (b_id b) (f_tmp s)) (f_del s)
  | BlkRename id => mkFs (f_wal s) (f_cp s) (f_cptmp s) (f_wbl s) (without id (f_blk s) ++ with_id id (f_tmp s)) (without id (f_tmp s)) (f_del s)
  | BlkToDel id => mkFs (f_wal s) (f_cp s) (f_cptmp s) (f_wbl s) (without id (f_blk s)) (f_tmp s) (without id (f_del s) ++ with_id id (f_blk s))
  | DelRemove id => mkFs (f_wal s) (f_cp s) (f_cptmp s) (f_wbl s) (f_blk s) (f_tmp s) (without id (f_del s))
  | BlkTomb id tb => mkFs (f_wal s) (f_cp s) (f_cptmp s) (f_wbl s)
                          (map (fun b => if has_id id b then set_tomb tb b else b) (f_blk s)) (f_tmp s) (f_del s)
  end.

Definition durable (s0 : fs) (tr : list fsop) : fs := fold_left apply tr s0.

(* ---------- recovery: what tsdb.Open makes of a directory ---------- *)
Definition parents_of (bs : list blk) : list Z := flat_map b_parents bs.
(* reloadBlocks: every parent of a loadable block is deleted, the rest is loaded *)
Definition live (s : fs) : list blk :=
  filter (fun b => negb (memZ (b_id b) (parents_of (f_blk s)))) (f_blk s).
(* inOrderBlocksMaxTime, MinInt64 without such a block (Head.Init(minValidTime)) *)
Definition min_valid (s : fs) : Z :=
  fold_right (fun b a => if b_ooo b then a else Z.max (b_maxt b) a) minInt64 (live s).
(* wlog.LastCheckpoint *)
Fixpoint max_cp (l : list (Z * list rec)) : option (Z * list rec) :=
  match l with
  | [] => None
  | p :: r => match max_cp r with
              | None => Some p
              | Some q => if fst q <? fst p then Some p else Some q
              end
  end.
(* Head.Init: the last checkpoint, then the segments after it *)
Definition wal_recs (s : fs) : list rec :=
  match max_cp (f_cp s) with
  | Some (n, rs) => rs ++ flat_map snd (filter (fun p => n <? fst p) (f_wal s))
  | None => flat_map snd (f_wal s)
  end.
Definition wal_samples (s : fs) : list (sample * bool) := flat_map rec_samples (wal_recs s).
(* loadWAL: samples below minValidTime are skipped; out-of-order ones are refused by append *)
Definition head_io (s : fs) : list sample :=
  filter (fun x => min_valid s <=? s_t x) (map fst (filter (fun p => negb (snd p)) (wal_samples s))).
Definition head_tombs (s : fs) : list tomb := flat_map rec_tombs (wal_recs s).
(* loadWBL *)
Definition ooo (s : fs) : list sample := concat (flat_map snd (f_wbl s)).
Definition blk_vis (b : blk) : list sample := filter (fun x => negb (covered (b_tomb b) x)) (b_data b).
(* everything a querier over the reopened database returns (as a set) *)
Definition visible (s : fs) : list sample :=
  flat_map blk_vis (live s) ++ filter (fun x => negb (covered (head_tombs s) x)) (head_io s ++ ooo s).
Definition recover (s : fs) : list sample := visible s.

(* ---------- the operations and their persistence steps ---------- *)
Record cfg := mkCfg { c_range : Z; c_ooo : bool }.
(* m_trunc = Head.lastWALTruncationTime *)
Record mst := mkM { m_fs : fs; m_trunc : Z }.
(* a freshly opened empty database: segment 0 of the WAL (and of the WBL when out-of-order
   ingestion is enabled) exists *)
Definition fs0 (c : cfg) : fs := mkFs [(0, [])] [] None (if c_ooo c then [(0, [])] else []) [] [] [].
Definition m0 (c : cfg) : mst := mkM (fs0 c) minInt64.

Definition ids_of (l : list blk) : list Z := map b_id l ++ parents_of l.
(* block ids are numbered in creation order *)
Definition fresh (s : fs) : Z :=
  1 + fold_right Z.max 0 (ids_of (f_blk s) ++ ids_of (f_tmp s) ++ ids_of (f_del s)).

Inductive target := THead | TBlk (id : Z).
Definition target_eqb (a b : target) : bool :=
  match a, b with THead, THead => true | TBlk x, TBlk y => x =? y | _, _ => false end.
Definition memT (x : target) (l : list target) : bool := existsb (target_eqb x) l.
Fixpoint dedupT (l : list target) : list target :=
  match l with [] => [] | x :: r => x :: filter (fun y => negb (target_eqb x y)) (dedupT r) end.
(* the targets of [all], those named by [order] first and in that order *)
Definition sched (order all : list target) : list target :=
  filter (fun x => memT x all) (dedupT order) ++ filter (fun x => negb (memT x order)) all.

Inductive op :=
| Commit (acc : list (sample * bool))      (* the samples Append accepted; true = stored out-of-order *)
| Delete (mint maxt : Z) (sel : list Z) (order : list target)
| CutHead (mint maxt : Z)                  (* compactHead over [mint, maxt) *)
| TruncWAL (mint : Z)
| CutOOO
| Merge (parents : list Z) (order : list target).

Definition is_nil {A} (l : list A) : bool := match l with [] => true | _ => false end.

Definition commit_trace (acc : list (sample * bool)) : list fsop :=
  match acc with
  | [] => []
  | _ => WalWrite (RSamples acc) ::
         (match map fst (filter (fun p => snd p) acc) with [] => [] | l => [WblWrite l] end)
  end.

(* Block.OverlapsClosedInterval *)
Definition overlaps (b : blk) (mint maxt : Z) : bool := (b_mint b <=? maxt) && (mint <? b_maxt b).
Definition io_times (s : fs) (i : Z) : list Z := map s_t (filter (fun x => s_sid x =? i) (head_io s)).
(* Head.Delete: per selected series with in-order data, the request clamped to the series'
   [minTime, maxTime]; nothing when that is empty *)
Definition head_stones (s : fs) (mint maxt : Z) (sel : list Z) : list tomb :=
  flat_map (fun i => match io_times s i with
                     | [] => []
                     | ts => let lo := Z.max mint (fold_right Z.min maxInt64 ts) in
                             let hi := Z.min maxt (fold_right Z.max minInt64 ts) in
                             if lo <=? hi then [(i, lo, hi)] else []
                     end) sel.
Definition delete_trace (s : fs) (mint maxt : Z) (sel : list Z) (order : list target) : list fsop :=
  let blks := filter (fun b => overlaps b mint maxt) (live s) in
  let stones := map (fun i => (i, mint, maxt)) sel in
  let hs := head_stones s mint maxt sel in
  let head_on := memT THead order || negb (is_nil hs) in
  let all := map (fun b => TBlk (b_id b)) blks ++ (if head_on then [THead] else []) in
  flat_map (fun tg => match tg with
                      | THead => [WalWrite (RTomb hs)]
                      | TBlk id => map (fun b => BlkTomb id (b_tomb b ++ stones)) (with_id id blks)
                      end) (sched order all).

Definition list_min (l : list Z) (d : Z) : Z := fold_right Z.min d l.
Definition list_max (l : list Z) (d : Z) : Z := fold_right Z.max d l.

Definition cut_head_trace (s : fs) (mint maxt : Z) : list fsop :=
  let data := filter (fun x => (s_t x <? maxt) && negb (covered (head_tombs s) x)) (head_io s) in
  match data with
  | [] => []
  | _ => let b := mkBlk (fresh s) (list_min (map s_t data) mint) maxt false [] data [] in
         [TmpFill b; BlkRename (b_id b)]
  end.

(* wlog.Checkpoint: samples below mint and tombstones ending below mint are dropped *)
Definition cp_filter (mint : Z) (rs : list rec) : list rec :=
  map (fun r => match r with
                | RSamples l => RSamples (filter (fun p => mint <=? s_t (fst p)) l)
                | RTomb l => RTomb (filter (fun tb => mint <=? snd tb) l)
                end) rs.
Definition first_idx {A} (l : list (Z * A)) : Z :=
  match l with [] => 0 | p :: r => fold_right (fun q a => Z.min (fst q) a) (fst p) r end.

Definition trunc_trace (m : mst) (mint : Z) : list fsop :=
  let s := m_fs m in
  if mint <=? m_trunc m then [] else
  match f_wal s with
  | [] => []
  | _ =>
    let first := first_idx (f_wal s) in
    let last1 := last_idx (f_wal s) - 1 in
    WalNewSeg ::
    (if last1 <? 0 then [] else
     let last := first + godiv ((last1 - first) * 2) 3 in
     if last <=? first then [] else
     let fb := match max_cp (f_cp s) with Some (n, rs) => (n + 1, rs) | None => (first, []) end in
     let src := snd fb ++ flat_map snd (filter (fun p => (fst fb <=? fst p) && (fst p <=? last)) (f_wal s)) in
     [CpTmpWrite (cp_filter mint src); CpRename last]
     ++ map WalRemove (filter (fun i => i <=? last) (map fst (f_wal s)))
     ++ map CpRemove (filter (fun n => n <? last) (map fst (f_cp s))))
  end.

(* db.go rangeStartForTimestamp *)
Definition range_start (t w : Z) : Z := if t >=? 0 then w * godiv t w else w * godiv (t - w + 1) w.
Fixpoint ins (t : Z) (l : list Z) : list Z :=
  match l with
  | [] => [t]
  | x :: r => if t <? x then t :: l else if t =? x then l else x :: ins t r
  end.
Definition sort_uniq (l : list Z) : list Z := fold_right ins [] l.
Fixpoint ooo_blocks (w : Z) (all : list sample) (starts : list Z) (id : Z) : list blk :=
  match starts with
  | [] => []
  | r :: rest => mkBlk id r (r + w) true [] (filter (fun x => range_start (s_t x) w =? r) all) []
                 :: ooo_blocks w all rest (id + 1)
  end.
Definition ooo_trace (c : cfg) (s : fs) : list fsop :=
  if negb (c_ooo c) then [] else
  let all := ooo s in
  let bs := ooo_blocks (c_range c) all (sort_uniq (map (fun x => range_start (s_t x) (c_range c)) all)) (fresh s) in
  WblNewSeg :: flat_map (fun b => [TmpFill b; BlkRename (b_id b)]) bs ++ map WblRemove (map fst (f_wbl s)).

(* CompactBlockMetas + LeveledCompactor.write, then reloadBlocks -> deleteBlocks of the parents *)
Definition merge_trace (s : fs) (parents : list Z) (order : list target) : list fsop :=
  let ps := filter (fun b => memZ (b_id b) parents) (f_blk s) in
  let data := flat_map blk_vis ps in
  match data with
  | [] =>
      (* nothing left after applying the tombstones: CompactWithBlockPopulator marks the parents
         Deletable (meta.json rewritten), reloadBlocks deletes them *)
      flat_map (fun tg => match tg with TBlk p => [BlkToDel p; DelRemove p] | THead => [] end)
               (sched order (map (fun q => TBlk (b_id q)) ps))
  | _ => let b := mkBlk (fresh s) (list_min (map b_mint ps) maxInt64) (list_max (map b_maxt ps) minInt64)
                        (forallb b_ooo ps) (map b_id ps) data [] in
         [TmpFill b; BlkRename (b_id b)]
         ++ flat_map (fun tg => match tg with TBlk p => [BlkToDel p; DelRemove p] | THead => [] end)
                     (sched order (map (fun q => TBlk (b_id q)) ps))
  end.

Definition op_trace (c : cfg) (m : mst) (o : op) : list fsop :=
  match o with
  | Commit acc => commit_trace acc
  | Delete mint maxt sel order => delete_trace (m_fs m) mint maxt sel order
  | CutHead mint maxt => cut_head_trace (m_fs m) mint maxt
  | TruncWAL mint => trunc_trace m mint
  | CutOOO => ooo_trace c (m_fs m)
  | Merge ps order => merge_trace (m_fs m) ps order
  end.

Definition op_step (c : cfg) (m : mst) (o : op) : mst :=
  mkM (durable (m_fs m) (op_trace c m o))
      (match o with TruncWAL mint => Z.max mint (m_trunc m) | _ => m_trunc m end).

Definition run (c : cfg) (ops : list op) : mst := fold_left (op_step c) ops (m0 c).

(* the whole trace of a history *)
Fixpoint trace_from (c : cfg) (m : mst) (ops : list op) : list fsop :=
  match ops with
  | [] => []
  | o :: r => op_trace c m o ++ trace_from c (op_step c m o) r
  end.
Definition fs_trace (c : cfg) (ops : list op) : list fsop := trace_from c (m0 c) ops.

(* the durable state after the first i operations and j steps of the next one *)
Definition crash_state (c : cfg) (ops : list op) (i j : nat) : fs :=
  let m := run c (firstn i ops) in
  match nth_error ops i with
  | Some o => durable (m_fs m) (firstn j (op_trace c m o))
  | None => m_fs m
  end.

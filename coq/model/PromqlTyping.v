(* model/PromqlTyping.v — C33: typing of PromQL expressions (parser.checkAST), the engine's
   preprocessing (promql.PreprocessExpr) and a shape-level reference evaluator mirroring the
   control structure of promql.evaluator.eval: which sub-expressions are evaluated, every
   type assertion on values (val.(Matrix)) and on AST nodes (e.(parser.StringLiteral),
   arg.(parser.MatrixSelector), args[1].(parser.VectorSelector)), every index into a scalar's
   sample (v[i][0].F, evalVals[j][0].Floats[step].F, mat[0].Floats[0].F) and the explicit
   panics of the evaluator. Sample values, labels and timestamps are abstracted: everything
   data dependent (selected series, operator/function/aggregation results, user-facing errors
   such as many-to-many matching, duplicate label sets, invalid label names, storage failures,
   sample limits; the number of steps of a subquery) comes from an arbitrary [world], keyed by
   node identifiers (every node is evaluated at most once per query).
   Definitions only; proofs are in proof/PromqlTypingProofs.v. *)
From Coq Require Import List ZArith Bool String.
Import ListNotations.
Local Open Scope string_scope.

(* ------------------------------------------------------------------ types and signatures *)
Inductive vtype := TScalar | TVector | TMatrix | TString | TNone.
Definition vtype_eqb (a b : vtype) : bool :=
  match a, b with
  | TScalar, TScalar | TVector, TVector | TMatrix, TMatrix | TString, TString | TNone, TNone => true
  | _, _ => false
  end.
Definition is_sv (t : vtype) : bool := match t with TScalar | TVector => true | _ => false end.

(* parser.Function: ArgTypes, Variadic, ReturnType; fs_impl: promql.FunctionCalls[name] != nil *)
Record fsig := mkSig { fs_args : list vtype; fs_var : Z; fs_ret : vtype; fs_impl : bool }.
Definition ftab_t := list (string * fsig).
Fixpoint flookup (f : string) (t : ftab_t) : option fsig :=
  match t with
  | [] => None
  | (g, s) :: r => if String.eqb f g then Some s else flookup f r
  end.

(* parser.Functions (experimental functions enabled) joined with promql.FunctionCalls,
   generated from the Go tables; the harness re-emits the real tables in every run (case 0). *)
Definition ftab : ftab_t :=
  [("abs", mkSig [TVector] 0 TVector true);
  ("absent", mkSig [TVector] 0 TVector true);
  ("absent_over_time", mkSig [TMatrix] 0 TVector true);
  ("acos", mkSig [TVector] 0 TVector true);
  ("acosh", mkSig [TVector] 0 TVector true);
  ("asin", mkSig [TVector] 0 TVector true);
  ("asinh", mkSig [TVector] 0 TVector true);
  ("atan", mkSig [TVector] 0 TVector true);
  ("atanh", mkSig [TVector] 0 TVector true);
  ("avg_over_time", mkSig [TMatrix] 0 TVector true);
  ("ceil", mkSig [TVector] 0 TVector true);
  ("changes", mkSig [TMatrix] 0 TVector true);
  ("clamp", mkSig [TVector; TScalar; TScalar] 0 TVector true);
  ("clamp_max", mkSig [TVector; TScalar] 0 TVector true);
  ("clamp_min", mkSig [TVector; TScalar] 0 TVector true);
  ("cos", mkSig [TVector] 0 TVector true);
  ("cosh", mkSig [TVector] 0 TVector true);
  ("count_over_time", mkSig [TMatrix] 0 TVector true);
  ("day_of_month", mkSig [TVector] 1 TVector true);
  ("day_of_week", mkSig [TVector] 1 TVector true);
  ("day_of_year", mkSig [TVector] 1 TVector true);
  ("days_in_month", mkSig [TVector] 1 TVector true);
  ("deg", mkSig [TVector] 0 TVector true);
  ("delta", mkSig [TMatrix] 0 TVector true);
  ("deriv", mkSig [TMatrix] 0 TVector true);
  ("double_exponential_smoothing", mkSig [TMatrix; TScalar; TScalar] 0 TVector true);
  ("end", mkSig [] 0 TScalar false);
  ("exp", mkSig [TVector] 0 TVector true);
  ("first_over_time", mkSig [TMatrix] 0 TVector true);
  ("floor", mkSig [TVector] 0 TVector true);
  ("histogram_avg", mkSig [TVector] 0 TVector true);
  ("histogram_count", mkSig [TVector] 0 TVector true);
  ("histogram_fraction", mkSig [TScalar; TScalar; TVector] 0 TVector true);
  ("histogram_quantile", mkSig [TScalar; TVector] 0 TVector true);
  ("histogram_quantiles", mkSig [TVector; TString; TScalar; TScalar] 9 TVector true);
  ("histogram_stddev", mkSig [TVector] 0 TVector true);
  ("histogram_stdvar", mkSig [TVector] 0 TVector true);
  ("histogram_sum", mkSig [TVector] 0 TVector true);
  ("hour", mkSig [TVector] 1 TVector true);
  ("idelta", mkSig [TMatrix] 0 TVector true);
  ("increase", mkSig [TMatrix] 0 TVector true);
  ("info", mkSig [TVector; TVector] 1 TVector false);
  ("irate", mkSig [TMatrix] 0 TVector true);
  ("label_join", mkSig [TVector; TString; TString; TString] (-1) TVector false);
  ("label_replace", mkSig [TVector; TString; TString; TString; TString] 0 TVector false);
  ("last_over_time", mkSig [TMatrix] 0 TVector true);
  ("ln", mkSig [TVector] 0 TVector true);
  ("log10", mkSig [TVector] 0 TVector true);
  ("log2", mkSig [TVector] 0 TVector true);
  ("mad_over_time", mkSig [TMatrix] 0 TVector true);
  ("max_of", mkSig [TScalar; TScalar] 0 TScalar true);
  ("max_over_time", mkSig [TMatrix] 0 TVector true);
  ("min_of", mkSig [TScalar; TScalar] 0 TScalar true);
  ("min_over_time", mkSig [TMatrix] 0 TVector true);
  ("minute", mkSig [TVector] 1 TVector true);
  ("month", mkSig [TVector] 1 TVector true);
  ("pi", mkSig [] 0 TScalar true);
  ("predict_linear", mkSig [TMatrix; TScalar] 0 TVector true);
  ("present_over_time", mkSig [TMatrix] 0 TVector true);
  ("quantile_over_time", mkSig [TScalar; TMatrix] 0 TVector true);
  ("rad", mkSig [TVector] 0 TVector true);
  ("range", mkSig [] 0 TScalar false);
  ("rate", mkSig [TMatrix] 0 TVector true);
  ("resets", mkSig [TMatrix] 0 TVector true);
  ("round", mkSig [TVector; TScalar] 1 TVector true);
  ("scalar", mkSig [TVector] 0 TScalar true);
  ("sgn", mkSig [TVector] 0 TVector true);
  ("sin", mkSig [TVector] 0 TVector true);
  ("sinh", mkSig [TVector] 0 TVector true);
  ("sort", mkSig [TVector] 0 TVector true);
  ("sort_by_label", mkSig [TVector; TString] (-1) TVector true);
  ("sort_by_label_desc", mkSig [TVector; TString] (-1) TVector true);
  ("sort_desc", mkSig [TVector] 0 TVector true);
  ("sqrt", mkSig [TVector] 0 TVector true);
  ("start", mkSig [] 0 TScalar false);
  ("start_timestamp", mkSig [TVector] 0 TVector true);
  ("stddev_over_time", mkSig [TMatrix] 0 TVector true);
  ("stdvar_over_time", mkSig [TMatrix] 0 TVector true);
  ("step", mkSig [] 0 TScalar false);
  ("sum_over_time", mkSig [TMatrix] 0 TVector true);
  ("tan", mkSig [TVector] 0 TVector true);
  ("tanh", mkSig [TVector] 0 TVector true);
  ("time", mkSig [] 0 TScalar true);
  ("timestamp", mkSig [TVector] 0 TVector true);
  ("ts_of_first_over_time", mkSig [TMatrix] 0 TVector true);
  ("ts_of_last_over_time", mkSig [TMatrix] 0 TVector true);
  ("ts_of_max_over_time", mkSig [TMatrix] 0 TVector true);
  ("ts_of_min_over_time", mkSig [TMatrix] 0 TVector true);
  ("vector", mkSig [TScalar] 0 TVector true);
  ("year", mkSig [TVector] 1 TVector true)].

(* ------------------------------------------------------------------ AST *)
(* VectorSelector, projected: has a metric name outside the braces; a matcher other than the
   last one is on __name__; some matcher does not match the empty string; has an @ modifier *)
Record vsel := mkVS { vs_named : bool; vs_dup : bool; vs_nonempty : bool; vs_at : bool }.
(* VectorMatching, projected: len(MatchingLabels) > 0; On and a label in both MatchingLabels
   and Include; Card is one-to-many or many-to-one; a fill value is set *)
Record vmatch := mkVM { vm_labels : bool; vm_clash : bool; vm_group : bool; vm_fill : bool }.
Inductive bop := OArith | OCmp | OSet.
Inductive aop := APlain | AParam | ACountValues.

Inductive expr :=
| ENum | EStr
| EVec (id : Z) (vs : vsel)
| EMat (id : Z) (vs : vsel)
| ESub (id : Z) (at_ : bool) (e : expr)
| EParen (e : expr)
| EUn (id : Z) (e : expr)
| EBin (id : Z) (op : bop) (rb : bool) (vm : vmatch) (l r : expr)
| EAgg (id : Z) (op : aop) (p : option expr) (e : expr)
| ECall (id : Z) (f : string) (args : list expr)
| EStepInv (e : expr).       (* parser.StepInvariantExpr: produced by preprocessing only *)

(* Expr.Type() *)
Fixpoint type_of (e : expr) : vtype :=
  match e with
  | ENum => TScalar
  | EStr => TString
  | EVec _ _ => TVector
  | EMat _ _ => TMatrix
  | ESub _ _ _ => TMatrix
  | EParen e1 => type_of e1
  | EUn _ e1 => type_of e1
  | EBin _ _ _ _ l r =>
      if vtype_eqb (type_of l) TScalar && vtype_eqb (type_of r) TScalar then TScalar else TVector
  | EAgg _ _ _ _ => TVector
  | ECall _ f _ => match flookup f ftab with Some s => fs_ret s | None => TNone end
  | EStepInv e1 => type_of e1
  end.

(* ------------------------------------------------------------------ parser.checkAST *)
Definition check_vs (vs : vsel) : bool :=
  if vs_named vs then negb (vs_dup vs) else vs_nonempty vs.

Definition check_bin (op : bop) (rb : bool) (vm : vmatch) (lt rt : vtype) : bool :=
  let cmp := match op with OCmp => true | _ => false end in
  let set := match op with OSet => true | _ => false end in
  let ls := vtype_eqb lt TScalar in let rs := vtype_eqb rt TScalar in
  let bothv := vtype_eqb lt TVector && vtype_eqb rt TVector in
  negb (rb && negb cmp) &&
  negb (cmp && negb rb && ls && rs) &&
  negb (vm_clash vm) &&
  is_sv lt && is_sv rt &&
  (if negb bothv then negb (vm_labels vm) && negb (vm_fill vm)
   else if set then negb (vm_group vm) && negb (vm_fill vm) else true) &&
  negb ((ls || rs) && set).

(* ArgTypes[i]; a variadic function repeats its last type; None: not checked *)
Definition arg_type (sg : fsig) (i : nat) : option vtype :=
  let n := List.length (fs_args sg) in
  if (i <? n)%nat then nth_error (fs_args sg) i
  else if (fs_var sg =? 0)%Z then None else nth_error (fs_args sg) (n - 1).

Definition arity_ok (sg : fsig) (k : nat) : bool :=
  let nargs := Z.of_nat (List.length (fs_args sg)) in
  let k := Z.of_nat k in
  if (fs_var sg =? 0)%Z then (nargs =? k)%Z
  else (nargs - 1 <=? k)%Z && negb ((0 <? fs_var sg)%Z && (nargs - 1 + fs_var sg <? k)%Z).

Definition arg_type_ok (sg : fsig) (i : nat) (a : expr) : bool :=
  match arg_type sg i with Some t => vtype_eqb (type_of a) t | None => true end.

(* info(v, {label selectors}): the second argument must be a nameless vector selector; it is
   then exempt from the non-empty matcher rule (BypassEmptyMatcherCheck) *)
Definition info_ok (f : string) (args : list expr) : bool :=
  if String.eqb f "info" && (1 <? List.length args)%nat then
    match nth_error args 1 with
    | Some (EVec _ vs) => negb (vs_named vs)
    | _ => false
    end
  else true.
Definition is_info_sel (f : string) (i : nat) (a : expr) : bool :=
  String.eqb f "info" && (i =? 1)%nat && match a with EVec _ vs => negb (vs_named vs) | _ => false end.

Fixpoint check (e : expr) : bool :=
  match e with
  | ENum | EStr => true
  | EVec _ vs => check_vs vs
  | EMat _ vs => check_vs vs
  | ESub _ _ e1 => check e1 && vtype_eqb (type_of e1) TVector
  | EParen e1 => check e1
  | EUn _ e1 => check e1 && is_sv (type_of e1)
  | EBin _ op rb vm l r => check l && check r && check_bin op rb vm (type_of l) (type_of r)
  | EAgg _ op p e1 =>
      check e1 && vtype_eqb (type_of e1) TVector &&
      match op, p with
      | APlain, None => true
      | AParam, Some p1 => check p1 && vtype_eqb (type_of p1) TScalar
      | ACountValues, Some p1 => check p1 && vtype_eqb (type_of p1) TString
      | _, _ => false          (* rejected by the grammar action newAggregateExpr *)
      end
  | ECall _ f args =>
      match flookup f ftab with
      | None => false          (* unknown function: rejected by the grammar action *)
      | Some sg =>
          arity_ok sg (List.length args) && info_ok f args &&
          (fix go (l : list expr) (i : nat) : bool :=
             match l with
             | [] => true
             | a :: t => (if is_info_sel f i a then true else check a) && arg_type_ok sg i a && go t (S i)
             end) args 0%nat
      end
  | EStepInv _ => false        (* "unknown node type" *)
  end.

Inductive tres := TyOk (t : vtype) | TyErr.
Definition check_ast (e : expr) : tres := if check e then TyOk (type_of e) else TyErr.

(* ------------------------------------------------------------------ promql.PreprocessExpr *)
Definition in_names (f : string) (l : list string) : bool := existsb (String.eqb f) l.
Definition ctx_fn (f : string) : bool := in_names f ["start"; "end"; "range"; "step"].
(* AtModifierUnsafeFunctions *)
Definition at_unsafe (f : string) : bool :=
  in_names f ["days_in_month"; "day_of_month"; "day_of_week"; "day_of_year"; "end"; "hour"; "minute";
              "month"; "year"; "predict_linear"; "range"; "start"; "step"; "time"; "timestamp"].

Definition is_vec (e : expr) : bool := match e with EVec _ _ => true | _ => false end.
Definition wrap_if (w : bool) (e : expr) : expr := if w then EStepInv e else e.

(* preprocessExprHelper (with the folding of start()/end()/range()/step() done on the way):
   result = (rewritten node, (isStepInvariant, shouldWrap)). [strip] = the node is in a position
   whose parentheses are removed first by unwrapParenExpr (call arguments, aggregation body and
   parameter). foldQueryContextFunctions is a separate earlier pass in the Go code; it commutes
   with unwrapping and is folded into the Call case here.
   Aggregation case as of commit 3d6524a6e8 (the parameter is preprocessed like a binary operand). *)
Fixpoint pre (strip : bool) (e : expr) : expr * (bool * bool) :=
  match e with
  | ENum | EStr => (e, (true, false))
  | EVec _ vs => (e, (vs_at vs, vs_at vs))
  | EMat _ vs => (e, (vs_at vs, false))
  | ESub id a e1 =>
      let r := pre false e1 in
      (ESub id a (wrap_if (fst (snd r)) (fst r)), (a, false))
  | EParen e1 =>
      if strip then pre true e1
      else let r := pre false e1 in (EParen (fst r), snd r)
  | EUn id e1 => let r := pre false e1 in (EUn id (fst r), snd r)
  | EBin id op rb vm l r =>
      let a := pre false l in let b := pre false r in
      if fst (snd a) && fst (snd b) then (EBin id op rb vm (fst a) (fst b), (true, true))
      else (EBin id op rb vm (wrap_if (snd (snd a)) (fst a)) (wrap_if (snd (snd b)) (fst b)), (false, false))
  | EAgg id op p e1 =>
      let r := pre true e1 in
      match p with
      | None => (EAgg id op None (fst r), snd r)
      | Some q =>
          let rq := pre true q in
          if fst (snd r) && fst (snd rq)
          then (EAgg id op (Some (fst rq)) (fst r), (true, snd (snd r) || snd (snd rq)))
          else (EAgg id op (Some (wrap_if (snd (snd rq)) (fst rq))) (wrap_if (snd (snd r)) (fst r)), (false, false))
      end
  | ECall id f args =>
      if ctx_fn f then (ENum, (true, false))
      else
        let rs := map (pre true) args in
        let inv := negb (at_unsafe f) && forallb (fun r => fst (snd r)) rs in
        let tsafe := String.eqb f "timestamp" && forallb (fun r => fst (snd r) && is_vec (fst r)) rs in
        if inv || tsafe then (ECall id f (map fst rs), (true, true))
        else (ECall id f (map (fun r => wrap_if (snd (snd r)) (fst r)) rs), (false, false))
  | EStepInv _ => (e, (false, false))
  end.

Fixpoint has_stepinv (e : expr) : bool :=
  match e with
  | ENum | EStr | EVec _ _ | EMat _ _ => false
  | ESub _ _ e1 | EParen e1 | EUn _ e1 => has_stepinv e1
  | EBin _ _ _ _ l r => has_stepinv l || has_stepinv r
  | EAgg _ _ p e1 => match p with Some q => has_stepinv q | None => false end || has_stepinv e1
  | ECall _ _ args => existsb has_stepinv args
  | EStepInv _ => true
  end.

(* PreprocessExpr; None: the Go code panics ("found unexpected node") on a StepInvariantExpr *)
Definition preprocess (e : expr) : option expr :=
  if has_stepinv e then None
  else let r := pre false e in Some (wrap_if (snd (snd r)) (fst r)).

(* ------------------------------------------------------------------ values and outcomes *)
Inductive skind := KF | KH.                 (* a float sample / a histogram sample *)
Definition vector := list skind.
(* Matrix produced step by step (one vector per step) | Matrix of a range selector | String *)
Inductive value := VSteps (l : list vector) | VRange | VStr.

Inductive fault :=
| FAssertValue       (* val.(Matrix) on a String *)
| FAssertNode        (* e.(parser.StringLiteral), arg.(parser.MatrixSelector), args[1].(parser.VectorSelector) *)
| FIndex             (* index out of range: v[i][0], matrixVals[0], args[i], Floats[step] *)
| FRangeMatrixSel    (* panic "cannot do range evaluation of matrix selector" *)
| FNilImpl           (* panic "unexpected nil implementation for function" *)
| FStepInv           (* panic "unexpected result in StepInvariantExpr evaluation" / "unexpected number of samples" *)
| FUnhandled         (* panic "unhandled expression of type" / engine.exec "invalid expression type" *)
| FPreprocess.       (* panic in PreprocessExpr *)
Inductive outcome := Val (v : value) | User | Internal (f : fault).

Record world := mkW {
  w_vec : Z -> nat -> option vector;   (* result vector of node id at a step; None: user-facing error *)
  w_n : Z -> nat;                      (* number of steps of the subquery with this id (0: empty range) *)
  w_err : Z -> bool                    (* node-level user-facing error (storage, invalid label/regex, ...) *)
}.

Fixpoint collect (l : list (option vector)) : option (list vector) :=
  match l with
  | [] => Some []
  | None :: _ => None
  | Some v :: t => match collect t with Some r => Some (v :: r) | None => None end
  end.

Definition is_strlit (e : expr) : bool := match e with EStr => true | _ => false end.
Definition is_num (e : expr) : bool := match e with ENum => true | _ => false end.
Definition nonempty (v : vector) : bool := match v with [] => false | _ => true end.
Definition is_kf (v : vector) : bool := match v with [KF] => true | _ => false end.

(* every step's vector of the value has a sample (what v[i][0].F needs at every step) *)
Definition all_nonempty (n : nat) (v : value) : bool :=
  match v with
  | VSteps l => forallb (fun s => nonempty (nth s l [])) (seq 0 n)
  | _ => false
  end.

Definition has_type (n : nat) (v : value) (t : vtype) : bool :=
  match t, v with
  | TScalar, VSteps l => (List.length l =? n)%nat && forallb is_kf l
  | TVector, VSteps l => (List.length l =? n)%nat
  | TMatrix, VSteps _ => true
  | TMatrix, VRange => true
  | TString, VStr => true
  | _, _ => false
  end.

(* result of evaluating one call argument, in the way the Call case treats it *)
Inductive argres :=
| RMat (err : bool)        (* a MatrixSelector argument (evaluated per series by the Call case) *)
| RSub (o : outcome)       (* a SubqueryExpr argument *)
| RStr (lit : bool)        (* statically string-typed: skipped by rangeEval; lit: is a StringLiteral node *)
| RVal (o : outcome).      (* evaluated by ev.eval *)

Definition is_matrixish (a : expr) : bool := match a with EMat _ _ | ESub _ _ _ => true | _ => false end.
Fixpoint first_matrix (l : list expr) (i : nat) : option nat :=
  match l with
  | [] => None
  | a :: t => if is_matrixish a then Some i else first_matrix t (S i)
  end.

(* the value ev.eval would give for an argument, from its argres *)
Definition res_outcome (n : nat) (r : argres) : outcome :=
  match r with
  | RVal o => o
  | RSub o => o
  | RStr _ => Val VStr
  | RMat err => if (n =? 1)%nat then (if err then User else Val VRange) else Internal FRangeMatrixSel
  end.

(* val.(Matrix) *)
Definition as_matrix (o : outcome) : outcome :=
  match o with Val VStr => Internal FAssertValue | _ => o end.

(* accesses a function body makes according to its declared signature: a declared scalar is read
   as vals[i][0].F, a declared string as args[i].(parser.StringLiteral), a declared matrix as
   matrixVals[0]; optional (variadic) arguments are guarded by len() checks in the bodies.
   [l]: per argument, the node and whether its vector has a sample at every step *)
Fixpoint fp_args (sg : fsig) (has_mat : bool) (i : nat) (l : list (expr * bool)) : option fault :=
  match l with
  | [] => None
  | (a, ne) :: t =>
      match arg_type sg i with
      | Some TScalar => if ne then fp_args sg has_mat (S i) t else Some FIndex
      | Some TString => if is_strlit a then fp_args sg has_mat (S i) t else Some FAssertNode
      | Some TMatrix => if has_mat then fp_args sg has_mat (S i) t else Some FIndex
      | _ => fp_args sg has_mat (S i) t
      end
  end.

Definition required_args (sg : fsig) : nat :=
  (List.length (fs_args sg) - (if (fs_var sg =? 0)%Z then 0 else 1))%nat.

Definition footprint (f : string) (sg : fsig) (has_mat : bool) (l : list (expr * bool)) : option fault :=
  if (List.length l <? required_args sg)%nat then Some FIndex
  else if String.eqb f "info" && match nth_error l 1 with Some (EVec _ _, _) | None => false | Some _ => true end
       then Some FAssertNode
  else fp_args sg has_mat 0 l.

Definition special_fn (f : string) : bool := in_names f ["label_replace"; "label_join"; "info"].
Definition ts_fn (f : string) : bool := in_names f ["timestamp"; "start_timestamp"].

(* first non-value outcome of a list, in order; None: all are values *)
Fixpoint first_bad (l : list outcome) : option outcome :=
  match l with
  | [] => None
  | Val _ :: t => first_bad t
  | o :: _ => Some o
  end.

Definition out_steps (w : world) (id : Z) (n : nat) : outcome :=
  match collect (map (w_vec w id) (seq 0 n)) with Some l => Val (VSteps l) | None => User end.

Definition scalar_steps (n : nat) : outcome := Val (VSteps (repeat [KF] n)).

Definition ne_of (n : nat) (o : outcome) : bool :=
  match o with Val v => all_nonempty n v | _ => false end.

Fixpoint mapi {A B : Type} (f : nat -> A -> B) (i : nat) (l : list A) : list B :=
  match l with
  | [] => []
  | x :: t => f i x :: mapi f (S i) t
  end.

(* the Call case of evaluator.eval, given the argument nodes and their results *)
Definition call_eval (w : world) (n : nat) (id : Z) (f : string) (sg : fsig)
           (args : list expr) (rs : list argres) : outcome :=
  let result := if vtype_eqb (fs_ret sg) TScalar then scalar_steps n else out_steps w id n in
  let generic :=
    let m := first_matrix args 0 in
    (* a first matrix argument that is a subquery is evaluated (evalSubquery: val.(Matrix)) *)
    match (match m with
           | Some i => match nth_error rs i with Some (RSub o) => first_bad [as_matrix o] | _ => None end
           | None => None end) with
    | Some bad => bad
    | None =>
      if negb (fs_impl sg) && negb (special_fn f) then Internal FNilImpl
      else if w_err w id then User
      else
        match m with
        | None =>
            (* rangeEval: string-typed arguments are skipped, the others evaluated and asserted *)
            let os := map (fun r => match r with RStr _ => Val (VSteps []) | _ => as_matrix (res_outcome n r) end) rs in
            match first_bad os with
            | Some bad => bad
            | None =>
                match footprint f sg false (combine args (map (ne_of n) os)) with
                | Some ft => Internal ft
                | None => result
                end
            end
        | Some i =>
            (* all other arguments are evaluated with ev.eval and asserted to be matrices,
               then read as scalars at every step: evalVals[j][0].Floats[step].F *)
            let os := mapi (fun j r => if (j =? i)%nat then Val VRange else as_matrix (res_outcome n r)) 0 rs in
            match first_bad os with
            | Some bad => bad
            | None =>
                if match nth_error rs i with Some (RMat true) => true | _ => false end then User
                else if negb (forallb (fun b => b) (mapi (fun j o => (j =? i)%nat || ne_of n o) 0 os))
                then Internal FIndex
                else match footprint f sg true (combine args (map (fun _ => true) os)) with
                     | Some ft => Internal ft
                     | None => result
                     end
            end
        end
    end in
  if ts_fn f then
    match args with
    | [] => Internal FIndex                               (* e.Args[0] *)
    | EVec id' _ :: _ => if w_err w id' then User else out_steps w id n
    | _ => generic
    end
  else generic.

(* binary operators: rangeEval over both sides; a scalar side is read as v[i][0].F *)
Definition bin_eval (w : world) (n : nat) (id : Z) (lt rt : vtype) (ol or_ : outcome) : outcome :=
  match lt, rt with
  | TScalar, TScalar | TVector, TVector | TVector, TScalar | TScalar, TVector =>
      match first_bad [as_matrix ol; as_matrix or_] with
      | Some bad => bad
      | None =>
          if (vtype_eqb lt TScalar && negb (ne_of n ol)) || (vtype_eqb rt TScalar && negb (ne_of n or_))
          then Internal FIndex
          else if vtype_eqb lt TScalar && vtype_eqb rt TScalar then scalar_steps n
          else out_steps w id n
      end
  | _, _ => Internal FUnhandled
  end.

(* ------------------------------------------------------------------ evaluator.eval *)
(* [n]: number of steps of the evaluator (instant query, StepInvariantExpr: 1) *)
Fixpoint eval (w : world) (n : nat) (e : expr) {struct e} : outcome :=
  match n with
  | O => Val (VSteps [])                (* ev.endTimestamp < ev.startTimestamp: Matrix{} *)
  | S _ =>
  match e with
  | ENum => scalar_steps n
  | EStr => Val VStr
  | EVec id _ => if w_err w id then User else out_steps w id n
  | EMat id _ =>
      if (n =? 1)%nat then (if w_err w id then User else Val VRange) else Internal FRangeMatrixSel
  | ESub id _ e1 => eval w (w_n w id) e1                  (* runSubquery: a new evaluator *)
  | EParen e1 => eval w n e1
  | EUn id e1 =>
      match as_matrix (eval w n e1) with
      | Val v => if w_err w id then User else Val v
      | o => o
      end
  | EBin id _ _ _ l r => bin_eval w n id (type_of l) (type_of r) (eval w n l) (eval w n r)
  | EAgg id op p e1 =>
      match op with
      | ACountValues =>
          match p with
          | Some EStr =>                                   (* e.Param.(parser.StringLiteral) *)
              if w_err w id then User                      (* invalid label name *)
              else match as_matrix (eval w n e1) with Val _ => out_steps w id n | o => o end
          | _ => Internal FAssertNode
          end
      | _ =>
          (* newFParams: the parameter is evaluated; a non-matrix result is tolerated *)
          match (match p with Some q => first_bad [eval w n q] | None => None end) with
          | Some bad => bad
          | None =>
              match as_matrix (eval w n e1) with
              | Val _ => if w_err w id then User else out_steps w id n
              | o => o
              end
          end
      end
  | ECall id f args =>
      match flookup f ftab with
      | None => Internal FNilImpl
      | Some sg =>
          call_eval w n id f sg args
            ((fix go (l : list expr) : list argres :=
                match l with
                | [] => []
                | a :: t =>
                    (match a with
                     | EMat id' _ => RMat (w_err w id')
                     | ESub _ _ _ => RSub (eval w n a)
                     | _ => if vtype_eqb (type_of a) TString then RStr (is_strlit a) else RVal (eval w n a)
                     end) :: go t
                end) args)
      end
  | EStepInv e1 =>
      match eval w 1 e1 with
      | Val v =>
          if is_matrixish e1 then Val v
          else match v with
               | VSteps l => Val (VSteps (repeat (nth 0 l []) n))   (* the single step, duplicated *)
               | _ => Internal FStepInv
               end
      | o => o
      end
  end
  end.

(* ------------------------------------------------------------------ a whole query *)
Inductive qkind := QInstant | QRange (n : nat).   (* n: number of steps, >= 1 *)
Inductive qres := QValue (t : vtype) | QUser | QRejected | QInternal (f : fault).

(* Engine.NewInstantQuery/NewRangeQuery + exec + execEvalStmt's conversion of the result *)
Definition run_query (w : world) (k : qkind) (e : expr) : qres :=
  if negb (check e) then QRejected                         (* parse error: never evaluated *)
  else
    let t := type_of e in
    match k with
    | QInstant =>
        match preprocess e with
        | None => QInternal FPreprocess
        | Some pe =>
            match eval w 1 pe with
            | User => QUser
            | Internal f => QInternal f
            | Val VStr => QValue TString
            | Val v =>
                match type_of pe with
                | TVector => QValue TVector
                | TScalar => if all_nonempty 1 v then QValue TScalar else QInternal FIndex  (* mat[0].Floats[0].F *)
                | TMatrix => QValue TMatrix
                | _ => QInternal FUnhandled
                end
            end
        end
    | QRange n =>
        if negb (is_sv t) then QRejected                   (* "invalid expression type ... for range query" *)
        else match preprocess e with
             | None => QInternal FPreprocess
             | Some pe =>
                 match eval w n pe with
                 | User => QUser
                 | Internal f => QInternal f
                 | Val VStr => QInternal FUnhandled
                 | Val _ => QValue TMatrix
                 end
             end
    end.

(* ------------------------------------------------------------------ table invariants *)
(* what the Call case of the evaluator relies on: functions return scalars or vectors; a function
   with a range-vector parameter is not variadic, has exactly one such parameter and only scalar
   other parameters (read as evalVals[j][0].Floats[step].F); a variadic function has a last type
   to repeat; only the special-cased and the folded functions have no FunctionCalls entry *)
Definition count_matrix (l : list vtype) : nat := List.length (filter (fun t => vtype_eqb t TMatrix) l).
Definition sig_wf (f : string) (s : fsig) : bool :=
  is_sv (fs_ret s) &&
  (if (fs_var s =? 0)%Z then true else negb (Nat.eqb (List.length (fs_args s)) 0)) &&
  (match count_matrix (fs_args s) with
   | O => true
   | S O => (fs_var s =? 0)%Z && forallb (fun t => vtype_eqb t TMatrix || vtype_eqb t TScalar) (fs_args s)
   | _ => false
   end) &&
  (fs_impl s || special_fn f || ctx_fn f) &&
  negb (existsb (fun t => vtype_eqb t TNone) (fs_args s)).
Definition ftab_wf (t : ftab_t) : bool := forallb (fun fs => sig_wf (fst fs) (snd fs)) t.

(* ------------------------------------------------------------------ side condition of the partial theorem *)
(* Typing of preprocessed trees: what the evaluator's assertions rely on. *)
Definition canon_arg (t : vtype) (a : expr) : bool :=
  match t with
  | TString => is_strlit a
  | TMatrix => is_matrixish a
  | _ => true
  end.

Fixpoint wtp (e : expr) : bool :=
  match e with
  | ENum | EStr | EVec _ _ | EMat _ _ => true
  | ESub _ _ e1 => wtp e1 && vtype_eqb (type_of e1) TVector
  | EParen e1 => wtp e1
  | EUn _ e1 => wtp e1 && is_sv (type_of e1)
  | EBin _ _ _ _ l r => wtp l && wtp r && is_sv (type_of l) && is_sv (type_of r)
  | EAgg _ op p e1 =>
      wtp e1 && vtype_eqb (type_of e1) TVector &&
      match op, p with
      | APlain, None => true
      | AParam, Some q => wtp q && vtype_eqb (type_of q) TScalar
      | ACountValues, Some EStr => true
      | _, _ => false
      end
  | ECall _ f args =>
      match flookup f ftab with
      | None => false
      | Some sg =>
          arity_ok sg (List.length args) && (fs_impl sg || special_fn f) &&
          (if String.eqb f "info" then match nth_error args 1 with Some (EVec _ _) | None => true | _ => false end else true) &&
          (fix go (l : list expr) (i : nat) : bool :=
             match l with
             | [] => true
             | a :: t =>
                 wtp a &&
                 match arg_type sg i with
                 | Some ty => vtype_eqb (type_of a) ty && canon_arg ty a
                 | None => false
                 end && go t (S i)
             end) args 0%nat
      end
  | EStepInv e1 => wtp e1 && is_sv (type_of e1)
  end.

(* no info() label-selector argument carries an @ modifier: preprocessing wraps such an argument
   in a StepInvariantExpr (unless the whole call is step invariant) and evalInfo asserts
   args[1].(parser.VectorSelector) *)
Fixpoint info_plain (e : expr) : bool :=
  match e with
  | ENum | EStr | EVec _ _ | EMat _ _ => true
  | ESub _ _ e1 | EParen e1 | EUn _ e1 | EStepInv e1 => info_plain e1
  | EBin _ _ _ _ l r => info_plain l && info_plain r
  | EAgg _ _ p e1 => match p with Some q => info_plain q | None => true end && info_plain e1
  | ECall _ f args =>
      (if String.eqb f "info" then match nth_error args 1 with Some (EVec _ vs) => negb (vs_at vs) | _ => true end else true) &&
      forallb info_plain args
  end.

(* the canonical world used by the correspondence check to predict faults: every selector,
   operator and function yields one float sample at every step, subqueries have two steps, and
   there are no user-facing errors *)
Definition canon_world : world := mkW (fun _ _ => Some [KF]) (fun _ => 2%nat) (fun _ => false).

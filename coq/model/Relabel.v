(* model/Relabel.v — executable model of model/relabel/relabel.go (relabel, ProcessBuilder) and of
   labels.Builder (model/labels/labels_common.go: Set/Del/Get/Range; labels_stringlabels.go:
   Reset/Labels).  Definitions only; proofs are in proof/RelabelProofs.v.

   Strings are byte lists (list N); Go string comparison = bytewise lexicographic.
   Regex matching/expansion, md5, ToLower/ToUpper and label-name validation are oracles
   (record [oracle] of total functions; the correspondence harness tabulates them per rule
   application on exactly the arguments the implementation uses). *)
From Coq Require Import List ZArith NArith Bool.
Import ListNotations.

Definition str := list N.

Fixpoint str_eqb (a b : str) : bool :=
  match a, b with
  | [], [] => true
  | x :: a', y :: b' => N.eqb x y && str_eqb a' b'
  | _, _ => false
  end.

(* Go's string ordering (strings.Compare, <) *)
Fixpoint str_cmp (a b : str) : comparison :=
  match a, b with
  | [], [] => Eq
  | [], _ :: _ => Lt
  | _ :: _, [] => Gt
  | x :: a', y :: b' => match N.compare x y with Eq => str_cmp a' b' | c => c end
  end.

Definition str_ltb (a b : str) : bool := match str_cmp a b with Lt => true | _ => false end.
Definition is_empty (s : str) : bool := match s with [] => true | _ => false end.

Definition label := (str * str)%type.
Definition lname (l : label) : str := fst l.
Definition lvalue (l : label) : str := snd l.

Definition name_is (n : str) (l : label) : bool := str_eqb (lname l) n.
Definition mem_str (n : str) (l : list str) : bool := existsb (str_eqb n) l.
Definition has_name (n : str) (l : list label) : bool := existsb (name_is n) l.

(* Labels.Get: first label with that name, "" when absent *)
Definition lget (L : list label) (n : str) : str :=
  match find (name_is n) L with Some l => lvalue l | None => [] end.

(* ---------------------------------------------------------------- labels.Builder *)
Record builder := mkB { b_base : list label; b_del : list str; b_add : list label }.

(* NewBuilder / Reset: labels of the base with empty value are recorded as deleted *)
Definition new_builder (base : list label) : builder :=
  mkB base (map lname (filter (fun l => is_empty (lvalue l)) base)) [].

(* Builder.Del's loop `for i, a := range b.add { if a.Name == n { b.add = append(b.add[:i], b.add[i+1:]...) } }`
   transcribed on the shared backing array: [arr] is the backing array as seen through the
   slice header captured by `range` (fixed length), [len] the current len(b.add).
   None = Go panic (slice bounds out of range). *)
Fixpoint del_loop (n : str) (steps i : nat) (arr : list label) (len : nat) : option (list label * nat) :=
  match steps with
  | O => Some (arr, len)
  | S steps' =>
      match nth_error arr i with
      | None => None
      | Some a =>
          if name_is n a then
            if Nat.leb (S i) len then
              (* copy arr[i+1:len] to arr[i:]; arr[len-1] keeps its stale value *)
              del_loop n steps' (S i)
                (firstn i arr ++ skipn (S i) (firstn len arr) ++ skipn (len - 1) arr) (len - 1)
            else None
          else del_loop n steps' (S i) arr len
      end
  end.
Definition go_del_add (n : str) (add : list label) : option (list label) :=
  match del_loop n (length add) 0 add (length add) with
  | Some (arr, len) => Some (firstn len arr)
  | None => None
  end.

(* what that loop computes when the names in b.add are pairwise distinct (the builder's
   invariant; proved: go_del_add_spec) *)
Definition remove_add (n : str) (add : list label) : list label :=
  filter (fun a => negb (name_is n a)) add.

Definition bdel (b : builder) (n : str) : builder :=
  mkB (b_base b) (b_del b ++ [n]) (remove_add n (b_add b)).

Fixpoint set_add (n v : str) (add : list label) : list label :=
  match add with
  | [] => [(n, v)]
  | a :: t => if name_is n a then (lname a, v) :: t else a :: set_add n v t
  end.

Definition bset (b : builder) (n v : str) : builder :=
  if is_empty v then bdel b n
  else mkB (b_base b) (b_del b) (set_add n v (b_add b)).

Definition bget (b : builder) (n : str) : str :=
  match find (name_is n) (b_add b) with
  | Some a => lvalue a
  | None => if mem_str n (b_del b) then [] else lget (b_base b) n
  end.

(* Builder.Range: base labels that are neither deleted nor overridden, then b.add in
   insertion order (a snapshot: f may call Set/Del) *)
Definition brange (b : builder) : list label :=
  filter (fun l => negb (mem_str (lname l) (b_del b)) && negb (has_name (lname l) (b_add b))) (b_base b)
  ++ b_add b.

(* slices.SortFunc / slices.Sort: insertion sort by name (any sort gives the same result on
   distinct names) *)
Fixpoint ins_label (x : label) (l : list label) : list label :=
  match l with
  | [] => [x]
  | y :: t => if str_ltb (lname y) (lname x) then y :: ins_label x t else x :: l
  end.
Definition sort_labels (l : list label) : list label := fold_right ins_label [] l.
Fixpoint ins_str (x : str) (l : list str) : list str :=
  match l with
  | [] => [x]
  | y :: t => if str_ltb y x then y :: ins_str x t else x :: l
  end.
Definition sort_strs (l : list str) : list str := fold_right ins_str [] l.

Fixpoint drop_lt (n : str) (d : list str) : list str :=
  match d with
  | x :: t => if str_ltb x n then drop_lt n t else d
  | [] => []
  end.
Fixpoint span_lt (n : str) (a : list label) : list label * list label :=
  match a with
  | x :: t => if str_ltb (lname x) n then let (e, r) := span_lt n t in (x :: e, r) else ([], a)
  | [] => ([], [])
  end.

(* the merge loop of Builder.Labels (stringlabels), d and a being the sorted del and add *)
Fixpoint merge_labels (base : list label) (d : list str) (a : list label) : list label :=
  match base with
  | [] => a
  | l :: rest =>
      let d' := drop_lt (lname l) d in
      match d' with
      | x :: _ =>
          if str_eqb x (lname l) then merge_labels rest d' a   (* deleted *)
          else
            let (e, a') := span_lt (lname l) a in
            match a' with
            | y :: a'' => if str_eqb (lname y) (lname l) then e ++ y :: merge_labels rest d' a''
                          else e ++ l :: merge_labels rest d' a'
            | [] => e ++ l :: merge_labels rest d' []
            end
      | [] =>
            let (e, a') := span_lt (lname l) a in
            match a' with
            | y :: a'' => if str_eqb (lname y) (lname l) then e ++ y :: merge_labels rest [] a''
                          else e ++ l :: merge_labels rest [] a'
            | [] => e ++ l :: merge_labels rest [] []
            end
      end
  end.

Definition blabels (b : builder) : list label :=
  match b_del b, b_add b with
  | [], [] => b_base b
  | _, _ => merge_labels (b_base b) (sort_strs (b_del b)) (sort_labels (b_add b))
  end.

(* ---------------------------------------------------------------- relabel *)
Inductive action := Replace | Keep | Drop | KeepEqual | DropEqual | HashMod
                  | LabelMap | LabelDrop | LabelKeep | Lowercase | Uppercase.

Record rule := mkRule {
  r_action : action;
  r_src : list str;          (* SourceLabels *)
  r_sep : str;               (* Separator *)
  r_regex : str;             (* source text of cfg.Regex: the key under which the oracles are asked *)
  r_default_re : bool;       (* cfg.Regex == DefaultRelabelConfig.Regex (pointer identity) *)
  r_modulus : Z;
  r_target : str;
  r_repl : str;
  r_utf8 : bool              (* NameValidationScheme: true = UTF8Validation, false = LegacyValidation *)
}.

Record oracle := mkO {
  o_match : str -> str -> bool;                       (* Regex.MatchString: regex, s *)
  o_find : str -> str -> option (list Z);             (* Regex.FindStringSubmatchIndex (nil = None) *)
  o_expand : str -> str -> str -> list Z -> str;      (* Regex.ExpandString([]byte{}, template, src, idx) *)
  o_replace_all : str -> str -> str -> str;           (* Regex.ReplaceAllString(src, repl) *)
  o_md5 : str -> Z;                                   (* BigEndian.Uint64(md5.Sum(s)[8:]) *)
  o_lower : str -> str;
  o_upper : str -> str;
  o_valid : bool -> str -> bool                       (* scheme.IsValidLabelName *)
}.

(* strings.Join *)
Fixpoint join (sep : str) (vs : list str) : str :=
  match vs with
  | [] => []
  | [v] => v
  | v :: t => v ++ sep ++ join sep t
  end.

Definition has_dollar (s : str) : bool := existsb (N.eqb 36) s.   (* varInRegexTemplate *)

(* strconv.FormatUint(z, 10) for 0 <= z < 2^64 (20 digits suffice) *)
Fixpoint fmt_digits (fuel : nat) (z : Z) (acc : str) : str :=
  match fuel with
  | O => acc
  | S f => let acc' := Z.to_N (48 + z mod 10) :: acc in
           if Z.ltb z 10 then acc' else fmt_digits f (z / 10) acc'
  end.
Definition format_uint (z : Z) : str := fmt_digits 20 z [].

Inductive outcome := OKeep (b : builder) | ODrop (b : builder) | OPanic.

Section Interp.
Variable O : oracle.

Definition source_val (r : rule) (get : str -> str) : str := join (r_sep r) (map get (r_src r)).

Definition fast_path (r : rule) (val : str) : bool :=
  is_empty val && r_default_re r && negb (has_dollar (r_target r)) && negb (has_dollar (r_repl r)).

Definition relabel (r : rule) (b : builder) : outcome :=
  let re := r_regex r in
  let val := source_val r (bget b) in
  match r_action r with
  | Drop => if o_match O re val then ODrop b else OKeep b
  | Keep => if o_match O re val then OKeep b else ODrop b
  | DropEqual => if str_eqb (bget b (r_target r)) val then ODrop b else OKeep b
  | KeepEqual => if str_eqb (bget b (r_target r)) val then OKeep b else ODrop b
  | Replace =>
      if fast_path r val then OKeep (bset b (r_target r) (r_repl r))
      else
        match o_find O re val with
        | None => OKeep b
        | Some idx =>
            let target := o_expand O re (r_target r) val idx in
            if negb (o_valid O (r_utf8 r) target) then OKeep b
            else
              let res := o_expand O re (r_repl r) val idx in
              if is_empty res then OKeep (bdel b target) else OKeep (bset b target res)
        end
  | Lowercase => OKeep (bset b (r_target r) (o_lower O val))
  | Uppercase => OKeep (bset b (r_target r) (o_upper O val))
  | HashMod =>
      if Z.eqb (r_modulus r) 0 then OPanic   (* integer divide by zero *)
      else OKeep (bset b (r_target r) (format_uint (o_md5 O val mod r_modulus r)))
  | LabelMap =>
      OKeep (fold_left (fun b' l => if o_match O re (lname l)
                                    then bset b' (o_replace_all O re (lname l) (r_repl r)) (lvalue l)
                                    else b') (brange b) b)
  | LabelDrop =>
      OKeep (fold_left (fun b' l => if o_match O re (lname l) then bdel b' (lname l) else b') (brange b) b)
  | LabelKeep =>
      OKeep (fold_left (fun b' l => if o_match O re (lname l) then b' else bdel b' (lname l)) (brange b) b)
  end.

(* ProcessBuilder *)
Fixpoint process (rs : list rule) (b : builder) : outcome :=
  match rs with
  | [] => OKeep b
  | r :: rs' => match relabel r b with
                | OKeep b' => process rs' b'
                | o => o
                end
  end.

(* ------------------------------------------------------------ documented semantics
   A direct interpretation of the documentation on canonical label sets (sorted by name,
   no empty values); labelmap visits the labels in name order. *)
Fixpoint lset (L : list label) (n v : str) : list label :=
  match L with
  | [] => if is_empty v then [] else [(n, v)]
  | l :: t =>
      match str_cmp n (lname l) with
      | Lt => if is_empty v then L else (n, v) :: L
      | Eq => if is_empty v then t else (n, v) :: t
      | Gt => l :: lset t n v
      end
  end.

Inductive doc_outcome := DKeep (L : list label) | DDrop.

Definition doc_rule (r : rule) (L : list label) : doc_outcome :=
  let re := r_regex r in
  let val := source_val r (lget L) in
  match r_action r with
  | Drop => if o_match O re val then DDrop else DKeep L
  | Keep => if o_match O re val then DKeep L else DDrop
  | DropEqual => if str_eqb (lget L (r_target r)) val then DDrop else DKeep L
  | KeepEqual => if str_eqb (lget L (r_target r)) val then DKeep L else DDrop
  | Replace =>
      match o_find O re val with
      | None => DKeep L
      | Some idx =>
          let target := o_expand O re (r_target r) val idx in
          if o_valid O (r_utf8 r) target
          then DKeep (lset L target (o_expand O re (r_repl r) val idx))
          else DKeep L
      end
  | Lowercase => DKeep (lset L (r_target r) (o_lower O val))
  | Uppercase => DKeep (lset L (r_target r) (o_upper O val))
  | HashMod => DKeep (lset L (r_target r) (format_uint (o_md5 O val mod r_modulus r)))
  | LabelMap =>
      DKeep (fold_left (fun acc l => if o_match O re (lname l)
                                     then lset acc (o_replace_all O re (lname l) (r_repl r)) (lvalue l)
                                     else acc) L L)
  | LabelDrop => DKeep (filter (fun l => negb (o_match O re (lname l))) L)
  | LabelKeep => DKeep (filter (fun l => o_match O re (lname l)) L)
  end.

Fixpoint doc_process (rs : list rule) (L : list label) : doc_outcome :=
  match rs with
  | [] => DKeep L
  | r :: rs' => match doc_rule r L with
                | DKeep L' => doc_process rs' L'
                | DDrop => DDrop
                end
  end.

End Interp.

(* ---------------------------------------------------------------- canonical label sets *)
Fixpoint ssorted (L : list label) : bool :=      (* strictly sorted by name *)
  match L with
  | a :: ((b :: _) as t) => str_ltb (lname a) (lname b) && ssorted t
  | _ => true
  end.
Definition no_empty (L : list label) : bool := forallb (fun l => negb (is_empty (lvalue l))) L.
Definition canonical (L : list label) : bool := ssorted L && no_empty L.

Fixpoint labels_eqb (a b : list label) : bool :=
  match a, b with
  | [], [] => true
  | (n, v) :: a', (m, w) :: b' => str_eqb n m && str_eqb v w && labels_eqb a' b'
  | _, _ => false
  end.

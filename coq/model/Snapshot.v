(* model/Snapshot.v — executable model of "restart from the chunk snapshot" versus "restart from
   the WAL" (property C23).  Definitions only; proofs are in proof/SnapshotProofs.v.

   Anchors: tsdb/head.go Head.Init (snapshot discard rules, which checkpoint / segments / offset
   are replayed, loadMmappedChunks), tsdb/head_wal.go ChunkSnapshot (what a snapshot contains),
   loadChunkSnapshot (what is restored from it), loadWAL / processWALSamples (replay of sample,
   tombstone and exemplar records), Head.Close (mmapHeadChunks; snapshot at the WAL end).

   Series are identified by a small integer (the harness numbers its label sets and resolves
   series refs through the series records of the WAL and of the snapshot).  Float samples only;
   a sample is (timestamp, value code).

   A durable state [dstate] is what Head.Init finds on disk:
     d_mv       minValidTime handed to Init (max time of the in-order blocks, or MinInt64)
     d_lastseg  last WAL segment index seen by Init (wlog.Segments), d_cp last checkpoint index (-1: none)
     d_wal      the decoded records of the checkpoint and of the segments in replay order, each
                with its segment index and the offset at which it ends
     d_mm       the in-order chunks in the head chunk files per series, in file order
     d_mm_ok    the head chunk files are readable (no CRC / sequence error)  [oracle]
     d_snap     the newest chunk snapshot: WAL position (segment, offset), whether it decodes
                without error [oracle: CRC], per series the snapshotted head chunk, the head
                tombstones, the exemplars (series -1: ref unknown in the snapshot)
     d_ooo      the out-of-order samples of the head after the restart (WBL replay is the same
                code on both paths)                                          [oracle]
     d_blk      the samples visible in the persistent blocks                 [oracle]

   mmMaxTime of a memSeries restored from the snapshot: since the fix (/repo 5693077124)
   loadChunkSnapshot sets it to MinInt64 ([snap_series], [open]).  Before the fix it kept the Go
   zero value 0 (only resetSeriesWithMMappedChunks set it) and processWALSamples, which skips
   every sample with T <= mmMaxTime, lost the samples with T <= 0 of WAL records replayed AFTER
   an outdated snapshot: [snap_series_old], [open_old], C23_outdated_snapshot_old_refuted. *)
From Coq Require Import List ZArith Bool.
Import ListNotations.
Open Scope Z_scope.

Definition minInt64 : Z := -9223372036854775808.

Definition sample := (Z * Z)%type.
Definition ivl := (Z * Z)%type.
Definition ts (x : sample) : Z := fst x.

Inductive wrec :=
| WSample (l : Z) (x : sample)
| WTomb (l : Z) (iv : ivl)
| WEx (l : Z) (e : sample).

Record wentry := mkW { w_cp : bool; w_seg : Z; w_off : Z; w_rec : wrec }.

Record snapshot := mkSn {
  sn_idx : Z; sn_off : Z; sn_ok : bool;
  sn_hc : Z -> list sample;        (* snapshotted head chunk ([]: series has none) *)
  sn_has : Z -> bool;              (* the snapshot has a series record for the series *)
  sn_tomb : Z -> list ivl;
  sn_ex : list (Z * sample) }.

Record dstate := mkD {
  d_mv : Z; d_lastseg : Z; d_cp : Z;
  d_wal : list wentry;
  d_mm : Z -> list (list sample);
  d_mm_ok : bool;
  d_snap : option snapshot;
  d_ooo : Z -> list sample;
  d_blk : Z -> list sample;
  d_univ : list Z }.

(* ---------------- memory state after Init ---------------- *)
Record mser := mkMS { ms_mm : list (list sample); ms_mmMax : Z; ms_hc : list sample }.
Record head := mkH { h_ser : Z -> mser; h_tomb : Z -> list ivl; h_ex : list (Z * sample) }.

Definition upd {A} (f : Z -> A) (k : Z) (v : A) : Z -> A := fun i => if i =? k then v else f i.

Definition last_ts (l : list sample) (dflt : Z) : Z := ts (last l (dflt, 0)).
Definition first_ts (l : list sample) (dflt : Z) : Z := match l with x :: _ => ts x | [] => dflt end.
Definition cmax (c : list sample) : Z := last_ts c minInt64.
Definition cmin (c : list sample) : Z := first_ts c minInt64.
Definition is_nil {A} (l : list A) : bool := match l with [] => true | _ => false end.

(* loadMmappedChunks: chunks with maxTime < minValidTime are ignored *)
Definition load_chunks (mv : Z) (cs : list (list sample)) : list (list sample) :=
  filter (fun c => mv <=? cmax c) cs.

(* maxTime of the last m-mapped chunk, MinInt64 without one (resetSeriesWithMMappedChunks) *)
Definition mm_max (cs : list (list sample)) : Z :=
  match cs with [] => minInt64 | _ => cmax (last cs []) end.

(* a series first seen through its WAL series record: resetSeriesWithMMappedChunks *)
Definition wal_series (mv : Z) (cs : list (list sample)) : mser :=
  let mm := load_chunks mv cs in mkMS mm (mm_max mm) [].

(* a series restored by loadChunkSnapshot, then given its chunk files by loadMmappedChunks
   (branch "ms, ok := refSeries[seriesRef]"): a chunk file whose maxTime reaches the snapshotted
   head chunk's minTime means the head chunk was completed and m-mapped after the snapshot was
   taken: the in-memory head chunk is dropped.  mmMaxTime stays what loadChunkSnapshot left
   ([mm0]: MinInt64 now, 0 before the fix). *)
Definition attach (m : mser) (c : list sample) : mser :=
  mkMS (ms_mm m ++ [c]) (ms_mmMax m)
       (if negb (is_nil (ms_hc m)) && (cmin (ms_hc m) <=? cmax c) then [] else ms_hc m).
Definition snap_series_at (mm0 : Z) (mv : Z) (hc : list sample) (cs : list (list sample)) : mser :=
  fold_left attach (load_chunks mv cs) (mkMS [] mm0 hc).
Definition snap_series := snap_series_at minInt64.
Definition snap_series_old := snap_series_at 0.

(* memSeries.append for a replayed sample: rejected unless above the newest chunk *)
Definition newest_max (m : mser) : Z :=
  match ms_hc m with
  | [] => mm_max (ms_mm m)
  | hc => last_ts hc minInt64
  end.

(* processWALSamples for one float sample *)
Definition replay_sample (mv : Z) (m : mser) (x : sample) : mser :=
  if ts x <? mv then m
  else if ts x <=? ms_mmMax m then m
  else if ts x <=? newest_max m then m
  else mkMS (ms_mm m) (ms_mmMax m) (ms_hc m ++ [x]).

Section WithExemplarStorage.
(* CircularExemplarStorage.AddExemplar on the storage content (property C21) is not under test
   here: an oracle that may drop / evict but never invents exemplars. *)
Variable add_ex : list (Z * sample) -> Z * sample -> list (Z * sample).

Definition replay_entry (mv : Z) (h : head) (e : wentry) : head :=
  match w_rec e with
  | WSample l x => mkH (upd (h_ser h) l (replay_sample mv (h_ser h l) x)) (h_tomb h) (h_ex h)
  | WTomb l iv => if snd iv <? mv then h else mkH (h_ser h) (upd (h_tomb h) l (h_tomb h l ++ [iv])) (h_ex h)
  | WEx l x => if ts x <? mv then h else mkH (h_ser h) (h_tomb h) (add_ex (h_ex h) (l, x))
  end.

(* Head.Init: is the snapshot used?  (option enabled, a snapshot exists, the last WAL segment is
   not behind the snapshot's segment, loadChunkSnapshot succeeds, the head chunk files load) *)
Definition usable (enabled : bool) (d : dstate) : option snapshot :=
  if enabled then
    match d_snap d with
    | Some s => if d_lastseg d <? sn_idx s then None
                else if sn_ok s then (if d_mm_ok d then Some s else None) else None
    | None => None
    end
  else None.

(* which records Init replays: the checkpoint if its index is >= the snapshot's segment; the
   segments from max(checkpoint(+1 if loaded), snapshot segment) on; inside the snapshot's
   segment only the records behind the snapshot's offset *)
Definition replayed (snapIdx snapOff cp : Z) (e : wentry) : bool :=
  if w_cp e then snapIdx <=? cp
  else (Z.max (if (0 <=? cp) && (snapIdx <=? cp) then cp + 1 else Z.max cp 0) snapIdx <=? w_seg e)
       && (if w_seg e =? snapIdx then snapOff <? w_off e else true).

Definition snap_head (mm0 : Z) (mv : Z) (d : dstate) (s : snapshot) : head :=
  mkH (fun l => if sn_has s l then snap_series_at mm0 mv (sn_hc s l) (d_mm d l) else wal_series mv (d_mm d l))
      (sn_tomb s)
      (fold_left add_ex (filter (fun e => 0 <=? fst e) (sn_ex s)) []).

Definition wal_head (mv : Z) (d : dstate) : head :=
  mkH (fun l => wal_series mv (d_mm d l)) (fun _ => []) [].

Definition open_at (mm0 : Z) (enabled : bool) (d : dstate) : head :=
  let mv := d_mv d in
  match usable enabled d with
  | Some s => fold_left (replay_entry mv) (filter (replayed (sn_idx s) (sn_off s) (d_cp d)) (d_wal d)) (snap_head mm0 mv d s)
  | None => fold_left (replay_entry mv) (filter (replayed (-1) 0 (d_cp d)) (d_wal d)) (wal_head mv d)
  end.
Definition open := open_at minInt64.
Definition open_old := open_at 0.   (* the code before the fix *)
End WithExemplarStorage.

(* ---------------- queries ---------------- *)
Definition covered (ivs : list ivl) (t : Z) : bool :=
  existsb (fun iv => (fst iv <=? t) && (t <=? snd iv)) ivs.

Definition io_samples (m : mser) : list sample := concat (ms_mm m) ++ ms_hc m.

(* the head's candidates for a series: in-order samples from Head.MinTime() on (after Init it is
   minValidTime or the first sample present, whichever is larger), head tombstones applied to
   in-order and out-of-order samples alike *)
Definition head_cands (mv : Z) (h : head) (ooo : list sample) (l : Z) : list sample :=
  filter (fun x => (mv <=? ts x) && negb (covered (h_tomb h l) (ts x))) (io_samples (h_ser h l))
  ++ filter (fun x => negb (covered (h_tomb h l) (ts x))) ooo.

Fixpoint ins (x : sample) (l : list sample) : list sample :=
  match l with
  | [] => [x]
  | y :: r => if ts x <? ts y then x :: l else if ts x =? ts y then l else y :: ins x r
  end.
Definition sort_uniq (l : list sample) : list sample := fold_right ins [] l.

Definition answer := list (Z * list sample).

Definition query (d : dstate) (h : head) : answer :=
  flat_map (fun l =>
    match sort_uniq (head_cands (d_mv d) h (d_ooo d l) l ++ d_blk d l) with
    | [] => []
    | r => [(l, r)]
    end) (d_univ d).

(* ---------------- histories (float samples, one WAL, no head truncation) ---------------- *)
(* memory + log as the operations below change them.  The WAL position of a record is
   (segment, running record count); every restart starts a new segment. *)
Record state := mkSt { s_head : head; s_wal : list wentry; s_seg : Z; s_cnt : Z;
                       s_snap : option snapshot; s_ooo : Z -> list sample }.

Definition head0 : head := mkH (fun _ => mkMS [] minInt64 []) (fun _ => []) [].
Definition state0 : state := mkSt head0 [] 0 0 None (fun _ => []).

Inductive op :=
| Append (l : Z) (x : sample)        (* one committed float append (logged to the WAL even when it is out of order) *)
| Cut (l : Z) (k : nat)              (* the first k samples of the head chunk(s) are completed and m-mapped *)
| Delete (l : Z) (iv : ivl)          (* Head.Delete: the stone kept in memory and logged *)
| Exemplar (l : Z) (e : sample)
| Restart (enabled_close enabled_open : bool).  (* Close (snapshot iff enabled_close) ; Open *)

Section Histories.
Variable add_ex : list (Z * sample) -> Z * sample -> list (Z * sample).

Definition log (s : state) (r : wrec) : list wentry :=
  s_wal s ++ [mkW false (s_seg s) (s_cnt s + 1) r].

(* headAppender.Commit for one float sample: in order -> appended to the head chunk; otherwise it
   goes to the out-of-order head (if at all), which both restart paths rebuild from the WBL *)
Definition append_mem (m : mser) (x : sample) : mser :=
  if ts x <=? newest_max m then m else mkMS (ms_mm m) (ms_mmMax m) (ms_hc m ++ [x]).

Definition cut_mem (m : mser) (k : nat) : mser :=
  match firstn k (ms_hc m) with
  | [] => m
  | c => mkMS (ms_mm m ++ [c]) (ms_mmMax m) (skipn k (ms_hc m))
  end.

(* ChunkSnapshot at Close: every series with its head chunk, the head tombstones, the exemplars;
   named after the end of the WAL *)
Definition take_snapshot (s : state) : snapshot :=
  let h := s_head s in
  mkSn (s_seg s) (s_cnt s) true (fun l => ms_hc (h_ser h l)) (fun _ => true) (h_tomb h)
       (h_ex h).

(* what is on disk after Close *)
Definition durable (s : state) (snap : option snapshot) (univ : list Z) : dstate :=
  mkD minInt64 (s_seg s + 1) (-1) (s_wal s) (fun l => ms_mm (h_ser (s_head s) l)) true snap
      (s_ooo s) (fun _ => []) univ.

Definition close (enabled : bool) (s : state) : option snapshot :=
  if enabled then Some (take_snapshot s) else s_snap s.

Definition step (s : state) (o : op) : state :=
  let h := s_head s in
  match o with
  | Append l x =>
      mkSt (mkH (upd (h_ser h) l (append_mem (h_ser h l) x)) (h_tomb h) (h_ex h))
           (log s (WSample l x)) (s_seg s) (s_cnt s + 1) (s_snap s) (s_ooo s)
  | Cut l k =>
      mkSt (mkH (upd (h_ser h) l (cut_mem (h_ser h l) k)) (h_tomb h) (h_ex h))
           (s_wal s) (s_seg s) (s_cnt s) (s_snap s) (s_ooo s)
  | Delete l iv =>
      mkSt (mkH (h_ser h) (upd (h_tomb h) l (h_tomb h l ++ [iv])) (h_ex h))
           (log s (WTomb l iv)) (s_seg s) (s_cnt s + 1) (s_snap s) (s_ooo s)
  | Exemplar l e =>
      mkSt (mkH (h_ser h) (h_tomb h) (add_ex (h_ex h) (l, e)))
           (log s (WEx l e)) (s_seg s) (s_cnt s + 1) (s_snap s) (s_ooo s)
  | Restart ec eo =>
      let sn := close ec s in
      mkSt (open add_ex eo (durable s sn [])) (s_wal s) (s_seg s + 1) 0 sn (s_ooo s)
  end.

Definition run (ops : list op) : state := fold_left step ops state0.
End Histories.

(* model/CounterResetHint.v — executable model for C12 (counter-reset hints returned by queries).
   Transcribed from
     /repo/tsdb/chunkenc/histogram.go, float_histogram.go
         (Float)HistogramAppender.appendable (the cascade), appendableGauge, expand(Int|Float)SpansAndBuckets,
         appendHistogram (appender state update), AppendHistogram (when a new chunk is cut and which
         header it gets), histogramIterator.AtHistogram/AtFloatHistogram (hint of a returned sample)
     /repo/tsdb/chunkenc/histogram_meta.go   bucketIterator, counterResetHint(crh, numRead)
     /repo/tsdb/querier.go                   DeletedIterator (range restriction and tombstones = filter on t)
     /repo/storage/merge.go                  chainSampleIterator.Next / AtHistogram (the `consecutive` flag)
   Level of abstraction: a histogram is its layout parameters, count, zero count and the list of
   (bucket index, absolute count) pairs per sign — exactly what the Go code's bucketIterator and the
   running sums aCount/bCount of expandIntSpansAndBuckets walk over.  The conversion from spans and
   (delta) buckets is [buckets_of] below (used by the correspondence file on raw Go values).
   Bit-level encoding, inserts and span adjustment belong to C11 and are not modelled: recoding only adds
   zero-count buckets, which this model keeps in the appender's layout ([expand]).
   int64/uint64 wrap-around of counts and float comparison of NaN/-0 are not modelled (valid histograms
   with integral counts are generated).  Definitions only. *)
From Coq Require Import List ZArith Bool.
Import ListNotations.
Open Scope Z_scope.

(* histogram.CounterResetHint *)
Inductive hint := HUnknown | HReset | HNotReset | HGauge.
(* chunkenc.CounterResetHeader *)
Inductive crh := CUnknown | CReset | CNotReset | CGauge.

Definition hint_eqb (a b : hint) : bool :=
  match a, b with
  | HUnknown, HUnknown | HReset, HReset | HNotReset, HNotReset | HGauge, HGauge => true
  | _, _ => false
  end.
Definition crh_eqb (a b : crh) : bool :=
  match a, b with
  | CUnknown, CUnknown | CReset, CReset | CNotReset, CNotReset | CGauge, CGauge => true
  | _, _ => false
  end.

Fixpoint zlist_eqb (a b : list Z) : bool :=
  match a, b with
  | [], [] => true
  | x :: a', y :: b' => (x =? y) && zlist_eqb a' b'
  | _, _ => false
  end.

(* ---------------------------------------------------------------- spans and buckets -> (index, count) *)
Record span := mkSpan { s_off : Z; s_len : Z }.

Fixpoint zseq (start : Z) (n : nat) : list Z :=
  match n with O => [] | S k => start :: zseq (start + 1) k end.

(* bucketIterator: the indices it yields, in order (zero-length spans only move the cursor) *)
Fixpoint idxs_from (next : Z) (l : list span) : list Z :=
  match l with
  | [] => []
  | s :: r => zseq (next + s_off s) (Z.to_nat (s_len s)) ++ idxs_from (next + s_off s + Z.max 0 (s_len s)) r
  end.
Definition idxs (l : list span) : list Z := idxs_from 0 l.

Fixpoint prefix_sums (acc : Z) (l : list Z) : list Z :=
  match l with [] => [] | d :: r => (acc + d) :: prefix_sums (acc + d) r end.

Notation bk := (Z * Z)%type (only parsing).   (* bucket index, absolute count *)

(* deltas = true: integer histogram (delta encoded buckets); false: float histogram (absolute) *)
Definition buckets_of (deltas : bool) (spans : list span) (bs : list Z) : list bk :=
  combine (idxs spans) (if deltas then prefix_sums 0 bs else bs).

(* ---------------------------------------------------------------- histograms *)
Definition custom_schema : Z := -53.

Record ahist := mkA {
  a_hint : hint;          (* CounterResetHint of the appended sample *)
  a_stale : bool;         (* value.IsStaleNaN(h.Sum) *)
  a_schema : Z;
  a_zth : Z;              (* ZeroThreshold, float64 bits *)
  a_custom : list Z;      (* CustomValues, float64 bits *)
  a_count : Z;
  a_zcount : Z;
  a_pos : list bk;
  a_neg : list bk
}.

Definition is_gauge (h : ahist) : bool := hint_eqb (a_hint h) HGauge.

(* ---------------------------------------------------------------- expandIntSpansAndBuckets *)
(* The loop of expandIntSpansAndBuckets/expandFloatSpansAndBuckets reduced to its verdict `ok`:
   a = buckets of the appender (last sample in the chunk's layout), b = buckets of the new sample. *)
Fixpoint walk (a : list bk) : list bk -> bool :=
  fix walk_b (b : list bk) : bool :=
    match a with
    | [] => true                                   (* !aOK: a misses what is left of b; or both ran out *)
    | (ai, ac) :: a' =>
        match b with
        | [] => if ac =? 0 then walk a' [] else false              (* aOK && !bOK *)
        | (bi, bc) :: b' =>
            if ai =? bi then (if ac >? bc then false else walk a' b')
            else if ai <? bi then (if ac =? 0 then walk a' b else false)
            else walk_b b'
        end
    end.

(* the appender's buckets after the sample has been appended: the union layout (forward inserts
   recode the chunk to it, backward inserts recode the sample to it), the sample's counts,
   0 for buckets only the chunk had. Also what expandSpansBothWays + recode give for gauges. *)
Fixpoint expand (a : list bk) : list bk -> list bk :=
  fix expand_b (b : list bk) : list bk :=
    match a with
    | [] => b
    | (ai, ac) :: a' =>
        match b with
        | [] => (ai, 0) :: expand a' []
        | (bi, bc) :: b' =>
            if ai =? bi then (bi, bc) :: expand a' b'
            else if ai <? bi then (ai, 0) :: expand a' b
            else (bi, bc) :: expand_b b'
        end
    end.

(* ---------------------------------------------------------------- the appender *)
Record app := mkApp {
  ap_crh : crh;           (* header of the chunk *)
  ap_n : Z;               (* NumSamples() *)
  ap_stale : bool;        (* IsStaleNaN(a.sum) *)
  ap_schema : Z;
  ap_zth : Z;
  ap_custom : list Z;
  ap_cnt : Z;
  ap_zcnt : Z;
  ap_pos : list bk;       (* a.pSpans / a.pBuckets as (index, absolute count) *)
  ap_neg : list bk
}.

Definition app0 (c : crh) : app := mkApp c 0 false 0 0 [] 0 0 [] [].

(* (Float)HistogramAppender.appendable: (okToAppend, counterResetHint) *)
Definition appendable (a : app) (h : ahist) : bool * crh :=
  if (0 <? ap_n a) && crh_eqb (ap_crh a) CGauge then (false, CNotReset)
  else if hint_eqb (a_hint h) HReset then (false, CReset)
  else if a_stale h then (true, CNotReset)
  else if ap_stale a then (false, CUnknown)
  else if a_count h <? ap_cnt a then (false, CReset)
  else if negb (a_schema h =? ap_schema a) || negb (a_zth h =? ap_zth a) then (false, CUnknown)
  else if (a_schema h =? custom_schema) && negb (zlist_eqb (a_custom h) (ap_custom a)) then (false, CReset)
  else if a_zcount h <? ap_zcnt a then (false, CReset)
  else if negb (walk (ap_pos a) (a_pos h)) then (false, CReset)
  else if negb (walk (ap_neg a) (a_neg h)) then (false, CReset)
  else (true, CNotReset).

(* appendableGauge: okToAppend *)
Definition appendable_gauge (a : app) (h : ahist) : bool :=
  if (0 <? ap_n a) && negb (crh_eqb (ap_crh a) CGauge) then false
  else if a_stale h then true
  else if ap_stale a then false
  else if negb (a_schema h =? ap_schema a) || negb (a_zth h =? ap_zth a) then false
  else if (a_schema h =? custom_schema) && negb (zlist_eqb (a_custom h) (ap_custom a)) then false
  else true.

(* appendHistogram (state of the appender afterwards; the layout is already reconciled) *)
Definition append_sample (a : app) (h : ahist) : app :=
  if a_stale h then
    (* h = &histogram.Histogram{Sum: h.Sum} *)
    if ap_n a =? 0 then mkApp (ap_crh a) 1 true 0 0 [] 0 0 [] []
    else mkApp (ap_crh a) (ap_n a + 1) true (ap_schema a) (ap_zth a) (ap_custom a) 0 0 (ap_pos a) (ap_neg a)
  else
    if ap_n a =? 0 then
      mkApp (ap_crh a) 1 false (a_schema h) (a_zth h) (a_custom h) (a_count h) (a_zcount h) (a_pos h) (a_neg h)
    else
      mkApp (ap_crh a) (ap_n a + 1) false (ap_schema a) (ap_zth a) (ap_custom a) (a_count h) (a_zcount h)
            (expand (ap_pos a) (a_pos h)) (expand (ap_neg a) (a_neg h)).

(* header of a chunk started with h: AppendHistogram with NumSamples() == 0 (prev = the appender of
   the previous chunk of the same encoding, if the caller passed one), or setCounterResetHeader of the
   cut paths *)
Inductive kind := KInt | KFloat.
(* HistogramAppender.appendable returns a CounterResetHeader which the callers store as it is;
   FloatHistogramAppender.appendable returns counterReset bool: the cut path stores CounterReset or
   leaves the fresh chunk's header (unknown), the prev path stores CounterReset or NotCounterReset *)
Definition cut_header (k : kind) (c : crh) : crh :=
  match k with KInt => c | KFloat => if crh_eqb c CReset then CReset else CUnknown end.
Definition prev_header (k : kind) (c : crh) : crh :=
  match k with KInt => c | KFloat => if crh_eqb c CReset then CReset else CNotReset end.

Definition first_header (k : kind) (prev : option app) (h : ahist) : crh :=
  if is_gauge h then CGauge
  else if hint_eqb (a_hint h) HReset then CReset
  else match prev with
       | Some p => prev_header k (snd (appendable p h))
       | None => CUnknown
       end.

(* ---------------------------------------------------------------- a series of chunks *)
Definition sample := (Z * ahist)%type.
Record chunk := mkC { c_crh : crh; c_samples : list sample }.      (* oldest first *)

(* open chunk: appender + its samples (oldest first); done chunks newest first *)
Record sstate := mkSt { st_done : list chunk; st_cur : option (app * list sample) }.
Definition st0 := mkSt [] None.

Definition close_cur (s : sstate) : list chunk :=
  match st_cur s with
  | None => st_done s
  | Some (a, ss) => mkC (ap_crh a) ss :: st_done s
  end.

Definition start_chunk (done : list chunk) (c : crh) (t : Z) (h : ahist) : sstate :=
  mkSt done (Some (append_sample (app0 c) h, [(t, h)])).

(* one AppendHistogram call; cut = the caller (head: chunk range / size policy) supplies a fresh
   chunk and passes the old appender as prev *)
Definition step (k : kind) (s : sstate) (op : bool * Z * ahist) : sstate :=
  let '(cut, t, h) := op in
  match st_cur s with
  | None => start_chunk (st_done s) (first_header k None h) t h
  | Some (a, ss) =>
      if cut then start_chunk (close_cur s) (first_header k (Some a) h) t h
      else if is_gauge h then
        if appendable_gauge a h then mkSt (st_done s) (Some (append_sample a h, ss ++ [(t, h)]))
        else start_chunk (close_cur s) CGauge t h
      else
        let '(ok, c) := appendable a h in
        if ok && crh_eqb c CNotReset then mkSt (st_done s) (Some (append_sample a h, ss ++ [(t, h)]))
        else start_chunk (close_cur s) (cut_header k c) t h
  end.

Definition run (k : kind) (ops : list (bool * Z * ahist)) : list chunk :=
  rev (close_cur (fold_left (step k) ops st0)).

(* ---------------------------------------------------------------- reading *)
(* counterResetHint(crh, numRead) *)
Definition counter_reset_hint (c : crh) (numRead : Z) : hint :=
  match c with
  | CGauge => HGauge
  | _ => if numRead >? 1 then HNotReset else HUnknown
  end.

(* a returned sample: timestamp, hint, value (the a_hint field of r_h is not used) *)
Record rs := mkR { r_t : Z; r_hint : hint; r_h : ahist }.

Definition stale_hist : ahist := mkA HUnknown true 0 0 [] 0 0 [] [].

(* AtHistogram / AtFloatHistogram at position numRead *)
Definition read_at (c : crh) (numRead : Z) (s : sample) : rs :=
  if a_stale (snd s) then mkR (fst s) HUnknown stale_hist
  else mkR (fst s) (counter_reset_hint c numRead) (snd s).

Fixpoint read_from (c : crh) (numRead : Z) (l : list sample) : list rs :=
  match l with
  | [] => []
  | s :: r => read_at c numRead s :: read_from c (numRead + 1) r
  end.
Definition read_chunk (c : chunk) : list rs := read_from (c_crh c) 1 (c_samples c).

(* HYPOTHETICAL REPAIR, not the code: a tsdb.DeletedIterator that remembers whether the current sample
   was reached by skipping deleted samples (skipped) and then turns NotCounterReset into
   UnknownCounterReset in AtHistogram / AtFloatHistogram.  (Tried in /repo and withdrawn: the existing
   test TestPopulateWithTombSeriesIterators expects the hint to be passed through.)  Only
   C12_sound_if_hint_reset talks about it. *)
Definition del_at (skipped : bool) (x : rs) : rs :=
  if skipped && hint_eqb (r_hint x) HNotReset then mkR (r_t x) HUnknown (r_h x) else x.

Fixpoint read_del (keep : Z -> bool) (c : crh) (numRead : Z) (skipped : bool) (l : list sample) : list rs :=
  match l with
  | [] => []
  | s :: r =>
      if keep (fst s) then del_at skipped (read_at c numRead s) :: read_del keep c (numRead + 1) false r
      else read_del keep c (numRead + 1) true r
  end.

(* the repaired read of one source (a chunk no interval overlaps is read with the bare iterator,
   which is read_del with nothing dropped) *)
Definition read_source_fixed (keep : Z -> bool) (cs : list chunk) : list rs :=
  concat (map (fun c => read_del keep (c_crh c) 1 false (c_samples c)) cs).

(* THE CODE: populateWithDelSeriesIterator over the chunks of one block / the head; the
   tsdb.DeletedIterator (query range trimming and tombstones: keep tells which timestamps survive)
   drops samples and passes the hint of the wrapped chunk iterator through *)
Definition read_source (keep : Z -> bool) (cs : list chunk) : list rs :=
  filter (fun r => keep (r_t r)) (concat (map read_chunk cs)).

Definition window (mint maxt : Z) (t : Z) : bool := (mint <=? t) && (t <=? maxt).

(* ---------------------------------------------------------------- the property on a returned list *)
Fixpoint get (l : list bk) (i : Z) : Z :=
  match l with
  | [] => 0
  | (j, c) :: r => if i =? j then c else get r i
  end.

(* no bucket count of b is lower than in a (absent bucket = count 0) *)
Definition buckets_le (a b : list bk) : bool :=
  forallb (fun i => get a i <=? get b i) (map fst a ++ map fst b).

(* a = the preceding sample of the result, b = the marked sample *)
Definition pred_ok (a b : ahist) : bool :=
  negb (a_stale a)
  && (a_schema a =? a_schema b) && (a_zth a =? a_zth b) && zlist_eqb (a_custom a) (a_custom b)
  && (a_count a <=? a_count b) && (a_zcount a <=? a_zcount b)
  && buckets_le (a_pos a) (a_pos b) && buckets_le (a_neg a) (a_neg b).

Definition marked (r : rs) : bool := negb (a_stale (r_h r)) && hint_eqb (r_hint r) HNotReset.

(* the statement of C12 on one returned series: every non-stale sample marked NotCounterReset has a
   preceding sample in the same result, which is non-stale, has the same schema, zero threshold and
   custom bounds, and no larger count, zero count or bucket count *)
Fixpoint sound_from (prev : option rs) (l : list rs) : bool :=
  match l with
  | [] => true
  | x :: r =>
      (if marked x then match prev with Some p => pred_ok (r_h p) (r_h x) | None => false end else true)
      && sound_from (Some x) r
  end.
Definition sound_list (l : list rs) : bool := sound_from None l.

(* the same for every sample but the first of the result *)
Definition sound_tail (l : list rs) : bool :=
  match l with [] => true | x :: r => sound_from (Some x) r end.

(* ---------------------------------------------------------------- chainSampleIterator *)
(* An iterator is the list of samples it will still yield. A heap element is an iterator positioned
   on a sample. container/heap is a bag here: Pop returns the k-th minimal element, k taken from a
   choice stream (theorems quantify over all streams; the correspondence check uses the empty
   stream and compares observables that do not depend on the tie-break). *)
Definition hel := (rs * list rs)%type.

Definition is_min (x : hel) (h : list hel) : bool := forallb (fun y => r_t (fst x) <=? r_t (fst y)) h.

Fixpoint pick (k : nat) (all h : list hel) : option (hel * list hel) :=
  match h with
  | [] => None
  | x :: r =>
      if is_min x all then
        match k with
        | O => Some (x, r)
        | S k' => match pick k' all r with
                  | Some (y, r') => Some (y, x :: r')
                  | None => Some (x, r)
                  end
        end
      else match pick k all r with
           | Some (y, r') => Some (y, x :: r')
           | None => None
           end
  end.
Definition pop (k : nat) (h : list hel) : option (hel * list hel) := pick k h h.
Definition min_t (h : list hel) : option Z :=
  match find (fun x => is_min x h) h with Some x => Some (r_t (fst x)) | None => None end.

Definition next_choice (ch : list nat) : nat * list nat :=
  match ch with [] => (O, []) | k :: r => (k, r) end.

(* what chainSampleIterator.AtHistogram / AtFloatHistogram return for the current sample *)
Definition chain_at (consecutive : bool) (r : rs) : rs :=
  if negb consecutive && negb (hint_eqb (r_hint r) HGauge) then mkR (r_t r) HUnknown (r_h r) else r.

Inductive cres := COk (out : list rs) | COutOfFuel.

(* One call of Next (after the heap has been initialised) and all following ones.
   curr: the samples c.curr will still yield; changed: iteratorChanged of the current call;
   last: c.lastT.  The emitted sample goes through chain_at with consecutive = !changed. *)
Fixpoint chain_go (fuel : nat) (curr : list rs) (h : list hel) (last : Z) (changed : bool)
         (ch : list nat) : cres :=
  match fuel with
  | O => COutOfFuel
  | S f =>
      let emit (x : rs) (rest : list rs) (h' : list hel) (chg : bool) (ch' : list nat) :=
        match chain_go f rest h' (r_t x) false ch' with
        | COk out => COk (chain_at (negb chg) x :: out)
        | COutOfFuel => COutOfFuel
        end in
      let pop_next (h0 : list hel) :=
        let '(k, ch') := next_choice ch in
        match pop k h0 with
        | None => COk []                                   (* len(c.h) == 0: c.curr = nil *)
        | Some ((x, rest), h') =>
            if r_t x =? last then chain_go f rest h' last true ch'      (* currT == c.lastT: loop again *)
            else emit x rest h' true ch'
        end in
      match curr with
      | [] => pop_next h                                   (* c.curr.Next() == ValNone *)
      | x :: rest =>
          if r_t x =? last then chain_go f rest h last changed ch      (* same timestamp: continue *)
          else match min_t h with
               | None => emit x rest h changed ch                     (* only iterator left *)
               | Some nt =>
                   if r_t x <? nt then emit x rest h changed ch
                   else pop_next ((x, rest) :: h)                      (* heap.Push(c.curr) *)
               end
      end
  end.

Definition minInt64 : Z := -9223372036854775808.

Fixpoint total_len (l : list (list rs)) : nat :=
  match l with [] => O | x :: r => (S (length x) + total_len r)%nat end.

(* the first Next: curr = iterators[0], the others are advanced once and pushed when not empty;
   iteratorChanged = true *)
Definition chain (srcs : list (list rs)) (ch : list nat) : cres :=
  match srcs with
  | [] => COk []                                          (* not reachable: ChainedSeriesMerge has >= 1 series *)
  | s0 :: others =>
      let h := flat_map (fun s => match s with [] => [] | x :: r => [(x, r)] end) others in
      chain_go (2 * total_len srcs + 2) s0 h minInt64 true ch
  end.

(* model/RemoteQueue.v — executable model of the remote-write queue manager (definitions only).
   Transcribed from /repo/storage/remote/queue_manager.go:
     level A (one per-shard queue):  newQueue, queue.Append, queue.Chan (receive), queue.Batch,
                                     queue.tryEnqueueingBatch, queue.FlushAndShutdown
     level B (the whole pipeline):   StoreSeries / SeriesReset / processExternalLabels,
                                     QueueManager.Append (age check, series lookup, enqueue retry loop),
                                     shards.enqueue (ref mod n, softShutdown), shards.stop / start,
                                     runShard (channel receive, timer, send with retry in place),
                                     sendWriteRequestWithBackoff outcomes, hard shutdown.

   The concurrent code is a labelled transition system: every [op] is one critical section of the
   real code (the mutex that makes it atomic is named beside it).  A step that is not enabled in
   the current state leaves the state unchanged, so theorems quantify over ALL lists of steps,
   i.e. over all interleavings of the goroutines involved (watcher goroutine feeding, one runShard
   goroutine and one FlushAndShutdown goroutine per shard, the reshardLoop goroutine). *)
From Coq Require Import List ZArith Bool.
Import ListNotations.
Open Scope Z_scope.

(* ------------------------------------------------------------------------------------------ *)
(* Level A: one queue (type queue struct { batch; batchQueue chan; batchPool })                *)
(* ------------------------------------------------------------------------------------------ *)

(* newQueue(batchSize, capacity): number of slots of the batchQueue channel *)
Definition nbatches (batch_size capacity : nat) : nat :=
  let b := Nat.div capacity batch_size in if Nat.eqb b 0 then 1%nat else b.

Section Queue.
  Variable A : Type.

  (* q_batch: the partial batch (len < cap = batchSize); q_chan: contents of batchQueue, oldest
     first; q_closed: close(q.batchQueue) has happened.  The batchPool only recycles backing
     arrays and is not modelled (the script tie calls ReturnForReuse like runShard does, so a
     harmful aliasing would show as a disagreement). *)
  Record queue := mkQ { q_batch : list A; q_chan : list (list A); q_closed : bool }.

  Definition q_new : queue := mkQ [] [] false.

  Inductive ares := AOk | ARetry | APanic.

  (* func (q *queue) Append(datum) bool            [under q.batchMtx]
     After FlushAndShutdown q.batch is nil: append gives len 1 = cap 1 and the send on the closed
     channel panics. *)
  Definition q_append (bsz nbq : nat) (q : queue) (x : A) : queue * ares :=
    if q_closed q then (q, APanic) else
    let b := q_batch q ++ [x] in
    if Nat.eqb (length b) bsz then                       (* if len(q.batch) == cap(q.batch) *)
      if Nat.ltb (length (q_chan q)) nbq                 (* select { case q.batchQueue <- q.batch: *)
      then (mkQ [] (q_chan q ++ [b]) false, AOk)
      else (q, ARetry)                                   (* default: q.batch = q.batch[:len-1]; return false *)
    else (mkQ b (q_chan q) false, AOk).

  Inductive rres := RBatch (b : list A) | RClosed | RBlock.

  (* runShard: case batch, ok := <-batchQueue *)
  Definition q_recv (q : queue) : queue * rres :=
    match q_chan q with
    | b :: r => (mkQ (q_batch q) r (q_closed q), RBatch b)
    | [] => (q, if q_closed q then RClosed else RBlock)
    end.

  (* func (q *queue) Batch() []timeSeries          [under q.batchMtx]
     select { case batch := <-q.batchQueue: return batch   (a closed, empty channel yields nil)
              default: batch := q.batch; q.batch = q.newBatch(..); return batch } *)
  Definition q_timer (q : queue) : queue * list A :=
    match q_chan q with
    | b :: r => (mkQ (q_batch q) r (q_closed q), b)
    | [] => if q_closed q then (q, []) else (mkQ [] [] false, q_batch q)
    end.

  (* func (q *queue) tryEnqueueingBatch(done) bool  [under q.batchMtx]; true = retry later.
     A successful send forgets the batch (q.batch = nil) in the same critical section
     (fix dca118dfcb). *)
  Definition q_tryflush (nbq : nat) (q : queue) : queue * bool :=
    match q_batch q with
    | [] => (q, false)
    | _ => if Nat.ltb (length (q_chan q)) nbq
           then (mkQ [] (q_chan q ++ [q_batch q]) (q_closed q), false)
           else (q, true)
    end.

  (* the code before fix dca118dfcb: a successful send left q.batch as it was; it was only
     cleared by FlushAndShutdown afterwards, in a second critical section *)
  Definition q_tryflush_old (nbq : nat) (q : queue) : queue * bool :=
    match q_batch q with
    | [] => (q, false)
    | _ => if Nat.ltb (length (q_chan q)) nbq
           then (mkQ (q_batch q) (q_chan q ++ [q_batch q]) (q_closed q), false)
           else (q, true)
    end.

  (* the tail of FlushAndShutdown: q.batch = nil; close(q.batchQueue)   [under q.batchMtx] *)
  Definition q_close (q : queue) : queue := mkQ [] (q_chan q) true.
End Queue.

Arguments mkQ {A}. Arguments q_batch {A}. Arguments q_chan {A}. Arguments q_closed {A}.
Arguments q_new {A}. Arguments q_append {A}. Arguments q_recv {A}. Arguments q_timer {A}.
Arguments q_tryflush {A}. Arguments q_tryflush_old {A}. Arguments q_close {A}.
Arguments RBatch {A}. Arguments RClosed {A}. Arguments RBlock {A}.

(* single-goroutine scripts on one real queue (the tie of level A) *)
Inductive qop := QAppend (x : Z) | QRecv | QTimer | QTryFlush | QShutdown.
Inductive qobs := OBool (b : bool) | OBatch (l : list Z) | OClosed | OBlock | OUnit | OPanic.

(* old = true: the queue as it was before fix dca118dfcb *)
Definition q_step_gen (old : bool) (bsz nbq : nat) (q : queue Z) (o : qop) : queue Z * qobs :=
  let tryflush := if old then q_tryflush_old else q_tryflush in
  match o with
  | QAppend x => let '(q', r) := q_append bsz nbq q x in
                 (q', match r with AOk => OBool true | ARetry => OBool false | APanic => OPanic end)
  | QRecv => let '(q', r) := q_recv q in
             (q', match r with RBatch b => OBatch b | RClosed => OClosed | RBlock => OBlock end)
  | QTimer => let '(q', b) := q_timer q in (q', OBatch b)
  | QTryFlush => let '(q', b) := tryflush nbq q in (q', OBool b)
  | QShutdown =>   (* FlushAndShutdown when its first tryEnqueueingBatch does not ask for a retry *)
      let '(q', b) := tryflush nbq q in
      if b then (q', OBlock) else (q_close q', OUnit)
  end.

Definition q_step := q_step_gen false.

Fixpoint q_run_gen (old : bool) (bsz nbq : nat) (q : queue Z) (ops : list qop) : list qobs :=
  match ops with
  | [] => []
  | o :: r => let '(q', ob) := q_step_gen old bsz nbq q o in ob :: q_run_gen old bsz nbq q' r
  end.

Definition q_run := q_run_gen false.

(* ------------------------------------------------------------------------------------------ *)
(* Level B: the pipeline                                                                       *)
(* ------------------------------------------------------------------------------------------ *)

(* label sets: association lists sorted by name; names and values are interned strings *)
Definition labels := list (Z * Z).

Fixpoint lget (n : Z) (l : labels) : option Z :=
  match l with [] => None | (m, v) :: r => if m =? n then Some v else lget n r end.

Fixpoint lset (n v : Z) (l : labels) : labels :=
  match l with
  | [] => [(n, v)]
  | (m, w) :: r => if n <? m then (n, v) :: l else if n =? m then (n, v) :: r else (m, w) :: lset n v r
  end.

(* func processExternalLabels(b, externalLabels): a label already present wins *)
Definition add_ext (ext l : labels) : labels :=
  fold_left (fun acc e => match lget (fst e) acc with None => lset (fst e) (snd e) acc | Some _ => acc end) ext l.

(* association lists as Go maps: the first binding of a key is the current one *)
Fixpoint aget {V} (k : Z) (l : list (Z * V)) : option V :=
  match l with [] => None | (k', v) :: r => if k' =? k then Some v else aget k r end.
Definition memZ (k : Z) (l : list Z) : bool := existsb (Z.eqb k) l.

(* seriesLabels, droppedSeries, seriesSegmentIndexes *)
Record stab := mkTab { t_lbl : list (Z * labels); t_drop : list Z; t_seg : list (Z * Z) }.

Record item := mkItem { i_id : Z; i_ref : Z; i_lbl : labels; i_t : Z }.

Inductive outcome := Ok | Recoverable | Unrecoverable.

(* where the goroutine running FlushAndShutdown of a queue is *)
Inductive fpc :=
| FNone      (* not launched, or still retrying tryEnqueueingBatch (channel full) *)
| FPushed    (* tryEnqueueingBatch returned false; FlushAndShutdown has not yet closed the channel *)
| FClosed.   (* q.batch = nil; close(q.batchQueue) done *)

Record shard := mkSh {
  sh_q : queue item;
  sh_infl : option (list item);   (* the batch runShard is sending (retried in place until Ok / Unrecoverable) *)
  sh_exit : bool;                 (* runShard has returned *)
  sh_fl : fpc
}.

Definition sh_new : shard := mkSh q_new None false FNone.

Record st := mkSt {
  tab : stab;
  pend : option item;             (* the sample QueueManager.Append is trying to enqueue (its retry loop) *)
  shards : list shard;            (* s.queues and their runShard goroutines *)
  soft : bool;                    (* s.softShutdown is closed (stop() has begun, start() not yet run) *)
  log : list (list item * outcome);   (* every WriteClient.Store call, in order, with its outcome *)
  nextid : Z;                     (* samples handed to Append so far (ids are positions in the feed) *)
  n_old : Z; n_dropped : Z; n_unint : Z;   (* droppedSamplesTotal{too_old, dropped_series, unintentionally_dropped_series} *)
  n_failed : Z;                   (* failedSamplesTotal, unrecoverable errors only (see notes for hard shutdown) *)
  panicked : bool;                (* a Go panic happened (enqueue on a closed queue) *)
  (* ghost state, for the theorems only *)
  fed : list item;                (* eligible samples accepted by Append, in WAL order *)
  lossy : bool;                   (* a batch was abandoned: unrecoverable error or hard shutdown *)
  flushrace : bool                (* runShard's timer took a q.batch that tryEnqueueingBatch had already put on the
                                     channel (possible only before fix dca118dfcb) *)
}.

Inductive op :=
| OStore (ref : Z) (raw : labels) (seg : Z)   (* StoreSeries, one series           [seriesMtx]          watcher *)
| OReset (idx : Z)                            (* SeriesReset                       [seriesMtx]          watcher gc goroutine *)
| OLookup (ref t : Z) (old : bool)            (* Append: isSampleOld + series lookup [seriesMtx]        watcher *)
| OEnqueue                                    (* one shards.enqueue attempt        [shards.mtx R + batchMtx] watcher *)
| OTake (k : nat)                             (* runShard k: <-batchQueue          [channel]            *)
| OTimer (k : nat)                            (* runShard k: timer -> queue.Batch() [batchMtx]          *)
| OSend (k : nat) (oc : outcome)              (* runShard k: one Store attempt returns                   *)
| OSoft                                       (* stop(): close(s.softShutdown)     [shards.mtx R]       reshardLoop / Stop *)
| OFlushPush (k : nat)                        (* FlushAndShutdown k: tryEnqueueingBatch [batchMtx]      *)
| OFlushClose (k : nat)                       (* FlushAndShutdown k: batch=nil; close   [batchMtx]      *)
| OHard                                       (* stop(): flushDeadline expired -> hardShutdown()         *)
| OStart (n : nat).                           (* start(n)                          [shards.mtx W]       *)

Fixpoint upd {A} (k : nat) (f : A -> A) (l : list A) : list A :=
  match l, k with
  | [], _ => []
  | x :: r, O => f x :: r
  | x :: r, S k' => x :: upd k' f r
  end.

(* shard := uint64(ref) % uint64(len(s.queues)) *)
Definition shard_of (n : nat) (ref : Z) : nat := Z.to_nat (ref mod Z.of_nat n).

Section Pipeline.
  (* relabel.ProcessBuilder with the queue's write_relabel_configs: None = series dropped *)
  Variable relab : labels -> option labels.
  Variable bsz : nat.        (* MaxSamplesPerSend *)
  Variable nbq : nat.        (* channel slots = nbatches MaxSamplesPerSend Capacity *)
  Variable ext : labels.     (* external labels *)
  Variable old_flush : bool. (* true = tryEnqueueingBatch as it was before fix dca118dfcb *)

  Definition set_tab (s : st) (t : stab) : st :=
    mkSt t (pend s) (shards s) (soft s) (log s) (nextid s) (n_old s) (n_dropped s) (n_unint s)
         (n_failed s) (panicked s) (fed s) (lossy s) (flushrace s).

  Definition set_shards (s : st) (sh : list shard) : st :=
    mkSt (tab s) (pend s) sh (soft s) (log s) (nextid s) (n_old s) (n_dropped s) (n_unint s)
         (n_failed s) (panicked s) (fed s) (lossy s) (flushrace s).

  (* func (t *QueueManager) StoreSeries(series, index), one element of the loop *)
  Definition do_store (s : st) (ref : Z) (raw : labels) (seg : Z) : st :=
    let t := tab s in
    let segs := (ref, seg) :: t_seg t in                       (* t.seriesSegmentIndexes[s.Ref] = index *)
    match relab (add_ext ext raw) with
    | None => set_tab s (mkTab (t_lbl t) (ref :: t_drop t) segs)       (* t.droppedSeries[s.Ref] = struct{}{}; continue *)
    | Some l => set_tab s (mkTab ((ref, l) :: t_lbl t) (t_drop t) segs) (* t.seriesLabels[s.Ref] = lbls *)
    end.

  (* func (t *QueueManager) SeriesReset(index) *)
  Definition do_reset (s : st) (idx : Z) : st :=
    let t := tab s in
    let dead k := match aget k (t_seg t) with Some v => v <? idx | None => false end in
    set_tab s (mkTab (filter (fun e => negb (dead (fst e))) (t_lbl t))
                     (filter (fun k => negb (dead k)) (t_drop t))
                     (filter (fun e => negb (dead (fst e))) (t_seg t))).

  (* func (t *QueueManager) Append(samples), the part of one loop iteration before the enqueue loop *)
  Definition do_lookup (s : st) (ref t : Z) (old : bool) : st :=
    match pend s with
    | Some _ => s                                   (* the watcher goroutine is still in the retry loop *)
    | None =>
        if old then                                 (* isSampleOld: droppedSamplesTotal{too_old}++ ; continue *)
          mkSt (tab s) None (shards s) (soft s) (log s) (nextid s + 1) (n_old s + 1) (n_dropped s) (n_unint s)
               (n_failed s) (panicked s) (fed s) (lossy s) (flushrace s)
        else match aget ref (t_lbl (tab s)) with
        | None =>
            if memZ ref (t_drop (tab s)) then
              mkSt (tab s) None (shards s) (soft s) (log s) (nextid s + 1) (n_old s) (n_dropped s + 1) (n_unint s)
                   (n_failed s) (panicked s) (fed s) (lossy s) (flushrace s)
            else
              mkSt (tab s) None (shards s) (soft s) (log s) (nextid s + 1) (n_old s) (n_dropped s) (n_unint s + 1)
                   (n_failed s) (panicked s) (fed s) (lossy s) (flushrace s)
        | Some l =>
            let x := mkItem (nextid s) ref l t in
            mkSt (tab s) (Some x) (shards s) (soft s) (log s) (nextid s + 1) (n_old s) (n_dropped s) (n_unint s)
                 (n_failed s) (panicked s) (fed s ++ [x]) (lossy s) (flushrace s)
        end
    end.

  (* func (s *shards) enqueue(ref, data) bool, called from Append's retry loop *)
  Definition do_enqueue (s : st) : st :=
    match pend s with
    | None => s
    | Some x =>
        if soft s then s else                          (* case <-s.softShutdown: return false *)
        let k := shard_of (length (shards s)) (i_ref x) in
        match nth_error (shards s) k with
        | None => s                                    (* unreachable: k < len(s.queues), see shards_nonempty *)
        | Some sh =>
            let '(q', r) := q_append bsz nbq (sh_q sh) x in
            match r with
            | AOk =>
                mkSt (tab s) None (upd k (fun h => mkSh q' (sh_infl h) (sh_exit h) (sh_fl h)) (shards s))
                     (soft s) (log s) (nextid s) (n_old s) (n_dropped s) (n_unint s)
                     (n_failed s) (panicked s) (fed s) (lossy s) (flushrace s)
            | ARetry => s                              (* enqueueRetriesTotal++; sleep; retry *)
            | APanic =>
                mkSt (tab s) (pend s) (shards s) (soft s) (log s) (nextid s) (n_old s) (n_dropped s) (n_unint s)
                     (n_failed s) true (fed s) (lossy s) (flushrace s)
            end
        end
    end.

  Definition runner_idle (sh : shard) : bool :=
    negb (sh_exit sh) && match sh_infl sh with None => true | Some _ => false end.

  (* runShard: case batch, ok := <-batchQueue *)
  Definition sh_take (sh : shard) : shard :=
    if negb (runner_idle sh) then sh else
    let '(q', r) := q_recv (sh_q sh) in
    match r with
    | RBatch b => mkSh q' (Some b) false (sh_fl sh)
    | RClosed => mkSh q' None true (sh_fl sh)             (* if !ok { return } *)
    | RBlock => sh
    end.

  (* the timer took the partial batch that tryEnqueueingBatch had already put on the channel *)
  Definition stale_take (sh : shard) : bool :=
    runner_idle sh
    && match sh_fl sh with FPushed => true | _ => false end
    && match q_chan (sh_q sh) with [] => true | _ => false end
    && match q_batch (sh_q sh) with [] => false | _ => true end.

  (* runShard: case <-timer.C: batch := queue.Batch(); if len(batch) > 0 { sendBatch } *)
  Definition sh_timer (sh : shard) : shard :=
    if negb (runner_idle sh) then sh else
    let '(q', b) := q_timer (sh_q sh) in
    match b with
    | [] => mkSh q' None false (sh_fl sh)
    | _ => mkSh q' (Some b) false (sh_fl sh)
    end.

  Definition do_timer (s : st) (k : nat) : st :=
    let race := match nth_error (shards s) k with Some sh => stale_take sh | None => false end in
    mkSt (tab s) (pend s) (upd k sh_timer (shards s)) (soft s) (log s) (nextid s) (n_old s) (n_dropped s)
         (n_unint s) (n_failed s) (panicked s) (fed s) (lossy s) (flushrace s || race).

  (* one attempt of sendWriteRequestWithBackoff returns: nil -> done; RecoverableError -> sleep and
     retry the same request; any other error -> give up (failedSamplesTotal += len) *)
  Definition do_send (s : st) (k : nat) (oc : outcome) : st :=
    match nth_error (shards s) k with
    | None => s
    | Some sh =>
        match sh_infl sh with
        | None => s
        | Some b =>
            let done h := mkSh (sh_q h) None (sh_exit h) (sh_fl h) in
            match oc with
            | Ok =>
                mkSt (tab s) (pend s) (upd k done (shards s)) (soft s) (log s ++ [(b, Ok)]) (nextid s)
                     (n_old s) (n_dropped s) (n_unint s) (n_failed s) (panicked s) (fed s) (lossy s) (flushrace s)
            | Recoverable =>
                mkSt (tab s) (pend s) (shards s) (soft s) (log s ++ [(b, Recoverable)]) (nextid s)
                     (n_old s) (n_dropped s) (n_unint s) (n_failed s) (panicked s) (fed s) (lossy s) (flushrace s)
            | Unrecoverable =>
                mkSt (tab s) (pend s) (upd k done (shards s)) (soft s) (log s ++ [(b, Unrecoverable)]) (nextid s)
                     (n_old s) (n_dropped s) (n_unint s) (n_failed s + Z.of_nat (length b)) (panicked s)
                     (fed s) true (flushrace s)
            end
        end
    end.

  (* stop(): s.mtx.RLock(); close(s.softShutdown); s.mtx.RUnlock() *)
  Definition do_soft (s : st) : st :=
    mkSt (tab s) (pend s) (shards s) true (log s) (nextid s) (n_old s) (n_dropped s) (n_unint s)
         (n_failed s) (panicked s) (fed s) (lossy s) (flushrace s).

  (* go queue.FlushAndShutdown(s.done): for q.tryEnqueueingBatch(done) { wait 1s } *)
  Definition sh_flushpush (sh : shard) : shard :=
    match sh_fl sh with
    | FNone => let '(q', again) := (if old_flush then q_tryflush_old else q_tryflush) nbq (sh_q sh) in
               mkSh q' (sh_infl sh) (sh_exit sh) (if again then FNone else FPushed)
    | _ => sh
    end.

  (* ... q.batchMtx.Lock(); q.batch = nil; close(q.batchQueue) *)
  Definition sh_flushclose (sh : shard) : shard :=
    match sh_fl sh with
    | FPushed => mkSh (q_close (sh_q sh)) (sh_infl sh) (sh_exit sh) FClosed
    | _ => sh
    end.

  (* stop(): <-time.After(flushDeadline); s.hardShutdown(); <-s.done.  Every runShard returns at its
     next select, an attempt in progress is cancelled, whatever is queued is dropped. *)
  Definition sh_hard (sh : shard) : shard := mkSh (mkQ [] [] true) None true FClosed.

  Definition all_exited (l : list shard) : bool := forallb sh_exit l.

  Definition step (s : st) (o : op) : st :=
    match o with
    | OStore ref raw seg => do_store s ref raw seg
    | OReset idx => do_reset s idx
    | OLookup ref t old => do_lookup s ref t old
    | OEnqueue => do_enqueue s
    | OTake k => set_shards s (upd k sh_take (shards s))
    | OTimer k => do_timer s k
    | OSend k oc => do_send s k oc
    | OSoft => do_soft s
    | OFlushPush k => if soft s then set_shards s (upd k sh_flushpush (shards s)) else s
    | OFlushClose k => if soft s then set_shards s (upd k sh_flushclose (shards s)) else s
    | OHard =>
        if soft s && negb (all_exited (shards s)) then
          mkSt (tab s) (pend s) (map sh_hard (shards s)) true (log s) (nextid s) (n_old s) (n_dropped s)
               (n_unint s) (n_failed s) (panicked s) (fed s) true (flushrace s)
        else s
    | OStart n =>
        (* reshardLoop: t.shards.stop() has returned (all runShards gone) ; t.shards.start(n).
           n = 0 would make enqueue divide by zero; calculateDesiredShards clamps to
           [MinShards, MaxShards] and the configuration requires MinShards >= 1. *)
        if soft s && all_exited (shards s) && Nat.ltb 0 n then
          mkSt (tab s) (pend s) (repeat sh_new n) false (log s) (nextid s) (n_old s) (n_dropped s)
               (n_unint s) (n_failed s) (panicked s) (fed s) (lossy s) (flushrace s)
        else s
    end.

  (* the state after QueueManager.Start() with MinShards = n0 *)
  Definition init (n0 : nat) : st :=
    mkSt (mkTab [] [] []) None (repeat sh_new n0) false [] 0 0 0 0 0 false [] false false.

  Definition run (n0 : nat) (ops : list op) : st := fold_left step ops (init n0).
End Pipeline.

(* ---- the vocabulary of the property ---- *)

(* samples of series ref in l, in order *)
Definition fr (ref : Z) (l : list item) : list item := filter (fun x => i_ref x =? ref) l.

(* samples the endpoint has accepted, in order of reception *)
Definition delivered (lg : list (list item * outcome)) : list item :=
  flat_map (fun e => match snd e with Ok => fst e | _ => [] end) lg.

(* samples in all Store calls, successful or not *)
Definition attempted (lg : list (list item * outcome)) : list item := flat_map fst lg.

Definition all_ok (lg : list (list item * outcome)) : bool :=
  forallb (fun e => match snd e with Ok => true | _ => false end) lg.

Definition infl_list (sh : shard) : list item := match sh_infl sh with Some b => b | None => [] end.

(* the partial batch, unless tryEnqueueingBatch has already put it on the channel *)
Definition eff_batch (sh : shard) : list item :=
  match sh_fl sh with FNone => q_batch (sh_q sh) | _ => [] end.

(* what shard sh still has to deliver, oldest first *)
Definition pipe (sh : shard) : list item := infl_list sh ++ concat (q_chan (sh_q sh)) ++ eff_batch sh.

Definition pipe_of (s : st) (k : nat) : list item :=
  match nth_error (shards s) k with Some sh => pipe sh | None => [] end.

Definition pend_list (s : st) : list item := match pend s with Some x => [x] | None => [] end.

(* accepted samples of series ref that are not yet delivered *)
Definition outstanding (s : st) (ref : Z) : list item :=
  fr ref (pipe_of s (shard_of (length (shards s)) ref)) ++ fr ref (pend_list s).

(* nothing queued, in flight or pending *)
Definition quiescent (s : st) : bool :=
  match pend s with None => true | Some _ => false end
  && forallb (fun sh => match pipe sh with [] => true | _ => false end) (shards s).

Definition batches_ok (bsz : nat) (lg : list (list item * outcome)) : bool :=
  forallb (fun e => Nat.ltb 0 (length (fst e)) && Nat.leb (length (fst e)) bsz) lg.

(* model/Xor.v — executable model of the float chunk encodings of tsdb/chunkenc:
   the classic XOR chunk (xor.go) and XOR2 with start timestamps (xor2.go, varbit.go).
   Definitions only.  Encoders emit the logical bit sequence (control prefix ++ payload) that
   bstream.writeBit/writeByte/writeBits/writeBitsFast produce; decoders read bits, not the
   64-bit look-ahead buffer of bstreamReader (both are tied to the real code by the
   correspondence check, byte for byte).
   Conventions: timestamps are int64 values (Z in [-2^63, 2^63)), float values are their 64-bit
   patterns (Z in [0, 2^64)); every Go operation that can wrap is written with wrap64 / u64. *)
From Coq Require Import List ZArith Bool.
From Verif Require Import lib.Int64 lib.Bits.
Import ListNotations.
Open Scope Z_scope.

Record sample := mkS { s_st : Z; s_t : Z; s_v : Z }.

Definition bytes_bits (bs : list Z) : bits := unpack_bytes bs.   (* writeByte per byte *)

(* ---- encoding/binary varints (local helpers) ------------------------------------------- *)

(* binary.PutUvarint for a uint64: `for x >= 0x80 { emit byte(x)|0x80; x >>= 7 }; emit byte(x)`.
   A uint64 needs at most 9 continuation bytes, so 9 unrollings are exact. *)
Fixpoint uvarint_bytes (fuel : nat) (x : Z) : list Z :=
  match fuel with
  | O => [x]
  | S f => if x <? 128 then [x] else (x mod 128 + 128) :: uvarint_bytes f (x / 128)
  end.
Definition put_uvarint (x : Z) : list Z := uvarint_bytes 9 x.

(* binary.PutVarint: zig-zag, then PutUvarint *)
Definition zigzag (x : Z) : Z := if x <? 0 then - 2 * x - 1 else 2 * x.
Definition put_varint (x : Z) : list Z := put_uvarint (zigzag x).

(* binary.ReadUvarint / bstreamReader.readUvarint: at most 10 bytes, 7 bits each, least
   significant group first.  [chk] = true is encoding/binary's overflow check (10th byte > 1),
   which bstreamReader.readUvarint (XOR2) does not have.  `x | b<<s` is written as an
   addition: x < 2^s always holds here, so the operands have no common bits; the final
   result is truncated to 64 bits like the Go shift. *)
Fixpoint get_uvarint_aux (chk : bool) (fuel : nat) (i s x : Z) (bs : bits) : option (Z * bits) :=
  match fuel with
  | O => None                                              (* errOverflow / ErrUnexpectedEOF *)
  | S f => match get_bits 8 bs with
           | None => None                                  (* io.EOF *)
           | Some (b, r) =>
               if b <? 128 then
                 if chk && (i =? 9) && (1 <? b) then None   (* errOverflow *)
                 else Some (u64 (x + b * 2 ^ s), r)
               else get_uvarint_aux chk f (i + 1) (s + 7) (x + (b - 128) * 2 ^ s) r
           end
  end.
Definition get_uvarint (chk : bool) (bs : bits) : option (Z * bits) := get_uvarint_aux chk 10 0 0 0 bs.

Definition unzigzag (ux : Z) : Z := if Z.even ux then ux / 2 else - (ux / 2) - 1.
Definition get_varint (chk : bool) (bs : bits) : option (Z * bits) :=
  match get_uvarint chk bs with
  | None => None
  | Some (ux, r) => Some (unzigzag ux, r)
  end.

(* ---- shared pieces ------------------------------------------------------------------------ *)

(* bitRange(x, nbits): -(2^(nbits-1) - 1) <= x <= 2^(nbits-1) *)
Definition bitRange (x n : Z) : bool := (- (2 ^ (n - 1) - 1) <=? x) && (x <=? 2 ^ (n - 1)).

(* sign restoration used by xorIterator.Next and readVarbitInt:
   `if bits > 1<<(sz-1) { bits -= 1<<sz }` (uint64 arithmetic, then int64) *)
Definition unsign_gt (sz b : Z) : Z := if 2 ^ (sz - 1) <? b then wrap64 (u64 (b - 2 ^ sz)) else b.

Definition clamp_lead (l : Z) : Z := if 32 <=? l then 31 else l.

(* xorWrite: returns the emitted bits and the (possibly updated) leading/trailing window *)
Definition xor_write (prev v lead trail : Z) : bits * Z * Z :=
  let delta := Z.lxor v prev in
  if delta =? 0 then ([false], lead, trail) else
  let nl := clamp_lead (lz64 delta) in
  let nt := tz64 delta in
  if negb (lead =? 255) && (lead <=? nl) && (trail <=? nt) then
    ([true; false] ++ put_bits (Z.to_nat (64 - lead - trail)) (Z.shiftr delta trail), lead, trail)
  else
    let sig := 64 - nl - nt in
    ([true; true] ++ put_bits 5 nl ++ put_bits 6 sig ++ put_bits (Z.to_nat sig) (Z.shiftr delta nt), nl, nt).

(* the `11` branch body shared by xorRead and XOR2's decodeNewLeadingTrailing:
   5 bits leading, 6 bits sigbits (0 means 64), then the significant bits *)
Definition read_new_window (base : Z) (bs : bits) : option (Z * Z * Z * bits) :=
  match get_bits 5 bs with
  | None => None
  | Some (nl, r3) =>
      match get_bits 6 r3 with
      | None => None
      | Some (mb0, r4) =>
          let mbits := if mb0 =? 0 then 64 else mb0 in
          let nt := (64 - nl - mbits) mod 256 in              (* uint8 arithmetic *)
          match get_bits (Z.to_nat mbits) r4 with
          | None => None
          | Some (b, r5) => Some (Z.lxor base (u64 (Z.shiftl b nt)), nl, nt, r5)
          end
      end
  end.

Definition read_reuse_window (base lead trail : Z) (bs : bits) : option (Z * bits) :=
  let mbits := (64 - lead - trail) mod 256 in                  (* uint8 arithmetic *)
  match get_bits (Z.to_nat mbits) bs with
  | None => None
  | Some (b, r) => Some (Z.lxor base (u64 (Z.shiftl b trail)), r)
  end.

(* xorRead: value, leading, trailing, remaining bits *)
Definition xor_read (val lead trail : Z) (bs : bits) : option (Z * Z * Z * bits) :=
  match get_bit bs with
  | None => None
  | Some (false, r) => Some (val, lead, trail, r)
  | Some (true, r) =>
      match get_bit r with
      | None => None
      | Some (false, r2) =>
          match read_reuse_window val lead trail r2 with
          | None => None
          | Some (v, r3) => Some (v, lead, trail, r3)
          end
      | Some (true, r2) => read_new_window val r2
      end
  end.

(* ============================================================================================ *)
(* Classic XOR chunk                                                                            *)
(* ============================================================================================ *)

Record xapp := mkXA { a_t : Z; a_v : Z; a_tDelta : Z; a_lead : Z; a_trail : Z }.

(* XORChunk.Appender() on an empty chunk *)
Definition xapp_init : xapp := mkXA minInt64 0 0 255 0.

Definition xor_dod_bits (dod : Z) : bits :=
  if dod =? 0 then [false]
  else if bitRange dod 14 then [true; false] ++ put_bits 14 dod
  else if bitRange dod 17 then [true; true; false] ++ put_bits 17 dod
  else if bitRange dod 20 then [true; true; true; false] ++ put_bits 20 dod
  else [true; true; true; true] ++ put_bits 64 dod.

(* xorAppender.Append(_, t, v) on a chunk holding [num] samples; None = panic (capacity) *)
Definition xor_append (num : Z) (a : xapp) (t v : Z) : option (bits * xapp) :=
  if num =? 0 then
    Some (bytes_bits (put_varint t) ++ put_bits 64 v, mkXA t v 0 (a_lead a) (a_trail a))
  else if num =? 1 then
    let tD := u64 (t - a_t a) in
    let '(vb, l, tr) := xor_write (a_v a) v (a_lead a) (a_trail a) in
    Some (bytes_bits (put_uvarint tD) ++ vb, mkXA t v tD l tr)
  else if num =? 65535 then None
  else
    let tD := u64 (t - a_t a) in
    let dod := wrap64 (tD - a_tDelta a) in
    let '(vb, l, tr) := xor_write (a_v a) v (a_lead a) (a_trail a) in
    Some (xor_dod_bits dod ++ vb, mkXA t v tD l tr).

(* appending a run of samples: emitted bits, final sample count, final appender *)
Fixpoint xor_append_all (num : Z) (a : xapp) (ss : list sample) : option (bits * Z * xapp) :=
  match ss with
  | [] => Some ([], num, a)
  | s :: r =>
      match xor_append num a (s_t s) (s_v s) with
      | None => None
      | Some (b, a') =>
          match xor_append_all (num + 1) a' r with
          | None => None
          | Some (b2, n2, a2) => Some (b ++ b2, n2, a2)
          end
      end
  end.

Record xit := mkXI { i_num : Z; i_t : Z; i_v : Z; i_tDelta : Z; i_lead : Z; i_trail : Z }.

(* XORChunk.iterator(nil) *)
Definition xit_init : xit := mkXI 0 minInt64 0 0 0 0.

(* the delta-of-delta of xorIterator.Next for samples >= 2 *)
Definition xor_read_dod (bs : bits) : option (Z * bits) :=
  let sized (sz : nat) (r : bits) :=
    match get_bits sz r with
    | None => None
    | Some (b, r') => Some (unsign_gt (Z.of_nat sz) b, r')
    end in
  match get_bit bs with
  | None => None
  | Some (false, r) => Some (0, r)
  | Some (true, r) =>
    match get_bit r with
    | None => None
    | Some (false, r) => sized 14%nat r
    | Some (true, r) =>
      match get_bit r with
      | None => None
      | Some (false, r) => sized 17%nat r
      | Some (true, r) =>
        match get_bit r with
        | None => None
        | Some (false, r) => sized 20%nat r
        | Some (true, r) =>
            match get_bits 64 r with
            | None => None
            | Some (b, r') => Some (wrap64 b, r')
            end
        end
      end
    end
  end.

(* xorIterator.Next() when numRead < numTotal and err == nil; None = it.err set *)
Definition xor_next (it : xit) (bs : bits) : option (xit * bits) :=
  if i_num it =? 0 then
    match get_varint true bs with
    | None => None
    | Some (t, r) =>
        match get_bits 64 r with
        | None => None
        | Some (v, r2) => Some (mkXI 1 t v (i_tDelta it) (i_lead it) (i_trail it), r2)
        end
    end
  else if i_num it =? 1 then
    match get_uvarint true bs with
    | None => None
    | Some (tD, r) =>
        let t := wrap64 (i_t it + wrap64 tD) in
        match xor_read (i_v it) (i_lead it) (i_trail it) r with
        | None => None
        | Some (v, l, tr, r2) => Some (mkXI 2 t v tD l tr, r2)
        end
    end
  else
    match xor_read_dod bs with
    | None => None
    | Some (dod, r) =>
        let tD := u64 (wrap64 (i_tDelta it) + dod) in
        let t := wrap64 (i_t it + wrap64 tD) in
        match xor_read (i_v it) (i_lead it) (i_trail it) r with
        | None => None
        | Some (v, l, tr, r2) => Some (mkXI (i_num it + 1) t v tD l tr, r2)
        end
    end.

(* n successive Next() calls: the samples returned, and the final state unless one failed *)
Fixpoint xor_iter (n : nat) (it : xit) (bs : bits) : list sample * option (xit * bits) :=
  match n with
  | O => ([], Some (it, bs))
  | S n' =>
      match xor_next it bs with
      | None => ([], None)
      | Some (it', bs') =>
          let '(l, r) := xor_iter n' it' bs' in
          (mkS 0 (i_t it') (i_v it') :: l, r)
      end
  end.

(* XORChunk.Appender() on a chunk with [num] samples whose bit stream (after the 2-byte header)
   is [bs]: iterate to the end and copy the iterator's state.  None = Appender returned an error *)
Definition xor_resume (num : Z) (bs : bits) : option xapp :=
  match bs with
  | [] => Some xapp_init                      (* len(c.b.stream) == chunkHeaderSize *)
  | _ => match snd (xor_iter (Z.to_nat num) xit_init bs) with
         | None => None
         | Some (it, _) => Some (mkXA (i_t it) (i_v it) (i_tDelta it) (i_lead it) (i_trail it))
         end
  end.

(* chunk bytes: big-endian uint16 sample count, then the packed bit stream *)
Definition chunk_bytes (num : Z) (hdr : list Z) (bs : bits) : list Z :=
  [num / 256; num mod 256] ++ hdr ++ pack_bits bs.

Inductive dres := DPanic | DOk (l : list sample) (err : bool).

(* expanding an iterator over chunk bytes: samples until ValNone, and whether Err() != nil *)
Definition xor_decode (bytes : list Z) : dres :=
  match bytes with
  | hi :: lo :: rest =>
      let '(l, r) := xor_iter (Z.to_nat (hi * 256 + lo)) xit_init (unpack_bytes rest) in
      DOk l (match r with None => true | Some _ => false end)
  | _ => DPanic
  end.

(* A chunk history: segments, each = how the appender was (re)obtained, then a run of appends.
   ReObj: Appender() on the same chunk object (bstream.count is kept);
   ReBytes: the chunk is rebuilt from its bytes (FromData: count = 0) and Appender() is called. *)
Inductive reopen := ReObj | ReBytes.

(* [hdr]: header bytes after the sample count (none for XOR, the ST header byte for XOR2) *)
Inductive eres := EPanic | EAppErr | EOk (num : Z) (hdr : list Z) (bs : bits).

Fixpoint xor_run (segs : list (reopen * list sample)) (num : Z) (bs : bits) : eres :=
  match segs with
  | [] => EOk num [] bs
  | (k, ss) :: r =>
      (* XORChunk.Appender() does not restore bstream.count: after FromData the next write
         starts a new byte, i.e. the stream is zero-padded to a byte boundary *)
      let bs1 := match k with ReObj => bs | ReBytes => pad8 bs end in
      match xor_resume num bs1 with
      | None => EAppErr
      | Some a =>
          match xor_append_all num a ss with
          | None => EPanic
          | Some (b, n2, _) => xor_run r n2 (bs1 ++ b)
          end
      end
  end.

Definition xor_encode (segs : list (reopen * list sample)) : eres := xor_run segs 0 [].

(* ---- iterator scripts: Next / Seek ----------------------------------------------------------- *)

Inductive act := ANext | ASeek (t : Z).

Record xcur := mkXC { cu_it : xit; cu_bits : bits; cu_err : bool }.

Definition xcur_next (total : Z) (c : xcur) : xcur * bool :=
  if cu_err c || (i_num (cu_it c) =? total) then (c, false)
  else match xor_next (cu_it c) (cu_bits c) with
       | None => (mkXC (cu_it c) (cu_bits c) true, false)
       | Some (it', bs') => (mkXC it' bs' false, true)
       end.

(* xorIterator.Seek: `for t > it.t || it.numRead == 0 { if Next() == ValNone { return ValNone } }`.
   Every successful Next increments numRead <= total, so total+1 rounds always suffice;
   None = out of fuel (never produced for fuel > total). *)
Fixpoint xcur_seek_loop (fuel : nat) (total t : Z) (c : xcur) : option (xcur * bool) :=
  if (i_t (cu_it c) <? t) || (i_num (cu_it c) =? 0) then
    match fuel with
    | O => None
    | S f => let '(c', ok) := xcur_next total c in
             if ok then xcur_seek_loop f total t c' else Some (c', false)
    end
  else Some (c, true).

Definition xcur_seek (total t : Z) (c : xcur) : option (xcur * bool) :=
  if cu_err c then Some (c, false) else xcur_seek_loop (S (Z.to_nat total)) total t c.

(* result of one action: ok flag and (AtST, At) when ok *)
Definition obs1 := option sample.

Fixpoint xor_script (total : Z) (c : xcur) (acts : list act) : option (list obs1) :=
  match acts with
  | [] => Some []
  | a :: r =>
      match (match a with ANext => Some (xcur_next total c) | ASeek t => xcur_seek total t c end) with
      | None => None
      | Some (c', ok) =>
          match xor_script total c' r with
          | None => None
          | Some l => Some ((if ok then Some (mkS 0 (i_t (cu_it c')) (i_v (cu_it c'))) else None) :: l)
          end
      end
  end.

Definition xor_run_script (bytes : list Z) (acts : list act) : option (list obs1) :=
  match bytes with
  | hi :: lo :: rest => xor_script (hi * 256 + lo) (mkXC xit_init (unpack_bytes rest) false) acts
  | _ => None
  end.

(* TEMP stubs *)
Definition xor2_encode (segs : list (reopen * list sample)) : eres := EAppErr.
Definition xor2_decode (bytes : list Z) : dres := DPanic.
Definition xor2_run_script (bytes : list Z) (acts : list act) : option (list obs1) := None.

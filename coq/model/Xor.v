(* model/Xor.v — executable model of the float chunk encodings of tsdb/chunkenc:
   the classic XOR chunk (xor.go) and XOR2 with start timestamps (xor2.go, varbit.go).
   Definitions only.  Encoders emit the logical bit sequence (control prefix ++ payload) that
   bstream.writeBit/writeByte/writeBits/writeBitsFast produce; decoders read bits, not the
   64-bit look-ahead buffer of bstreamReader (both are tied to the real code by the
   correspondence check, byte for byte).
   Conventions: timestamps are int64 values (Z in [-2^63, 2^63)), float values are their 64-bit
   patterns (Z in [0, 2^64)); every Go operation that can wrap is written with W64 / U64 (= wrap64 / u64). *)
From Coq Require Import List ZArith Bool.
From Verif Require Import lib.Int64 lib.Bits.
Import ListNotations.
Open Scope Z_scope.

(* uint64 truncation and int64 re-interpretation, written with Z.land so that they evaluate in
   time linear in the word size (lib/Int64's u64 / wrap64 use Z.modulo); proof/XorProofs.v shows
   U64 = u64 and W64 = wrap64. *)
Definition mask64 : Z := 18446744073709551615.
Definition U64 (z : Z) : Z := Z.land z mask64.
Definition W64 (z : Z) : Z :=
  let y := U64 z in if y <? 9223372036854775808 then y else y - 18446744073709551616.

Record sample := mkS { s_st : Z; s_t : Z; s_v : Z }.

Definition bytes_bits (bs : list Z) : bits := unpack_bytes bs.   (* writeByte per byte *)

(* ---- encoding/binary varints (local helpers) ------------------------------------------- *)

(* binary.PutUvarint for a uint64: `for x >= 0x80 { emit byte(x)|0x80; x >>= 7 }; emit byte(x)`.
   A uint64 needs at most 9 continuation bytes, so 9 unrollings are exact. *)
Fixpoint uvarint_bytes (fuel : nat) (x : Z) : list Z :=
  match fuel with
  | O => [x]
  | S f => if x <? 128 then [x] else (x mod 128 + 128) :: uvarint_bytes f (x / 128)
  end.
Definition put_uvarint (x : Z) : list Z := uvarint_bytes 9 x.

(* binary.PutVarint: zig-zag, then PutUvarint *)
Definition zigzag (x : Z) : Z := if x <? 0 then - 2 * x - 1 else 2 * x.
Definition put_varint (x : Z) : list Z := put_uvarint (zigzag x).

(* binary.ReadUvarint / bstreamReader.readUvarint: at most 10 bytes, 7 bits each, least
   significant group first.  [chk] = true is encoding/binary's overflow check (10th byte > 1),
   which bstreamReader.readUvarint (XOR2) does not have.  `x | b<<s` is written as an
   addition: x < 2^s always holds here, so the operands have no common bits; the final
   result is truncated to 64 bits like the Go shift. *)
Fixpoint get_uvarint_aux (chk : bool) (fuel : nat) (i s x : Z) (bs : bits) : option (Z * bits) :=
  match fuel with
  | O => None                                              (* errOverflow / ErrUnexpectedEOF *)
  | S f => match get_bits 8 bs with
           | None => None                                  (* io.EOF *)
           | Some (b, r) =>
               if b <? 128 then
                 if chk && (i =? 9) && (1 <? b) then None   (* errOverflow *)
                 else Some (U64 (x + b * 2 ^ s), r)
               else get_uvarint_aux chk f (i + 1) (s + 7) (x + (b - 128) * 2 ^ s) r
           end
  end.
Definition get_uvarint (chk : bool) (bs : bits) : option (Z * bits) := get_uvarint_aux chk 10 0 0 0 bs.

Definition unzigzag (ux : Z) : Z := if Z.even ux then ux / 2 else - (ux / 2) - 1.
Definition get_varint (chk : bool) (bs : bits) : option (Z * bits) :=
  match get_uvarint chk bs with
  | None => None
  | Some (ux, r) => Some (unzigzag ux, r)
  end.

(* ---- shared pieces ------------------------------------------------------------------------ *)

(* bitRange(x, nbits): -(2^(nbits-1) - 1) <= x <= 2^(nbits-1) *)
Definition bitRange (x n : Z) : bool := (- (2 ^ (n - 1) - 1) <=? x) && (x <=? 2 ^ (n - 1)).

(* sign restoration used by xorIterator.Next and readVarbitInt:
   `if bits > 1<<(sz-1) { bits -= 1<<sz }` (uint64 arithmetic, then int64) *)
Definition unsign_gt (sz b : Z) : Z := if 2 ^ (sz - 1) <? b then W64 (U64 (b - 2 ^ sz)) else b.

Definition clamp_lead (l : Z) : Z := if 32 <=? l then 31 else l.

(* xorWrite: returns the emitted bits and the (possibly updated) leading/trailing window *)
Definition xor_write (prev v lead trail : Z) : bits * Z * Z :=
  let delta := Z.lxor v prev in
  if delta =? 0 then ([false], lead, trail) else
  let nl := clamp_lead (lz64 delta) in
  let nt := tz64 delta in
  if negb (lead =? 255) && (lead <=? nl) && (trail <=? nt) then
    ([true; false] ++ put_bits (Z.to_nat (64 - lead - trail)) (Z.shiftr delta trail), lead, trail)
  else
    let sig := 64 - nl - nt in
    ([true; true] ++ put_bits 5 nl ++ put_bits 6 sig ++ put_bits (Z.to_nat sig) (Z.shiftr delta nt), nl, nt).

(* the `11` branch body shared by xorRead and XOR2's decodeNewLeadingTrailing:
   5 bits leading, 6 bits sigbits (0 means 64), then the significant bits *)
Definition read_new_window (base : Z) (bs : bits) : option (Z * Z * Z * bits) :=
  match get_bits 5 bs with
  | None => None
  | Some (nl, r3) =>
      match get_bits 6 r3 with
      | None => None
      | Some (mb0, r4) =>
          let mbits := if mb0 =? 0 then 64 else mb0 in
          let nt := (64 - nl - mbits) mod 256 in              (* uint8 arithmetic *)
          match get_bits (Z.to_nat mbits) r4 with
          | None => None
          | Some (b, r5) => Some (Z.lxor base (U64 (Z.shiftl b nt)), nl, nt, r5)
          end
      end
  end.

Definition read_reuse_window (base lead trail : Z) (bs : bits) : option (Z * bits) :=
  let mbits := (64 - lead - trail) mod 256 in                  (* uint8 arithmetic *)
  match get_bits (Z.to_nat mbits) bs with
  | None => None
  | Some (b, r) => Some (Z.lxor base (U64 (Z.shiftl b trail)), r)
  end.

(* xorRead: value, leading, trailing, remaining bits *)
Definition xor_read (val lead trail : Z) (bs : bits) : option (Z * Z * Z * bits) :=
  match get_bit bs with
  | None => None
  | Some (false, r) => Some (val, lead, trail, r)
  | Some (true, r) =>
      match get_bit r with
      | None => None
      | Some (false, r2) =>
          match read_reuse_window val lead trail r2 with
          | None => None
          | Some (v, r3) => Some (v, lead, trail, r3)
          end
      | Some (true, r2) => read_new_window val r2
      end
  end.

(* ============================================================================================ *)
(* Classic XOR chunk                                                                            *)
(* ============================================================================================ *)

Record xapp := mkXA { a_t : Z; a_v : Z; a_tDelta : Z; a_lead : Z; a_trail : Z }.

(* XORChunk.Appender() on an empty chunk *)
Definition xapp_init : xapp := mkXA minInt64 0 0 255 0.

Definition xor_dod_bits (dod : Z) : bits :=
  if dod =? 0 then [false]
  else if bitRange dod 14 then [true; false] ++ put_bits 14 dod
  else if bitRange dod 17 then [true; true; false] ++ put_bits 17 dod
  else if bitRange dod 20 then [true; true; true; false] ++ put_bits 20 dod
  else [true; true; true; true] ++ put_bits 64 dod.

(* xorAppender.Append(_, t, v) on a chunk holding [num] samples; None = panic (capacity) *)
Definition xor_append (num : Z) (a : xapp) (t v : Z) : option (bits * xapp) :=
  if num =? 0 then
    Some (bytes_bits (put_varint t) ++ put_bits 64 v, mkXA t v 0 (a_lead a) (a_trail a))
  else if num =? 1 then
    let tD := U64 (t - a_t a) in
    let '(vb, l, tr) := xor_write (a_v a) v (a_lead a) (a_trail a) in
    Some (bytes_bits (put_uvarint tD) ++ vb, mkXA t v tD l tr)
  else if num =? 65535 then None
  else
    let tD := U64 (t - a_t a) in
    let dod := W64 (tD - a_tDelta a) in
    let '(vb, l, tr) := xor_write (a_v a) v (a_lead a) (a_trail a) in
    Some (xor_dod_bits dod ++ vb, mkXA t v tD l tr).

(* appending a run of samples: emitted bits, final sample count, final appender *)
Fixpoint xor_append_all (num : Z) (a : xapp) (ss : list sample) : option (bits * Z * xapp) :=
  match ss with
  | [] => Some ([], num, a)
  | s :: r =>
      match xor_append num a (s_t s) (s_v s) with
      | None => None
      | Some (b, a') =>
          match xor_append_all (num + 1) a' r with
          | None => None
          | Some (b2, n2, a2) => Some (b ++ b2, n2, a2)
          end
      end
  end.

Record xit := mkXI { i_num : Z; i_t : Z; i_v : Z; i_tDelta : Z; i_lead : Z; i_trail : Z }.

(* XORChunk.iterator(nil) *)
Definition xit_init : xit := mkXI 0 minInt64 0 0 0 0.

(* the delta-of-delta of xorIterator.Next for samples >= 2 *)
Definition xor_read_dod (bs : bits) : option (Z * bits) :=
  let sized (sz : nat) (r : bits) :=
    match get_bits sz r with
    | None => None
    | Some (b, r') => Some (unsign_gt (Z.of_nat sz) b, r')
    end in
  match get_bit bs with
  | None => None
  | Some (false, r) => Some (0, r)
  | Some (true, r) =>
    match get_bit r with
    | None => None
    | Some (false, r) => sized 14%nat r
    | Some (true, r) =>
      match get_bit r with
      | None => None
      | Some (false, r) => sized 17%nat r
      | Some (true, r) =>
        match get_bit r with
        | None => None
        | Some (false, r) => sized 20%nat r
        | Some (true, r) =>
            match get_bits 64 r with
            | None => None
            | Some (b, r') => Some (W64 b, r')
            end
        end
      end
    end
  end.

(* xorIterator.Next() when numRead < numTotal and err == nil; None = it.err set *)
Definition xor_next (it : xit) (bs : bits) : option (xit * bits) :=
  if i_num it =? 0 then
    match get_varint true bs with
    | None => None
    | Some (t, r) =>
        match get_bits 64 r with
        | None => None
        | Some (v, r2) => Some (mkXI 1 t v (i_tDelta it) (i_lead it) (i_trail it), r2)
        end
    end
  else if i_num it =? 1 then
    match get_uvarint true bs with
    | None => None
    | Some (tD, r) =>
        let t := W64 (i_t it + W64 tD) in
        match xor_read (i_v it) (i_lead it) (i_trail it) r with
        | None => None
        | Some (v, l, tr, r2) => Some (mkXI 2 t v tD l tr, r2)
        end
    end
  else
    match xor_read_dod bs with
    | None => None
    | Some (dod, r) =>
        let tD := U64 (W64 (i_tDelta it) + dod) in
        let t := W64 (i_t it + W64 tD) in
        match xor_read (i_v it) (i_lead it) (i_trail it) r with
        | None => None
        | Some (v, l, tr, r2) => Some (mkXI (i_num it + 1) t v tD l tr, r2)
        end
    end.

(* n successive Next() calls: the samples returned, and the final state unless one failed *)
Fixpoint xor_iter (n : nat) (it : xit) (bs : bits) : list sample * option (xit * bits) :=
  match n with
  | O => ([], Some (it, bs))
  | S n' =>
      match xor_next it bs with
      | None => ([], None)
      | Some (it', bs') =>
          let '(l, r) := xor_iter n' it' bs' in
          (mkS 0 (i_t it') (i_v it') :: l, r)
      end
  end.

(* XORChunk.Appender() on a chunk with [num] samples whose bit stream (after the 2-byte header)
   is [bs]: iterate to the end and copy the iterator's state.  None = Appender returned an error *)
Definition xor_resume (num : Z) (bs : bits) : option xapp :=
  match bs with
  | [] => Some xapp_init                      (* len(c.b.stream) == chunkHeaderSize *)
  | _ => match snd (xor_iter (Z.to_nat num) xit_init bs) with
         | None => None
         | Some (it, _) => Some (mkXA (i_t it) (i_v it) (i_tDelta it) (i_lead it) (i_trail it))
         end
  end.

(* chunk bytes: big-endian uint16 sample count, then the packed bit stream *)
Definition chunk_bytes (num : Z) (hdr : list Z) (bs : bits) : list Z :=
  [num / 256; num mod 256] ++ hdr ++ pack_bits bs.

Inductive dres := DPanic | DOk (l : list sample) (err : bool).

(* expanding an iterator over chunk bytes: samples until ValNone, and whether Err() != nil *)
Definition xor_decode (bytes : list Z) : dres :=
  match bytes with
  | hi :: lo :: rest =>
      let '(l, r) := xor_iter (Z.to_nat (hi * 256 + lo)) xit_init (unpack_bytes rest) in
      DOk l (match r with None => true | Some _ => false end)
  | _ => DPanic
  end.

(* A chunk history: segments, each = how the appender was (re)obtained, then a run of appends.
   ReObj: Appender() on the same chunk object (bstream.count is kept);
   ReBytes: the chunk is rebuilt from its bytes (FromData: count = 0) and Appender() is called. *)
Inductive reopen := ReObj | ReBytes.

(* [hdr]: header bytes after the sample count (none for XOR, the ST header byte for XOR2) *)
Inductive eres := EPanic | EAppErr | EOk (num : Z) (hdr : list Z) (bs : bits).

(* [fixed] = true is the code after "fix: chunkenc: XORChunk.Appender does not restore the write
   position on a chunk reloaded from bytes": Appender() sets bstream.count from the iterator's
   reader (c.b.count = it.br.valid), so in terms of the logical bit stream a reload changes
   nothing.  [fixed] = false is the code before the fix: FromData leaves count = 0, Appender()
   did not restore it, the next write started a new byte, i.e. the stream was zero-padded to a
   byte boundary and the iterator later decoded the padding as sample data. *)
Fixpoint xor_run_gen (fixed : bool) (segs : list (reopen * list sample)) (num : Z) (bs : bits) : eres :=
  match segs with
  | [] => EOk num [] bs
  | (k, ss) :: r =>
      let bs1 := match k with
                 | ReObj => bs
                 | ReBytes => if fixed then bs else pad8 bs
                 end in
      match xor_resume num bs1 with
      | None => EAppErr
      | Some a =>
          match xor_append_all num a ss with
          | None => EPanic
          | Some (b, n2, _) => xor_run_gen fixed r n2 (bs1 ++ b)
          end
      end
  end.

Definition xor_run := xor_run_gen true.
Definition xor_encode (segs : list (reopen * list sample)) : eres := xor_run segs 0 [].
Definition xor_encode_old (segs : list (reopen * list sample)) : eres := xor_run_gen false segs 0 [].

(* ---- iterator scripts: Next / Seek ----------------------------------------------------------- *)

Inductive act := ANext | ASeek (t : Z).

Record xcur := mkXC { cu_it : xit; cu_bits : bits; cu_err : bool }.

Definition xcur_next (total : Z) (c : xcur) : xcur * bool :=
  if cu_err c || (i_num (cu_it c) =? total) then (c, false)
  else match xor_next (cu_it c) (cu_bits c) with
       | None => (mkXC (cu_it c) (cu_bits c) true, false)
       | Some (it', bs') => (mkXC it' bs' false, true)
       end.

(* xorIterator.Seek: `for t > it.t || it.numRead == 0 { if Next() == ValNone { return ValNone } }`.
   Every successful Next increments numRead <= total, so total+1 rounds always suffice;
   None = out of fuel (never produced for fuel > total). *)
Fixpoint xcur_seek_loop (fuel : nat) (total t : Z) (c : xcur) : option (xcur * bool) :=
  if (i_t (cu_it c) <? t) || (i_num (cu_it c) =? 0) then
    match fuel with
    | O => None
    | S f => let '(c', ok) := xcur_next total c in
             if ok then xcur_seek_loop f total t c' else Some (c', false)
    end
  else Some (c, true).

Definition xcur_seek (total t : Z) (c : xcur) : option (xcur * bool) :=
  if cu_err c then Some (c, false) else xcur_seek_loop (S (Z.to_nat total)) total t c.

(* result of one action: ok flag and (AtST, At) when ok *)
Definition obs1 := option sample.

Fixpoint xor_script (total : Z) (c : xcur) (acts : list act) : option (list obs1) :=
  match acts with
  | [] => Some []
  | a :: r =>
      match (match a with ANext => Some (xcur_next total c) | ASeek t => xcur_seek total t c end) with
      | None => None
      | Some (c', ok) =>
          match xor_script total c' r with
          | None => None
          | Some l => Some ((if ok then Some (mkS 0 (i_t (cu_it c')) (i_v (cu_it c'))) else None) :: l)
          end
      end
  end.

Definition xor_run_script (bytes : list Z) (acts : list act) : option (list obs1) :=
  match bytes with
  | hi :: lo :: rest => xor_script (hi * 256 + lo) (mkXC xit_init (unpack_bytes rest) false) acts
  | _ => None
  end.

(* ============================================================================================ *)
(* XOR2 chunk with start timestamps (xor2.go, varbit.go)                                        *)
(* ============================================================================================ *)

Definition staleNaN : Z := 9218868437227405314.            (* 0x7ff0000000000002 *)
Definition is_stale (v : Z) : bool := v =? staleNaN.       (* value.IsStaleNaN *)

(* putVarbitInt / putVarbitIntFast (same bits) *)
Definition put_varbit (val : Z) : bits :=
  if val =? 0 then [false]
  else if bitRange val 3 then [true; false] ++ put_bits 3 val
  else if bitRange val 6 then [true; true; false] ++ put_bits 6 val
  else if bitRange val 9 then [true; true; true; false] ++ put_bits 9 val
  else if bitRange val 12 then [true; true; true; true; false] ++ put_bits 12 val
  else if bitRange val 18 then [true; true; true; true; true; false] ++ put_bits 18 val
  else if bitRange val 25 then [true; true; true; true; true; true; false] ++ put_bits 25 val
  else if bitRange val 56 then [true; true; true; true; true; true; true; false] ++ put_bits 56 val
  else [true; true; true; true; true; true; true; true] ++ put_bits 64 val.

(* number of leading one bits, at most [n] (the loop of readVarbitInt / readXOR2Control);
   a zero bit ends the prefix and is consumed *)
Fixpoint read_ones (n : nat) (bs : bits) : option (Z * bits) :=
  match n with
  | O => Some (0, bs)
  | S n' => match bs with
            | [] => None
            | false :: r => Some (0, r)
            | true :: r => match read_ones n' r with
                           | None => None
                           | Some (k, r') => Some (k + 1, r')
                           end
            end
  end.

(* readVarbitInt *)
Definition get_varbit (bs : bits) : option (Z * bits) :=
  match read_ones 8 bs with
  | None => None
  | Some (k, r) =>
      if k =? 0 then Some (0, r)
      else if k =? 8 then
        match get_bits 64 r with
        | None => None
        | Some (b, r') => Some (W64 b, r')
        end
      else
        let sz := if k =? 1 then 3 else if k =? 2 then 6 else if k =? 3 then 9 else if k =? 4 then 12
                  else if k =? 5 then 18 else if k =? 6 then 25 else 56 in
        match get_bits (Z.to_nat sz) r with
        | None => None
        | Some (b, r') => Some (unsign_gt sz b, r')
        end
  end.

Record x2app := mkA2 {
  b_st : Z; b_t : Z; b_v : Z; b_tDelta : Z; b_stDiff : Z; b_lead : Z; b_trail : Z;
  b_num : Z; b_fsco : Z; b_fsk : bool }.

(* XOR2Chunk.Appender() on an empty chunk *)
Definition x2app_init : x2app := mkA2 0 minInt64 0 0 0 255 0 0 0 false.

(* the leading/trailing window choice shared by writeVDelta and writeVDeltaKnownNonZero:
   (reuse?, leading, trailing) for a non-zero delta *)
Definition x2_window (delta lead trail : Z) : bool * Z * Z :=
  let nl := clamp_lead (lz64 delta) in
  let nt := tz64 delta in
  if negb (lead =? 255) && (lead <=? nl) && (trail <=? nt) then (true, lead, trail) else (false, nl, nt).

Definition x2_window_bits (reuse : bool) (delta l t : Z) : bits :=
  if reuse then put_bits (Z.to_nat (64 - l - t)) (Z.shiftr delta t)
  else put_bits 5 l ++ put_bits 6 (64 - l - t) ++ put_bits (Z.to_nat (64 - l - t)) (Z.shiftr delta t).

(* writeVDelta (value encoding of the dod != 0 cases and of sample 1) *)
Definition x2_write_vdelta (base v lead trail : Z) : bits * Z * Z :=
  if is_stale v then ([true; true; true], lead, trail) else
  let delta := Z.lxor v base in
  if delta =? 0 then ([false], lead, trail) else
  let '(reuse, l, t) := x2_window delta lead trail in
  ((if reuse then [true; false] else [true; true; false]) ++ x2_window_bits reuse delta l t, l, t).

(* writeVDeltaKnownNonZero *)
Definition x2_write_vdelta_nz (delta lead trail : Z) : bits * Z * Z :=
  let '(reuse, l, t) := x2_window delta lead trail in
  ((if reuse then [false] else [true]) ++ x2_window_bits reuse delta l t, l, t).

(* encodeJoint(dod, v) *)
Definition x2_encode_joint (dod base v lead trail : Z) : bits * Z * Z :=
  if dod =? 0 then
    if is_stale v then ([true; true; true; true; true], lead, trail)
    else
      let vbits := Z.lxor v base in
      if vbits =? 0 then ([false], lead, trail)
      else let '(b, l, t) := x2_write_vdelta_nz vbits lead trail in ([true; false] ++ b, l, t)
  else
    let tb := if (- 4096 <=? dod) && (dod <=? 4095) then [true; true; false] ++ put_bits 13 dod
              else if (- 524288 <=? dod) && (dod <=? 524287) then [true; true; true; false] ++ put_bits 20 dod
              else [true; true; true; true; false] ++ put_bits 64 dod in
    if v =? base then (tb ++ [false], lead, trail)
    else let '(b, l, t) := x2_write_vdelta base v lead trail in (tb ++ b, l, t).

Definition set_fsco_hdr (hdr n : Z) : Z := if n <=? 127 then Z.lor hdr n else hdr.

(* xor2Appender.Append(st, t, v); the chunk's ST header byte is threaded through.
   None = panic (capacity).  The three code paths for samples >= 2 (no-new-ST fast path,
   active-ST fast path, slow path) all emit encodeJoint's bits for timestamp and value — their
   inlined special cases are the corresponding branches of encodeJoint — and differ in the
   ST part, which is what is spelled out below. *)
Definition x2_append (a : x2app) (hdr : Z) (st t v : Z) : option (bits * x2app * Z) :=
  let newv := if is_stale v then b_v a else v in
  if b_num a =? 0 then
    let stb := if st =? 0 then [] else bytes_bits (put_varint (W64 (t - st))) in
    Some (bytes_bits (put_varint t) ++ put_bits 64 v ++ stb,
          mkA2 st t newv 0 0 (b_lead a) (b_trail a) 1 (b_fsco a) (if st =? 0 then b_fsk a else true),
          if st =? 0 then hdr else 128)
  else if b_num a =? 1 then
    let tD := U64 (t - b_t a) in
    let '(vb, l, tr) := x2_write_vdelta (b_v a) v (b_lead a) (b_trail a) in
    if st =? b_st a then
      Some (bytes_bits (put_uvarint tD) ++ vb,
            mkA2 st t newv tD 0 l tr 2 (b_fsco a) (b_fsk a), hdr)
    else
      let sd := W64 (b_t a - st) in
      Some (bytes_bits (put_uvarint tD) ++ vb ++ put_varbit sd,
            mkA2 st t newv tD sd l tr 2 1 (b_fsk a), set_fsco_hdr hdr 1)
  else if b_num a =? 65535 then None
  else
    let tD := U64 (t - b_t a) in
    let dod := W64 (tD - b_tDelta a) in
    let '(jb, l, tr) := x2_encode_joint dod (b_v a) v (b_lead a) (b_trail a) in
    if (b_fsco a =? 0) && (st =? b_st a) && negb (b_num a =? 127) then
      (* no new ST data *)
      Some (jb, mkA2 (b_st a) t newv tD (b_stDiff a) l tr (b_num a + 1) (b_fsco a) (b_fsk a), hdr)
    else if 0 <? b_fsco a then
      (* per-sample ST delta *)
      let nsd := W64 (b_t a - st) in
      let dsd := W64 (nsd - b_stDiff a) in
      Some (jb ++ put_varbit dsd,
            mkA2 st t newv tD nsd l tr (b_num a + 1) (b_fsco a) (b_fsk a), hdr)
    else
      (* first ST change (or forced at sample 127): absolute prevT - st *)
      let sd := W64 (b_t a - st) in
      Some (jb ++ put_varbit sd,
            mkA2 st t newv tD sd l tr (b_num a + 1) (b_num a) (b_fsk a), set_fsco_hdr hdr (b_num a)).

Fixpoint x2_append_all (a : x2app) (hdr : Z) (ss : list sample) : option (bits * x2app * Z) :=
  match ss with
  | [] => Some ([], a, hdr)
  | s :: r =>
      match x2_append a hdr (s_st s) (s_t s) (s_v s) with
      | None => None
      | Some (b, a', hdr') =>
          match x2_append_all a' hdr' r with
          | None => None
          | Some (b2, a2, hdr2) => Some (b ++ b2, a2, hdr2)
          end
      end
  end.

Record x2it := mkI2 {
  j_num : Z; j_fsk : bool; j_fsco : Z; j_lead : Z; j_trail : Z;
  j_st : Z; j_t : Z; j_v : Z; j_tDelta : Z; j_stDiff : Z; j_base : Z }.

(* xor2Iterator.Reset *)
Definition x2it_init (hdr : Z) : x2it :=
  mkI2 0 (128 <=? hdr) (hdr mod 128) 0 0 0 0 0 0 0 0.

(* decodeNewLeadingTrailing / the reuse branch: new (val = baseline, leading, trailing) *)
Definition x2_read_new (it : x2it) (bs : bits) : option (Z * Z * Z * bits) := read_new_window (j_base it) bs.
Definition x2_read_reuse (it : x2it) (bs : bits) : option (Z * Z * Z * bits) :=
  match read_reuse_window (j_base it) (j_lead it) (j_trail it) bs with
  | None => None
  | Some (v, r) => Some (v, j_lead it, j_trail it, r)
  end.

(* decodeValue: (val, baseline, leading, trailing) *)
Definition x2_decode_value (it : x2it) (bs : bits) : option (Z * Z * Z * Z * bits) :=
  let both (x : option (Z * Z * Z * bits)) :=
    match x with None => None | Some (v, l, t, r) => Some (v, v, l, t, r) end in
  match get_bit bs with
  | None => None
  | Some (false, r) => Some (j_base it, j_base it, j_lead it, j_trail it, r)
  | Some (true, r) =>
      match get_bit r with
      | None => None
      | Some (false, r2) => both (x2_read_reuse it r2)
      | Some (true, r2) =>
          match get_bit r2 with
          | None => None
          | Some (false, r3) => both (x2_read_new it r3)
          | Some (true, r3) => Some (staleNaN, j_base it, j_lead it, j_trail it, r3)
          end
      end
  end.

(* decodeValueKnownNonZero *)
Definition x2_decode_value_nz (it : x2it) (bs : bits) : option (Z * Z * Z * Z * bits) :=
  let both (x : option (Z * Z * Z * bits)) :=
    match x with None => None | Some (v, l, t, r) => Some (v, v, l, t, r) end in
  match get_bit bs with
  | None => None
  | Some (false, r) => both (x2_read_reuse it r)
  | Some (true, r) => both (x2_read_new it r)
  end.

(* readDod(w): new (tDelta, t) *)
Definition x2_read_dod (w : Z) (it : x2it) (bs : bits) : option (Z * Z * bits) :=
  match get_bits (Z.to_nat w) bs with
  | None => None
  | Some (b, r) =>
      let b' := if (w <? 64) && (2 ^ (w - 1) <=? b) then U64 (b - 2 ^ w) else b in
      let tD := U64 (W64 (j_tDelta it) + W64 b') in
      Some (tD, W64 (j_t it + W64 tD), r)
  end.

(* the optional per-sample ST data after the joint encoding of samples >= 2 *)
Definition x2_read_st (it : x2it) (prevT : Z) (bs : bits) : option (Z * Z * bits) :=
  if (0 <? j_fsco it) && (j_fsco it <=? j_num it) then
    match get_varbit bs with
    | None => None
    | Some (sdod, r) =>
        let sd := if j_num it =? j_fsco it then sdod else W64 (j_stDiff it + sdod) in
        Some (W64 (prevT - sd), sd, r)
    end
  else Some (j_st it, j_stDiff it, bs).

(* the joint timestamp/value part of samples >= 2: readXOR2Control and the six cases.
   Result: tDelta, t, val, baselineV, leading, trailing *)
Definition x2_read_joint (it : x2it) (bs : bits) : option (Z * Z * Z * Z * Z * Z * bits) :=
  match read_ones 5 bs with                     (* readXOR2Control *)
  | None => None
  | Some (ctrl, r) =>
      if ctrl =? 0 then
        Some (j_tDelta it, W64 (j_t it + W64 (j_tDelta it)), j_base it, j_base it, j_lead it, j_trail it, r)
      else if ctrl =? 1 then
        match x2_decode_value_nz it r with
        | None => None
        | Some (v, base, l, tr, r2) =>
            Some (j_tDelta it, W64 (j_t it + W64 (j_tDelta it)), v, base, l, tr, r2)
        end
      else if ctrl =? 5 then
        Some (j_tDelta it, W64 (j_t it + W64 (j_tDelta it)), staleNaN, j_base it, j_lead it, j_trail it, r)
      else
        let w := if ctrl =? 2 then 13 else if ctrl =? 3 then 20 else 64 in
        match x2_read_dod w it r with
        | None => None
        | Some (tD, t, r2) =>
            match x2_decode_value it r2 with
            | None => None
            | Some (v, base, l, tr, r3) => Some (tD, t, v, base, l, tr, r3)
            end
        end
  end.

(* xor2Iterator.Next() when numRead < numTotal and err == nil; None = it.err set *)
Definition x2_next (it : x2it) (bs : bits) : option (x2it * bits) :=
  if j_num it =? 0 then
    match get_varint false bs with
    | None => None
    | Some (t, r) =>
        match get_bits 64 r with
        | None => None
        | Some (v, r2) =>
            let base := if is_stale v then j_base it else v in
            if j_fsk it then
              match get_varint false r2 with
              | None => None
              | Some (sd, r3) =>
                  Some (mkI2 1 (j_fsk it) (j_fsco it) (j_lead it) (j_trail it) (W64 (t - sd)) t v
                             (j_tDelta it) (j_stDiff it) base, r3)
              end
            else Some (mkI2 1 (j_fsk it) (j_fsco it) (j_lead it) (j_trail it) (j_st it) t v
                            (j_tDelta it) (j_stDiff it) base, r2)
        end
    end
  else if j_num it =? 1 then
    match get_uvarint false bs with
    | None => None
    | Some (tD, r) =>
        let prevT := j_t it in
        let t := W64 (j_t it + W64 tD) in
        match x2_decode_value it r with
        | None => None
        | Some (v, base, l, tr, r2) =>
            if j_fsco it =? 1 then
              match get_varbit r2 with
              | None => None
              | Some (sdod, r3) =>
                  Some (mkI2 2 (j_fsk it) (j_fsco it) l tr (W64 (prevT - sdod)) t v tD sdod base, r3)
              end
            else Some (mkI2 2 (j_fsk it) (j_fsco it) l tr (j_st it) t v tD (j_stDiff it) base, r2)
        end
    end
  else
    let prevT := j_t it in
    match x2_read_joint it bs with
    | None => None
    | Some (tD, t, v, base, l, tr, r2) =>
        match x2_read_st it prevT r2 with
        | None => None
        | Some (st, sd, r3) =>
            Some (mkI2 (j_num it + 1) (j_fsk it) (j_fsco it) l tr st t v tD sd base, r3)
        end
    end.

Fixpoint x2_iter (n : nat) (it : x2it) (bs : bits) : list sample * option (x2it * bits) :=
  match n with
  | O => ([], Some (it, bs))
  | S n' =>
      match x2_next it bs with
      | None => ([], None)
      | Some (it', bs') =>
          let '(l, r) := x2_iter n' it' bs' in
          (mkS (j_st it') (j_t it') (j_v it') :: l, r)
      end
  end.

(* XOR2Chunk.Appender(): iterate to the end, copy the iterator's state (the baseline value, not
   the last value); the write position is restored from the reader (c.b.count = it.br.valid),
   so in terms of the logical bit stream nothing changes *)
Definition x2_resume (num hdr : Z) (bs : bits) : option x2app :=
  match bs with
  | [] => Some x2app_init
  | _ => match snd (x2_iter (Z.to_nat num) (x2it_init hdr) bs) with
         | None => None
         | Some (it, _) =>
             Some (mkA2 (j_st it) (j_t it) (j_base it) (j_tDelta it) (j_stDiff it) (j_lead it) (j_trail it)
                        num (j_fsco it) (j_fsk it))
         end
  end.

Fixpoint x2_run (segs : list (reopen * list sample)) (num hdr : Z) (bs : bits) : eres :=
  match segs with
  | [] => EOk num [hdr] bs
  | (_, ss) :: r =>
      match x2_resume num hdr bs with
      | None => EAppErr
      | Some a =>
          match x2_append_all a hdr ss with
          | None => EPanic
          | Some (b, a2, hdr2) => x2_run r (num + Z.of_nat (length ss)) hdr2 (bs ++ b)
          end
      end
  end.

Definition xor2_encode (segs : list (reopen * list sample)) : eres := x2_run segs 0 0 [].

Definition xor2_decode (bytes : list Z) : dres :=
  match bytes with
  | hi :: lo :: hdr :: rest =>
      let '(l, r) := x2_iter (Z.to_nat (hi * 256 + lo)) (x2it_init hdr) (unpack_bytes rest) in
      DOk l (match r with None => true | Some _ => false end)
  | _ => DPanic
  end.

Record x2cur := mkC2 { cv_it : x2it; cv_bits : bits; cv_err : bool }.

Definition x2cur_next (total : Z) (c : x2cur) : x2cur * bool :=
  if cv_err c || (j_num (cv_it c) =? total) then (c, false)
  else match x2_next (cv_it c) (cv_bits c) with
       | None => (mkC2 (cv_it c) (cv_bits c) true, false)
       | Some (it', bs') => (mkC2 it' bs' false, true)
       end.

Fixpoint x2cur_seek_loop (fuel : nat) (total t : Z) (c : x2cur) : option (x2cur * bool) :=
  if (j_t (cv_it c) <? t) || (j_num (cv_it c) =? 0) then
    match fuel with
    | O => None
    | S f => let '(c', ok) := x2cur_next total c in
             if ok then x2cur_seek_loop f total t c' else Some (c', false)
    end
  else Some (c, true).

Definition x2cur_seek (total t : Z) (c : x2cur) : option (x2cur * bool) :=
  if cv_err c then Some (c, false) else x2cur_seek_loop (S (Z.to_nat total)) total t c.

Fixpoint x2_script (total : Z) (c : x2cur) (acts : list act) : option (list obs1) :=
  match acts with
  | [] => Some []
  | a :: r =>
      match (match a with ANext => Some (x2cur_next total c) | ASeek t => x2cur_seek total t c end) with
      | None => None
      | Some (c', ok) =>
          match x2_script total c' r with
          | None => None
          | Some l =>
              Some ((if ok then Some (mkS (j_st (cv_it c')) (j_t (cv_it c')) (j_v (cv_it c'))) else None) :: l)
          end
      end
  end.

Definition xor2_run_script (bytes : list Z) (acts : list act) : option (list obs1) :=
  match bytes with
  | hi :: lo :: hdr :: rest => x2_script (hi * 256 + lo) (mkC2 (x2it_init hdr) (unpack_bytes rest) false) acts
  | _ => None
  end.

(* ============================================================================================ *)
(* Specification of an iterator as a cursor over the appended samples (used by holds and by the   *)
(* Seek theorems; it does not refer to any encoding)                                             *)
(* ============================================================================================ *)

(* abstract cursor semantics of Next/Seek over the appended samples: [cur] is the sample the
   iterator stands on, [rest] what is still ahead.  Seek t stays put if the current sample
   already has timestamp >= t, otherwise advances to the first sample ahead with
   timestamp >= t (ValNone, standing on the last sample, if there is none). *)
Fixpoint seek_rest (t : Z) (cur : option sample) (rest : list sample) : option sample * list sample * bool :=
  match rest with
  | [] => (cur, [], false)
  | x :: r => if t <=? s_t x then (Some x, r, true) else seek_rest t (Some x) r
  end.

Fixpoint spec_script (cur : option sample) (rest : list sample) (acts : list act) : list obs1 :=
  match acts with
  | [] => []
  | ANext :: r =>
      match rest with
      | [] => None :: spec_script cur rest r
      | x :: rest' => Some x :: spec_script (Some x) rest' r
      end
  | ASeek t :: r =>
      match cur with
      | Some c0 => if t <=? s_t c0 then Some c0 :: spec_script cur rest r
                   else let '(cur', rest', ok) := seek_rest t cur rest in
                        (if ok then cur' else None) :: spec_script cur' rest' r
      | None => let '(cur', rest', ok) := seek_rest t cur rest in
                (if ok then cur' else None) :: spec_script cur' rest' r
      end
  end.

